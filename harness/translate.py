"""Source translator: a restricted subset of Python (the numerical kernels of /repo) -> carrier-polymorphic Lean 4.

Used by the property checks to REGENERATE, on every run and from the source text of the `taurex` package that is being
checked, the Lean definitions `TaurexModel/Gen/Src<Cxx>.lean`.  `Props/<Cxx>Src.lean` then proves, for every carrier, that
each regenerated definition is equal to the hand-written model function the property theorems are about ("source tie").
A change of the kernel's source text changes the regenerated definition; unless the new text is still provably the same
function, the tie theorem no longer checks, which the check reports as a broken proof obligation (and then searches for a
failing input).  A construct outside the subset is reported the same way ("source no longer translatable").

Subset (everything else raises Untranslatable):
  * one `def` (module level or method), positional parameters; each parameter has a declared kind:
      's'    scalar of the carrier α           'nat'  natural number (index / count)
      'elem' array that the function treats element-wise: translated as ONE element (scalar α)
      'arr'  1-D array, modelled as `Nat → α`   'arr2' 2-D array `Nat → Nat → α`
      'skip' parameter that does not occur in the translated text (must not be referenced)
  * a "lifted index" (e.g. the wavenumber index `wn`): `for wn in range(...)` disappears and every subscript by `wn` is
    dropped — the kernel is point-wise in that axis and the model describes one point;
  * statements: docstring, `x = e`, `x += e` (and -=, *=, /=), `a[i] = e` / `a[i] += e` on arrays, `return e`,
    `if/elif/else`, `for k in range(a[, b])` (becomes a `List.foldl` over `List.range'` whose state is the tuple of
    variables assigned in the body), the numba idioms `N = x.shape[0]`, `out = np.zeros_like(x)`, `np.empty_like(x)`
    (ignored: they only allocate), and element-wise loops `for n in range(N): out[n] = f(a[n], …)` over 'elem' arrays;
  * expressions: + - * /, unary -, `x**k` for a literal k in 2..6 (repeated product, left associated), `10**x` (pow10),
    comparisons, and/or/not, conditional expressions, integer literals (as `OfNat`), calls of exp/log/log10/sqrt
    (np./math./bare), abs, max/min/np.maximum/np.minimum of two arguments, `len(a)` for a declared length, calls of
    other functions translated in the same file, and declared externals (become function parameters);
  * non-integral float literals and module-level constants become explicit parameters (their current values are
    recorded in the evidence), `self.x` attributes become parameters as declared.
  * `dialect='np'` (harness/translate_np.py, read its docstring): whole-array numpy expressions on 'arr' values
    (element-wise arithmetic with broadcasting scalars, `a.min()`, `sum`/`np.sum`, `np.zeros`, `a[...] = e`), procedures
    called for their effect on one argument (`result=`), loops over declared object lists whose method calls become
    function parameters (`objlists=`, `objects=`), one component of a returned tuple (`returns_index=`), dead-statement
    elimination with respect to that result (`slice=True`).
  * `dialect='list'` (harness/translate_list.py, read its docstring): numpy 1-D arrays as Lean `List`s, typed
    translation (scalars, indices, arrays, index arrays, masks, 2-D row arrays, tuples, None) against the prelude
    lean/TaurexModel/Gen/Prelude.lean (`Np.*`), partial evaluation of `is None` / `hasattr(x, '__len__')` tests under the
    declared calling pattern, loops over `enumerate(zip(...))` with `continue`, methods that assign attributes (`state=`).
  * `dialect='seq'` (harness/translate_seq.py, read its docstring): the list mode plus Python ints that may be negative
    (`int(x)`, `%`, `max`/`min`, int / float mixing), basic slices and indices with arbitrary int bounds (CPython's
    adjustment of negative / out-of-range bounds: `a[b:-b]` with `b = 0` is empty), the shape tests numpy performs at
    run time (element-wise operands, `a[lo:hi] = v`) as `ValueError` exits of an `Except` result, `raise` by exception
    name, optional attributes, aliasing discipline for in-place stores (prelude lean/TaurexModel/Gen/SeqPrelude.lean).
  * methods that assign attributes: `state=['self.x', …]` (declared in `attrs`) — `self.x = e` / `self.x op= e` bind a local,
    a later `self.x` reads it, the value of the method (it falls off its end / bare `return`) is the tuple of the final
    values (an attribute it never assigns flows through as a parameter); parameter kind 'pair' (a two-element sequence:
    two scalars `p_0 p_1`; `p[0]`, `p[1]`, `f(*p)`); `returns='pair'` (`return e1, e2`); externals called with keywords:
    `externals={'stats.norm.ppf': (leanname, arity, (keyword names in argument order))}`; enumeration members given by name
    (`self._mode is Mode.A`, `self._mode = Mode.A` with `enums={'self._mode': (leanname, {'Mode.A': 0, …})}`).
  * `dialect='obj'` (harness/translate_obj.py, read its docstring): optional values (`None`) as `Option`, `try/except` as a
    Bool parameter, calls of translated (state) methods incl. `super().__init__`, closures defined inside a method, one
    iteration of a loop as a function (dict records), Python lists / 1-D arrays as `List α` with list-valued externals, loops
    over lists of abstract objects with `continue`, effect logs, TypeErrors inside loops (`Option` state).
  * `dialect='objrec'` (harness/translate_objrec.py, read its docstring): 'obj' plus nested dict records (flat, components
    named by key paths), `return <record>`, loops that fill a dict with the records of a translated iteration, `l.argmax()`.
  * `dialect='par'` (harness/translate_par.py, read its docstring): 'obj' plus MPI collectives (the k-th collective call is a
    parameter applied to k and the rank's contribution), `range(a, b, c)` / `l[a::c]` as `List.range'`, generators, an opaque
    world threaded through declared effect calls, functions point-wise in a list of distinct dict keys (lifted keys).
  * `dialect='dyn'` (harness/translate_dyn.py, read its docstring): DYNAMICALLY TYPED Python for the glue code (input-file
    typing, class factories, output writer / loader): every value is a `Dyn.Val` (lean/TaurexModel/Gen/DynPrelude.lean),
    `isinstance`, `try/except`, dict / list / str operations, early `return` / `break` / `continue`, closures, fuel for
    recursion; one oracle parameter `ext` for everything Python delegates to objects, polymorphic in the monad.
The translator is part of the trusted base; it is validated on every run by the tie theorems (the regenerated text must be
*provably equal* to a model that the correspondence check runs against the real code on the same inputs)."""
import ast
import hashlib
import os
import re
import textwrap


class Untranslatable(Exception):
    pass


LEAN_RESERVED = {'at', 'from', 'fun', 'end', 'in', 'let', 'open', 'by', 'do', 'then', 'else', 'if', 'have', 'show',
                 'with', 'match', 'where', 'def', 'theorem', 'instance', 'structure', 'class', 'namespace', 'section',
                 'variable', 'import', 'Type', 'Prop', 'Sort', 'exp', 'log', 'log10', 'sqrt', 'pow10', 'max', 'min', 'id'}
MATH_FUNCS = {'exp': 'exp', 'log': 'log', 'log10': 'log10', 'sqrt': 'sqrt'}


def lname(n):
    if n.startswith('_'):
        n = 'u' + n
    if n in LEAN_RESERVED:
        n = n + '_'
    return n


def const_name(v):
    s = repr(float(v)).replace('-', 'm').replace('+', '').replace('.', 'p')
    return 'c' + s


class Fn:
    """translation of one function"""

    def __init__(self, spec, tree, src_lines, known_funcs):
        self.spec = spec
        self.known = known_funcs
        self.kinds = dict(spec.get('params', {}))
        self.lift = set(spec.get('lift', ()))            # lifted index variables
        self.attrs = dict(spec.get('attrs', {}))         # 'self.x' -> (leanname, kind)
        self.consts = dict(spec.get('consts', {}))       # module-level name -> kind ('s' or 'nat')
        self.externals = dict(spec.get('externals', {}))  # python call text -> (leanname, arity)
        self.lens = dict(spec.get('lens', {}))           # array name -> nat parameter holding its length
        self.rename = dict(spec.get('rename', {}))
        self.ignore_calls = spec.get('ignore_calls', r'^self\.(debug|info|warning|error|critical)\(')
        self.tuples = dict(spec.get('tuples', {}))       # 'self.pressureBounds' -> [(leanname, kind), …]
        self.dims = dict(spec.get('dims', {}))           # array (python text) -> [nat expr per axis] for negative indices
        self.enums = dict(spec.get('enums', {}))         # 'self._interp_mode' -> (leanname, {'linear': 0, 'exp': 1})
        self.nat_externals = dict(spec.get('nat_externals', {}))   # python text of a call -> nat parameter name
        self.index_dims = dict(spec.get('index_dims', {}))         # own nat parameter -> dimension (for callers passing -1)
        self.raise_value = spec.get('raise_value')
        self.s_externals = dict(spec.get('s_externals', {}))       # whole python text of a call -> scalar parameter name
        self.arr_externals = dict(spec.get('arr_externals', {}))   # 'np.logspace' -> (leanname, [arg kinds], index of the length arg)
        self.arr_on = spec.get('dialect') == 'arr'                 # the idioms of harness/translate_arr.py are enabled
        self.state = list(spec.get('state', ()))         # attributes ('self.x', declared in attrs) the method assigns: they
        #                                                  are carried like locals and their final values are the result
        self.extra_params = []                           # (leanname, leantype) in order of first use
        self.literals = set()
        self.float_consts = {}
        self.node = self.find(tree, spec['func'], spec.get('cls'))
        self.src = ''.join(src_lines[self.node.lineno - 1:self.node.end_lineno])
        self.lineno = self.node.lineno

    @staticmethod
    def find(tree, func, cls):
        body = tree.body
        if cls:
            for n in body:
                if isinstance(n, ast.ClassDef) and n.name == cls:
                    body = n.body
                    break
            else:
                raise Untranslatable('class %s not found' % cls)
        for _ in range(5):
            hits = [n for n in body if isinstance(n, ast.FunctionDef) and n.name == func]
            alias = [n for n in body if isinstance(n, ast.Assign) and len(n.targets) == 1
                     and isinstance(n.targets[0], ast.Name) and n.targets[0].id == func and isinstance(n.value, ast.Name)]
            # the binding that is in force after the module body has run: the last one in the text
            last_def = hits[-1].lineno if hits else -1
            last_alias = alias[-1].lineno if alias else -1
            if last_alias > last_def:
                func = alias[-1].value.id          # `interp_lin_only = interp_lin_numba`: follow the alias
                continue
            if hits:
                return hits[-1]
            break
        raise Untranslatable('function %s not found' % func)

    # ------------------------------------------------------------------ helpers
    def fail(self, node, why):
        raise Untranslatable('%s:%s line %d: %s: %s' % (self.spec['module'], self.spec['func'],
                                                        getattr(node, 'lineno', 0), why,
                                                        ast.unparse(node)[:120] if isinstance(node, ast.AST) else node))

    def add_param(self, name, ty):
        if (name, ty) not in self.extra_params:
            if any(n == name for n, _ in self.extra_params):
                raise Untranslatable('conflicting extra parameter ' + name)
            self.extra_params.append((name, ty))

    def lean_ty(self, kind):
        return {'s': 'α', 'elem': 'α', 'nat': 'Nat', 'arr': 'Nat → α', 'arr2': 'Nat → Nat → α',
                'natpair': 'Nat × Nat', 'bool': 'Bool', 'pair': 'α × α', 'opt': 'Option α', 'optarr': 'Option (Nat → α)',
                'rows': 'List (Nat → α)', 'slist': 'List α', 'optrows': 'Option (List (Nat → α))',
                'optarr2': 'Option (Nat → Nat → α)'}[kind]

    def var(self, name):
        if name in self.attrs:                            # a state attribute ('self.x') carried like a local variable
            return self.attrs[name][0]
        return lname(self.rename.get(name, name))

    # ------------------------------------------------------------------ expressions
    def kind_of_name(self, name, env):
        if name in env:
            return env[name]
        if name in self.consts:
            k = self.consts[name]
            self.add_param(self.var(name), self.lean_ty(k))
            env[name] = k
            return k
        return None

    def is_nat(self, node, env):
        """is this expression a natural-number expression (indices, counts)?"""
        if isinstance(node, ast.Constant):
            return isinstance(node.value, int) and not isinstance(node.value, bool) and node.value >= 0
        if isinstance(node, ast.Name):
            return self.kind_of_name(node.id, env) == 'nat'
        if isinstance(node, ast.BinOp) and isinstance(node.op, (ast.Add, ast.Sub, ast.Mult, ast.FloorDiv)):
            return self.is_nat(node.left, env) and self.is_nat(node.right, env)
        if isinstance(node, ast.Call) and ast.unparse(node.func) == 'len':
            return True
        if isinstance(node, ast.Call) and ast.unparse(node) in self.nat_externals:
            return True
        if isinstance(node, ast.Call) and ast.unparse(node.func) in ('max', 'min') and len(node.args) == 2:
            return self.is_nat(node.args[0], env) and self.is_nat(node.args[1], env)
        if isinstance(node, ast.Attribute):
            t = ast.unparse(node)
            return t in self.attrs and self.attrs[t][1] == 'nat'
        if isinstance(node, ast.Subscript) and ast.unparse(node).endswith('.shape[0]'):
            return True
        return False

    def nat(self, node, env):
        if isinstance(node, ast.Constant) and isinstance(node.value, int) and node.value >= 0:
            return str(node.value)
        if isinstance(node, ast.Name):
            if self.kind_of_name(node.id, env) != 'nat':
                self.fail(node, 'not a natural-number variable')
            return self.var(node.id)
        if isinstance(node, ast.BinOp) and isinstance(node.op, (ast.Add, ast.Sub, ast.Mult, ast.FloorDiv)):
            op = {ast.Add: '+', ast.Sub: '-', ast.Mult: '*', ast.FloorDiv: '/'}[type(node.op)]
            return '(%s %s %s)' % (self.nat(node.left, env), op, self.nat(node.right, env))
        if isinstance(node, ast.Call) and ast.unparse(node.func) == 'len' and len(node.args) == 1:
            a = ast.unparse(node.args[0])
            if a in self.lens:
                return self.var(self.lens[a])
        if isinstance(node, ast.Call) and ast.unparse(node) in self.nat_externals:
            nm = self.nat_externals[ast.unparse(node)]
            self.add_param(nm, 'Nat')
            return nm
        if isinstance(node, ast.Call) and ast.unparse(node.func) in ('max', 'min') and len(node.args) == 2 \
                and not node.keywords:
            return '(%s %s %s)' % (ast.unparse(node.func), self.nat(node.args[0], env), self.nat(node.args[1], env))
        if isinstance(node, ast.Attribute):
            t = ast.unparse(node)
            if t in self.attrs and self.attrs[t][1] == 'nat':
                if t not in env:
                    self.add_param(self.attrs[t][0], 'Nat')
                return self.attrs[t][0]
        if isinstance(node, ast.Subscript):
            t = ast.unparse(node)
            m = re.fullmatch(r'(\w+)\.shape\[0\]', t)
            if m and m.group(1) in self.lens:
                return self.var(self.lens[m.group(1)])
        self.fail(node, 'unsupported natural-number expression')

    def call_name(self, node):
        t = ast.unparse(node.func)
        for pre in ('np.', 'numpy.', 'math.'):
            if t.startswith(pre):
                return t[len(pre):], t
        return t, t

    def expr(self, node, env):
        """expression of the carrier α (or a Bool for tests, via `cond`)"""
        ext = self.expr_ext(node, env)                    # array / method idioms (translate_arr.py); None: not one of them
        if ext is not None:
            return ext
        if isinstance(node, ast.Constant):
            v = node.value
            if isinstance(v, bool) or not isinstance(v, (int, float)):
                self.fail(node, 'unsupported literal')
            if float(v) == int(v) and 0 <= int(v) < 10 ** 9 and abs(v) < 1e9:
                self.literals.add(int(v))
                return '(%d : α)' % int(v)
            if v < 0:
                self.fail(node, 'negative literal')
            nm = const_name(v)
            self.float_consts[nm] = float(v)
            self.add_param(nm, 'α')
            return nm
        if isinstance(node, ast.Name):
            k = self.kind_of_name(node.id, env)
            if k in ('s', 'elem'):
                return self.var(node.id)
            if k is None:
                self.fail(node, 'unknown name (declare it in params/consts)')
            self.fail(node, 'a %s used where a scalar is needed' % (k,))
        if isinstance(node, ast.Attribute):
            t = ast.unparse(node)
            if t in self.attrs:
                nm, k = self.attrs[t]
                if t not in env:                          # (a state attribute already assigned here is a local)
                    self.add_param(nm, self.lean_ty(k))
                k = env.get(t, k)
                if k not in ('s', 'elem'):
                    self.fail(node, 'attribute is not a scalar')
                return nm
            self.fail(node, 'undeclared attribute')
        if isinstance(node, ast.UnaryOp) and isinstance(node.op, ast.USub):
            return '(-%s)' % self.expr(node.operand, env)
        if isinstance(node, ast.UnaryOp) and isinstance(node.op, ast.UAdd):
            return self.expr(node.operand, env)
        if isinstance(node, ast.BinOp):
            if isinstance(node.op, ast.Pow):
                if isinstance(node.right, ast.Constant) and float(node.right.value) == int(node.right.value) \
                        and 2 <= int(node.right.value) <= 6:
                    b = self.expr(node.left, env)
                    simple = re.fullmatch(r'[\w.]+', b) is not None
                    k = int(node.right.value)
                    if simple:
                        return '(' + ' * '.join([b] * k) + ')'
                    return '(let b__ := %s; %s)' % (b, ' * '.join(['b__'] * k))
                if isinstance(node.left, ast.Constant) and node.left.value in (10, 10.0):
                    return '(pow10 %s)' % self.expr(node.right, env)
                self.fail(node, 'unsupported power')
            ops = {ast.Add: '+', ast.Sub: '-', ast.Mult: '*', ast.Div: '/'}
            if type(node.op) not in ops:
                self.fail(node, 'unsupported operator')
            return '(%s %s %s)' % (self.expr(node.left, env), ops[type(node.op)], self.expr(node.right, env))
        if isinstance(node, ast.IfExp):
            return '(if %s then %s else %s)' % (self.cond(node.test, env), self.expr(node.body, env),
                                                self.expr(node.orelse, env))
        if isinstance(node, ast.Subscript):
            return self.subscript(node, env)
        if isinstance(node, ast.Call) and isinstance(node.func, ast.Attribute) and node.func.attr in ('ravel', 'copy') \
                and not node.args and not node.keywords:
            return self.expr(node.func.value, env)        # element-wise view: no-op on one element
        if isinstance(node, ast.Call) and ast.unparse(node.func) in ('np.zeros_like', 'numpy.zeros_like') \
                and len(node.args) == 1:
            self.expr(node.args[0], env)                  # must itself be translatable
            self.literals.add(0)
            return '(0 : α)'
        if isinstance(node, ast.Call) and any(isinstance(a, ast.Starred) for a in node.args):
            node = self.unstar(node, env)                 # f(*bounds), bounds a declared pair: f(bounds[0], bounds[1])
        if isinstance(node, ast.Call) and node.keywords and ast.unparse(node.func) in self.externals \
                and len(self.externals[ast.unparse(node.func)]) == 3:
            # external called with keywords: externals[text] = (leanname, arity, (keyword names in argument order))
            nm, arity, kwnames = self.externals[ast.unparse(node.func)]
            kws = {k.arg: k.value for k in node.keywords}
            npos = arity - len(kwnames)
            if len(node.args) != npos or None in kws or set(kws) != set(kwnames):
                self.fail(node, 'external call does not match its declared positional/keyword arguments')
            self.add_param(nm, ' → '.join(['α'] * (arity + 1)))
            return '(%s %s)' % (nm, ' '.join([self.expr(a, env) for a in node.args]
                                             + [self.expr(kws[k], env) for k in kwnames]))
        if isinstance(node, ast.Call):
            short, full = self.call_name(node)
            if node.keywords:
                self.fail(node, 'keyword arguments in a call')
            if full in self.externals:
                nm, arity = self.externals[full]
                if len(node.args) != arity:
                    self.fail(node, 'external arity')
                self.add_param(nm, ' → '.join(['α'] * (arity + 1)))
                return '(%s %s)' % (nm, ' '.join(self.expr(a, env) for a in node.args))
            if short in MATH_FUNCS and len(node.args) == 1:
                return '(%s %s)' % (MATH_FUNCS[short], self.expr(node.args[0], env))
            if short in ('abs', 'fabs') and len(node.args) == 1:
                a = self.expr(node.args[0], env)
                self.literals.add(0)
                return '(let a__ := %s; if a__ < (0 : α) then (-a__) else a__)' % a
            if full in ('pow', 'math.pow') and len(node.args) == 2 and isinstance(node.args[1], ast.Constant) \
                    and isinstance(node.args[1].value, (int, float)) and not isinstance(node.args[1].value, bool) \
                    and float(node.args[1].value) == int(node.args[1].value) and 2 <= int(node.args[1].value) <= 6:
                # the builtin pow(x, k) with a literal k: the same repeated product as `x**k`
                return self.expr(ast.copy_location(ast.BinOp(left=node.args[0], op=ast.Pow(), right=node.args[1]),
                                                   node), env)
            if short in ('maximum', 'max') and len(node.args) == 2:
                a, b = (self.expr(x, env) for x in node.args)
                return '(let a__ := %s; let b__ := %s; if a__ < b__ then b__ else a__)' % (a, b)
            if short in ('minimum', 'min') and len(node.args) == 2:
                a, b = (self.expr(x, env) for x in node.args)
                return '(let a__ := %s; let b__ := %s; if b__ < a__ then b__ else a__)' % (a, b)
            if full in self.known:
                tgt = self.known[full]
                args = []
                if len(node.args) != len(tgt['arg_kinds']):
                    self.fail(node, 'call of %s with a different number of arguments than its definition' % full)
                for a, k, pn in zip(node.args, tgt['arg_kinds'], tgt['arg_names']):
                    if k == 'skip':
                        continue
                    args.append(self.index(a, env, tgt['index_dims'].get(pn)) if k == 'nat' else self.arg(a, k, env))
                for nm, ty in tgt['extra_params']:
                    self.add_param(nm, ty)
                    args.append(nm)
                return '(%s %s)' % (tgt['lean'], ' '.join(args))
            self.fail(node, 'unsupported call')
        self.fail(node, 'unsupported expression')

    def unstar(self, node, env):
        args = []
        for a in node.args:
            if isinstance(a, ast.Starred):
                if not (isinstance(a.value, ast.Name) and env.get(a.value.id) == 'pair'):
                    self.fail(node, 'starred argument that is not a declared pair')
                for i in (0, 1):
                    args.append(ast.copy_location(ast.Subscript(value=a.value, slice=ast.Constant(value=i),
                                                                ctx=ast.Load()), a))
            else:
                args.append(a)
        return ast.copy_location(ast.Call(func=node.func, args=args, keywords=node.keywords), node)

    def arg(self, node, kind, env):
        if kind in ('arr', 'arr2'):
            if isinstance(node, ast.Name) and env.get(node.id) == kind:
                return self.var(node.id)
            self.fail(node, 'array argument must be a plain array variable')
        return self.expr(node, env)

    def subscript(self, node, env):
        base = node.value
        idx = node.slice
        idxs = list(idx.elts) if isinstance(idx, ast.Tuple) else [idx]
        # a[i, j][filt]: chained subscripts are one index list
        while isinstance(base, ast.Subscript):
            inner = base.slice
            idxs = (list(inner.elts) if isinstance(inner, ast.Tuple) else [inner]) + idxs
            base = base.value
        # drop lifted indices
        idxs = [i for i in idxs if not (isinstance(i, ast.Name) and i.id in self.lift)]
        if isinstance(base, ast.Name):
            k = self.kind_of_name(base.id, env)
            nm = self.var(base.id)
        elif isinstance(base, ast.Attribute) and ast.unparse(base) in self.attrs:
            nm, k = self.attrs[ast.unparse(base)]
            self.add_param(nm, self.lean_ty(k))
        else:
            self.fail(node, 'unsupported subscript base')
        if k == 'pair':
            # a declared two-element sequence: two scalars name_0, name_1
            if len(idxs) == 1 and isinstance(idxs[0], ast.Constant) and idxs[0].value in (0, 1):
                return '%s_%d' % (nm, idxs[0].value)
            self.fail(node, 'a pair indexed by something else than 0 or 1')
        if k == 'elem':
            # element-wise lifting: a[n] (n the element loop variable) is the element
            if all(isinstance(i, ast.Name) and env.get(i.id) == 'elemidx' for i in idxs):
                return nm
            self.fail(node, 'element-wise array indexed by something else than the element index')
        if k in ('s',) and not idxs:
            return nm
        need = {'arr': 1, 'arr2': 2}.get(k)
        if need is None or len(idxs) != need:
            self.fail(node, 'subscript does not match the declared array kind')
        dims = self.dims.get(ast.unparse(base), [None] * need)
        return '(%s %s)' % (nm, ' '.join(self.index(i, env, d) for i, d in zip(idxs, dims)))

    def index(self, node, env, dim):
        """an index expression; the literal -1 means `dim - 1` (dim: nat expression text of that axis, or None)"""
        if isinstance(node, ast.UnaryOp) and isinstance(node.op, ast.USub) and isinstance(node.operand, ast.Constant) \
                and isinstance(node.operand.value, int) and node.operand.value >= 1:
            if dim is None:
                self.fail(node, 'negative index into an array of undeclared size')
            if re.fullmatch(r'\w+', dim):
                self.add_param(dim, 'Nat')
            return '(%s - %d)' % (dim, node.operand.value)
        return self.nat(node, env)

    def cond(self, node, env):
        ext = self.cond_ext(node, env)                    # float `==`, `x is None` (translate_arr.py); None: not one of them
        if ext is not None:
            return ext
        if isinstance(node, ast.BoolOp):
            op = ' && ' if isinstance(node.op, ast.And) else ' || '
            return '(' + op.join(self.cond(v, env) for v in node.values) + ')'
        if isinstance(node, ast.UnaryOp) and isinstance(node.op, ast.Not):
            return '(!%s)' % self.cond(node.operand, env)
        if isinstance(node, ast.Name) and env.get(node.id) == 'bool':
            return self.var(node.id)
        if isinstance(node, ast.Compare) and len(node.ops) == 1 and ast.unparse(node.left) in self.enums \
                and isinstance(node.comparators[0], (ast.Attribute, ast.Name)) \
                and isinstance(node.ops[0], (ast.Eq, ast.NotEq, ast.Is, ast.IsNot)):
            # an enumeration member given by name (`self._prior_mode is PriorMode.LINEAR`)
            nm, table = self.enums[ast.unparse(node.left)]
            v = ast.unparse(node.comparators[0])
            if v not in table:
                self.fail(node, 'comparison with an undeclared enumeration member')
            if ast.unparse(node.left) not in env:
                self.add_param(nm, 'Nat')
            c = 'decide (%s = %d)' % (nm, table[v])
            return c if isinstance(node.ops[0], (ast.Eq, ast.Is)) else '(!%s)' % c
        if isinstance(node, ast.Compare) and len(node.ops) == 1 and ast.unparse(node.left) in self.enums \
                and isinstance(node.comparators[0], ast.Constant) and isinstance(node.ops[0], (ast.Eq, ast.NotEq)):
            nm, table = self.enums[ast.unparse(node.left)]
            v = node.comparators[0].value
            if v not in table:
                self.fail(node, 'comparison with an undeclared enumeration value')
            self.add_param(nm, 'Nat')
            c = 'decide (%s = %d)' % (nm, table[v])
            return c if isinstance(node.ops[0], ast.Eq) else '(!%s)' % c
        if isinstance(node, ast.Compare) and len(node.ops) == 1:
            l, r = node.left, node.comparators[0]
            natcmp = self.is_nat(l, env) and self.is_nat(r, env)
            a, b = (self.nat(l, env), self.nat(r, env)) if natcmp else (self.expr(l, env), self.expr(r, env))
            op = type(node.ops[0])
            if op is ast.Lt:
                return 'decide (%s < %s)' % (a, b)
            if op is ast.LtE:
                return 'decide (%s ≤ %s)' % (a, b)
            if op is ast.Gt:
                return 'decide (%s < %s)' % (b, a)
            if op is ast.GtE:
                return 'decide (%s ≤ %s)' % (b, a)
            if op is ast.Eq and natcmp:
                return 'decide (%s = %s)' % (a, b)
            if op is ast.NotEq and natcmp:
                return '(!decide (%s = %s))' % (a, b)
            self.fail(node, 'unsupported comparison')
        self.fail(node, 'unsupported condition')

    # ------------------------------------------------------------------ statements
    def assigned(self, stmts, env):
        """variables (re)assigned in a block, in order of first assignment"""
        out = []

        def add(n):
            if n not in out:
                out.append(n)
        for s in stmts:
            self.assigned_ext(s, env, add)                # `with` blocks, tuple targets (translate_arr.py)
            if isinstance(s, (ast.Assign, ast.AugAssign)):
                for t in (s.targets if isinstance(s, ast.Assign) else [s.target]):
                    if isinstance(t, ast.Attribute) and ast.unparse(t) in self.state:
                        add(ast.unparse(t))
            if isinstance(s, ast.Assign):
                for t in s.targets:
                    if isinstance(t, ast.Name):
                        add(t.id)
                    elif isinstance(t, ast.Subscript) and isinstance(t.value, ast.Name):
                        add(t.value.id)
            elif isinstance(s, ast.AugAssign):
                t = s.target
                if isinstance(t, ast.Name):
                    add(t.id)
                elif isinstance(t, ast.Subscript) and isinstance(t.value, ast.Name):
                    add(t.value.id)
            elif isinstance(s, ast.For):
                for n in self.assigned(s.body, env):
                    add(n)
            elif isinstance(s, ast.If):
                for n in self.assigned(s.body, env) + self.assigned(s.orelse, env):
                    add(n)
        return out

    def alloc_idiom(self, value):
        """np.zeros_like(x) / np.empty_like(x) / np.zeros(...) -> 'zeros' ; x.shape[0] -> 'len'"""
        t = ast.unparse(value)
        if re.fullmatch(r'(np|numpy)\.(zeros_like|empty_like)\(\w+\)', t):
            return 'alloc0' if 'zeros' in t else 'alloc'
        if re.fullmatch(r'\w+\.shape\[0\]', t):
            return 'len'
        return None

    def state_pack(self, names):
        vs = [self.var(n) for n in names]
        return vs[0] if len(vs) == 1 else '(' + ', '.join(vs) + ')'

    def state_type(self, names, env):
        ts = [self.lean_ty(env[n]) if env[n] not in ('arr', 'arr2') else '(' + self.lean_ty(env[n]) + ')' for n in names]
        return ts[0] if len(ts) == 1 else '(' + ' × '.join(ts) + ')'

    def unpack(self, names, src, ind):
        vs = [self.var(n) for n in names]
        if len(vs) == 1:
            return '%slet %s := %s\n' % (ind, vs[0], src)
        out = '%slet st__ := %s\n' % (ind, src)
        # right-nested pairs: (a, b, c) = (a, (b, c))
        path = 'st__'
        for i, v in enumerate(vs):
            if i < len(vs) - 1:
                out += '%slet %s := %s.1\n' % (ind, v, path)
                path = path + '.2'
            else:
                out += '%slet %s := %s\n' % (ind, v, path)
        return out

    def block(self, stmts, env, ind, tail, inline=False):
        """translate a statement list; `tail` is the text of the value when the block falls through (None: must return).
        inline=True: the statements are executed in place (lifted / element-wise loop body): `env` is updated in place, no
        value line is emitted, and `return` is not allowed"""
        out = ''
        if not inline:
            env = dict(env)
        for i, s in enumerate(stmts):
            rest = stmts[i + 1:]
            if isinstance(s, ast.Expr) and isinstance(s.value, ast.Constant) and isinstance(s.value.value, str):
                continue
            if isinstance(s, ast.Pass):
                continue
            if isinstance(s, ast.Expr) and isinstance(s.value, ast.Call) and re.search(self.ignore_calls, ast.unparse(s.value)):
                continue                                  # logging
            if isinstance(s, (ast.Import, ast.ImportFrom)):
                continue
            ext = self.stmt_ext(s, env, ind, rest, tail, inline)   # array / method idioms (translate_arr.py)
            if ext is not None:
                if ext[1]:
                    return out + ext[0]
                out += ext[0]
                continue
            if isinstance(s, ast.Raise):
                if self.raise_value is None or inline:
                    self.fail(s, 'raise (no total value declared for it)')
                for n in re.findall(r'\((\d+) : α\)', self.raise_value):
                    self.literals.add(int(n))
                return out + ind + self.raise_value + '\n'
            if isinstance(s, ast.Assign) and len(s.targets) == 1 and isinstance(s.targets[0], ast.Tuple) \
                    and ast.unparse(s.value) in self.tuples:
                parts = self.tuples[ast.unparse(s.value)]
                tg = s.targets[0].elts
                if len(parts) != len(tg) or not all(isinstance(t, ast.Name) for t in tg):
                    self.fail(s, 'tuple unpacking does not match the declaration')
                for t, (nm, k) in zip(tg, parts):
                    self.add_param(nm, self.lean_ty(k))
                    out += '%slet %s := %s\n' % (ind, self.var(t.id), nm)
                    env[t.id] = k
                continue
            if isinstance(s, ast.Assign) and len(s.targets) == 1 and isinstance(s.targets[0], ast.Name) \
                    and isinstance(s.value, (ast.Compare, ast.BoolOp)):
                out += '%slet %s : Bool := %s\n' % (ind, self.var(s.targets[0].id), self.cond(s.value, env))
                env[s.targets[0].id] = 'bool'
                continue
            if isinstance(s, ast.Return):
                if inline:
                    self.fail(s, 'return inside a lifted loop')
                if s.value is None:
                    self.fail(s, 'bare return')
                if isinstance(s.value, ast.Name) and env.get(s.value.id) in ('arr', 'arr2'):
                    return out + ind + self.var(s.value.id) + '\n'
                if self.spec.get('returns') == 'natpair':
                    if not (isinstance(s.value, ast.Tuple) and len(s.value.elts) == 2):
                        self.fail(s, 'a pair of indices was declared as the result')
                    return out + ind + '(%s, %s)\n' % tuple(self.nat(e, env) for e in s.value.elts)
                if self.spec.get('returns') == 'nat':
                    return out + ind + self.nat(s.value, env) + '\n'
                if self.spec.get('returns') == 'pair':
                    if not (isinstance(s.value, ast.Tuple) and len(s.value.elts) == 2):
                        self.fail(s, 'a pair of scalars was declared as the result')
                    return out + ind + '(%s, %s)\n' % tuple(self.expr(e, env) for e in s.value.elts)
                return out + ind + self.expr(s.value, env) + '\n'
            if isinstance(s, (ast.Assign, ast.AugAssign)) and self.state:
                tg = s.targets[0] if isinstance(s, ast.Assign) and len(s.targets) == 1 else getattr(s, 'target', None)
                if isinstance(tg, ast.Attribute) and ast.unparse(tg) in self.state:
                    out += self.state_store(s, tg, env, ind)
                    continue
            if isinstance(s, ast.Return) and s.value is None and self.state and not inline:
                return out + ind + self.state_tail(env) + '\n'
            if isinstance(s, ast.Assign):
                if len(s.targets) != 1:
                    self.fail(s, 'multiple assignment targets')
                t = s.targets[0]
                if isinstance(t, ast.Name):
                    idiom = self.alloc_idiom(s.value)
                    if idiom in ('alloc', 'alloc0'):
                        src = re.search(r'\((\w+)\)', ast.unparse(s.value)).group(1)
                        if env.get(src) == 'elem':
                            env[t.id] = 'elem-out'       # element-wise output buffer: defined by the element loop
                            continue
                        self.fail(s, 'allocation of a non element-wise array')
                    if idiom == 'len':
                        env[t.id] = 'ignored-len'
                        continue
                    if self.is_nat(s.value, env):
                        out += '%slet %s := %s\n' % (ind, self.var(t.id), self.nat(s.value, env))
                        env[t.id] = 'nat'
                    else:
                        out += '%slet %s := %s\n' % (ind, self.var(t.id), self.expr(s.value, env))
                        env[t.id] = 's'
                    continue
                if isinstance(t, ast.Subscript):
                    out += self.store(t, s.value, None, env, ind)
                    continue
                self.fail(s, 'unsupported assignment target')
            if isinstance(s, ast.AugAssign):
                ops = {ast.Add: '+', ast.Sub: '-', ast.Mult: '*', ast.Div: '/'}
                if type(s.op) not in ops:
                    self.fail(s, 'unsupported augmented assignment')
                t = s.target
                if isinstance(t, ast.Name):
                    if env.get(t.id) == 'nat':
                        out += '%slet %s := (%s %s %s)\n' % (ind, self.var(t.id), self.var(t.id), ops[type(s.op)],
                                                             self.nat(s.value, env))
                    else:
                        out += '%slet %s := (%s %s %s)\n' % (ind, self.var(t.id), self.expr(t, env), ops[type(s.op)],
                                                             self.expr(s.value, env))
                    continue
                if isinstance(t, ast.Subscript):
                    out += self.store(t, s.value, ops[type(s.op)], env, ind)
                    continue
                self.fail(s, 'unsupported augmented assignment target')
            if isinstance(s, ast.For):
                out += self.loop(s, env, ind)
                continue
            if isinstance(s, ast.If):
                returns = self.ends_in_return(s.body)
                if returns and inline:
                    self.fail(s, 'return inside a lifted loop')
                if returns:
                    # if c: …return…  <rest>   ==>   if c then … else <orelse; rest>
                    body = self.block(s.body, env, ind + '  ', None)
                    other = self.block(list(s.orelse) + rest, env, ind + '  ', tail)
                    return out + '%sif %s then\n%s%selse\n%s' % (ind, self.cond(s.test, env), body, ind, other)
                names = [n for n in self.assigned([s], env)]
                for n in names:
                    if n not in env and n in self.state:
                        self.add_param(self.attrs[n][0], self.lean_ty(self.attrs[n][1]))
                        env[n] = self.attrs[n][1]
                for n in names:
                    if n not in env:
                        self.fail(s, 'variable %s assigned only inside a conditional' % n)
                pack = self.state_pack(names)
                body = self.block(s.body, env, ind + '    ', pack)
                other = self.block(s.orelse, env, ind + '    ', pack)
                src = '(if %s then\n%s%s  else\n%s%s  )' % (self.cond(s.test, env), body, ind, other, ind)
                out += self.unpack(names, src, ind)
                continue
            self.fail(s, 'unsupported statement')
        if inline:
            return out
        if tail is None and self.state:
            tail = self.state_tail(env)                   # a state method falls off its end: the result is the state
        if tail is None:
            raise Untranslatable('%s: a path does not end in return' % self.spec['func'])
        return out + ind + (tail(env) if callable(tail) else tail) + '\n'   # (callable: the value depends on the final kinds)

    def state_tail(self, env):
        for a in self.state:
            if a not in env:                              # never assigned on this path: the old value is the new value
                self.add_param(self.attrs[a][0], self.lean_ty(self.attrs[a][1]))
        vs = [self.attrs[a][0] for a in self.state]
        return vs[0] if len(vs) == 1 else '(' + ', '.join(vs) + ')'

    def state_store(self, s, t, env, ind):
        """self.x = e / self.x op= e for a declared state attribute"""
        key = ast.unparse(t)
        nm, k = self.attrs[key]
        if isinstance(s, ast.AugAssign):
            ops = {ast.Add: '+', ast.Sub: '-', ast.Mult: '*', ast.Div: '/'}
            if type(s.op) not in ops or key in self.enums:
                self.fail(s, 'unsupported augmented assignment')
            if k == 'nat':
                if key not in env:
                    self.add_param(nm, 'Nat')
                e = '(%s %s %s)' % (nm, ops[type(s.op)], self.nat(s.value, env))
            else:
                e = '(%s %s %s)' % (self.expr(t, env), ops[type(s.op)], self.expr(s.value, env))
        elif key in self.enums:
            table = self.enums[key][1]
            v = s.value.value if isinstance(s.value, ast.Constant) else ast.unparse(s.value)
            if v not in table:
                self.fail(s, 'assignment of an undeclared enumeration member')
            e = '(%d : Nat)' % table[v]
        elif k == 'nat':
            e = self.nat(s.value, env)
        elif k == 'bool':
            e = self.cond(s.value, env)
        elif k in ('s', 'elem'):
            e = self.expr(s.value, env)
        else:
            self.fail(s, 'unsupported kind of state attribute')
        env[key] = k
        return '%slet %s := %s\n' % (ind, nm, e)

    def ends_in_return(self, stmts):
        if not stmts:
            return False
        last = stmts[-1]
        if isinstance(last, (ast.Return, ast.Raise)):
            return True
        if isinstance(last, ast.If) and last.orelse:
            return self.ends_in_return(last.body) and self.ends_in_return(last.orelse)
        return False

    def store(self, t, value, op, env, ind):
        """a[i] = e / a[i] op= e"""
        if not isinstance(t.value, ast.Name):
            self.fail(t, 'unsupported store target')
        a = t.value.id
        k = env.get(a)
        idx = t.slice
        idxs = list(idx.elts) if isinstance(idx, ast.Tuple) else [idx]
        idxs = [i for i in idxs if not (isinstance(i, ast.Name) and i.id in self.lift)]
        nm = self.var(a)
        if k == 'elem-out' or k == 'elem':
            if not all(isinstance(i, ast.Name) and env.get(i.id) == 'elemidx' for i in idxs):
                self.fail(t, 'element-wise output indexed by something else than the element index')
            e = self.expr(value, env)
            if op:
                e = '(%s %s %s)' % (nm, op, e)
            env[a] = 'elem'
            return '%slet %s := %s\n' % (ind, nm, e)
        need = {'arr': 1, 'arr2': 2}.get(k)
        if need is None or len(idxs) != need:
            self.fail(t, 'store does not match the declared array kind')
        e = self.expr(value, env)
        ii = [self.nat(i, env) for i in idxs]
        old = '(%s %s)' % (nm, ' '.join(ii))
        if op:
            e = '(%s %s %s)' % (old, op, e)
        if need == 1:
            return '%slet %s : Nat → α := fun i__ => if i__ = %s then %s else %s i__\n' % (ind, nm, ii[0], e, nm)
        return '%slet %s : Nat → Nat → α := fun i__ j__ => if i__ = %s ∧ j__ = %s then %s else %s i__ j__\n' % (
            ind, nm, ii[0], ii[1], e, nm)

    def loop(self, s, env, ind):
        if not (isinstance(s.target, ast.Name) and isinstance(s.iter, ast.Call)
                and ast.unparse(s.iter.func) in ('range', 'numba.prange', 'prange') and not s.orelse):
            self.fail(s, 'unsupported loop')
        v = s.target.id
        args = s.iter.args
        if v in self.lift:
            # the lifted axis: the loop body is executed for the one point the model describes
            return self.block_inline(s.body, env, ind)
        # element-wise loop over 'elem' arrays: for n in range(N): out[n] = f(a[n], …)
        rng = ast.unparse(args[0]) if len(args) == 1 else None
        if rng is not None and (env.get(rng) == 'ignored-len' or re.fullmatch(r'\w+\.shape\[0\]', rng)
                                and env.get(rng.split('.')[0]) == 'elem'):
            env[v] = 'elemidx'
            txt = self.block_inline(s.body, env, ind)
            return txt
        if len(args) == 1:
            lo, cnt = '0', self.nat(args[0], env)
        elif len(args) == 2:
            lo = self.nat(args[0], env)
            hi = self.nat(args[1], env)
            cnt = '(%s - %s)' % (hi, lo)
        else:
            self.fail(s, 'range with a step')
        names = [n for n in self.assigned(s.body, env) if n in env and env[n] not in ('ignored-len',)]
        local = [n for n in self.assigned(s.body, env) if n not in env]
        if not names:
            self.fail(s, 'loop without a carried variable')
        env2 = dict(env)
        env2[v] = 'nat'
        pack = self.state_pack(names)
        body = self.unpack(names, 'st__', ind + '    ') if len(names) > 1 else ''
        stvar = 'st__' if len(names) > 1 else self.var(names[0])
        inner = self.block(s.body, env2, ind + '    ', pack)
        src = '(List.range\' %s %s).foldl (fun (%s : %s) (%s : Nat) =>\n%s%s%s  ) %s' % (
            lo, cnt, stvar, self.state_type(names, env), self.var(v), body, inner, ind, pack)
        return self.unpack(names, src, ind)

    def block_inline(self, stmts, env, ind):
        return self.block(stmts, env, ind, None, inline=True)

    # ------------------------------------------------------------------ whole function
    def translate(self):
        node = self.node
        if node.args.vararg or node.args.kwarg or node.args.kwonlyargs:
            self.fail(node, 'unsupported signature')
        env = {}
        params = []
        self.arg_kinds = []
        self.arg_names = []
        for a in node.args.args:
            if a.arg == 'self':
                continue
            self.arg_names.append(a.arg)
            k = self.kinds.get(a.arg)
            if k is None:
                raise Untranslatable('%s: parameter %s has no declared kind (signature changed?)'
                                     % (self.spec['func'], a.arg))
            self.arg_kinds.append(k)
            if k == 'skip':
                continue
            env[a.arg] = k
            if k == 'pair':                               # a two-element sequence: two scalars
                params.append('(%s_0 : α) (%s_1 : α)' % (self.var(a.arg), self.var(a.arg)))
                continue
            params.append('(%s : %s)' % (self.var(a.arg), self.lean_ty(k)))
        declared = [p for p in self.kinds if p not in [a.arg for a in node.args.args]]
        if declared:
            raise Untranslatable('%s: declared parameter(s) %s no longer in the signature' % (self.spec['func'], declared))
        for arr, n in self.lens.items():
            if n not in env:
                env[n] = 'nat'
                params.append('(%s : Nat)' % self.var(n))
        body = self.block(node.body, env, '  ', self.spec.get('fall_value'))   # fall_value: value when the body falls off its end
        self.extra_params.sort()          # canonical order: a re-ordered but equivalent source gives the same signature
        extra = ''.join(' (%s : %s)' % (n, t) for n, t in self.extra_params)
        ret = self.spec.get('returns', 's')
        rty = self.lean_ty(ret) if not self.state else ' × '.join(self.lean_ty(self.attrs[a][1]) for a in self.state)
        rty = self.result_type_ext(ret, rty)              # tuple / array-state results (translate_arr.py; dialect='arr' only)
        head ='def %s %s%s : %s :=\n' % (self.spec.get('lean', self.spec['func']), ' '.join(params), extra, rty)
        return head + body


def fn_class(spec):
    """the translator class of a spec: `Fn`, or for `dialect='np'` the subclass of harness/translate_np.py (whole-array
    numpy idioms, procedures that mutate an argument, loops over declared object lists, slicing to one result)"""
    if spec.get('dialect') == 'np':
        from harness import translate_np
        return translate_np.FnNp
    if spec.get('dialect') == 'obj':                      # optional values, try/except, calls of state methods, lists
        from harness import translate_obj
        return translate_obj.FnObj
    if spec.get('dialect') == 'objrec':                   # C09: 'obj' + nested dict records, dict-filling loops
        from harness import translate_objrec
        return translate_objrec.FnObjRec
    if spec.get('dialect') == 'par':                      # C18: 'obj' + MPI collectives, rank-strided ranges / slices, generators
        from harness import translate_par
        return translate_par.FnPar
    if spec.get('dialect') == 'shaped':                   # C01/C03/C19: shaped numpy expressions, stores, lists of arrays
        from harness import translate_shaped
        return translate_shaped.FnShaped
    if spec.get('dialect') == 'list':                     # C05/C13/C17: numpy 1-D arrays as `List`, typed, Gen/Prelude.lean
        from harness import translate_list
        return translate_list.VFn
    if spec.get('dialect') == 'seq':                      # C10/C12: 'list' + Python ints, general slices, run-time shape checks
        from harness import translate_seq
        return translate_seq.SeqFn
    if spec.get('dialect') == 'py':                     # C07/C14: dicts, lists, tuples, strings, exceptions (Gen/PyPrelude.lean)
        from harness import translate_py
        return translate_py.PyFn
    if spec.get('dialect') == 'dyn':                      # C15/C16: dynamically typed Python values (Gen/DynPrelude.lean)
        from harness import translate_dyn
        return translate_dyn.DynFn
    return Fn


def translate_file(repo_root, specs, namespace, out_path, header=''):
    """translate all `specs` (list of dicts: module, func[, cls], lean, params{name: kind}, lift, attrs, consts, externals,
    lens, returns) into one Lean file.  Returns dict(ok, changed, errors, functions[...])."""
    texts = []
    errors = []
    funcs = []
    known = {}
    literals = set()
    for spec in specs:
        path = os.path.join(repo_root, spec['module'])
        try:
            src = open(path).read()
            tree = ast.parse(src)
            fn = fn_class(spec)(spec, tree, src.splitlines(keepends=True), known)
            lean = fn.translate()
            literals |= fn.literals
            doc = '/-- translated from %s:%d `%s` -/\n' % (
                spec['module'], fn.lineno, (spec.get('cls', '') + '.' if spec.get('cls') else '') + spec['func'])
            texts.append(doc + lean)
            known[spec.get('callname', spec['func'])] = dict(lean=spec.get('lean', spec['func']),
                                                            arg_kinds=fn.arg_kinds, arg_names=fn.arg_names,
                                                            index_dims=fn.index_dims,
                                                            extra_params=list(fn.extra_params),
                                                            **getattr(fn, 'known_extra', {}))
            funcs.append(dict(module=spec['module'], func=spec['func'], line=fn.lineno,
                              sha=hashlib.sha256(fn.src.encode()).hexdigest()[:16],
                              extra_params=[n for n, _ in fn.extra_params], float_consts=fn.float_consts,
                              lean=spec.get('lean', spec['func']),
                              # literal parameters as they appear in the generated signature (named after their value)
                              literal_params=sorted(set(re.findall(r'\((c\d\w*) : α\)', lean.split(':=')[0])))))
        except (Untranslatable, SyntaxError, OSError) as e:
            errors.append('%s:%s: %s' % (spec['module'], spec['func'], e))
            # keep the file compiling: the missing definition makes the tie theorem fail, which is the signal
            texts.append('-- NOT TRANSLATABLE: %s\n' % str(e).replace('\n', ' ')[:300])
        except Exception as e:   # a source text the translator does not even parse into its subset: same signal, never INFRA
            errors.append('%s:%s: translator error %s: %s' % (spec['module'], spec['func'], type(e).__name__, e))
            texts.append('-- NOT TRANSLATABLE (translator error %s): %s\n' % (type(e).__name__, str(e).replace('\n', ' ')[:300]))
    lits = ' '.join('[OfNat α %d]' % n for n in sorted(literals))
    body = ('/-\n  GENERATED by harness/translate.py from the source text of the taurex package under check — do not edit.\n'
            '  %s\n-/\nimport TaurexModel.Num\n%sset_option linter.unusedVariables false\n\nnamespace %s\n\nsection\nvariable {α : Type} [Add α] [Sub α] [Mul α] [Div α] '
            '[Neg α] [LT α] [LE α]\n  [DecidableLT α] [DecidableLE α] [Taurex.Transc α] %s\nopen Taurex\n\n'
            % (header, ('import TaurexModel.Gen.Prelude\n' if any(sp.get('dialect') == 'list' for sp in specs) else '')
               + ('import TaurexModel.Gen.SeqPrelude\n' if any(sp.get('dialect') == 'seq' for sp in specs) else '')
               + ('import TaurexModel.Gen.PyPrelude\n' if any(sp.get('dialect') == 'py' for sp in specs) else '')
               + ('import TaurexModel.Gen.DynPrelude\n' if any(sp.get('dialect') == 'dyn' for sp in specs) else ''),
               namespace, lits))
    body += '\n'.join(texts)
    body += '\nend\n\nend %s\n' % namespace
    old = open(out_path).read() if os.path.exists(out_path) else None
    changed = old != body
    if changed:
        os.makedirs(os.path.dirname(out_path), exist_ok=True)
        tmp = out_path + '.tmp%d' % os.getpid()
        open(tmp, 'w').write(body)
        os.replace(tmp, out_path)
    return dict(ok=not errors, changed=changed, errors=errors, functions=funcs, path=out_path)


from harness import translate_arr                        # noqa: E402  (array / method idioms: the `*_ext` hooks of Fn)
translate_arr.install(Fn)
