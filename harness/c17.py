"""C17 — observations load independent of row order, with aligned columns and units.

Correspondence: Observation.load / createBinner / binModel (driver_c17) against ArraySpectrum (array),
ObservedSpectrum (text file written in a scratch directory) and TaurexSpectrum (HDF5 file written in a scratch
directory in the layout `_load_from_hdf5` reads), built from the same rows in random permutations.  The property's
own predicates (order independence, ascending wavenumbers = 10000/wavelength, rows kept together, width conversion,
edge consistency, binner alignment) are evaluated on the real objects for every judged case."""
import os
import shutil
import tempfile
import numpy as np
from harness import common as C

RULE = ('2-40 rows with distinct positive wavelengths (linear / log / random spacing, 0.3-30 um), non-uniform values, '
        'errors and (4-column) bin widths; each case is loaded from two row permutations (identity/reversed/random) '
        'through ArraySpectrum, ObservedSpectrum (text), TaurexSpectrum (HDF5) and taurex.util.hdf5.'
        'taurex_hdf5_to_observation (the same HDF5 file); a random native model is binned to the observation; holder '
        'stream: one Optimizer given 1-4 observations in turn (constructor, then set_observed; same / different row '
        'counts, None in between, all four sources), its chisq_trans judged after every step; program stream: taurex.taurex.main '
        'run in process on a par file ([Observation] text file / TauREx-HDF5 file / taurex_spectrum = self, [Instrument] '
        'snr / file / absent, [Binning] absent / native / observed / manual accurate or not, four grid keywords) with -o, the '
        'Observed/* and Output/Spectra/binned_* datasets of the output judged wherever the program binds its output to the '
        'observation; caller stream (array source): whole-number rows handed over as an int64 / int32 array, the caller re-using '
        'its input buffer after the observation is built (rows already longest-wavelength-first included), native models that '
        'cover the observation only partly (bins wholly below / above the model), and a binner that has binned another native '
        'grid of the same length before. distinct non-trivial = distinct (source, columns, spacing, permutation kind, number of rows) '
        'with non-uniform errors/widths')
ASSUMPTIONS = ['argsort = stable insertion sort by key (distinct wavelengths)',
               'np.loadtxt / np.savetxt(%.17g) and h5py round-trip float64 exactly (container I/O is external: files are '
               'really written and really read by the repo loaders)',
               'np.searchsorted as in C05; rounding not modelled: rel 1e-12 on loaded quantities, 1e-10 on binned',
               'program stream: ConfigObj parsing of the par file, the forward model and the instrument are not modelled: the '
               'native spectrum and the instrument result (Output/Spectra/native_*, instrument_* of the output file) are '
               'inputs of Observation.Program; the content of a manual [Binning] grid is not judged',
               'source tie: the numpy primitives are the definitions of lean/TaurexModel/Gen/Prelude.lean (element-wise ops with 1-D broadcasting, slices, searchsorted = count, stable argsort, masks, np.where, take); the list dialect of the translator (harness/translate_list.py) is part of the trusted base; for the translated file loaders the content of the file is an input (the four HDF5 datasets as optional arrays, absent = KeyError; the array np.loadtxt returns)']

REL = 1e-12

# source tie (list dialect of the source translator, harness/translate_list.py): regenerated on every run into
# lean/TaurexModel/Gen/SrcC17.lean; lean/Props/C17Src.lean proves each definition equal to the model
# (TaurexModel/Observation.lean).  `self._obs_spectrum` is a 2-D array (`List (List α)`, one inner list per row); an object
# is represented by the values of the attributes its methods assign (`state`).
_AS = 'taurex/data/spectrum/array.py'
_TS = 'taurex/data/spectrum/taurex.py'
_OS = 'taurex/data/spectrum/observed.py'
_AS_ATTRS = {'self._obs_spectrum': ('obs', 'rows'), 'self._bin_widths': ('bin_widths', 'list'),
             'self._bin_edges': ('bin_edges', 'list'), 'self._wnwidths': ('wnwidths', 'list')}


def _as(func, **kw):
    return dict(dialect='list', module=_AS, cls='ArraySpectrum', func=func, callname='self.' + func,
                lean=func.lstrip('_'), params={}, attrs=_AS_ATTRS, rows_ncols='ncols', **kw)


SRC_SPECS = [
    dict(dialect='list', module='taurex/util/util.py', func='compute_bin_edges', lean='compute_bin_edges',
         params=dict(wngrid='list')),
    dict(dialect='list', module='taurex/util/util.py', func='wnwidth_to_wlwidth', lean='wnwidth_to_wlwidth',
         params=dict(wngrid='list', wnwidth='list')),
    dict(dialect='list', module='taurex/binning/fluxbinner.py', cls='FluxBinner', func='__init__', callname='FluxBinner',
         lean='fluxbinner_init', params=dict(wngrid='list', wngrid_width='list'),
         attrs={'self._wngrid': ('u_wngrid', 'list'), 'self._wngrid_width': ('u_wngrid_width', 'list')},
         state=['self._wngrid', 'self._wngrid_width'], raise_value='([], [])'),
    _as('rawData', prop=True),
    _as('wavelengthGrid', prop=True),
    _as('_sort_spectrum', state=['self._obs_spectrum']),
    _as('manual_binning', state=['self._bin_edges', 'self._bin_widths']),
    _as('_process_spectrum', state=['self._bin_widths', 'self._bin_edges']),
    dict(_as('__init__', state=['self._obs_spectrum', 'self._bin_widths', 'self._bin_edges', 'self._wnwidths']),
         callname='ArraySpectrum', lean='arrayspectrum_init', params=dict(spectrum='rows')),
    _as('spectrum', prop=True),
    _as('wavenumberGrid', prop=True),
    _as('binEdges', prop=True),
    _as('binWidths', prop=True),
    _as('errorBar', prop=True),
    dict(dialect='list', module='taurex/data/spectrum/spectrum.py', cls='BaseSpectrum', func='create_binner',
         lean='create_binner', params={}),
    # the binner applied to a forward model: obs.create_binner().bin_model((native_wn, native_spectrum))
    dict(dialect='list', module='taurex/binning/fluxbinner.py', cls='FluxBinner', func='bindown', callname='self.bindown',
         lean='fluxbinner_bindown', params=dict(wngrid='list', spectrum='list', grid_width='none', error='none'),
         attrs={'self._wngrid': ('u_wngrid', 'list'), 'self._wngrid_width': ('u_wngrid_width', 'list')}),
    dict(dialect='list', module='taurex/binning/binner.py', cls='Binner', func='bin_model', lean='bin_model',
         params=dict(model_output=('tuple', ('list', 'list')))),
    # the two file loaders.  The content of the file is an input: the four datasets `_load_from_hdf5` reads are the
    # parameters `h5_Output_Spectra_<name> : Option (List α)` (named after the path strings in the source text; `none` = no
    # such object = KeyError), the array `np.loadtxt` returns is `loadtxt filename`.  `super().__init__(…)` is the
    # translated `ArraySpectrum.__init__` (`resolve_super`: the single base class of the loader's class).
    dict(dialect='list', module=_TS, cls='TaurexSpectrum', func='_load_from_hdf5', callname='self._load_from_hdf5',
         lean='load_from_hdf5', params=dict(filename='str'), raise_value='[]',
         resources={'h5py.File': dict(lean='h5', args=['str', ('const', 'r')],
                                      datasets={'Output/Spectra/instrument_' + k: 'list'
                                                for k in ('wngrid', 'spectrum', 'noise', 'wnwidth')})}),
    dict(dialect='list', module=_TS, cls='TaurexSpectrum', func='__init__', callname='TaurexSpectrum',
         lean='taurexspectrum_init', params=dict(filename='str'), attrs=_AS_ATTRS, rows_ncols='ncols', resolve_super=True,
         state=['self._obs_spectrum', 'self._bin_widths', 'self._bin_edges', 'self._wnwidths']),
    dict(dialect='list', module=_OS, cls='ObservedSpectrum', func='__init__', callname='ObservedSpectrum',
         lean='observedspectrum_init', params=dict(filename='str'), attrs=_AS_ATTRS, rows_ncols='ncols', resolve_super=True,
         vexternals={'np.loadtxt': dict(lean='loadtxt', args=['str'], ret='rows')},
         state=['self._obs_spectrum', 'self._bin_widths', 'self._bin_edges', 'self._wnwidths']),
]
# 'hdf5-util': the same TauREx-HDF5 file loaded through the OTHER public loader, taurex.util.hdf5.taurex_hdf5_to_observation
# (what `taurex-plot` / scripts use); both are the model's `fromTaurex` rows handed to `load`
SOURCES = ['array', 'text', 'hdf5', 'hdf5-util']


def gen_rows(rng, k):
    n = int(rng.integers(2, 41)) if rng.random() < 0.8 else int(rng.integers(2, 5))
    spacing = ['linear', 'log', 'random'][k % 3]
    if spacing == 'linear':
        wl = rng.uniform(0.3, 5) + rng.uniform(0.005, 0.5) * np.arange(n)
    elif spacing == 'log':
        wl = rng.uniform(0.3, 5) * rng.uniform(1.005, 1.3) ** np.arange(n)
    else:
        wl = rng.uniform(0.3, 2) + np.cumsum(10 ** rng.uniform(-2.5, 0, size=n))
    v = 10 ** rng.uniform(-4, -1) * (1 + 0.2 * rng.standard_normal(n))
    e = 10 ** rng.uniform(-6, -3, size=n)
    d = np.diff(wl)
    near = np.minimum(np.concatenate([[d[0]], d]), np.concatenate([d, [d[-1]]]))
    wstyle = rng.random()
    if wstyle < 0.6:      # disjoint bins
        bw = near * rng.uniform(0.2, 0.95, size=n)
    else:                 # gaps and overlaps
        bw = near * 10 ** rng.uniform(-1, 0.5, size=n)
    bw = np.minimum(bw, 1.5 * wl)       # keep the lower wavelength edge positive
    return spacing, np.column_stack([wl, v, e, bw])


def perm_of(rng, n, kind):
    if kind == 'identity':
        return np.arange(n)
    if kind == 'reversed':
        return np.arange(n)[::-1].copy()
    return rng.permutation(n)


def gen_case(rng, k):
    spacing, rows = gen_rows(rng, k)
    n = len(rows)
    ncol = 3 if (k // 3) % 2 == 0 else 4
    source = SOURCES[(k // 6) % len(SOURCES)]
    if source.startswith('hdf5'):
        ncol = 4
    pk = ['identity', 'reversed', 'random', 'random'][(k // 2) % 4]
    p1 = perm_of(rng, n, pk)
    p2 = rng.permutation(n)
    # a native model on a grid finer than the observation, covering it with a margin
    wn = 10000 / rows[:, 0]
    m = int(rng.integers(20, 200))
    lo, hi = wn.min() * rng.uniform(0.7, 0.98), wn.max() * rng.uniform(1.02, 1.3)
    nc = np.geomspace(lo, hi, m) if rng.random() < 0.4 else np.linspace(lo, hi, m)
    nc = np.unique(nc)
    if rng.random() < 0.3:
        nc = nc[rng.permutation(len(nc))]
    ns = 10 ** rng.uniform(-4, -1) * (1 + 0.3 * np.sin(nc / rng.uniform(20, 2000)) + 0.1 * rng.standard_normal(len(nc)))
    return dict(spacing=spacing, rows=rows[:, :ncol], ncol=ncol, source=source, perm_kind=pk, p1=p1, p2=p2,
                nc=nc, ns=ns)


# ----------------------------------------------------------------------------- caller stream
# What the CALLER does around the loader (array source): the element type of the array it hands over (whole-number rows as an
# integer array: wavelengths in whole microns, depths and errors in whole ppm), what it does with its array afterwards (the
# buffer is re-used for the next data set), which native model it bins with the created binner (one that covers the observation
# only partly: observation bins wholly below / above the model's range) and what the binner object has binned before (another
# native grid with the same number of points).  The loaded object and the binned model are judged exactly as in the plain stream
# (Observation.load / binModel of the Lean model on the float rows, then the property's predicates).
CALLER_DTYPES = ['int64', 'float64', 'int32']
COVERAGE = ['full', 'low-cut', 'high-cut', 'both-cut']


def gen_int_rows(rng):
    """whole-number rows (wavelength, value, error, width) with odd and even wavelength spacings"""
    n = int(rng.integers(2, 25)) if rng.random() < 0.8 else int(rng.integers(2, 5))
    wl = int(rng.integers(3, 12)) + np.concatenate([[0], np.cumsum(rng.integers(1, 5, size=n - 1))])
    v = rng.integers(100, 30000, size=n)
    e = rng.integers(1, 500, size=n)
    d = np.diff(wl)
    near = np.minimum(np.concatenate([[d[0]], d]), np.concatenate([d, [d[-1]]]))
    bw = np.array([int(rng.integers(1, max(2, x + (2 if rng.random() < 0.3 else 0)))) for x in near])
    return np.column_stack([wl, v, e, bw]).astype(float)


def gen_caller_case(rng, k):
    dtype = CALLER_DTYPES[k % 3]
    if dtype == 'float64':
        spacing, rows = gen_rows(rng, int(rng.integers(0, 3)))
    else:
        spacing, rows = 'whole-numbers', gen_int_rows(rng)
    n = len(rows)
    ncol = 3 if (k // 3) % 2 == 0 else 4
    pk = ['reversed', 'identity', 'random', 'reversed', 'random'][(k // 2) % 5]
    coverage = COVERAGE[(k // 6) % 4] if (k // 24) % 2 == 0 else COVERAGE[int(rng.integers(0, 4))]
    wn = np.sort(10000 / rows[:, 0])
    lo, hi = wn[0] * rng.uniform(0.7, 0.98), wn[-1] * rng.uniform(1.02, 1.3)
    j = int(rng.integers(1, n))
    if coverage in ('low-cut', 'both-cut'):       # the model starts inside the observation: the bins below it have no model
        lo = wn[j] * rng.uniform(0.97, 1.0) if rng.random() < 0.7 else 0.5 * (wn[j - 1] + wn[j])
    if coverage in ('high-cut', 'both-cut'):
        jj = j if coverage == 'both-cut' else int(rng.integers(0, n - 1))
        hi = wn[jj] * rng.uniform(1.0, 1.03) if rng.random() < 0.7 else 0.5 * (wn[jj] + wn[min(jj + 1, n - 1)])
        if coverage == 'both-cut' and hi <= lo * 1.001:
            hi = lo * rng.uniform(1.01, 1.2)
    m = int(rng.integers(20, 200))
    geo = rng.random() < 0.4
    nc = np.unique(np.geomspace(lo, hi, m) if geo else np.linspace(lo, hi, m))
    ns = 10 ** rng.uniform(-4, -1) * (1 + 0.3 * np.sin(nc / rng.uniform(20, 2000)) + 0.1 * rng.standard_normal(len(nc)))
    c = dict(stream='caller', spacing=spacing, rows=rows[:, :ncol], ncol=ncol, source='array', perm_kind=pk,
             p1=perm_of(rng, n, pk), p2=rng.permutation(n), nc=nc, ns=ns, dtype=dtype, reuse_buffer=bool(k % 2 == 0),
             coverage=coverage)
    if (k // 3) % 3 != 2:
        # another native model binned first by the same binner: same number of points, other spacing and range
        lo0, hi0 = lo * rng.uniform(0.5, 1.5), hi * rng.uniform(0.8, 2.0)
        if hi0 <= lo0 * 1.01:
            hi0 = lo0 * 2
        nc0 = np.linspace(lo0, hi0, len(nc)) if geo else np.geomspace(lo0, hi0, len(nc))
        c['nc0'] = nc0
        c['ns0'] = 10 ** rng.uniform(-4, -1) * (1 + 0.3 * rng.standard_normal(len(nc0)))
    return c


def build(source, rows, tmp, tag, dtype=None, keep=None):
    """construct the real object from the array rows (wavelength, value, error[, width]).  `dtype` (array source): the
    element type of the array the caller hands over (whole-number rows as an integer array); `keep`: a list that receives
    the very buffer handed to ArraySpectrum (the caller's array, which the caller may go on using)"""
    from taurex.data.spectrum.array import ArraySpectrum
    from taurex.data.spectrum.observed import ObservedSpectrum
    from taurex.data.spectrum.taurex import TaurexSpectrum
    rows = np.asarray(rows, float)
    if source == 'array':
        buf = rows.copy() if dtype in (None, 'float64') else np.ascontiguousarray(rows.astype(dtype))
        if keep is not None:
            keep.append(buf)
        return ArraySpectrum(buf), rows, 0 if rows.shape[1] == 3 else 1
    if source == 'text':
        fn = os.path.join(tmp, 'obs_%s.dat' % tag)
        np.savetxt(fn, rows, fmt='%.17g')
        return ObservedSpectrum(fn), rows, 0 if rows.shape[1] == 3 else 1
    import h5py
    fn = os.path.join(tmp, 'obs_%s.h5' % tag)
    wl, v, e, bw = rows.T
    wn = 10000 / wl
    wnw = 10000 * bw / wl ** 2
    with h5py.File(fn, 'w') as f:
        g = f.create_group('Output').create_group('Spectra')
        g['instrument_wngrid'] = wn
        g['instrument_spectrum'] = v
        g['instrument_noise'] = e
        g['instrument_wnwidth'] = wnw
    if source == 'hdf5-util':
        from taurex.util.hdf5 import taurex_hdf5_to_observation
        return taurex_hdf5_to_observation(fn), np.column_stack([wn, v, e, wnw]), 2
    return TaurexSpectrum(fn), np.column_stack([wn, v, e, wnw]), 2


def observe(o, nc, ns, first=None):
    b = o.create_binner()
    if first is not None:
        # the SAME binner object has binned another native model before (another native grid with the same number of points)
        b.bin_model((np.asarray(first[0], float), np.asarray(first[1], float), None, None))
    bm = b.bin_model((np.asarray(nc, float), np.asarray(ns, float), None, None))
    return dict(wn=np.asarray(o.wavenumberGrid, float), spectrum=np.asarray(o.spectrum, float),
                error=np.asarray(o.errorBar, float), widths=np.asarray(o.binWidths, float),
                edges=np.asarray(o.binEdges, float), bgrid=np.asarray(b._wngrid, float),
                bwidth=np.asarray(b._wngrid_width, float), bgrid_out=np.asarray(bm[0], float),
                binned=np.asarray(bm[1], float))


OBS = ['wn', 'spectrum', 'error', 'widths', 'edges', 'bgrid', 'bwidth', 'binned']


def eval_case(ctx, c, tmp=None):
    own = tmp is None
    if own:
        tmp = tempfile.mkdtemp(prefix='verif_c17_')
    try:
        _eval(ctx, c, tmp)
    finally:
        if own:
            shutil.rmtree(tmp, ignore_errors=True)


def _eval(ctx, c, tmp):
    from harness import c05
    rows = np.asarray(c['rows'], float)
    n, ncol = rows.shape
    source = c['source']
    nc = np.asarray(c['nc'], float)
    ns = np.asarray(c['ns'], float)
    p1, p2 = np.asarray(c['p1'], int), np.asarray(c['p2'], int)
    full = dict(c)
    small = dict(source=source, ncol=ncol, n=n, spacing=c.get('spacing'), perm=c.get('perm_kind'))
    # caller stream (all optional: absent = the plain case)
    dtype = c.get('dtype')
    first = (np.asarray(c['nc0'], float), np.asarray(c['ns0'], float)) if c.get('nc0') is not None else None
    keep = []
    try:
        o1, stored1, kind = build(source, rows[p1], tmp, 'a', dtype=dtype, keep=keep)
        o2, stored2, _ = build(source, rows[p2], tmp, 'b', dtype=dtype, keep=keep)
        if c.get('reuse_buffer'):
            # the caller goes on using ITS arrays (the next data set is written into the same buffers)
            for buf in keep:
                buf[...] = buf[::-1] * 3 + 1
        r1 = observe(o1, nc, ns, first)
        r2 = observe(o2, nc, ns, first)
    except Exception as e:
        ctx.violation('load-raises:' + source, 'loading a well-formed observation raised %r' % (e,), full)
        return
    # ---- model
    d = ctx.model().call('c17.load', C.N(kind), C.LL(stored1.tolist()), C.L(nc), C.L(ns))
    mod = {}
    for name in OBS:
        mod[name] = np.array(d.list())
    scale = float(np.max(np.abs(ns)))
    for name in OBS:
        ctx.check_close('%s.%s vs Observation model' % (type(o1).__name__, name), r1[name], mod[name], full,
                        rel=1e-10 if name == 'binned' else REL, abs_=1e-12 * scale if name == 'binned' else 0.0)
    nonuniform = len(set(rows[:, 2].tolist())) > 1
    ctx.case(key=(source, ncol, c.get('spacing'), c.get('perm_kind'), n) if nonuniform else None,
             sample=dict(small, wn=r1['wn'][:3], widths=r1['widths'][:3], model_wn=mod['wn'][:3]),
             bucket='source:' + source)
    ctx.bucket('columns:%d' % ncol)
    ctx.bucket('perm:' + str(c.get('perm_kind')))
    ctx.bucket('spacing:' + str(c.get('spacing')))
    if c.get('stream') == 'caller':
        ctx.bucket('caller:array-dtype:' + str(dtype or 'float64'))
        ctx.bucket('caller:input-buffer:' + ('reused-by-caller-afterwards' if c.get('reuse_buffer') else 'left-alone'))
        ctx.bucket('caller:binner:' + ('used-before-on-another-native-grid-of-equal-length' if first is not None else 'fresh'))
        ctx.bucket('caller:native-coverage:' + str(c.get('coverage')))
        if c.get('perm_kind') == 'reversed':
            ctx.bucket('caller:rows-already-longest-wavelength-first')

    # ---- the property's predicates on the implementation
    # (1) order independence
    for name in OBS + ['bgrid_out']:
        if not C.close(r1[name], r2[name], rel=1e-15):
            ctx.violation('order-dependent:%s:%s' % (source, name),
                          'two row orders of the same observation load differently (%s)' % name, full,
                          dict(first=r1[name], second=r2[name]))
    # expected rows: sorted by wavelength descending, each row kept whole (independent sort of python tuples)
    exp = np.array(sorted([tuple(r) for r in rows.tolist()], key=lambda r: -r[0]))
    wl = exp[:, 0]
    tol = dict(rel=REL) if not source.startswith('hdf5') else dict(rel=1e-11)   # hdf5 path converts wl -> wn -> wl
    if ncol == 4:
        q = float(np.max(rows[:, 3] / rows[:, 0]))
        ctx.bucket('%s:max-width/centre:%s' % (source, '<0.02' if q < 0.02 else '0.02-0.2' if q < 0.2 else '>=0.2'))
    # (2) wavenumbers ascending and equal to 10000/wavelength
    if not np.all(np.diff(r1['wn']) > 0):
        ctx.violation('wn-not-ascending:' + source, 'wavenumber grid is not strictly ascending', full,
                      dict(wn=r1['wn']))
    if not C.close(r1['wn'], 10000 / wl, **tol):
        ctx.violation('wn-not-10000-over-wl:' + source, 'wavenumberGrid is not 10000/wavelength of the sorted rows',
                      full, dict(wn=r1['wn'], expected=10000 / wl))
    # (3) each value / error stays with its wavelength
    if not C.close(r1['spectrum'], exp[:, 1], rel=0) or not C.close(r1['error'], exp[:, 2], rel=0):
        ctx.violation('columns-misaligned:' + source, 'spectrum / error bars are not attached to their own wavelength',
                      full, dict(spectrum=r1['spectrum'], expected=exp[:, 1], error=r1['error'],
                                 expected_error=exp[:, 2]))
    # (4) widths: converted to wavenumber at their own wavelength, or mid-point widths when absent
    if ncol == 4:
        bw = exp[:, 3]
        ed = np.column_stack([wl + bw / 2, wl - bw / 2]).ravel()
    else:
        ed = np.concatenate([[wl[0] - (wl[1] - wl[0]) / 2], (wl[1:] + wl[:-1]) / 2, [wl[-1] + (wl[-1] - wl[-2]) / 2]])
        bw = np.abs(np.diff(ed))
    if not C.close(r1['widths'], 10000 * bw / wl ** 2, **tol):
        ctx.violation('widths-wrong:%s:%dcol' % (source, ncol),
                      'binWidths is not 10000*width/wavelength^2 of the row\'s own (or mid-point) width', full,
                      dict(widths=r1['widths'], expected=10000 * bw / wl ** 2))
    # (5) edges consistent with centres and widths
    if not C.close(r1['edges'], 10000 / ed, rel=1e-11):
        ctx.violation('edges-inconsistent:%s:%dcol' % (source, ncol),
                      'binEdges is not 10000/(wavelength -+ width/2) (4 columns) or 10000/mid-points (3 columns)',
                      full, dict(edges=r1['edges'], expected=10000 / ed))
    # (6) the binner bins onto exactly those centres and widths, element by element
    if not C.close(r1['bgrid'], r1['wn'], rel=0) or not C.close(r1['bwidth'], r1['widths'], rel=0) or \
            not C.close(r1['bgrid_out'], r1['wn'], rel=0):
        ctx.violation('binner-misaligned:' + source, 'create_binner() does not hold the observation\'s centres and '
                      'widths in the observation\'s order', full,
                      dict(bgrid=r1['bgrid'], wn=r1['wn'], bwidth=r1['bwidth'], widths=r1['widths']))
    # (7) a model binned to the observation is the overlap mean for row i's own bin, at index i
    order = np.argsort(nc, kind='stable')
    snc, sns = nc[order], ns[order]
    from taurex.util.util import compute_bin_edges
    snw = compute_bin_edges(snc)[-1]
    lo, hi = snc - snw / 2, snc + snw / 2
    ordered = bool(np.all(np.diff(lo) >= 0) and np.all(np.diff(hi) >= 0))
    cw = 10000 / wl
    ww = 10000 * bw / wl ** 2
    if ordered:
        for i in range(n):
            a, b = cw[i] - ww[i] / 2, cw[i] + ww[i] / 2
            ov, S, val, q = c05.oracle(lo, hi, sns.reshape(1, -1), None, a, b)
            if c.get('stream') == 'caller' and not S > 0:
                ctx.bucket('caller:observation-bin-wholly-%s-the-native-grid' % ('below' if b <= lo[0] else 'above'
                                                                                 if a >= hi[-1] else 'between-points-of'))
            if S > 1e-9 * ww[i] and not C.close(r1['binned'][i], val[0], rel=1e-8, abs_=1e-12 * scale):
                ctx.violation('binned-model-misaligned:' + source,
                              'model binned to the observation: element i is not the overlap mean over the bin of '
                              'observation i', full, dict(i=i, impl=r1['binned'][i], expected=val[0]))
                break
    else:
        ctx.malformed_outcome('native-model-grid-not-ordered')


# ----------------------------------------------------------------------------- holder stream: the consumer of create_binner
# "The binner created from the observation bins onto exactly those centres and widths, so a model binned to the observation
# is aligned element by element with the observed values": the object that holds an observation together with the binner
# created from it is the Optimizer (`Optimizer(observed=…)`, `set_observed`), and `chisq_trans` is where the binned model meets
# `observed.spectrum` element by element.  One optimizer is given a HISTORY of observations; after every step it is judged
# against Observation.Holder (TaurexModel/ObsHolder.lean, theorems holder_invariant / holder_aligned).
_HFX = {}


def holder_fixtures():
    if _HFX:
        return _HFX
    from taurex.model import ForwardModel

    class TableModel(ForwardModel):
        """a forward model that is a fixed table (native wavenumber grid, spectrum); no parameters"""

        def __init__(self, nc, ns):
            super().__init__('TableModel')
            self._nc = np.asarray(nc, float)
            self._ns = np.asarray(ns, float)

        def build(self):
            pass

        def initialize_profiles(self):
            pass

        @property
        def nativeWavenumberGrid(self):
            return self._nc

        def model(self, wngrid=None, cutoff_grid=True):
            return self._nc, self._ns, np.zeros((1, len(self._nc))), None

    _HFX['TableModel'] = TableModel
    return _HFX


def wn_edges(rows, ncol):
    """wavenumber edges of the bins of an observation given as rows (None if a wavelength edge is not positive)"""
    r = np.array(sorted([tuple(x) for x in np.asarray(rows, float).tolist()], key=lambda x: -x[0]))
    wl = r[:, 0]
    if ncol == 4:
        ed = np.concatenate([wl + r[:, 3] / 2, wl - r[:, 3] / 2])
    else:
        ed = np.concatenate([[wl[0] - (wl[1] - wl[0]) / 2], (wl[1:] + wl[:-1]) / 2, [wl[-1] + (wl[-1] - wl[-2]) / 2]])
    if np.min(ed) <= 0:
        return None
    return 10000 / ed


def gen_holder_case(rng, k):
    steps = [1, 2, 2, 3, 2, 4][k % 6]
    same_n = (k % 10) < 7                   # same number of rows: the shapes agree whichever binner is used
    n0 = int(rng.integers(2, 25))
    hist, lo, hi = [], np.inf, 0.0
    for i in range(steps):
        while True:
            spacing, rows = gen_rows(rng, int(rng.integers(0, 3)))
            if same_n:
                if len(rows) < n0:
                    continue
                rows = rows[:n0]
            ncol = 3 if rng.random() < 0.4 else 4
            if i > 0 and rng.random() < 0.25 and hist[-1] is not None and hist[-1]['ncol'] == 4:
                # the previous observation's centres with other widths / values (an instrument re-reduction)
                prev = np.asarray(hist[-1]['rows'], float)
                rows = prev.copy()
                rows[:, 1] = rows[:, 1] * rng.uniform(0.5, 2.0, len(rows))
                rows[:, 3] = np.minimum(rows[:, 3] * 10 ** rng.uniform(-0.5, 0.5, len(rows)), 1.5 * rows[:, 0])
                ncol = 4
            source = SOURCES[int(rng.integers(0, len(SOURCES)))]
            if source.startswith('hdf5'):
                ncol = 4
            ed = wn_edges(rows[:, :ncol], ncol)
            if ed is not None:
                break
        lo, hi = min(lo, float(ed.min())), max(hi, float(ed.max()))
        hist.append(dict(source=source, ncol=ncol, rows=rows[rng.permutation(len(rows)), :ncol]))
    # `None` in the history (Optimizer(observed=None) first, set_observed(None) in between); the last one is an observation
    if steps >= 2 and k % 4 == 1:
        hist.insert(int(rng.integers(0, steps)), None)
    m = int(rng.integers(40, 300))
    nc = np.unique(np.geomspace(lo * 0.9, hi * 1.1, m) if rng.random() < 0.5 else np.linspace(lo * 0.9, hi * 1.1, m))
    ns = 10 ** rng.uniform(-4, -1) * (1 + 0.3 * np.sin(nc / rng.uniform(20, 2000)) + 0.1 * rng.standard_normal(len(nc)))
    return dict(stream='holder', history=hist, nc=nc, ns=ns, same_n=bool(same_n))


def eval_holder_case(ctx, c, tmp=None):
    own = tmp is None
    if own:
        tmp = tempfile.mkdtemp(prefix='verif_c17_')
    try:
        _eval_holder(ctx, c, tmp)
    finally:
        if own:
            shutil.rmtree(tmp, ignore_errors=True)


def _eval_holder(ctx, c, tmp):
    from taurex.optimizer.optimizer import Optimizer
    import logging
    from taurex.log.logger import root_logger
    root_logger.setLevel(logging.CRITICAL + 1)
    TableModel = holder_fixtures()['TableModel']
    nc = np.asarray(c['nc'], float)
    ns = np.asarray(c['ns'], float)
    hist = c['history']
    full = dict(c)
    objs, enc, desc = [], [], []
    for i, h in enumerate(hist):
        if h is None:
            objs.append(None)
            enc.append('0')
            desc.append(None)
            continue
        rows = np.asarray(h['rows'], float)
        try:
            o, stored, kind = build(h['source'], rows, tmp, 'h%d' % i)
        except Exception as e:
            ctx.violation('load-raises:' + h['source'], 'loading a well-formed observation raised %r' % (e,), full)
            return
        objs.append(o)
        enc.append('1 ' + C.N(kind) + ' ' + C.LL(stored.tolist()))
        desc.append((h['source'], h['ncol'], len(rows)))
    real = [d for d in desc if d is not None]
    ctx.case(key=('holder', len(hist), tuple(real), None in desc),
             sample=dict(stream='holder', history=[None if d is None else '%s/%dcol/%d rows' % d for d in desc]),
             bucket='holder:history-length=%d' % len(hist))
    ctx.bucket('holder:row-counts-' + ('equal' if len(set(d[2] for d in real)) == 1 else 'differ'))
    if None in desc:
        ctx.bucket('holder:None-first' if desc[0] is None else 'holder:None-in-between')
    model = TableModel(nc, ns)
    scale = float(np.max(np.abs(ns)))
    try:
        opt = Optimizer('holder', observed=objs[0], model=model)
    except Exception as e:
        ctx.violation('holder-raises:init', 'Optimizer(observed=…, model=…) raised %r' % (e,), full)
        return
    for step in range(len(hist)):
        small = dict(full, step=step)
        cur = objs[step]
        try:
            if step > 0:
                opt.set_observed(cur)
            if cur is None:
                ctx.bucket('holder:step:holds-None(unjudged)')
                continue
            opt.compile_params()        # what fit() does first; the table model and the observations have no parameters
            with np.errstate(all='ignore'):
                chi = float(opt.chisq_trans([], cur.spectrum, cur.errorBar))
        except Exception as e:
            ctx.violation('holder-raises:step', 'set_observed / chisq_trans raised %r at step %d of the history'
                          % (e, step), small)
            return
        # the property's own relation, on the real objects: the binner created from THIS observation
        ref = np.asarray(cur.create_binner().bin_model(model.model(wngrid=cur.wavenumberGrid))[1], float)
        v, e = np.asarray(cur.spectrum, float), np.asarray(cur.errorBar, float)
        if not np.all(np.isfinite(ref)):
            ctx.malformed_outcome('holder:bin-without-native-overlap')
            continue
        ctx.bucket('holder:step:' + ('first' if step == 0 else 'replaced'))
        delta = 1e-9 * (np.abs(ref) + scale)
        atol = float(np.sum((2 * np.abs(v - ref) * delta + delta ** 2) / e ** 2))
        chi_ref = float(np.sum(((v - ref) / e) ** 2))
        d = ctx.model().call('c17.holder', C.L(nc), C.L(ns), enc[0], C.N(step) + ''.join(' ' + t for t in enc[1:step + 1]))
        m_obs, m_bin = d.bool(), d.bool()
        m_bgrid, m_bwidth, m_binned = np.array(d.list()), np.array(d.list()), np.array(d.list())
        m_chi = d.opt(d.flt)
        ctx.check_eq('Optimizer holds an observation and a binner vs Observation.Holder', (True, True), (m_obs, m_bin), small)
        ctx.check_close('Optimizer.chisq_trans after a history of set_observed vs Observation.Holder.chisq', chi,
                        float('nan') if m_chi is None else m_chi, small, rel=1e-8, abs_=atol)
        ctx.check_close('model binned with create_binner() of the held observation vs Observation.Holder.binModel', ref,
                        m_binned, small, rel=1e-10, abs_=1e-12 * scale)
        b = getattr(opt, '_binner', None)
        if b is not None and hasattr(b, '_wngrid') and hasattr(b, '_wngrid_width'):
            ctx.check_close('Optimizer binner (_wngrid, _wngrid_width) vs Observation.Holder.binner',
                            np.concatenate([np.asarray(b._wngrid, float), np.asarray(b._wngrid_width, float)]),
                            np.concatenate([m_bgrid, m_bwidth]), small, rel=1e-11 if desc[step][0].startswith('hdf5') else REL)
        if not C.close(chi, chi_ref, rel=1e-8, abs_=atol):
            ctx.violation('optimizer-binner-not-of-current-observation',
                          'after step %d of a history of observations given to one optimizer, chisq_trans is not the '
                          'chi-squared of the model binned with the binner created from the observation it now holds '
                          '(the binned model is not aligned with the observed values)' % step, small,
                          dict(step=step, chisq_trans=chi, expected=chi_ref, tolerance=atol,
                               history=[None if x is None else '%s/%dcol/%d rows' % x for x in desc]))
            return


# ----------------------------------------------------------------------------- program stream: `taurex -i par -o out` as the holder
# The other object that holds an observation together with a binner created from it is the command-line program
# (taurex/taurex.py:main): `[Observation]` (a text / TauREx-HDF5 file, or `taurex_spectrum = self` = the forward model seen
# through the `[Instrument]`), `[Binning]` (absent / native / observed / manual), `[Instrument]` (snr / file / absent).  It
# writes the observation (`Observed/*`) next to the forward model binned with the binner it holds (`Output/Spectra/binned_*`).
# Wherever the program binds the output to the observation (self with whatever [Binning]; a file with no [Binning] section or
# bin_type = observed) the binned model must sit on exactly the observation's centres and widths, element by element:
# judged against Observation.Program (TaurexModel/ObsHolder.lean, theorems program_binner_of_observation / program_aligned).
_PFX = {}
PROG_MODEL = """[Global]
[Chemistry]
chemistry_type = taurex
fill_gases = H2, He
ratio = 0.17
    [[H2O]]
    gas_type = constant
    mix_ratio = %(mix)r
[Temperature]
profile_type = isothermal
T = %(T)r
[Pressure]
profile_type = Simple
atm_min_pressure = 1e-2
atm_max_pressure = 1e6
nlayers = 4
[Planet]
planet_type = Simple
planet_mass = 1.0
planet_radius = 1.0
[Star]
star_type = blackbody
[Model]
model_type = transmission
    [[Absorption]]
"""
# (observation, instrument, binning) routes of one quota cycle; J = the program binds its output to the observation (judged),
# U = it does not (declared / native grid, or no observation: recorded), R = the unchanged program stops (malformed stream)
PROG_ROUTES = [
    ('self', 'file', 'absent', 'J'), ('self', 'file', 'manual-accurate', 'J'), ('self', 'snr', 'manual-accurate', 'J'),
    ('text', 'none', 'absent', 'J'), ('self', 'file', 'native', 'J'), ('hdf5', 'none', 'observed', 'J'),
    ('self', 'snr', 'manual-simple', 'J'), ('text', 'file', 'observed', 'J'), ('self', 'file', 'manual-simple', 'J'),
    ('hdf5', 'snr', 'absent', 'J'), ('text', 'file', 'manual-accurate', 'U'), ('hdf5', 'none', 'native', 'U'),
    ('none', 'snr', 'manual-simple', 'U'), ('self', 'none', 'absent', 'R'), ('self', 'snr', 'absent', 'R'),
    ('self', 'file', 'observed', 'R'), ('none', 'none', 'observed', 'R'), ('self', 'file', 'absent', 'J'),
]
PROG_BIN_CODE = {'absent': 0, 'native': 1, 'observed': 2, 'manual-accurate': 3, 'manual-simple': 3}


def program_fixtures():
    if _PFX:
        return _PFX
    from taurex.opacity.interpolateopacity import InterpolatingOpacity
    from taurex.cache import OpacityCache
    wn_native = np.linspace(380.0, 30000.0, 360)
    tg = np.array([200.0, 1000.0, 3000.0])
    pg = np.array([1e-3, 1e2, 1e8])
    base = 1e-22 * (1.5 + np.sin(wn_native / 700.0) + 0.5 * np.cos(wn_native / 90.0))
    tab = np.array([0.7, 1.0, 1.6])[None, :, None] * np.ones((3, 1, 1)) * base[None, None, :]

    class MemOpacity(InterpolatingOpacity):
        def __init__(self):
            super().__init__('MemOpacity', interpolation_mode='linear')

        moleculeName = 'H2O'
        xsecGrid = property(lambda self: tab)
        wavenumberGrid = property(lambda self: wn_native)
        temperatureGrid = property(lambda self: tg)
        pressureGrid = property(lambda self: pg)

    OpacityCache().clear_cache()
    OpacityCache().add_opacity(MemOpacity())
    _PFX['native'] = wn_native
    return _PFX


def gen_prog_rows(rng):
    """rows (wavelength, value, error, width) whose bins lie inside the native grid of the program fixture (0.45-22 um)"""
    while True:
        n = int(rng.integers(2, 26))
        lo = float(rng.uniform(0.55, 3.0))
        hi = float(rng.uniform(lo * 1.4, 17.0))
        style = int(rng.integers(0, 3))
        if style == 0:
            wl = np.linspace(lo, hi, n)
        elif style == 1:
            wl = np.geomspace(lo, hi, n)
        else:
            wl = np.sort(rng.uniform(lo, hi, n))
        d = np.diff(wl)
        if np.min(d) < 1e-3 * lo:
            continue
        near = np.minimum(np.concatenate([[d[0]], d]), np.concatenate([d, [d[-1]]]))
        bw = near * (rng.uniform(0.2, 0.95, n) if rng.random() < 0.6 else 10 ** rng.uniform(-1, 0.4, n))
        v = 10 ** rng.uniform(-3, -1) * (1 + 0.2 * rng.standard_normal(n))
        e = 10 ** rng.uniform(-6, -3, size=n)
        rows = np.column_stack([wl, v, e, bw])
        ok = True
        for ncol in (3, 4):
            ed = wn_edges(rows[:, :ncol], ncol)
            if ed is None or ed.min() < 480.0 or ed.max() > 27000.0:
                ok = False
        if ok:
            return rows[rng.permutation(n)]


def gen_program_case(rng, k):
    obs, inst, binning, cls = PROG_ROUTES[k % len(PROG_ROUTES)]
    c = dict(stream='program', obs=obs, inst=inst, binning=binning, route_class=cls,
             T=float(np.round(rng.uniform(600.0, 2000.0), 1)), mix=float(10 ** np.round(rng.uniform(-5, -3), 2)))
    if obs in ('text', 'hdf5'):
        rows = gen_prog_rows(rng)
        c['obs_ncol'] = 4 if (obs == 'hdf5' or rng.random() < 0.6) else 3
        c['obs_rows'] = rows[:, :c['obs_ncol']]
    if inst == 'file':
        rows = gen_prog_rows(rng)
        c['inst_rows'] = rows[:, [0, 2, 3]]                 # (wavelength, noise, wavelength width), rows in any order
    elif inst == 'snr':
        c['snr'] = float(np.round(rng.uniform(5, 50), 1))
    if inst != 'none' and rng.random() < 0.3:
        c['num_observations'] = int(rng.integers(2, 6))
    if binning.startswith('manual'):
        start = float(np.round(rng.uniform(0.6, 2.0), 3))
        end = float(np.round(rng.uniform(6.0, 16.0), 3))
        kind = int(rng.integers(0, 4))
        if kind == 0:
            c['manual'] = 'wavelength_res = %r, %r, %d' % (start, end, int(rng.integers(8, 40)))
        elif kind == 1:
            c['manual'] = 'wavenumber_grid = %r, %r, %d' % (10000 / end, 10000 / start, int(rng.integers(5, 40)))
        elif kind == 2:
            c['manual'] = 'log_wavelength_grid = %r, %r, %d' % (start, end, int(rng.integers(5, 40)))
        else:
            c['manual'] = 'wavelength_grid = %r, %r, %d' % (start, end, int(rng.integers(5, 40)))
    return c


def write_obs_file(source, rows, tmp, tag):
    """the observation file a par file names, in the layout of `build`; returns (path, rows as stored, kind for the model)"""
    rows = np.asarray(rows, float)
    if source == 'text':
        fn = os.path.join(tmp, 'pobs_%s.dat' % tag)
        np.savetxt(fn, rows, fmt='%.17g')
        return fn, rows, 0 if rows.shape[1] == 3 else 1
    import h5py
    fn = os.path.join(tmp, 'pobs_%s.h5' % tag)
    wl, v, e, bw = rows.T
    wn = 10000 / wl
    wnw = 10000 * bw / wl ** 2
    with h5py.File(fn, 'w') as f:
        g = f.create_group('Output').create_group('Spectra')
        g['instrument_wngrid'] = wn
        g['instrument_spectrum'] = v
        g['instrument_noise'] = e
        g['instrument_wnwidth'] = wnw
    return fn, np.column_stack([wn, v, e, wnw]), 2


def eval_program_case(ctx, c, tmp=None):
    own = tmp is None
    if own:
        tmp = tempfile.mkdtemp(prefix='verif_c17_')
    try:
        _eval_program(ctx, c, tmp)
    finally:
        if own:
            shutil.rmtree(tmp, ignore_errors=True)


def _eval_program(ctx, c, tmp):
    import io
    import sys
    import contextlib
    import logging
    import h5py
    from taurex.log.logger import root_logger
    import taurex.taurex as T
    root_logger.setLevel(logging.CRITICAL + 1)
    program_fixtures()
    obs, inst, binning = c['obs'], c['inst'], c['binning']
    route = '%s/%s/%s' % (obs, inst, binning)
    cls = c.get('route_class')
    if cls is None:
        cls = 'J' if (obs == 'self' or (obs != 'none' and binning in ('absent', 'observed'))) else 'U'
    full = dict(c)
    text = PROG_MODEL % dict(T=float(c['T']), mix=float(c['mix']))
    if binning == 'native':
        text += '[Binning]\nbin_type = native\n'
    elif binning == 'observed':
        text += '[Binning]\nbin_type = observed\n'
    elif binning.startswith('manual'):
        text += '[Binning]\nbin_type = manual\n%s%s\n' % ('accurate = True\n' if binning == 'manual-accurate' else '',
                                                         c['manual'])
    obs_tok, obs_file, obs_source = '0', None, None
    if obs == 'self':
        text += '[Observation]\ntaurex_spectrum = self\n'
        obs_tok = '2'
    elif obs in ('text', 'hdf5'):
        obs_file, stored, kind = write_obs_file(obs, c['obs_rows'], tmp, 'p')
        text += '[Observation]\n%s = %s\n' % ('observed_spectrum' if obs == 'text' else 'taurex_spectrum', obs_file)
        obs_tok = '1 ' + C.N(kind) + ' ' + C.LL(stored.tolist())
    if inst == 'file':
        fn = os.path.join(tmp, 'pinst.dat')
        np.savetxt(fn, np.asarray(c['inst_rows'], float), fmt='%.17g')
        text += '[Instrument]\ninstrument = file\nfilename = %s\n' % fn
    elif inst == 'snr':
        text += '[Instrument]\ninstrument = snr\nSNR = %r\n' % float(c['snr'])
    if inst != 'none' and c.get('num_observations'):
        text += 'num_observations = %d\n' % int(c['num_observations'])
    par = os.path.join(tmp, 'prog.par')
    out = os.path.join(tmp, 'prog_out.h5')
    if os.path.exists(out):
        os.remove(out)
    with open(par, 'w') as f:
        f.write(text)
    ctx.case(key=('program', route, c.get('obs_ncol'), (c.get('manual') or '').split(' ')[0]),
             sample=dict(stream='program', route=route, manual=c.get('manual')), bucket='program:route:' + route)
    argv = sys.argv
    sys.argv = ['taurex', '-i', par, '-o', out]
    err = None
    try:
        with contextlib.redirect_stdout(io.StringIO()), contextlib.redirect_stderr(io.StringIO()):
            T.main()
    except KeyboardInterrupt:
        raise
    except BaseException as e:      # noqa  (main() also leaves through quit())
        err = e
    finally:
        sys.argv = argv
    if err is not None:
        if cls == 'R':
            ctx.malformed_outcome('program:%s:%s' % (route, type(err).__name__))
        else:
            ctx.violation('program-raises:' + route, 'taurex -i par -o out raised %r on a well-formed configuration (%s)'
                          % (err, route), full)
        return
    with h5py.File(out, 'r') as f:
        ob = {k: np.asarray(f['Observed'][k][...], float) for k in f['Observed']} if 'Observed' in f else None
        sp = {k: np.asarray(f['Output/Spectra'][k][...], float) for k in f['Output/Spectra']
              if isinstance(f['Output/Spectra'][k], h5py.Dataset)}
    nc, ns = sp['native_wngrid'], sp['native_spectrum']
    scale = float(np.max(np.abs(ns)))
    inst_tok = '0'
    if 'instrument_wngrid' in sp:
        inst_tok = '1 ' + C.LL(np.column_stack([sp['instrument_wngrid'], sp['instrument_spectrum'],
                                                sp['instrument_noise'], sp['instrument_wnwidth']]).tolist())
    ctx.bucket('program:class:' + dict(J='bound-to-observation(judged)', U='declared-or-native-grid(recorded)',
                                       R='stops-on-unchanged-tree').get(cls, cls))
    # ---- model
    try:
        d = ctx.model().call('c17.program', C.N(PROG_BIN_CODE[binning]), obs_tok, inst_tok, C.L(nc), C.L(ns))
    except C.ModelError:
        ctx.check_eq('taurex program reaches the output vs Observation.Program.run', True, False, full)
        return
    m_obs, m_tag = d.bool(), d.nat()
    m_bgrid, m_bwidth, m_binned = np.array(d.list()), np.array(d.list()), np.array(d.list())
    m_own, m_ospec, m_oerr, m_owid = (np.array(d.list()) for _ in range(4))
    ctx.check_eq('taurex program stores an observation vs Observation.Program.observed', ob is not None, m_obs, full)
    ctx.check_eq('taurex program writes a binned model (binner is not the native one) vs Observation.Program.binner',
                 'binned_spectrum' in sp, m_tag != 0, full)
    if ob is not None and m_obs:
        tol = 1e-11 if (obs == 'hdf5' or obs == 'self') else REL
        ctx.check_close('Observed/(10000/wlgrid, spectrum, errorbars) vs Observation.Program.observed',
                        np.concatenate([10000 / ob['wlgrid'], ob['spectrum'], ob['errorbars']]),
                        np.concatenate([m_own, m_ospec, m_oerr]), full, rel=tol)
        ctx.check_close('Observed/binwidths vs Observation.Program.observed.binWidths', ob['binwidths'], m_owid, full,
                        rel=tol)
    if m_tag == 2:
        got = [sp.get('binned_wngrid', np.zeros(0)), sp.get('binned_wnwidth', np.zeros(0)),
               sp.get('binned_spectrum', np.zeros(0))]
        ctx.check_close('Output/Spectra/binned_wngrid, binned_wnwidth vs Observation.Program.binner',
                        np.concatenate(got[:2]), np.concatenate([m_bgrid, m_bwidth]), full,
                        rel=1e-11 if (obs == 'hdf5' or obs == 'self') else REL)
        if np.all(np.isfinite(m_binned)):
            ctx.check_close('Output/Spectra/binned_spectrum vs Observation.Program.binModel', got[2], m_binned, full,
                            rel=1e-10, abs_=1e-12 * scale)
    if cls != 'J':
        return
    # ---- the property's own relation on the real code: the binned model that is written sits on exactly the centres and
    #      widths of the observation that is written, and is the model binned with the binner created from that observation
    key = 'program-binner-not-of-observation:' + ('self' if obs == 'self' else 'file')
    if ob is None:
        ctx.violation(key, 'the program stored no observation (%s)' % route, full)
        return
    if obs == 'self':
        from taurex.data.spectrum.taurex import TaurexSpectrum
        o = TaurexSpectrum(out)                 # the instrument result of the output file, through the public loader
    elif obs == 'text':
        from taurex.data.spectrum.observed import ObservedSpectrum
        o = ObservedSpectrum(obs_file)
    else:
        from taurex.data.spectrum.taurex import TaurexSpectrum
        o = TaurexSpectrum(obs_file)
    own = 10000 / ob['wlgrid']
    if not (C.close(own, np.asarray(o.wavenumberGrid, float), rel=1e-11) and
            C.close(ob['spectrum'], np.asarray(o.spectrum, float), rel=1e-12) and
            C.close(ob['binwidths'], np.asarray(o.binWidths, float), rel=1e-10)):
        ctx.violation('program-observation-not-the-loaded-one:' + ('self' if obs == 'self' else 'file'),
                      'the observation the program stores is not the observation its source loads to (%s)' % route, full,
                      dict(stored_wn=own, loaded_wn=o.wavenumberGrid))
        return
    missing = [k for k in ('binned_wngrid', 'binned_wnwidth', 'binned_spectrum') if k not in sp]
    if missing:
        ctx.violation(key, 'the program wrote no forward model binned onto the %d observed values (%s; the output spectra '
                      'hold only %s): its binner was not created from the observation' % (len(own), route, sorted(sp)),
                      full, dict(observed_wn=own))
        return
    if sp['binned_wngrid'].shape != own.shape or not C.close(sp['binned_wngrid'], own, rel=1e-12) or \
            not C.close(sp['binned_wnwidth'], ob['binwidths'], rel=1e-10):
        ctx.violation(key, 'the binned forward model the program writes is not on the centres and widths of the '
                      'observation it writes (%s): not aligned element by element with the observed values' % route, full,
                      dict(binned_wngrid=sp['binned_wngrid'], observed_wn=own, binned_wnwidth=sp['binned_wnwidth'],
                           observed_widths=ob['binwidths']))
        return
    ref = np.asarray(o.create_binner().bin_model((nc, ns, None, None))[1], float)
    fin = np.isfinite(ref)
    if not C.close(sp['binned_spectrum'][fin], ref[fin], rel=1e-9, abs_=1e-12 * scale):
        ctx.violation(key, 'the binned forward model the program writes is not the model binned with the binner created '
                      'from the observation (%s)' % route, full, dict(written=sp['binned_spectrum'], expected=ref))


def run(ctx):
    rng = ctx.rng
    tmp = tempfile.mkdtemp(prefix='verif_c17_')
    try:
        for k in range(ctx.n(1800, 30000)):
            eval_case(ctx, gen_case(rng, k), tmp)
        for k in range(ctx.n(240, 4000)):
            eval_holder_case(ctx, gen_holder_case(rng, k), tmp)
        for k in range(ctx.n(360, 6000)):
            eval_case(ctx, gen_caller_case(rng, k), tmp)
        for k in range(ctx.n(144, 1800)):
            eval_program_case(ctx, gen_program_case(rng, k), tmp)
        # malformed stream: outside the quantifier, recorded only
        from taurex.data.spectrum.array import ArraySpectrum
        for k in range(ctx.n(12, 60)):
            spacing, rows = gen_rows(rng, k)
            which = k % 4
            try:
                if which == 0:       # duplicate wavelengths (argsort ties)
                    rows = np.vstack([rows, rows[:1] * np.array([1, 2, 3, 1])])
                    o = ArraySpectrum(rows[rng.permutation(len(rows))])
                    ctx.malformed_outcome('duplicate-wavelength:' + (
                        'ascending' if np.all(np.diff(o.wavenumberGrid) >= 0) else 'unsorted'))
                elif which == 1:     # a single row, 3 columns
                    ArraySpectrum(rows[:1, :3])
                    ctx.malformed_outcome('single-row-3col:accepted')
                elif which == 2:     # two columns
                    ArraySpectrum(rows[:, :2])
                    ctx.malformed_outcome('two-columns:accepted')
                else:                # a non-positive wavelength
                    rows[0, 0] = 0.0
                    o = ArraySpectrum(rows[:, :3])
                    ctx.malformed_outcome('zero-wavelength:' + (
                        'finite' if np.all(np.isfinite(o.wavenumberGrid)) else 'nonfinite'))
            except Exception as e:
                ctx.malformed_outcome(['duplicate-wavelength', 'single-row-3col', 'two-columns',
                                       'zero-wavelength'][which] + ':' + type(e).__name__)
    finally:
        shutil.rmtree(tmp, ignore_errors=True)


def search(ctx):
    """failing-input search: a further stream of cases, all predicates evaluated on the real loaders"""
    tmp = tempfile.mkdtemp(prefix='verif_c17_')
    try:
        for k in range(ctx.n(2000, 10000)):
            eval_case(ctx, gen_case(ctx.rng, k), tmp)
            if k % 4 == 0:
                eval_case(ctx, gen_caller_case(ctx.rng, k // 4), tmp)
            if k % 8 == 0:
                eval_holder_case(ctx, gen_holder_case(ctx.rng, k // 8), tmp)
                eval_program_case(ctx, gen_program_case(ctx.rng, k // 8), tmp)
            if ctx.violations:
                return
    finally:
        shutil.rmtree(tmp, ignore_errors=True)


def replay(ctx, case):
    if isinstance(case.get('case'), dict):      # a replay file written by ./check wraps the input
        case = case['case']
    if case.get('stream') == 'holder':
        case = {k: v for k, v in case.items() if k != 'step'}
        eval_holder_case(ctx, case)
        return
    if case.get('stream') == 'program':
        eval_program_case(ctx, case)
        return
    eval_case(ctx, case)
