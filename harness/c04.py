"""C04 — opacity interpolation in (T, P): correspondence of Interp.computeOpacity with
Opacity.opacity(T, P, wngrid) on in-memory InterpolatingOpacity / KTable subclasses, plus the property's
own predicates evaluated on the implementation."""
import numpy as np
from harness import common as C


# ---- source tie (harness/translate.py -> lean/TaurexModel/Gen/SrcC04.lean, theorems in lean/Props/C04Src.lean)
_K = dict(x11='elem', x12='elem', x21='elem', x22='elem', T='s', Tmin='s', Tmax='s', P='s', Pmin='s', Pmax='s')
_IO = 'taurex/opacity/interpolateopacity.py'
_ATTRS = {'self.temperatureGrid': ('tg', 'arr'), 'self.logPressure': ('pg', 'arr'), 'self.xsecGrid': ('xsec', 'arr2'),
          'self.pressureMax': ('pressureMax', 's'), 'self.temperatureMax': ('temperatureMax', 's')}
_DIMS = {'self.xsecGrid': ['nP', 'nT'], 'self.temperatureGrid': ['nT'], 'self.logPressure': ['nP']}
_ENUM = {'self._interp_mode': ('mode', {'linear': 0, 'exp': 1})}
SRC_SPECS = [
    dict(module='taurex/util/math.py', func='interp_lin_only', lean='interp_lin_only',
         params={k: _K[k] for k in ('x11', 'x12', 'P', 'Pmin', 'Pmax')}),
    dict(module='taurex/util/math.py', func='interp_exp_only', lean='interp_exp_only',
         params={k: _K[k] for k in ('x11', 'x12', 'T', 'Tmin', 'Tmax')}),
    dict(module='taurex/util/math.py', func='intepr_bilin', lean='intepr_bilin', params=_K),
    dict(module='taurex/util/math.py', func='interp_exp_and_lin', lean='interp_exp_and_lin', params=_K),
    dict(module='taurex/util/util.py', func='find_closest_pair', lean='find_closest_pair',
         params=dict(arr='skip', value='skip'), nat_externals={'arr.searchsorted(value)': 'searchsorted'},
         lens={'arr': 'n'}, returns='natpair'),
    dict(module=_IO, cls='InterpolatingOpacity', func='interp_temp_only', callname='self.interp_temp_only',
         lean='interp_temp_only', params=dict(T='s', t_idx_min='nat', t_idx_max='nat', P='nat', filt='skip'),
         lift=['filt'], attrs=_ATTRS, dims=_DIMS, enums=_ENUM, index_dims={'P': 'nP'}, raise_value='(0 : α)'),
    dict(module=_IO, cls='InterpolatingOpacity', func='interp_pressure_only', callname='self.interp_pressure_only',
         lean='interp_pressure_only', params=dict(P='s', p_idx_min='nat', p_idx_max='nat', T='nat', filt='skip'),
         lift=['filt'], attrs=_ATTRS, dims=_DIMS, index_dims={'T': 'nT'}),
    dict(module=_IO, cls='InterpolatingOpacity', func='interp_bilinear_grid', lean='interp_bilinear_grid',
         params=dict(T='s', P='s', t_idx_min='nat', t_idx_max='nat', p_idx_min='nat', p_idx_max='nat',
                     wngrid_filter='skip'),
         lift=['wngrid_filter'], attrs=_ATTRS, dims=_DIMS, enums=_ENUM, raise_value='(0 : α)',
         tuples={'self.pressureBounds': [('pMinB', 's'), ('pMaxB', 's')],
                 'self.temperatureBounds': [('tMinB', 's'), ('tMaxB', 's')]}),
]

RULE = ('tables 2-8 nodes per axis, magnitudes 1e-40..1, 1-6 wavenumbers, optional k-table layout (1-4 g-points), '
        'linear/exp mode, optional wavenumber sub-range; (T,P) drawn by quota: interior, 8 outside regions, exact '
        'nodes, exact edges, +-1ulp around nodes, first/last node of one axis x other axis outside/inside, corner nodes. distinct non-trivial = distinct (mode, layout, region, nT, nP) '
        'with a non-constant table')
ASSUMPTIONS = ['np.searchsorted(a, v) on a sorted array = number of elements < v',
               'grids strictly increasing, T > 0, table entries >= 0 (> 0 in exp mode)',
               'rounding: model on Float vs numpy/numba doubles compared to 1e-9 relative + 1e-13*max|table|']


def make_opacity(tg, pg, tab, wn, mode, weights=None):
    from taurex.opacity.interpolateopacity import InterpolatingOpacity
    from taurex.opacity.ktables.ktable import KTable

    if weights is None:
        class MemOpacity(InterpolatingOpacity):
            def __init__(self):
                super().__init__('MemOpacity', interpolation_mode=mode)

            moleculeName = 'XX'
            xsecGrid = property(lambda self: tab)
            wavenumberGrid = property(lambda self: wn)
            temperatureGrid = property(lambda self: tg)
            pressureGrid = property(lambda self: pg)
        return MemOpacity()

    class MemK(KTable, InterpolatingOpacity):
        def __init__(self):
            InterpolatingOpacity.__init__(self, 'MemK', interpolation_mode=mode)

        moleculeName = 'XX'
        xsecGrid = property(lambda self: tab)
        wavenumberGrid = property(lambda self: wn)
        temperatureGrid = property(lambda self: tg)
        pressureGrid = property(lambda self: pg)
        weights = property(lambda self: weights)
    return MemK()


REGIONS = ['interior', 'Tlo', 'Thi', 'Plo', 'Phi', 'TloPlo', 'TloPhi', 'ThiPlo', 'ThiPhi', 'node', 'edge', 'ulp',
           'bnode_out', 'bnode_in', 'corner_node']


def gen_case(rng, k):
    nT = int(rng.integers(2, 9))
    nP = int(rng.integers(2, 9))
    tg = np.sort(rng.choice(np.arange(50, 4000, 7.0), size=nT, replace=False)) + rng.random() * 3
    # pressures in Pa; quota: a table that reaches down to extremely low pressures (1e-9 Pa), queried there
    plo, phi = (-3.0, 7.5) if rng.random() < 0.75 else (-9.0, 3.0)
    pg = 10 ** np.sort(rng.choice(np.linspace(plo, phi, 64), size=nP, replace=False))
    mode = 'linear' if rng.random() < 0.5 else 'exp'
    nwn = int(rng.integers(1, 7))
    ng = 0 if rng.random() < 0.6 else int(rng.integers(1, 5))
    e = rng.uniform(-40, 0)
    shape = (nP, nT, nwn) if ng == 0 else (nP, nT, nwn, ng)
    tab = 10 ** (e + rng.uniform(-2, 2, size=shape))
    tab = np.minimum(tab, 1.0)
    if mode == 'linear' and rng.random() < 0.3:
        tab[rng.random(shape) < 0.2] = 0.0
    if rng.random() < 0.05:
        tab[...] = tab.flat[0]
    wn = np.sort(rng.choice(np.arange(100, 5000, 3.0), size=nwn, replace=False))
    region = REGIONS[k % len(REGIONS)]
    lp = np.log10(pg)

    def inside(g):
        i = int(rng.integers(0, len(g) - 1))
        return g[i] + rng.uniform(0.01, 0.99) * (g[i + 1] - g[i])
    T = inside(tg)
    logP = inside(lp)
    if 'Tlo' in region:
        T = tg[0] * rng.uniform(0.1, 0.999)
    if 'Thi' in region:
        T = tg[-1] * rng.uniform(1.0, 3.0)
    if 'Plo' in region:
        logP = lp[0] - rng.uniform(1e-3, 4)
    if 'Phi' in region:
        logP = lp[-1] + rng.uniform(0, 4)
    P = 10 ** logP
    if region == 'node':
        T = tg[int(rng.integers(0, nT))]
        P = pg[int(rng.integers(0, nP))]
    if region == 'edge':
        if rng.random() < 0.5:
            T = tg[int(rng.integers(0, nT))]
        else:
            P = pg[int(rng.integers(0, nP))]
    if region == 'ulp':
        T = np.nextafter(tg[int(rng.integers(0, nT))], rng.choice([-np.inf, np.inf]))
        P = np.nextafter(pg[int(rng.integers(0, nP))], rng.choice([-np.inf, np.inf]))
    if region == 'bnode_out':
        # one variable exactly on its first/last node, the other outside the grid (below or above);
        # the eight combinations are enumerated in turn, not drawn
        combo = (k // len(REGIONS)) % 8
        below = lambda g: g[0] - rng.uniform(1e-3, 4)
        if combo < 4:
            T = tg[0] if combo % 2 == 0 else tg[-1]
            logP = lp[0] - rng.uniform(1e-3, 4) if combo // 2 == 0 else lp[-1] + rng.uniform(0, 4)
            P = 10 ** logP
        else:
            P = pg[0] if combo % 2 == 0 else pg[-1]
            T = tg[0] * rng.uniform(0.1, 0.999) if (combo - 4) // 2 == 0 else tg[-1] * rng.uniform(1.0, 3.0)
    if region == 'bnode_in':
        # one variable exactly on its first/last node, the other strictly inside
        if rng.random() < 0.5:
            T = tg[0] if rng.random() < 0.5 else tg[-1]
        else:
            P = pg[0] if rng.random() < 0.5 else pg[-1]
    if region == 'corner_node':
        T = tg[0] if rng.random() < 0.5 else tg[-1]
        P = pg[0] if rng.random() < 0.5 else pg[-1]
    sub = None
    if nwn >= 2 and rng.random() < 0.4:
        i = int(rng.integers(0, nwn - 1))
        j = int(rng.integers(i + 1, nwn))
        sub = (i, j)
    weights = None
    if ng:
        w = rng.random(ng) + 0.05
        weights = w / w.sum()
    return dict(tg=tg, pg=pg, tab=tab, wn=wn, mode=mode, T=float(T), P=float(P), region=region, sub=sub,
                weights=weights)


def tables_for_model(tab, sub):
    """list over (wn[, g]) of P x T tables, in the order of the flattened implementation output"""
    if tab.ndim == 3:
        idx = range(tab.shape[2]) if sub is None else range(sub[0], sub[1] + 1)
        return [tab[:, :, i] for i in idx]
    idx = range(tab.shape[2]) if sub is None else range(sub[0], sub[1] + 1)
    return [tab[:, :, i, g] for i in idx for g in range(tab.shape[3])]


def bracket(g, v):
    """independent oracle for the bracketing node indices (nearest edge node outside the grid)"""
    if v <= g[0]:
        return (0, 0) if v < g[0] else (0, 0)
    if v >= g[-1]:
        return (len(g) - 1, len(g) - 1)
    r = int(np.searchsorted(g, v, side='right'))
    l = r - 1
    if g[l] == v:
        return (l, l)
    return (l, r)


def eval_case(ctx, c, from_corpus=False):
    tg, pg, tab, wn, mode = (np.asarray(c['tg'], float), np.asarray(c['pg'], float), np.asarray(c['tab'], float),
                             np.asarray(c['wn'], float), c['mode'])
    T, P, sub = c['T'], c['P'], c.get('sub')
    weights = c.get('weights')
    weights = None if weights is None else np.asarray(weights, float)
    op = make_opacity(tg, pg, tab, wn, mode, weights)
    req = None if sub is None else wn[sub[0]:sub[1] + 1].copy()
    small = dict(mode=mode, T=T, P=P, tg=tg, pg=pg, region=c.get('region'), shape=list(tab.shape), sub=sub)
    try:
        out = np.asarray(op.opacity(T, P, req), float).ravel()
    except Exception as e:  # the real code must not raise anywhere in the quantified domain
        ctx.violation('raises:' + str(c.get('region')), 'Opacity.opacity raised %r' % (e,), dict(small, tab=tab))
        return
    tabs = tables_for_model(tab, tuple(sub) if sub else None)
    d = ctx.model().call('c04.opacity', C.N(0 if mode == 'linear' else 1), C.L(tg), C.L(pg),
                         C.LLL([t.tolist() for t in tabs]), C.F(T), C.F(P))
    mod = np.array(d.list())
    scale = float(tab.max()) / 1e4
    nontrivial = bool(tab.max() > tab.min())
    ctx.case(key=(mode, tab.ndim, c.get('region'), len(tg), len(pg)) if nontrivial else None,
             sample=dict(small, impl=out[:3], model=mod[:3]), bucket='region:' + str(c.get('region')))
    ctx.bucket('mode:' + mode)
    ctx.bucket('layout:' + ('ktable' if tab.ndim == 4 else 'xsec'))
    ctx.check_close('Opacity.opacity vs Interp.computeOpacity', out, mod, dict(small, tab=tab), rel=1e-9,
                    abs_=1e-13 * scale)
    # ---- the property's own predicates, on the implementation
    import math
    lp = np.log10(pg)
    logP = math.log10(P)          # the code compares math.log10(P) with np.log10(grid)
    # the property is stated in (T, P); the code decides regions in log10 P. Within an ulp of a pressure node the two
    # orders can differ by rounding of the logarithm: such inputs are compared with the model but not judged
    if any((P < q) != (logP < l) or (P > q) != (logP > l) for q, l in zip(pg, lp)):
        ctx.bucket('ulp-ambiguous-not-judged')
        return
    tl, tr = bracket(tg, T)
    pl, pr = bracket(lp, logP)
    ti = sorted({tl, tr})
    pi = sorted({pl, pr})
    # rounding is not modelled: the kernels combine the four nodes of the cell found by find_closest_pair, so their
    # absolute rounding error scales with the largest of those (a zero node next to 1e-18 comes back as ~1e-34)
    def cell(g, v):
        r = max(min(len(g) - 1, int(np.searchsorted(g, v))), 1)
        return [r - 1, r]
    ci, cj = cell(lp, logP), cell(tg, T)
    for k, t2 in enumerate(tabs):
        nodes = [t2[i, j] for i in pi for j in ti]
        lo, hi = min(nodes) / 1e4, max(nodes) / 1e4
        v = out[k]
        both_min = (T < tg[0]) and (logP < lp[0])
        eps = 1e-9 * max(t2[i, j] for i in ci for j in cj) / 1e4 + 1e-300
        if both_min:
            if v != 0.0:
                ctx.violation('bothmin-nonzero', 'below both Tmin and Pmin the documented value is zero',
                              dict(small, tab=tab), dict(value=v))
            continue
        if not np.isfinite(v) or v < -eps:
            ctx.violation('negative-or-nonfinite:' + region_of(tg, lp, T, P), 'cross-section negative or not finite',
                          dict(small, tab=tab), dict(value=v, lo=lo, hi=hi))
        elif v < lo - eps or v > hi + eps:
            ctx.violation('outside-bracket:' + region_of(tg, lp, T, P),
                          'cross-section outside [min,max] of the bracketing nodes (extrapolated)',
                          dict(small, tab=tab), dict(value=v, lo=lo, hi=hi))
        if len(nodes) == 1 and not C.close(v, nodes[0] / 1e4, rel=1e-12, abs_=eps):
            ctx.violation('node-not-reproduced:' + region_of(tg, lp, T, P), 'tabulated value not reproduced at a node',
                          dict(small, tab=tab), dict(value=v, node=nodes[0] / 1e4))


def region_of(tg, lp, T, P):
    import math
    s = ''
    s += 'Tlo' if T < tg[0] else ('Thi' if T >= tg[-1] else 'Tin')
    s += 'Plo' if math.log10(P) < lp[0] else ('Phi' if math.log10(P) >= lp[-1] else 'Pin')
    return s


def validate_searchsorted(ctx):
    """assumed external: np.searchsorted on sorted arrays vs the model's countP, through find_closest_pair"""
    from taurex.util.util import find_closest_pair
    rng = ctx.rng
    for _ in range(ctx.n(60, 600)):
        n = int(rng.integers(2, 10))
        arr = np.sort(rng.choice(np.arange(0, 50.0), size=n, replace=False))
        v = float(rng.choice(np.concatenate([arr, arr + 0.5, [-1.0, 100.0]])))
        l, r = find_closest_pair(arr, v)
        d = ctx.model().call('c04.pair', C.L(arr), C.F(v))
        ctx.check_eq('find_closest_pair vs Interp.findClosestPair', (int(l), int(r)), (d.nat(), d.nat()),
                     dict(arr=arr, v=v))
        ctx.bucket('pair')


def reuse_stream(ctx):
    """ONE opacity object evaluated, its interpolation mode switched through the public setter, evaluated again
    (anything resolved once per object and not invalidated by set_interpolation_mode shows here); every evaluation
    is judged by eval_case's comparisons for the mode that is current"""
    rng = ctx.rng
    for k in range(ctx.n(40, 800)):
        c = gen_case(rng, k)
        c['tab'] = np.maximum(c['tab'], 1e-300)       # positive table: both modes are defined
        modes = [c['mode'], 'exp' if c['mode'] == 'linear' else 'linear', c['mode']]
        tg, pg, tab, wn = c['tg'], c['pg'], c['tab'], c['wn']
        op = make_opacity(tg, pg, tab, wn, modes[0], c['weights'])
        pts = [(c['T'], c['P'])]
        for _ in range(2):
            g = gen_case(rng, int(rng.integers(0, len(REGIONS))))
            # keep the table, draw a new point relative to this table's grids
            i = int(rng.integers(0, len(tg) - 1)); j = int(rng.integers(0, len(pg) - 1))
            pts.append((float(tg[i] + rng.uniform(0.05, 0.95) * (tg[i + 1] - tg[i])),
                        float(10 ** (np.log10(pg[j]) + rng.uniform(0.05, 0.95) * (np.log10(pg[j + 1]) - np.log10(pg[j]))))))
        for step, mode in enumerate(modes):
            if step > 0:
                op.set_interpolation_mode(mode)
            for (T, P) in pts:
                try:
                    out = np.asarray(op.opacity(T, P), float).ravel()
                except Exception as e:
                    ctx.violation('stale-state:raises', 'Opacity.opacity raised %r after set_interpolation_mode' % (e,),
                                  dict(modes=modes, step=step, T=T, P=P, tg=tg, pg=pg, tab=tab))
                    break
                tabs = tables_for_model(tab, None)
                d = ctx.model().call('c04.opacity', C.N(0 if mode == 'linear' else 1), C.L(tg), C.L(pg),
                                     C.LLL([t.tolist() for t in tabs]), C.F(T), C.F(P))
                mod = np.array(d.list())
                ctx.case(key=('reuse', mode, step, len(tg), len(pg)), bucket='reuse:mode-switch:step%d:%s' % (step, mode))
                ok = ctx.check_close('Opacity.opacity after set_interpolation_mode vs Interp.computeOpacity (current mode)',
                                     out, mod, dict(modes=modes, step=step, T=T, P=P, tg=tg, pg=pg, tab=tab), rel=1e-9,
                                     abs_=1e-13 * float(tab.max()) / 1e4)
                if not ok:
                    fresh = np.asarray(make_opacity(tg, pg, tab, wn, mode, c['weights']).opacity(T, P), float).ravel()
                    if not C.close(out, fresh, rel=1e-12):
                        ctx.violation('stale-state:mode-switch', 'after set_interpolation_mode(%r) the object does not return '
                                      'what a fresh object in that mode returns' % mode,
                                      dict(modes=modes, step=step, T=T, P=P, tg=tg, pg=pg, tab=tab),
                                      dict(reused=out[:4], fresh=fresh[:4]))


def run(ctx):
    validate_searchsorted(ctx)
    reuse_stream(ctx)
    n = ctx.n(360, 12000)
    for k in range(n):
        eval_case(ctx, gen_case(ctx.rng, k))
    # malformed stream (outside the quantifier): unsorted grid / non-positive T — recorded, never judged
    for k in range(ctx.n(10, 100)):
        c = gen_case(ctx.rng, k)
        c['T'] = -abs(c['T'])
        try:
            op = make_opacity(c['tg'], c['pg'], c['tab'], c['wn'], c['mode'], c['weights'])
            v = op.opacity(c['T'], c['P'])
            ctx.malformed_outcome('T<0:' + ('finite' if np.all(np.isfinite(v)) else 'nonfinite'))
        except Exception as e:
            ctx.malformed_outcome('T<0:' + type(e).__name__)


def replay(ctx, case):
    eval_case(ctx, case)
