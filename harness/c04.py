"""C04 — opacity interpolation in (T, P): correspondence of Interp.computeOpacity with
Opacity.opacity(T, P, wngrid) on in-memory InterpolatingOpacity / KTable subclasses, plus the property's
own predicates evaluated on the implementation."""
import numpy as np
from harness import common as C


# ---- source tie (harness/translate.py -> lean/TaurexModel/Gen/SrcC04.lean, theorems in lean/Props/C04Src.lean)
_K = dict(x11='elem', x12='elem', x21='elem', x22='elem', T='s', Tmin='s', Tmax='s', P='s', Pmin='s', Pmax='s')
_IO = 'taurex/opacity/interpolateopacity.py'
_ATTRS = {'self.temperatureGrid': ('tg', 'arr'), 'self.logPressure': ('pg', 'arr'), 'self.xsecGrid': ('xsec', 'arr2'),
          'self.pressureMax': ('pressureMax', 's'), 'self.temperatureMax': ('temperatureMax', 's')}
_DIMS = {'self.xsecGrid': ['nP', 'nT'], 'self.temperatureGrid': ['nT'], 'self.logPressure': ['nP']}
_ENUM = {'self._interp_mode': ('mode', {'linear': 0, 'exp': 1})}
SRC_SPECS = [
    dict(module='taurex/util/math.py', func='interp_lin_only', lean='interp_lin_only',
         params={k: _K[k] for k in ('x11', 'x12', 'P', 'Pmin', 'Pmax')}),
    dict(module='taurex/util/math.py', func='interp_exp_only', lean='interp_exp_only',
         params={k: _K[k] for k in ('x11', 'x12', 'T', 'Tmin', 'Tmax')}),
    dict(module='taurex/util/math.py', func='intepr_bilin', lean='intepr_bilin', params=_K),
    dict(module='taurex/util/math.py', func='interp_exp_and_lin', lean='interp_exp_and_lin', params=_K),
    dict(module='taurex/util/util.py', func='find_closest_pair', lean='find_closest_pair',
         params=dict(arr='skip', value='skip'), nat_externals={'arr.searchsorted(value)': 'searchsorted'},
         lens={'arr': 'n'}, returns='natpair'),
    dict(module=_IO, cls='InterpolatingOpacity', func='interp_temp_only', callname='self.interp_temp_only',
         lean='interp_temp_only', params=dict(T='s', t_idx_min='nat', t_idx_max='nat', P='nat', filt='skip'),
         lift=['filt'], attrs=_ATTRS, dims=_DIMS, enums=_ENUM, index_dims={'P': 'nP'}, raise_value='(0 : α)'),
    dict(module=_IO, cls='InterpolatingOpacity', func='interp_pressure_only', callname='self.interp_pressure_only',
         lean='interp_pressure_only', params=dict(P='s', p_idx_min='nat', p_idx_max='nat', T='nat', filt='skip'),
         lift=['filt'], attrs=_ATTRS, dims=_DIMS, index_dims={'T': 'nT'}),
    dict(module=_IO, cls='InterpolatingOpacity', func='interp_bilinear_grid', lean='interp_bilinear_grid',
         params=dict(T='s', P='s', t_idx_min='nat', t_idx_max='nat', p_idx_min='nat', p_idx_max='nat',
                     wngrid_filter='skip'),
         lift=['wngrid_filter'], attrs=_ATTRS, dims=_DIMS, enums=_ENUM, raise_value='(0 : α)',
         tuples={'self.pressureBounds': [('pMinB', 's'), ('pMaxB', 's')],
                 'self.temperatureBounds': [('tMinB', 's'), ('tMaxB', 's')]}),
]

RULE = ('tables 2-8 nodes per axis, magnitudes 1e-40..1, 1-6 wavenumbers, optional k-table layout (1-4 g-points), '
        'linear/exp mode, optional wavenumber sub-range; (T,P) drawn by quota: interior, 8 outside regions, exact '
        'nodes, exact edges, +-1ulp around nodes, first/last node of one axis x other axis outside/inside, corner nodes. distinct non-trivial = distinct (mode, layout, region, nT, nP) '
        'with a non-constant table. served stream: the same tables written as REAL containers (pickle / HDF5 cross-sections, '
        'pickle / HDF5 k-tables; double or single precision on disk) and handed out by a route (loader called directly, in '
        'memory or streamed; discovered by OpacityCache / KTableCache after set_interpolation; nothing configured; put into '
        'the cache by hand with its own mode, with or without a later set_interpolation that may repeat the recorded mode; '
        'a parameter file; a mode set and then taken back), each object evaluated at the drawn point and two cell interiors, '
        'judged in the mode the cache model (CacheConf.stepX/stepXK, driver_c14) says is in force; own-format stream: the '
        'same through the two loader classes with a file format of their own (Exo-Transmit text tables, NEMESIS binary '
        'k-tables), every route for each, every second block with very weak tables (entries around / below 1e-36 cm2); stored-axis '
        'stream: the temperature axis held in an integer dtype (int64/int32/int16, whole kelvins), the temperature asked for '
        'fractional, two in three less than 1 K above / below a node')
ASSUMPTIONS = ['np.searchsorted(a, v) on a sorted array = number of elements < v',
               'grids strictly increasing, T > 0, table entries >= 0 (> 0 in exp mode)',
               'rounding: model on Float vs numpy/numba doubles compared to 1e-9 relative + 1e-13*max|table|',
               'served stream: the containers (pickle, h5py) return the numbers written; a table stored in single precision '
               'tabulates the float32 values; pressures written in bar come back as (Pa/1e5)*1e5; single-precision '
               'tables in containers whose loader keeps float32 (pickle and HDF5 cross-sections, pickle k-tables, streamed '
               'HDF5 k-tables) are judged at single precision: 5e-5 of the largest node of the cell + 8 float32 subnormal steps',
               'own-format stream: an Exo-Transmit file tabulates the decimal numbers written (the reader\'s +1e-60 m2 guard '
               'against log(0) is allowed as an absolute floor); a NEMESIS file tabulates float32 words (axes in single '
               'precision, k = float32(k/1e-20)*1e-20, entries kept in the float32 normal range) and is judged to 1e-6 of the '
               'largest node of the cell (the reader forms the product in single precision); a wavenumber sub-range is asked '
               'for in the object\'s own axis (1e4 / stored wavelength)']


def make_opacity(tg, pg, tab, wn, mode, weights=None, tdtype=None):
    """`tdtype`: the dtype the object's temperature axis is stored with (None: as given, float64)"""
    from taurex.opacity.interpolateopacity import InterpolatingOpacity
    from taurex.opacity.ktables.ktable import KTable
    if tdtype is not None:
        tg = np.asarray(tg).astype(tdtype)

    if weights is None:
        class MemOpacity(InterpolatingOpacity):
            def __init__(self):
                super().__init__('MemOpacity', interpolation_mode=mode)

            moleculeName = 'XX'
            xsecGrid = property(lambda self: tab)
            wavenumberGrid = property(lambda self: wn)
            temperatureGrid = property(lambda self: tg)
            pressureGrid = property(lambda self: pg)
        return MemOpacity()

    class MemK(KTable, InterpolatingOpacity):
        def __init__(self):
            InterpolatingOpacity.__init__(self, 'MemK', interpolation_mode=mode)

        moleculeName = 'XX'
        xsecGrid = property(lambda self: tab)
        wavenumberGrid = property(lambda self: wn)
        temperatureGrid = property(lambda self: tg)
        pressureGrid = property(lambda self: pg)
        weights = property(lambda self: weights)
    return MemK()


REGIONS = ['interior', 'Tlo', 'Thi', 'Plo', 'Phi', 'TloPlo', 'TloPhi', 'ThiPlo', 'ThiPhi', 'node', 'edge', 'ulp',
           'bnode_out', 'bnode_in', 'corner_node']


def gen_case(rng, k, via_bar=False, single=False, layout=None, erange=(-40.0, 0.0), axes=None):
    """`via_bar`: the pressure axis is the one a container storing bar gives back ((Pa / 1e5) * 1e5); `single`: the table
    holds values representable in single precision (what a container storing float32 tabulates); `layout`: force the
    cross-section ('xsec') or k-table ('ktable') layout; `erange`: decades the table's magnitude (cm2) is drawn from;
    `axes`: (tg, pg) -> (tg, pg), the axes a container tabulates (applied before the point is drawn, so that node / edge /
    ulp points refer to the tabulated axes)"""
    nT = int(rng.integers(2, 9))
    nP = int(rng.integers(2, 9))
    tg = np.sort(rng.choice(np.arange(50, 4000, 7.0), size=nT, replace=False)) + rng.random() * 3
    # pressures in Pa; quota: a table that reaches down to extremely low pressures (1e-9 Pa), queried there
    plo, phi = (-3.0, 7.5) if rng.random() < 0.75 else (-9.0, 3.0)
    pg = 10 ** np.sort(rng.choice(np.linspace(plo, phi, 64), size=nP, replace=False))
    if via_bar:
        pg = (pg / 1e5) * 1e5
    if axes is not None:
        tg, pg = axes(tg, pg)
    mode = 'linear' if rng.random() < 0.5 else 'exp'
    nwn = int(rng.integers(1, 7))
    ng = 0 if rng.random() < 0.6 else int(rng.integers(1, 5))
    if layout is not None:
        ng = 0 if layout == 'xsec' else max(ng, 1)
    e = rng.uniform(*erange)
    shape = (nP, nT, nwn) if ng == 0 else (nP, nT, nwn, ng)
    tab = 10 ** (e + rng.uniform(-2, 2, size=shape))
    tab = np.minimum(tab, 1.0)
    if mode == 'linear' and rng.random() < 0.3:
        tab[rng.random(shape) < 0.2] = 0.0
    if rng.random() < 0.05:
        tab[...] = tab.flat[0]
    if single:
        tab = tab.astype(np.float32).astype(float)
    wn = np.sort(rng.choice(np.arange(100, 5000, 3.0), size=nwn, replace=False))
    region = REGIONS[k % len(REGIONS)]
    lp = np.log10(pg)

    def inside(g):
        i = int(rng.integers(0, len(g) - 1))
        return g[i] + rng.uniform(0.01, 0.99) * (g[i + 1] - g[i])
    T = inside(tg)
    logP = inside(lp)
    if 'Tlo' in region:
        T = tg[0] * rng.uniform(0.1, 0.999)
    if 'Thi' in region:
        T = tg[-1] * rng.uniform(1.0, 3.0)
    if 'Plo' in region:
        logP = lp[0] - rng.uniform(1e-3, 4)
    if 'Phi' in region:
        logP = lp[-1] + rng.uniform(0, 4)
    P = 10 ** logP
    if region == 'node':
        T = tg[int(rng.integers(0, nT))]
        P = pg[int(rng.integers(0, nP))]
    if region == 'edge':
        if rng.random() < 0.5:
            T = tg[int(rng.integers(0, nT))]
        else:
            P = pg[int(rng.integers(0, nP))]
    if region == 'ulp':
        T = np.nextafter(tg[int(rng.integers(0, nT))], rng.choice([-np.inf, np.inf]))
        P = np.nextafter(pg[int(rng.integers(0, nP))], rng.choice([-np.inf, np.inf]))
    if region == 'bnode_out':
        # one variable exactly on its first/last node, the other outside the grid (below or above);
        # the eight combinations are enumerated in turn, not drawn
        combo = (k // len(REGIONS)) % 8
        below = lambda g: g[0] - rng.uniform(1e-3, 4)
        if combo < 4:
            T = tg[0] if combo % 2 == 0 else tg[-1]
            logP = lp[0] - rng.uniform(1e-3, 4) if combo // 2 == 0 else lp[-1] + rng.uniform(0, 4)
            P = 10 ** logP
        else:
            P = pg[0] if combo % 2 == 0 else pg[-1]
            T = tg[0] * rng.uniform(0.1, 0.999) if (combo - 4) // 2 == 0 else tg[-1] * rng.uniform(1.0, 3.0)
    if region == 'bnode_in':
        # one variable exactly on its first/last node, the other strictly inside
        if rng.random() < 0.5:
            T = tg[0] if rng.random() < 0.5 else tg[-1]
        else:
            P = pg[0] if rng.random() < 0.5 else pg[-1]
    if region == 'corner_node':
        T = tg[0] if rng.random() < 0.5 else tg[-1]
        P = pg[0] if rng.random() < 0.5 else pg[-1]
    sub = None
    if nwn >= 2 and rng.random() < 0.4:
        i = int(rng.integers(0, nwn - 1))
        j = int(rng.integers(i + 1, nwn))
        sub = (i, j)
    weights = None
    if ng:
        w = rng.random(ng) + 0.05
        weights = w / w.sum()
    return dict(tg=tg, pg=pg, tab=tab, wn=wn, mode=mode, T=float(T), P=float(P), region=region, sub=sub,
                weights=weights)


STORED_INT = ['int64', 'int32', 'int16']


def gen_stored_int(rng, k):
    """a table whose temperature axis is stored with an integer dtype (whole kelvins, as opacity files commonly list
    them) and is asked for at fractional temperatures; two cases in three the temperature lies less than one kelvin (one
    unit of the stored dtype) above or below a node, the rest are the usual regions"""
    c = gen_case(rng, k, axes=lambda tg, pg: (np.round(tg), pg))
    c['tdtype'] = STORED_INT[(k // 3) % len(STORED_INT)]
    tg = c['tg']
    if k % 3 != 2:
        i = int(rng.integers(0, len(tg)))
        above = k % 3 == 0
        c['T'] = float(tg[i] + (1 if above else -1) * rng.uniform(0.02, 0.98))
        c['near'] = ('less-than-1K-%s-%s-node' % ('above' if above else 'below',
                                                   'an-interior' if 0 < i < len(tg) - 1 else 'an-edge'))
    return c


def tables_for_model(tab, sub):
    """list over (wn[, g]) of P x T tables, in the order of the flattened implementation output"""
    if tab.ndim == 3:
        idx = range(tab.shape[2]) if sub is None else range(sub[0], sub[1] + 1)
        return [tab[:, :, i] for i in idx]
    idx = range(tab.shape[2]) if sub is None else range(sub[0], sub[1] + 1)
    return [tab[:, :, i, g] for i in idx for g in range(tab.shape[3])]


def bracket(g, v):
    """independent oracle for the bracketing node indices (nearest edge node outside the grid)"""
    if v <= g[0]:
        return (0, 0) if v < g[0] else (0, 0)
    if v >= g[-1]:
        return (len(g) - 1, len(g) - 1)
    r = int(np.searchsorted(g, v, side='right'))
    l = r - 1
    if g[l] == v:
        return (l, l)
    return (l, r)


def eval_case(ctx, c, from_corpus=False):
    tg, pg, tab, mode = np.asarray(c['tg'], float), np.asarray(c['pg'], float), np.asarray(c['tab'], float), c['mode']
    # (a stored failing case keeps the table and the point; the wavenumber axis / weights do not enter the values)
    wn = np.asarray(c['wn'], float) if c.get('wn') is not None else 100.0 + np.arange(tab.shape[2])
    T, P, sub = c['T'], c['P'], c.get('sub')
    weights = c.get('weights')
    weights = None if weights is None else np.asarray(weights, float)
    if weights is None and tab.ndim == 4:
        weights = np.full(tab.shape[3], 1.0 / tab.shape[3])
    tdtype = c.get('tdtype')
    op = make_opacity(tg, pg, tab, wn, mode, weights, tdtype)
    req = None if sub is None else wn[sub[0]:sub[1] + 1].copy()
    small = dict(mode=mode, T=T, P=P, tg=tg, pg=pg, region=c.get('region'), shape=list(tab.shape), sub=sub)
    if tdtype is not None:
        assert np.array_equal(np.asarray(op.temperatureGrid, float), tg)    # the stored axis holds the same numbers
        small['tdtype'] = tdtype
        ctx.bucket('stored-axis:temperature-as-%s:%s' % (tdtype, c.get('near', 'point-as-drawn')))
    try:
        out = np.asarray(op.opacity(T, P, req), float).ravel()
    except Exception as e:  # the real code must not raise anywhere in the quantified domain
        ctx.violation('raises:' + str(c.get('region')), 'Opacity.opacity raised %r' % (e,), dict(small, tab=tab))
        return
    tabs = tables_for_model(tab, tuple(sub) if sub else None)
    d = ctx.model().call('c04.opacity', C.N(0 if mode == 'linear' else 1), C.L(tg), C.L(pg),
                         C.LLL([t.tolist() for t in tabs]), C.F(T), C.F(P))
    mod = np.array(d.list())
    scale = float(tab.max()) / 1e4
    nontrivial = bool(tab.max() > tab.min())
    ctx.case(key=(mode, tab.ndim, c.get('region'), len(tg), len(pg)) if nontrivial else None,
             sample=dict(small, impl=out[:3], model=mod[:3]), bucket='region:' + str(c.get('region')))
    ctx.bucket('mode:' + mode)
    ctx.bucket('layout:' + ('ktable' if tab.ndim == 4 else 'xsec'))
    ctx.check_close('Opacity.opacity vs Interp.computeOpacity', out, mod, dict(small, tab=tab), rel=1e-9,
                    abs_=1e-13 * scale)
    predicates(ctx, out, tg, pg, tab, tabs, T, P, mode, small)


def documented_interior(mode, tg, lp, t2, T, logP):
    """the documented interior forms evaluated directly (cm2): bilinear in (T, log10 P); or linear in log10 P on both
    temperature nodes, then a^(1-lam) b^lam with lam = Tmax (T - Tmin) / (T (Tmax - Tmin))"""
    import math
    j = int(np.searchsorted(tg, T, side='right')) - 1
    i = int(np.searchsorted(lp, logP, side='right')) - 1
    s = (logP - lp[i]) / (lp[i + 1] - lp[i])
    u = (T - tg[j]) / (tg[j + 1] - tg[j])
    if mode == 'linear':
        return ((1 - s) * (1 - u) * t2[i, j] + (1 - s) * u * t2[i, j + 1] + s * (1 - u) * t2[i + 1, j]
                + s * u * t2[i + 1, j + 1])
    a = t2[i, j] + s * (t2[i + 1, j] - t2[i, j])
    b = t2[i, j + 1] + s * (t2[i + 1, j + 1] - t2[i, j + 1])
    lam = tg[j + 1] * (T - tg[j]) / (T * (tg[j + 1] - tg[j]))
    return math.exp((1 - lam) * math.log(a) + lam * math.log(b))


def predicates(ctx, out, tg, pg, tab, tabs, T, P, mode, small, kp='', rel=1e-9, floor=0.0):
    """the property's own predicates, on the implementation's output `out` for the table `tab` (list `tabs` of P x T
    tables in output order) in the interpolation mode `mode` that is in force; `kp` prefixes the violation keys; `rel` /
    `floor`: rounding allowance relative to the largest node of the cell / absolute (double precision by default; the
    precision of the stored table where a loader keeps a single-precision table in float32)"""
    import math
    lp = np.log10(pg)
    logP = math.log10(P)          # the code compares math.log10(P) with np.log10(grid)
    # the property is stated in (T, P); the code decides regions in log10 P. Within an ulp of a pressure node the two
    # orders can differ by rounding of the logarithm: such inputs are compared with the model but not judged
    if any((P < q) != (logP < l) or (P > q) != (logP > l) for q, l in zip(pg, lp)):
        ctx.bucket('ulp-ambiguous-not-judged')
        return
    inside = bool(tg[0] < T < tg[-1] and lp[0] < logP < lp[-1])
    tl, tr = bracket(tg, T)
    pl, pr = bracket(lp, logP)
    ti = sorted({tl, tr})
    pi = sorted({pl, pr})
    # rounding is not modelled: the kernels combine the four nodes of the cell found by find_closest_pair, so their
    # absolute rounding error scales with the largest of those (a zero node next to 1e-18 comes back as ~1e-34)
    def cell(g, v):
        r = max(min(len(g) - 1, int(np.searchsorted(g, v))), 1)
        return [r - 1, r]
    ci, cj = cell(lp, logP), cell(tg, T)
    for k, t2 in enumerate(tabs):
        nodes = [t2[i, j] for i in pi for j in ti]
        lo, hi = min(nodes) / 1e4, max(nodes) / 1e4
        v = out[k]
        both_min = (T < tg[0]) and (logP < lp[0])
        eps = rel * max(t2[i, j] for i in ci for j in cj) / 1e4 + floor + 1e-300
        if both_min:
            if v != 0.0:
                ctx.violation(kp + 'bothmin-nonzero', 'below both Tmin and Pmin the documented value is zero',
                              dict(small, tab=tab), dict(value=v))
            continue
        if not np.isfinite(v) or v < -eps:
            ctx.violation(kp + 'negative-or-nonfinite:' + region_of(tg, lp, T, P), 'cross-section negative or not finite',
                          dict(small, tab=tab), dict(value=v, lo=lo, hi=hi))
        elif v < lo - eps or v > hi + eps:
            ctx.violation(kp + 'outside-bracket:' + region_of(tg, lp, T, P),
                          'cross-section outside [min,max] of the bracketing nodes (extrapolated)',
                          dict(small, tab=tab), dict(value=v, lo=lo, hi=hi))
        if len(nodes) == 1 and not C.close(v, nodes[0] / 1e4, rel=1e-12, abs_=eps):
            ctx.violation(kp + 'node-not-reproduced:' + region_of(tg, lp, T, P), 'tabulated value not reproduced at a node',
                          dict(small, tab=tab), dict(value=v, node=nodes[0] / 1e4))
        # inside a cell: the documented form of the mode in force (exp mode is defined for positive tables)
        if inside and (mode == 'linear' or all(t2[i, j] > 0 for i in ci for j in cj)):
            doc = documented_interior(mode, tg, lp, t2, T, logP) / 1e4
            if not C.close(v, doc, rel=1e-9, abs_=eps):
                ctx.violation(kp + 'interior-form:' + mode, 'inside a cell the value is not the documented %s form'
                              % ('bilinear' if mode == 'linear' else 'exp-in-1/T, linear-in-log P'),
                              dict(small, tab=tab), dict(value=v, documented=doc, k=k))


def region_of(tg, lp, T, P):
    import math
    s = ''
    s += 'Tlo' if T < tg[0] else ('Thi' if T >= tg[-1] else 'Tin')
    s += 'Plo' if math.log10(P) < lp[0] else ('Phi' if math.log10(P) >= lp[-1] else 'Pin')
    return s


def validate_searchsorted(ctx):
    """assumed external: np.searchsorted on sorted arrays vs the model's countP, through find_closest_pair"""
    from taurex.util.util import find_closest_pair
    rng = ctx.rng
    for _ in range(ctx.n(60, 600)):
        n = int(rng.integers(2, 10))
        arr = np.sort(rng.choice(np.arange(0, 50.0), size=n, replace=False))
        v = float(rng.choice(np.concatenate([arr, arr + 0.5, [-1.0, 100.0]])))
        l, r = find_closest_pair(arr, v)
        d = ctx.model().call('c04.pair', C.L(arr), C.F(v))
        ctx.check_eq('find_closest_pair vs Interp.findClosestPair', (int(l), int(r)), (d.nat(), d.nat()),
                     dict(arr=arr, v=v))
        ctx.bucket('pair')


def reuse_stream(ctx):
    """ONE opacity object evaluated, its interpolation mode switched through the public setter, evaluated again
    (anything resolved once per object and not invalidated by set_interpolation_mode shows here); every evaluation
    is judged by eval_case's comparisons for the mode that is current"""
    rng = ctx.rng
    for k in range(ctx.n(40, 800)):
        c = gen_case(rng, k)
        c['tab'] = np.maximum(c['tab'], 1e-300)       # positive table: both modes are defined
        modes = [c['mode'], 'exp' if c['mode'] == 'linear' else 'linear', c['mode']]
        tg, pg, tab, wn = c['tg'], c['pg'], c['tab'], c['wn']
        op = make_opacity(tg, pg, tab, wn, modes[0], c['weights'])
        pts = [(c['T'], c['P'])]
        for _ in range(2):
            g = gen_case(rng, int(rng.integers(0, len(REGIONS))))
            # keep the table, draw a new point relative to this table's grids
            i = int(rng.integers(0, len(tg) - 1)); j = int(rng.integers(0, len(pg) - 1))
            pts.append((float(tg[i] + rng.uniform(0.05, 0.95) * (tg[i + 1] - tg[i])),
                        float(10 ** (np.log10(pg[j]) + rng.uniform(0.05, 0.95) * (np.log10(pg[j + 1]) - np.log10(pg[j]))))))
        for step, mode in enumerate(modes):
            if step > 0:
                op.set_interpolation_mode(mode)
            for (T, P) in pts:
                try:
                    out = np.asarray(op.opacity(T, P), float).ravel()
                except Exception as e:
                    ctx.violation('stale-state:raises', 'Opacity.opacity raised %r after set_interpolation_mode' % (e,),
                                  dict(modes=modes, step=step, T=T, P=P, tg=tg, pg=pg, tab=tab))
                    break
                tabs = tables_for_model(tab, None)
                d = ctx.model().call('c04.opacity', C.N(0 if mode == 'linear' else 1), C.L(tg), C.L(pg),
                                     C.LLL([t.tolist() for t in tabs]), C.F(T), C.F(P))
                mod = np.array(d.list())
                ctx.case(key=('reuse', mode, step, len(tg), len(pg)), bucket='reuse:mode-switch:step%d:%s' % (step, mode))
                ok = ctx.check_close('Opacity.opacity after set_interpolation_mode vs Interp.computeOpacity (current mode)',
                                     out, mod, dict(modes=modes, step=step, T=T, P=P, tg=tg, pg=pg, tab=tab), rel=1e-9,
                                     abs_=1e-13 * float(tab.max()) / 1e4)
                if not ok:
                    fresh = np.asarray(make_opacity(tg, pg, tab, wn, mode, c['weights']).opacity(T, P), float).ravel()
                    if not C.close(out, fresh, rel=1e-12):
                        ctx.violation('stale-state:mode-switch', 'after set_interpolation_mode(%r) the object does not return '
                                      'what a fresh object in that mode returns' % mode,
                                      dict(modes=modes, step=step, T=T, P=P, tg=tg, pg=pg, tab=tab),
                                      dict(reused=out[:4], fresh=fresh[:4]))


# ----------------------------------------------------------------------------- tables served from real containers
# The property is about "the cross-section returned for a molecule": the object a user gets is built by a loader from a
# file and reaches its interpolation mode by a configuration route.  One generated table is written as a REAL container
# (pickle / HDF5 cross-sections, pickle / HDF5 k-tables; stored in double or in single precision), handed out by one of the
# routes below, and its opacity(T, P, wngrid) is judged exactly like the in-memory objects above: against
# Interp.computeOpacity on the tabulated numbers in the mode the configuration selects, then by the property's predicates.
# Which mode that is, is taken from the cache model (driver_c14: CacheConf.stepX / stepXK run on the same history).
CONTAINERS = ['pickle', 'hdf', 'kpickle', 'khdf']
ROUTES = ['ctor', 'cache', 'cache-default', 'hand', 'hand-then-set', 'parfile', 'set-then-unset']
SERVED_MOLS = ['H2O', 'CH4', 'CO2', 'NH3']
MODES = ['linear', 'exp']
# single-precision containers whose loader keeps the table in float32 on the unchanged tree: the kernels and the cm2 -> m2
# division then run in single precision, so the stored table is reproduced to SINGLE precision (every value carries up to
# ~1e-5 relative rounding of the cell's largest node; values below the float32 normal range, < 1e-34 cm2, are subnormal).
# The property does not promise more than the precision of the stored table: these cases are judged with the
# single-precision allowance below (DESIGN §5), all others at double precision
SINGLE_REL, SINGLE_FLOOR = 5e-5, 8 * 1.401298464324817e-45     # float32: eps 6e-8 x conditioning; smallest subnormal
SINGLE_KEPT = {('pickle', None), ('hdf', None), ('kpickle', None), ('khdf', 'streamed')}
# ---- containers with a format of their own (round 6): the Exo-Transmit text table (`opac<mol>.dat`: wavelengths in m, pressures
# in bar, cross-sections in m2, one block per wavelength) read by ExoTransmitOpacity, and the NEMESIS binary k-table
# (`<mol>_*.kta`: float32 words; wavelengths in micron, pressures in bar, k-coefficients in units of 1e-20 cm2) read by
# NemesisKTables.  Each has its OWN loader class with its own `discover()`, so the configuration routes reach them by code
# the pickle / HDF5 containers never run.  What such a file tabulates:
#   exo      the numbers written (decimal text round-trips doubles); the reader adds 1e-60 m2 to every entry (1e-20 below the
#            smallest magnitude of the quantifier): allowed as an absolute floor, nothing else
#   nemesis  float32 words: axes rounded to single precision, k = float32(k / 1e-20) * 1e-20; the reader forms that product
#            in single precision (2 roundings, 1.2e-7) before widening, hence tables are kept inside the float32 normal
#            range (>= 2e-38 cm2 or exactly 0) and judged to 1e-6 of the largest node of the cell
OWN_FORMAT = ['exo', 'nemesis']
XSEC_CONTAINERS = ('pickle', 'hdf', 'exo')
EXO_OFFSET = 1e-60 * (1 + 1e-9)
NEMESIS_REL, NEMESIS_MIN = 1e-6, 2e-38
WEAK = (-40.0, -36.0)       # quota: a very weak absorber, every entry around / below 1e-36 cm2
WEAK_NEMESIS = (-36.0, -34.0)       # the same at the lower end of what the float32 words of a .kta file can hold


def nemesis_axes(tg, pg):
    """the axes a .kta file tabulates: float32 temperatures, float32 pressures in bar (widened, then * 1e5 by the reader)"""
    return (np.asarray(tg, np.float32).astype(float),
            (np.asarray(pg, float) / 1e5).astype(np.float32).astype(float) * 1e5)


def nemesis_table(tab):
    """the k-coefficients a .kta file tabulates for the table `tab` (cm2): float32 words in units of 1e-20 cm2"""
    tab = np.where(tab > 0, np.maximum(tab, NEMESIS_MIN), 0.0)
    return (tab / 1e-20).astype(np.float32).astype(float) * 1e-20


def write_kta(path, c):
    """NEMESIS k-table layout as NemesisKTables._decode_ktables reads it: 10 header words (int32: [1] number of wavelengths,
    [5] NP, [6] NT, [7] NQ; float32: [2] first wavelength), g-samples, weights, 2 words, pressures (bar), temperatures,
    wavelengths (micron, ascending), then k[wavelength, P, T, g] / 1e-20"""
    wn, tg, pg, tab, w = (np.asarray(c[k], float) for k in ('wn', 'tg', 'pg', 'tab', 'weights'))
    wl = (10000.0 / wn)[::-1]
    head = np.zeros(10, dtype=np.int32)
    head[0], head[1] = 1, len(wn)
    head[5], head[6], head[7] = len(pg), len(tg), len(w)
    hf = head.view(np.float32)
    hf[2] = wl[0]
    body = (tab.transpose(2, 0, 1, 3)[::-1] / 1e-20).astype(np.float32)
    samples = ((np.cumsum(w) - w / 2)).astype(np.float32)
    parts = [hf, samples, w.astype(np.float32), np.zeros(2, dtype=np.int32).view(np.float32),
             (pg / 1e5).astype(np.float32), tg.astype(np.float32), wl.astype(np.float32), body.ravel()]
    np.concatenate(parts).astype(np.float32).tofile(path)


def write_container(path_dir, container, mol, c, single):
    """write the table of case `c` (axes in SI, table in cm2) as a real file of the given container; returns the path"""
    import os
    from harness import c14 as W
    x = np.asarray(c['tab'], np.float32 if single else float)
    if container in ('pickle', 'hdf'):
        tab = dict(wn=c['wn'], t=c['tg'], p=c['pg'], x=x)
        if container == 'pickle':
            path = os.path.join(path_dir, mol + '.R100.pickle')
            W.write_pickle(path, tab)
        else:
            path = os.path.join(path_dir, 'table_of_' + mol + '.h5')
            W.write_hdf(path, tab, 'bar', mol)
    elif container == 'exo':
        path = os.path.join(path_dir, 'opac' + mol + '.dat')
        W.write_exo(path, dict(wn=c['wn'], t=c['tg'], p=c['pg'], x=x))
    elif container == 'nemesis':
        path = os.path.join(path_dir, mol + '_R100.kta')
        write_kta(path, c)
    else:
        ktab = dict(wn=c['wn'], t=c['tg'], p=c['pg'], k=x, weights=c['weights'])
        if container == 'kpickle':
            path = os.path.join(path_dir, mol + '.R100.pickle')
            W.write_kpickle(path, ktab, mol)
        else:
            path = os.path.join(path_dir, mol + '_R100.h5')
            W.write_khdf(path, ktab, 'bar')
    return path


def construct(container, path, mode, streamed=False):
    """the loader class called directly (mode None: the class's own default)"""
    from taurex.opacity import PickleOpacity, HDF5Opacity
    from taurex.opacity.ktables.picklektable import PickleKTable
    from taurex.opacity.ktables.hdfktable import HDF5KTable
    kw = {} if mode is None else dict(interpolation_mode=mode)
    if container == 'pickle':
        return PickleOpacity(path, **kw)
    if container == 'hdf':
        return HDF5Opacity(path, in_memory=not streamed, **kw)
    if container == 'kpickle':
        return PickleKTable(path, **kw)
    if container == 'exo':
        from taurex.opacity.exotransmit import ExoTransmitOpacity
        return ExoTransmitOpacity(path, **kw)
    if container == 'nemesis':
        from taurex.opacity.ktables.nemesisktables import NemesisKTables
        return NemesisKTables(path, **kw)
    return HDF5KTable(path, in_memory=not streamed, **kw)


def gen_served(rng, k, own_format=False):
    """`own_format`: the stream of the containers with a format and loader class of their own (OWN_FORMAT), every route for
    each; every second block of 14 holds very weak tables (WEAK)"""
    kw = {}
    if own_format:
        container = OWN_FORMAT[k % 2]
        single = False
        route = ROUTES[(k // 2) % len(ROUTES)]
        if (k // 14) % 2 == 1:
            kw['erange'] = WEAK if container == 'exo' else WEAK_NEMESIS
        if container == 'nemesis':
            kw['axes'] = nemesis_axes
    else:
        container = CONTAINERS[k % 4]
        single = (k // 4) % 3 == 2
        route = ROUTES[(k // 12) % len(ROUTES)]
    c = gen_case(rng, int(rng.integers(0, 15 * 8)), via_bar=True, single=single,
                 layout='xsec' if container in XSEC_CONTAINERS else 'ktable', **kw)
    # every served object is also evaluated at two points strictly inside cells (where the two modes differ)
    tg, lp = c['tg'], np.log10(c['pg'])
    c['extra'] = []
    for _ in range(2):
        i, j = int(rng.integers(0, len(tg) - 1)), int(rng.integers(0, len(lp) - 1))
        c['extra'].append([float(tg[i] + rng.uniform(0.1, 0.9) * (tg[i + 1] - tg[i])),
                           float(10 ** (lp[j] + rng.uniform(0.1, 0.9) * (lp[j + 1] - lp[j])))])
    c.update(container=container, single=single, route=route, mol=SERVED_MOLS[int(rng.integers(0, 4))],
             streamed=bool(container in ('hdf', 'khdf') and route == 'ctor' and rng.random() < 0.5),
             recorded=[None, 'linear', 'exp'][int(rng.integers(0, 3))],       # mode in force before the hand-made object
             own=[None, 'linear', 'exp'][int(rng.integers(0, 3))],            # mode the hand-made object is built with
             served=True)
    if route == 'cache-default':
        c['mode'] = 'linear'          # nothing configured: the documented default
    if route == 'hand' and c['own'] != 'linear' and np.any(c['tab'] == 0):
        # the hand-made object may interpolate in exp mode (its own choice or its class default): positive entries only
        pos = c['tab'][c['tab'] > 0]
        c['tab'] = np.where(c['tab'] == 0, pos.min() if pos.size else float(np.float32(1e-30)), c['tab'])
    if route == 'hand-then-set' and (k % 2 == 0 if not own_format else (k // 14) % 2 == 0):
        # corner quota: the mode asked for is the one already recorded (None standing for linear), so the set is a repeat
        c['recorded'] = c['mode'] if (c['mode'] == 'exp' or rng.random() < 0.5) else None
    if container == 'nemesis':
        c['tab'] = nemesis_table(c['tab'])
        # (wavelengths are float32 words as well: the wavenumber axis the file tabulates)
        c['wn'] = 10000.0 / (10000.0 / c['wn']).astype(np.float32).astype(float)
    return c


def served_history(c):
    """the configuration history of the route, as events of the cache model (CacheConf.XOp); `add` stands for a loader
    object the user builds himself (mode `own`) and puts into the cache"""
    k = MODES.index(c['mode'])
    r = c['route']
    if r == 'cache':
        return [['setPath', 0], ['setInterp', k], ['get']]
    if r == 'cache-default':
        return [['setPath', 0], ['get']]
    if r == 'hand':
        return [['setPath', 0], ['add'], ['get']]
    if r == 'hand-then-set':
        pre = [] if c['recorded'] is None else [['setInterp', MODES.index(c['recorded'])]]
        return [['setPath', 0]] + pre + [['add'], ['setInterp', k], ['get']]
    if r == 'parfile':
        return [['parfile', 0, k, None], ['get']]
    if r == 'set-then-unset':
        # a mode is selected, a molecule served, then the setting is taken back (or changed) before the request judged
        other = 1 - k
        return [['setPath', 0], ['setInterp', other], ['get'], ['unsetInterp'] if k == 0 else ['setInterp', k], ['get']]
    raise ValueError(r)


def eval_served(ctx, c):
    import os
    from harness.c14 import scratch_env, fresh_dir
    from taurex.cache import OpacityCache, GlobalCache
    from taurex.cache.ktablecache import KTableCache
    tg, pg, tab, wn = (np.asarray(c[k], float) for k in ('tg', 'pg', 'tab', 'wn'))
    T, P, sub = c['T'], c['P'], c.get('sub')
    container, route, mol, single = c['container'], c['route'], c['mol'], bool(c['single'])
    isk = container in ('kpickle', 'khdf', 'nemesis')
    weights = None if c.get('weights') is None else np.asarray(c['weights'], float)
    c = dict(c, tg=tg, pg=pg, tab=tab, wn=wn, weights=weights)
    req = None if sub is None else wn[sub[0]:sub[1] + 1].copy()
    small = dict(served=True, container=container, route=route, single=single, streamed=c.get('streamed'), T=T, P=P,
                 region=c.get('region'), shape=list(tab.shape), sub=sub, recorded=c.get('recorded'), own=c.get('own'))
    full = dict(C.jsonable(c))
    with scratch_env() as root:
        d = fresh_dir(root, 'served')
        path = write_container(d, container, mol, c, single)
        gc = GlobalCache()
        for key in ('xsec_path', 'ktable_path', 'xsec_interpolation', 'xsec_in_memory', 'opacity_method'):
            gc.variable_dict.pop(key, None)
        OpacityCache().clear_cache()
        KTableCache().clear_cache()
        cache = KTableCache() if isk else OpacityCache()
        if route == 'ctor':
            obj = construct(container, path, c['mode'], c.get('streamed'))
            mode = c['mode']
        else:
            # ---- the real history, and the same history on the cache model
            hist = served_history(c)
            # (the cache machines read a file's format only to decide `in_memory` of an HDF5 cross-section; the mode they hand to
            # the constructor is the same for every loader class -- Props/C04.lean: discovered_mode_any_class -- so a NEMESIS
            # file is described to the k-table machine as a k-table file of the pickle kind)
            toks = ['1', '1', '1', {'hdf': '0', 'pickle': '1', 'exo': '2', 'kpickle': '3', 'khdf': '4', 'nemesis': '3'}[container],
                    '0', C.S(mol), C.S(mol), str(len(hist))]
            obj = None
            keep = []
            for h in hist:
                if h[0] == 'setPath':
                    (cache.set_ktable_path if isk else cache.set_opacity_path)(d)
                    toks += ['1', '0']
                elif h[0] == 'setInterp':
                    OpacityCache().set_interpolation(MODES[h[1]])
                    toks += ['2', str(h[1])]
                elif h[0] == 'unsetInterp':
                    OpacityCache().set_interpolation(None)
                    toks += ['6']
                elif h[0] == 'add':
                    mine = construct(container, path, c['own'])
                    keep.append(mine)
                    cache.add_opacity(mine)
                    toks += ['5', C.S(mol), str(MODES.index(mine._interp_mode))]
                elif h[0] == 'parfile':
                    from taurex.parameter import ParameterParser
                    pf = os.path.join(root, 'served.par')
                    with open(pf, 'w') as fh:
                        fh.write('[Global]\n%s = %s\nxsec_interpolation = %s\n'
                                 % ('ktable_path' if isk else 'xsec_path', d, MODES[h[2]]))
                    pp = ParameterParser()
                    pp.read(pf)
                    pp.setup_globals()
                    toks += ['8', '1', '0', '1', str(h[2]), '0']
                else:
                    obj = cache[mol]
                    keep.append(obj)
                    toks += ['0', C.S(mol)]
            dm = ctx.model('C14').call('c14.kcache' if isk else 'c14.cache', *toks)

            def rd():
                code = dm.nat()
                r = dict(code=code)
                if code == 0:
                    r.update(id=dm.nat(), mol=dm.str(), mode=dm.nat(), inmem=dm.nat(), src=dm.opt(dm.nat))
                dm.nat()
                dm.list(dm.str)
                return r
            last = dm.list(rd)[-1]
            if last['code'] != 0:
                raise C.InfraError('cache model does not serve the molecule of a served case: %r' % (last,))
            mode = MODES[last['mode']]
        ctx.bucket('served:route:' + route)
        if route == 'hand-then-set' and (c.get('recorded') or 'linear') == c['mode']:
            ctx.bucket('served:hand-then-set:the-set-repeats-the-recorded-mode')
        ctx.bucket('served:container:' + container + (':single' if single else ':double'))
        todo = single and ((container, None) in SINGLE_KEPT or
                           (c.get('streamed') and (container, 'streamed') in SINGLE_KEPT))
        scale = float(tab.max()) / 1e4
        nontrivial = bool(tab.max() > tab.min())
        points = [(T, P, sub, c.get('region'))] + [(float(a), float(b), None, 'cell-interior') for a, b in c.get('extra') or []]
        own_wn = wn
        if container in OWN_FORMAT:
            # these files store wavelengths: a wavenumber sub-range is asked for in the object's own (reciprocal) axis
            own_wn = np.asarray(obj.wavenumberGrid, float)
            if not ctx.check_close('wavenumber axis of the served table (1e4 / stored wavelength)', own_wn, wn,
                                   dict(small, wn=wn), rel=1e-12):
                return
            ctx.bucket('served:table-magnitude:' + container + ':' + ('below-1e-36cm2' if 0 < float(tab.max()) < 1e-36 else
                                                    'some-entry-below-1e-36cm2' if np.any((tab > 0) & (tab < 1e-36))
                                                    else 'all-entries-above-1e-36cm2'))
        for (T, P, sub, region) in points:
            req = None if sub is None else own_wn[sub[0]:sub[1] + 1].copy()
            try:
                out = np.asarray(obj.opacity(T, P, req), float).ravel()
            except Exception as e:
                ctx.violation('served:raises:%s:%s' % (container, route), 'opacity() of a served table raised %r' % (e,),
                              dict(full, T=T, P=P, sub=sub))
                return
            tabs = tables_for_model(tab, tuple(sub) if sub else None)
            dmod = ctx.model().call('c04.opacity', C.N(MODES.index(mode)), C.L(tg), C.L(pg),
                                    C.LLL([t.tolist() for t in tabs]), C.F(T), C.F(P))
            mod = np.array(dmod.list())
            rel, floor = (SINGLE_REL, SINGLE_FLOOR) if todo else (1e-9, 0.0)
            if todo:
                ctx.bucket('served:single-precision-kept-by-loader(judged at single precision):' + container)
            if container == 'exo':
                floor = EXO_OFFSET
            if container == 'nemesis':
                rel = NEMESIS_REL
            ctx.case(key=('served', container, route, mode, single, region) if nontrivial else None,
                     sample=dict(small, T=T, P=P, mode=mode, impl=out[:3], model=mod[:3]), bucket='served:region:' + str(region))
            ctx.bucket('served:mode:' + mode)
            ctx.check_close('opacity() of the table served from a real container vs Interp.computeOpacity in the mode the '
                            'configuration selects (CacheConf)', out, mod,
                            dict(small, T=T, P=P, sub=sub, mode=mode, tg=tg, pg=pg, tab=tab), rel=rel,
                            abs_=(1e-6 if todo else 1e-13) * scale + floor + (NEMESIS_REL * scale if container == 'nemesis' else 0))
            # (a replay evaluates the judged point first: the failing point becomes the case's own point)
            predicates(ctx, out, tg, pg, tab, tabs, T, P, mode,
                       dict(full, T=T, P=P, sub=sub, region=region, extra=[], mode_in_force=mode),
                       kp='served:%s:%s:' % (container, route), rel=rel, floor=floor)
        obj = None
        keep = None


def served_stream(ctx):
    for k in range(ctx.n(168, 3360)):
        eval_served(ctx, gen_served(ctx.rng, k))


USES_MODELS = ['C14']


def run(ctx):
    validate_searchsorted(ctx)
    reuse_stream(ctx)
    served_stream(ctx)
    n = ctx.n(360, 12000)
    for k in range(n):
        eval_case(ctx, gen_case(ctx.rng, k))
    # (round-6 stream after the older ones, whose random draws it leaves as they were)
    for k in range(ctx.n(56, 1120)):
        eval_served(ctx, gen_served(ctx.rng, k, own_format=True))
    # the temperature axis stored with an integer dtype, fractional temperatures next to the nodes
    for k in range(ctx.n(150, 3000)):
        eval_case(ctx, gen_stored_int(ctx.rng, k))
    # malformed stream (outside the quantifier): unsorted grid / non-positive T — recorded, never judged
    for k in range(ctx.n(10, 100)):
        c = gen_case(ctx.rng, k)
        c['T'] = -abs(c['T'])
        try:
            op = make_opacity(c['tg'], c['pg'], c['tab'], c['wn'], c['mode'], c['weights'])
            v = op.opacity(c['T'], c['P'])
            ctx.malformed_outcome('T<0:' + ('finite' if np.all(np.isfinite(v)) else 'nonfinite'))
        except Exception as e:
            ctx.malformed_outcome('T<0:' + type(e).__name__)


def replay(ctx, case):
    case = case.get('case', case)
    if case.get('served'):
        eval_served(ctx, case)
        return
    eval_case(ctx, case)
