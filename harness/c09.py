"""C09 — posterior summaries are the weighted statistics of the stored samples.

Sampler doubles (harness/doubles.py) return generated sample sets in each sampler's own output format (nestle: a
Result object; MultiNest / PolyChord: the text files the wrappers read back).  `Optimizer.fit()` is run on a small
real model (fixture polynomial model of harness/c06.py, and a real TransmissionModel with an in-memory opacity) and
the returned solution dictionary is compared with
  (i)  the property's own predicates evaluated independently (weighted-quantile rule written out in plain Python,
       greatest-weight sample, weighted mean, forward model re-evaluated on a second model at the MAP / median,
       derived values re-evaluated sample by sample);
  (ii) the Lean model (`Posterior.quantileCorner / summary / argmaxFirst / wmean / storeOutput / restoreOrder`, and
       `Posterior.modelPoint` for the values `Optimizer.update_model` hands the model: each fitted parameter through the
       prior() of its own prior object, built-in or user-defined).
"""
import io
import math
import contextlib
import os
import numpy as np
from harness import common as C
from harness import doubles
from harness import c06 as K

RULE = ('sample sets of 1-500 samples, 1-5 dimensions, weights: random / all equal / tied groups / zeros (underflow) / '
        'one dominant / nested-sampling-like decades / plateau (greatest weight shared by 2-4 different samples; the MAP vector '
        'judged as ONE stored sample of greatest weight), values distinct or (small sets) tied; 1-3 modes of unequal size '
        'for MultiNest (multimodal and not) and PolyChord; fitted subsets with linear/log priors, 0-2 derived parameters; '
        'fixture polynomial model with GridObs/NativeBinner or ArraySpectrum/FluxBinner and a real TransmissionModel '
        '(isothermal / NPoint / Guillot; fitted subsets: as generated / planet mass without the radius (disable_fit) / mass and '
        'radius / radius switched off); ArraySpectrum observations with 1-2 bins reaching beyond an end of the native grid '
        '(partly covered bins) in half of the cases; real-model references are forward models CONSTRUCTED at the MAP / the median '
        '/ every sample; sample rows the forward model rejects are redrawn; quota: 1-2 fitted parameters with a USER-DEFINED '
        'prior (Uniform subclass overriding prior(): natural-log space exp(x), scaled units a*x+b; declared linear or log '
        'mode) set with set_prior, all samplers, both models; Optimizer.update_model on the MAP / median / two samples read back '
        'through the parameters\' getters. distinct non-trivial = distinct (stream, sampler, weight kind, size class, '
        'ndim, #derived, #modes) with more than one sample of positive weight')
ASSUMPTIONS = ['np.argsort modelled as a stable insertion sort: exact for distinct values; for tied values the comparison is '
               'made on the order numpy actually produced (result is compared up to the order inside tie groups)',
               'np.add.accumulate = running left sum; np.interp(x, xp, fp) on non-decreasing xp = last j with xp[j] <= x, '
               'linear inside the cell, clamped ends (validated incl. ties and out-of-range)',
               'np.argmax = first index of the maximum; np.average(x, weights=w) = sum(x*w)/sum(w)',
               'weights >= 0 with positive sum, finite samples (zero / negative / NaN totals: malformed stream)',
               'MultiNest / PolyChord "MAP" is the sampler-reported vector (pass-through only; file layouts written by the '
               'double in the form the wrappers parse; the real samplers\' layouts cannot be checked offline)',
               'one process in the harness (the model theorem on the index-based order restoration covers every gather order; the multi-rank run is C18)',
               'rounding: 1e-9 relative to the value range of the trace',
               '"binned to the observation" = FluxBinner.bindown as modelled by C05 (Binning.fluxBindown / overlapMeanSpec, driver_c05): '
               'in each observation bin the overlap-weighted mean of the native spectrum over the part of the bin the native grid covers '
               '(native bins = centre +- width/2, widths from the mid-points); bins the native grid does not reach are not judged',
               '"evaluated at the MAP / median / a sample" = the model whose fitted parameter i holds prior_i.prior(v_i), the map '
               'of that parameter\'s own prior object (Posterior.modelPoint; x or 10**x for the built-in classes, the user\'s own '
               'map for a user-defined Prior subclass)',
               'a real forward model constructed at given values (constructor arguments, c06.tm_at / build_tm) is the forward model '
               '"evaluated at" them',
               'source tie of the whole store_nest_solutions / store_polychord_solutions: file contents are inputs '
               '(np.loadtxt tables as lists of rows, f.readlines() of post_separate.dat as a list of strings); str.split() = '
               'the whitespace-separated tokens and float(token) = the number it denotes (parameters splitWs / parseFloat; '
               'a malformed token, ValueError, is not modelled); mode_array[idx, :] = line with a line of another length '
               '(numpy: ValueError unless it has one entry) is totalised; the statements about the sampler\'s own statistics '
               'dictionary (pymultinest.Analyzer, get_poly_stats, the stats.dat fall-back, NEST_stats, global_logE) are left '
               'out: these values are pass-through inputs of the per-mode records; the chains files the wrapper has read are '
               'read again by the harness and handed to Posterior.nestChainsSingle / nestChainsModes / polyChains '
               '(ops c09.nestsingle, c09.nestmodes, c09.polychains), compared entry by entry with the stored solutions']

QS = [0.16, 0.5, 0.84]
USES_MODELS = ['C05']     # Binning.fluxBindown / overlapMeanSpec: 'binned to the observation' (op c05.flux of driver_c05)

# source tie (harness/translate.py, dialect 'obj' of harness/translate_obj.py and its extension 'objrec' of
# harness/translate_objrec.py -> lean/TaurexModel/Gen/SrcC09.lean, tied to TaurexModel/Posterior.lean in
# lean/Props/C09Src.lean).  numpy's argsort / add.accumulate / interp / argmax are externals.
_QEXT = {'np.argsort': ('argsort', ['list'], 'natlist'), 'np.add.accumulate': ('accumulate', ['list'], 'list'),
         'np.interp': ('interp', ['list', 'list', 'list'], 'list')}
# statements of the two store functions about the sampler's own statistics dictionary (and the table read handed to the
# chains segment as a parameter): not part of the whole-function translation
_STATS_STMTS = [r'^NEST_analyzer = ', r'^NEST_stats = ', r"^NEST_out\['NEST(_POLY)?_stats'\] = ",
                r"^NEST_out\['global_logE'\] = ", r"^if len\(NEST_out\['NEST_stats'\]\['modes'\]\) == 0:",
                r'^data = np\.loadtxt\(']
_NEST = {'modes_array[nmode]': ('tracedata', 'list2'), 'modes_weights[nmode]': ('weights', 'list'),
         "NEST_stats['modes'][nmode]['maximum a posterior']": ('nest_map', 'list'),
         "NEST_stats['modes'][nmode]['mean']": ('nest_mean', 'list'),
         "NEST_stats['modes'][nmode]['sigma']": ('nest_sigma', 'list')}
SRC_SPECS = [
    dict(module='taurex/util/util.py', func='quantile_corner', lean='quantile_corner', dialect='obj',
         params=dict(x='list', q='list', weights='list'), list_externals=_QEXT, returns='list'),
    # one iteration of the per-parameter loop of store_nestle_output: the record stored for fitted parameter `idx`
    dict(module='taurex/optimizer/nestle.py', cls='NestleOptimizer', func='store_nestle_output', lean='nestle_param',
         dialect='objrec', loop_body='enumerate(fit_param)', free=['samples', 'weights', 'mean', 'cov', 'max_weight'],
         params=dict(idx='nat', param_name='skip', samples='list2', weights='list', mean='list', cov='skip',
                     max_weight='nat'),
         result='param', dict_skip=['sigma'],           # 'sigma' = cov[idx], a row of nestle's covariance (pass-through)
         ignore_calls=r'^self\.(debug|info|warning|error|critical)\(|^table_data\.append\('),   # table_data is never read
    # the same loop in store_nest_solutions / store_polychord_solutions, for one mode `nmode`: the dict display stored for
    # fitted parameter `idx` (the sampler's own statistics NEST_stats[...] are pass-through parameters)
    dict(module='taurex/optimizer/multinest.py', cls='MultiNestOptimizer', func='store_nest_solutions', lean='multinest_param',
         dialect='objrec', loop_body='enumerate(self.fit_names)', free=[], params=dict(idx='nat', param_name='skip'),
         attrs=_NEST, result='{}'),
    dict(module='taurex/optimizer/polychord.py', cls='PolyChordOptimizer', func='store_polychord_solutions',
         lean='polychord_param', dialect='objrec', loop_body='enumerate(self.fit_names)', free=[],
         params=dict(idx='nat', param_name='skip'), attrs=_NEST, result='{}'),
    # one iteration of the per-parameter loop of compute_derived_trace: the gathered trace / weights are put back into
    # sample order (`[restore]`) and summarised by the same quantile rule
    dict(module='taurex/optimizer/optimizer.py', cls='Optimizer', func='compute_derived_trace', lean='derived_param',
         dialect='obj', loop_body='derived_param.items()', free=['restore'],
         params=dict(param='skip', trace='list', w='list', restore='natlist'),
         attrs={"mpi.allreduce(trace, op='SUM')": ('gathered_trace', 'list'),
                "mpi.allreduce(w, op='SUM')": ('gathered_w', 'list')},
         list_externals=dict(_QEXT, **{'np.average': ('average', ['list', 'list'], 's', ('weights',), {'axis': '0'})}),
         result='derived'),
    # the WHOLE store_nestle_output (dialect 'objrec' of harness/translate_objrec.py): the nested dict it returns as a flat
    # record (components named by their key paths, `nestle_store_keys`); `weights.argmax()` is the external `argmax`, the
    # per-parameter loop is `nestle_param` above mapped over the fit names (the dict `fitparams` as its (key, value) stores)
    dict(module='taurex/optimizer/nestle.py', cls='NestleOptimizer', func='store_nestle_output', lean='nestle_store',
         callname='store_nestle_output/whole', dialect='objrec', params=dict(result='skip'),
         attrs={'result.logz': ('logz', 's'), 'result.logzerr': ('logzerr', 's'), 'result.h': ('peakiness', 's'),
                'result.samples': ('result_samples', 'list2'), 'result.weights': ('result_weights', 'list'),
                'self.fit_names': ('fit_names', 'objlist:Name')},
         tuples={'nestle.mean_and_cov(samples, weights)': [('nestle_mean', 'list'), ('nestle_cov', 'skip')]},
         nat_methods={'argmax': 'argmax'}, loops={'enumerate(fit_param)': 'store_nestle_output'},
         result='nestle_output', dict_skip=['covariance']),
    # one iteration of the per-mode loop of store_nest_solutions / store_polychord_solutions: the dict `mydict` stored for
    # mode `nmode` — its `tracedata`, `weights` and `fit_params` (the per-parameter loop above mapped over the fit names);
    # 'type' is a string tag, 'local_logE' the sampler's own evidence pair (pass-through)
    dict(module='taurex/optimizer/multinest.py', cls='MultiNestOptimizer', func='store_nest_solutions', lean='multinest_mode',
         callname='store_nest_solutions/mode', dialect='objrec', loop_body='range(len(modes))', free=[],
         params=dict(nmode='skip'), attrs=dict(_NEST, **{'self.fit_names': ('fit_names', 'objlist:Name')}),
         loops={'enumerate(self.fit_names)': 'store_nest_solutions'}, result='mydict', dict_skip=['type', 'local_logE']),
    dict(module='taurex/optimizer/polychord.py', cls='PolyChordOptimizer', func='store_polychord_solutions',
         lean='polychord_mode', callname='store_polychord_solutions/mode', dialect='objrec',
         loop_body='range(num_clusters)', loop_target='nmode', free=[], params=dict(nmode='skip'),
         attrs=dict(_NEST, **{'self.fit_names': ('fit_names', 'objlist:Name')}),
         loops={'enumerate(self.fit_names)': 'store_polychord_solutions'}, result='mydict',
         dict_skip=['type', 'local_logE']),
    # ---- the FILE-READING PREFIXES (dialect 'seq'): the statements of store_nest_solutions from `modes = []` up to the loop
    # over the modes, once per calling pattern.  Their value: (modes_array, modes_weights, modes) — per mode the 2-D array of
    # samples and the weights, and the list whose length is the number of solutions.  File contents are inputs: `data` =
    # np.loadtxt(<base>.txt) (a 2-D array: weight, -2 logL, parameters), `lines` = the lines of <base>post_separate.dat
    # (`f.readlines()`); `line.split()` / `float(tok)` are the parameters `splitWs` / `parseFloat`
    dict(module='taurex/optimizer/multinest.py', cls='MultiNestOptimizer', func='store_nest_solutions',
         lean='multinest_chains_single', callname='store_nest_solutions/chains-single', dialect='seq', params={},
         start_at='modes = []', stop_at='for nmode in range(len(modes)):', free_locals={'data': 'rows'},
         assume={'self.multimodes': False},
         locals={'modes': 'rows3', 'modes_weights': 'rows', 'chains': 'rows', 'chains_weights': 'list'},
         result=['modes_array', 'modes_weights', 'modes']),
    dict(module='taurex/optimizer/multinest.py', cls='MultiNestOptimizer', func='store_nest_solutions',
         lean='multinest_chains_modes', callname='store_nest_solutions/chains-modes', dialect='seq', params={},
         start_at='modes = []', stop_at='for nmode in range(len(modes)):', free_locals={'data': 'rows'},
         assume={'self.multimodes': True},
         locals={'modes': 'rows3', 'modes_weights': 'rows', 'chains': 'rows', 'chains_weights': 'list',
                 'modes_array': 'rows3'},
         with_externals=["open(os.path.join(self.dir_multinest, '{}post_separate.dat'.format(self.multinest_prefix)))"],
         t_externals={'f.readlines()': ('lines', 'strlist')},
         result=['modes_array', 'modes_weights', 'modes']),
    # the same for store_polychord_solutions, from `modes_array = []` up to the loop over the clusters: `data` =
    # np.loadtxt(<dir>/1-.txt), the cluster count `get_poly_cluster_number(dir)` and the cluster files
    # np.loadtxt(<dir>/clusters/1-_<k>.txt) (a function of the loop index) are inputs; `do_clustering` is a run-time flag
    dict(module='taurex/optimizer/polychord.py', cls='PolyChordOptimizer', func='store_polychord_solutions',
         lean='polychord_chains', callname='store_polychord_solutions/chains', dialect='seq', params={},
         start_at='modes_array = []', stop_at='for nmode in range(num_clusters):', free_locals={'data': 'rows'},
         locals={'modes_array': 'rows3', 'modes_weights': 'rows'},
         attrs={'self.do_clustering': ('do_clustering', 'bool')},
         ignore_calls=r'^(self\.(debug|info|warning|error|critical)|print)\(',
         t_externals={'self.get_poly_cluster_number(self.dir_polychord)': ('clusterNumber', 'nat'),
                      'len(self.fit_names)': ('nFit', 'nat')},    # (the whole function holds fit_names as abstract names)
         fn_externals={"np.loadtxt(os.path.join(self.dir_polychord, 'clusters/1-_{0}.txt'.format(midx + 1)))":
                       ('clusterTable', ['midx'], 'rows')},
         result=['modes_array', 'modes_weights', 'num_clusters']),
    # ---- the WHOLE store functions (dialect 'objrec'): `NEST_out = {'solutions': {}}`, the chains of every mode (the
    # statement range above, called as a function: `segment`), the loop over the modes whose one iteration is
    # `multinest_mode` / `polychord_mode` and which stores its dict under 'solution{}'.format(nmode), `return NEST_out`.
    # Left out (`ignore_stmts`): the statements that build and patch the sampler's own statistics dictionary
    # (pymultinest.Analyzer / get_poly_stats, the stats.dat fall-back parser, NEST_out['NEST_stats'], 'global_logE') — these
    # values are pass-through inputs of the per-mode records (`nest_map`, … as functions of the mode index) —, and
    # `data = np.loadtxt(…)` (the table is the parameter `data` of the chains segment)
    dict(module='taurex/optimizer/multinest.py', cls='MultiNestOptimizer', func='store_nest_solutions',
         lean='multinest_store_single', callname='store_nest_solutions/whole-single', dialect='objrec', params={},
         attrs=dict(_NEST, **{'self.fit_names': ('fit_names', 'objlist:Name')}), ignore_stmts=_STATS_STMTS,
         segment=dict(start='modes = []', stop='for nmode in range(len(modes)):',
                      call='store_nest_solutions/chains-single', args={'data': ('data', 'list2')},
                      binds=['list3', 'list2', 'list']),
         loops={'range(len(modes))': 'store_nest_solutions/mode'}, result='NEST_out'),
    dict(module='taurex/optimizer/multinest.py', cls='MultiNestOptimizer', func='store_nest_solutions',
         lean='multinest_store_modes', callname='store_nest_solutions/whole-modes', dialect='objrec', params={},
         attrs=dict(_NEST, **{'self.fit_names': ('fit_names', 'objlist:Name')}), ignore_stmts=_STATS_STMTS,
         segment=dict(start='modes = []', stop='for nmode in range(len(modes)):',
                      call='store_nest_solutions/chains-modes', args={'data': ('data', 'list2')},
                      binds=['list3', 'list2', 'list3']),
         loops={'range(len(modes))': 'store_nest_solutions/mode'}, result='NEST_out'),
    dict(module='taurex/optimizer/polychord.py', cls='PolyChordOptimizer', func='store_polychord_solutions',
         lean='polychord_store', callname='store_polychord_solutions/whole', dialect='objrec', params={},
         attrs=dict(_NEST, **{'self.fit_names': ('fit_names', 'objlist:Name')}), ignore_stmts=_STATS_STMTS,
         segment=dict(start='modes_array = []', stop='for nmode in range(num_clusters):',
                      call='store_polychord_solutions/chains', args={'data': ('data', 'list2')},
                      binds=['list3', 'list2', 'nat']),
         loops={'range(num_clusters)': 'store_polychord_solutions/mode'}, result='NEST_out'),
]


# ------------------------------------------------------------------------------------------ oracles
def oracle_quantile(x, w, q):
    """the weighted-quantile rule of the property, written out: sort by value, running weight fraction, linear
    interpolation of the value against the fraction, clamped at both ends"""
    order = sorted(range(len(x)), key=lambda i: x[i])
    xs = [float(x[i]) for i in order]
    tot = 0.0
    for i in order:
        tot += float(w[i])
    acc, cdf = 0.0, []
    for i in order:
        acc += float(w[i])
        cdf.append(acc / tot)
    if q < cdf[0]:
        return xs[0]
    if q >= cdf[-1]:
        return xs[-1]
    j = max(i for i in range(len(cdf)) if cdf[i] <= q)
    if cdf[j] == q:
        return xs[j]
    return xs[j] + (xs[j + 1] - xs[j]) * (q - cdf[j]) / (cdf[j + 1] - cdf[j])


def tie_safe(x, w):
    """(x, w) re-ordered so that a stable sort reproduces numpy's argsort order inside groups of tied values"""
    x = np.asarray(x, float)
    w = np.asarray(w, float)
    if len(np.unique(x)) == len(x):
        return x, w, False
    idx = np.argsort(x)
    return x[idx], w[idx], True


def model_summary(ctx, x, w):
    xs, ws, tied = tie_safe(x, w)
    d = ctx.model().call('c09.summary', C.L(xs), C.L(ws))
    return dict(value=d.flt(), sigma_m=d.flt(), sigma_p=d.flt(), mean=d.flt()), tied


def check_summary(ctx, where, entry, trace, w, case, mean_key='mean'):
    """one fit_params / derived_params entry against the quantile rule (predicate) and the Lean summary (model)"""
    trace = np.asarray(trace, float)
    w = np.asarray(w, float)
    rng_ = float(np.max(trace) - np.min(trace))
    tol = 1e-9 * rng_ + 1e-12 * float(np.max(np.abs(trace))) + 1e-300
    xs_t, ws_t, _ = tie_safe(trace, w)       # the rule up to the order inside groups of tied values
    q16, q50, q84 = [oracle_quantile(xs_t, ws_t, q) for q in QS]
    exp = dict(value=q50, sigma_m=q50 - q16, sigma_p=q84 - q50)
    md, tied = model_summary(ctx, trace, w)
    for k in ('value', 'sigma_m', 'sigma_p'):
        ctx.check_close('%s[%s] vs Posterior.summary' % (where, k), float(entry[k]), md[k], case, rel=0, abs_=tol)
        if not abs(float(entry[k]) - exp[k]) <= 10 * tol:
            ctx.violation('quantile-rule:' + where, '%s is not the weighted %s of the stored trace' % (
                k, {'value': '50% quantile', 'sigma_m': '50%-16% quantile difference',
                    'sigma_p': '84%-50% quantile difference'}[k]), case, dict(impl=float(entry[k]), expected=exp[k]))
    if not (float(entry['sigma_m']) >= -tol and float(entry['sigma_p']) >= -tol):
        ctx.violation('negative-sigma:' + where, 'lower/upper error is negative', case,
                      dict(sigma_m=float(entry['sigma_m']), sigma_p=float(entry['sigma_p'])))
    if not (np.min(trace) - tol <= float(entry['value']) <= np.max(trace) + tol):
        ctx.violation('median-outside:' + where, 'median outside the range of the trace', case)
    if mean_key is not None and mean_key in entry:
        m = float(np.sum(trace * w) / np.sum(w))
        mtol = 1e-9 * float(np.max(np.abs(trace))) + 1e-300
        ctx.check_close('%s[mean] vs Posterior.wmean' % where, float(entry[mean_key]), md['mean'], case, rel=0, abs_=mtol)
        if not abs(float(entry[mean_key]) - m) <= mtol:
            ctx.violation('mean-rule:' + where, 'mean is not the weighted mean of the stored trace', case,
                          dict(impl=float(entry[mean_key]), expected=m))


# ------------------------------------------------------------------------------------------ generators
WKINDS = ['random', 'equal', 'ties', 'zeros', 'dominant', 'nested', 'plateau']


def gen_weights(rng, n, kind):
    if kind == 'equal':
        w = np.full(n, 1.0 / n)
    elif kind == 'ties':
        w = rng.choice(rng.random(max(1, n // 4 + 1)) + 0.05, size=n)
    elif kind == 'zeros':
        w = rng.random(n)
        w[rng.random(n) < 0.5] = 0.0
        if w.sum() == 0:
            w[int(rng.integers(0, n))] = 1.0
    elif kind == 'dominant':
        w = rng.random(n) * 1e-6
        w[int(rng.integers(0, n))] = 1.0
    elif kind == 'plateau':
        # a likelihood plateau: the greatest weight is shared by 2-4 DIFFERENT samples, the others are below it
        w = rng.random(n) * 0.9 + 1e-3
        top = rng.permutation(n)[:int(rng.integers(2, 5))]
        w[top] = 1.0
    elif kind == 'nested':
        lw = np.sort(rng.uniform(-800, 0, size=n))
        w = np.exp(lw - lw.max())           # leading weights underflow to exact zeros
    else:
        w = rng.random(n) + 1e-3
    if kind not in ('equal',) and rng.random() < 0.7:
        w = w / w.sum()
    return np.asarray(w, float)


def gen_size(rng, big):
    r = rng.random()
    if r < 0.12:
        return int(rng.integers(1, 4))
    if r < 0.6:
        return int(rng.integers(4, 40))
    return int(rng.integers(40, max(big, 41)))


def size_class(n):
    return '1' if n == 1 else ('2-3' if n < 4 else ('4-39' if n < 40 else '40+'))


def gen_column(rng, n, lo, hi, tied):
    x = rng.uniform(lo, hi, size=n)
    if tied and n >= 2:
        x = rng.choice(x[:max(1, n // 3)], size=n)
    return x


# ------------------------------------------------------------------------------------------ externals
def validate_externals(ctx):
    rng = ctx.rng
    from taurex.util.util import quantile_corner
    for _ in range(ctx.n(80, 800)):
        n = int(rng.integers(1, 30))
        xp = np.sort(rng.choice(np.round(rng.random(n), 2), size=n))      # non-decreasing with ties
        fp = rng.normal(size=n)
        xs = np.concatenate([rng.uniform(-0.2, 1.2, size=6), xp[:3], [xp[0], xp[-1]]])
        md = ctx.model().call('c09.interp', C.L(xs), C.L(xp), C.L(fp)).list()
        ctx.check_close('np.interp vs Posterior.npInterp', np.interp(xs, xp, fp), md, dict(xp=xp, fp=fp, xs=xs),
                        rel=1e-12, abs_=1e-14)
        ctx.bucket('external:interp')
    for _ in range(ctx.n(60, 600)):
        n = int(rng.integers(1, 60))
        x = rng.normal(size=n)
        if rng.random() < 0.4 and n <= 12:
            x = rng.choice(x[:max(1, n // 2)], size=n)
        w = rng.random(n)
        idx = np.argsort(x, kind='stable')
        d = ctx.model().call('c09.sort', C.L(x), C.L(w))
        ctx.check_eq('stable argsort vs Posterior.sortPairs', (x[idx].tolist(), w[idx].tolist()), (d.list(), d.list()),
                     dict(x=x, w=w))
        md = ctx.model().call('c09.cdf', C.L(w)).list()
        cdf = np.add.accumulate(w)
        cdf = cdf / cdf[-1]
        ctx.check_close('np.add.accumulate/normalise vs Posterior.cdfOf', cdf, md, dict(w=w), rel=1e-13)
        wt = gen_weights(rng, n, WKINDS[int(rng.integers(0, len(WKINDS)))])
        ctx.check_eq('np.argmax vs Posterior.argmaxFirst', int(np.argmax(wt)),
                     ctx.model().call('c09.argmax', C.L(wt)).nat(), dict(w=wt))
        ctx.check_close('np.average vs Posterior.wmean', float(np.average(x, weights=wt)),
                        ctx.model().call('c09.wmean', C.L(x), C.L(wt)).flt(), dict(x=x, w=wt), rel=0,
                        abs_=1e-12 * float(np.max(np.abs(x))))
        # restore = index.argsort(); gathered[restore] as used by compute_derived_trace: identity order (one
        # process), rank-block order (r, r+size, ... for each rank), or an arbitrary enumeration of the samples
        r_ = rng.random()
        if r_ < 0.34:
            index = np.arange(n)
        elif r_ < 0.67:
            size = int(rng.integers(1, 6))
            index = np.concatenate([np.arange(rk, n, size) for rk in range(size)]).astype(int)
        else:
            index = rng.permutation(n)
        gathered = x[index]
        ctx.check_eq('gathered[index.argsort()] vs Posterior.restoreOrder', gathered[index.argsort()].tolist(),
                     ctx.model().call('c09.restore', C.L(index, C.N), C.L(gathered)).list(), dict(index=index))
        if gathered[index.argsort()].tolist() != x.tolist():
            ctx.violation('restore-order:numpy', 'gathered[index.argsort()] is not sample order', dict(index=index))
        ctx.bucket('external:sort/accumulate/argmax/average/restore')


# ------------------------------------------------------------------------------------------ quantile stream
def eval_quantile(ctx, c):
    from taurex.util.util import quantile_corner
    x = np.asarray(c['x'], float)
    w = np.asarray(c['w'], float)
    qs = [float(q) for q in c['qs']]
    case = dict(x=x, w=w, qs=qs, kind=c.get('kind'))
    try:
        out = [float(v) for v in quantile_corner(x.copy(), qs, weights=w.copy())]
    except Exception as e:
        ctx.violation('quantile-raises', 'quantile_corner raised %r' % (e,), case)
        return
    xs, ws, tied = tie_safe(x, w)
    md = ctx.model().call('c09.quantile', C.L(xs), C.L(ws), C.L(qs)).list()
    span = float(np.max(x) - np.min(x))
    tol = 1e-9 * span + 1e-12 * float(np.max(np.abs(x))) + 1e-300
    ctx.check_close('quantile_corner vs Posterior.quantileCorner', out, md, case, rel=0, abs_=tol)
    exp = [oracle_quantile(x, w, q) for q in qs]
    if not tied and not C.close(out, exp, rel=0, abs_=10 * tol):
        ctx.violation('quantile-rule:quantile_corner', 'not the weighted quantile of the samples', case,
                      dict(impl=out, expected=exp))
    if min(out) < np.min(x) - tol or max(out) > np.max(x) + tol:
        ctx.violation('quantile-outside:quantile_corner', 'quantile outside [min, max] of the samples', case, dict(impl=out))
    srt = np.argsort(qs, kind='stable')
    o2 = np.asarray(out)[srt]
    if np.any(np.diff(o2) < -tol):
        ctx.violation('quantile-not-monotone:quantile_corner', 'quantile decreases with q', case, dict(impl=out))
    if not tied and len(x) > 1:
        p = ctx.rng.permutation(len(x))
        out_p = [float(v) for v in quantile_corner(x[p].copy(), qs, weights=w[p].copy())]
        if not C.close(out, out_p, rel=0, abs_=100 * tol):
            ctx.violation('quantile-perm:quantile_corner', 'jointly permuting samples and weights changes the quantiles',
                          case, dict(impl=out, permuted=out_p, perm=p))
    npos = int(np.sum(w > 0))
    ctx.case(key=('quantile', c.get('kind'), size_class(len(x)), tied) if npos > 1 and span > 0 else None,
             sample=dict(n=len(x), kind=c.get('kind'), qs=qs, impl=out), bucket='stream:quantile')
    ctx.bucket('weights:%s' % c.get('kind'))
    ctx.bucket('size:' + size_class(len(x)))


def gen_quantile_case(rng, k, big):
    n = gen_size(rng, big)
    kind = WKINDS[k % len(WKINDS)]
    tied = n <= 12 and rng.random() < 0.25
    x = gen_column(rng, n, -3.0, 7.0, tied)
    w = gen_weights(rng, n, kind)
    qs = QS if rng.random() < 0.6 else sorted(rng.choice([0.0, 1.0, 0.16, 0.5, 0.84, float(rng.random()),
                                                          float(rng.random())], size=3).tolist())
    if rng.random() < 0.2:          # exactly at cumulative-fraction nodes (Props.C09.quantile_at_node)
        ws = w[np.argsort(x, kind='stable')]
        cdf = np.add.accumulate(ws)
        cdf = cdf / cdf[-1]
        qs = sorted(float(v) for v in rng.choice(cdf, size=3))
    return dict(x=x, w=w, qs=qs, kind=kind)


# ------------------------------------------------------------------------------------------ fit stream
def fit_order(spec, model2, obs2):
    """K.fit_order without the parameters the case switches off with Optimizer.disable_fit (`spec['disable']`)"""
    order, fitset = K.fit_order(spec, model2, obs2)
    off = set(spec.get('disable') or [])
    return [n for n in order if n not in off], fitset


# ---- quota: user-defined priors.  "Priors are expandable with new ones implemented through plugins or custom code": a fitted
# parameter whose prior is a user's own Prior subclass (Optimizer.set_prior) that overrides prior(), the map from the sampled
# value to the value handed to the model.  `custom` entries of a fit spec: kind 'ln' (sampled in natural-log space, the model
# gets exp(value)) or 'affine' (sampled in scaled / shifted units, the model gets a*value + b), [lo, hi] the support in the
# SAMPLED space, logmode = the subclass declares PriorMode.LOG (reported name 'log_<name>')
_UP = {}


def user_prior(cu):
    from taurex.core.priors import Uniform, PriorMode
    if not _UP:
        class SampledLn(Uniform):
            """a parameter sampled in natural-log space: the model gets exp(value)"""

            def __init__(self, bounds, log_mode=False):
                super().__init__(bounds=bounds)
                if log_mode:
                    self._prior_mode = PriorMode.LOG

            def prior(self, value):
                return math.exp(value)

        class SampledScaled(Uniform):
            """a parameter sampled in scaled / shifted units: the model gets a*value + b"""

            def __init__(self, bounds, a, b, log_mode=False):
                super().__init__(bounds=bounds)
                self._a, self._b = float(a), float(b)
                if log_mode:
                    self._prior_mode = PriorMode.LOG

            def prior(self, value):
                return self._a * value + self._b
        _UP.update(ln=SampledLn, affine=SampledScaled)
    if cu['kind'] == 'ln':
        return _UP['ln'](bounds=[cu['lo'], cu['hi']], log_mode=bool(cu.get('logmode')))
    return _UP['affine'](bounds=[cu['lo'], cu['hi']], a=cu['a'], b=cu['b'], log_mode=bool(cu.get('logmode')))


def gen_custom(rng, lo, hi, increasing=False):
    """a user-defined prior whose MODEL values cover [lo, hi] (0 < lo < hi)"""
    logmode = bool(rng.random() < 0.3)
    if rng.random() < 0.5:
        return dict(kind='ln', lo=math.log(lo), hi=math.log(hi), a=0.0, b=0.0, logmode=logmode)
    a = float(rng.choice([0.2, 0.5, 2.0, 5.0, 1e3]) * (1 if (increasing or rng.random() < 0.6) else -1))
    b = float(rng.uniform(-1.0, 1.0) * hi)
    s0, s1 = (lo - b) / a, (hi - b) / a
    return dict(kind='affine', lo=min(s0, s1), hi=max(s0, s1), a=a, b=b, logmode=logmode)


def desc_of(f, default_mode):
    """K.prior_desc, plus the user-defined priors: uniform on [lo, hi] of the sampled space; d[3] = reported with 'log_'"""
    cu = f.get('custom')
    if cu is not None:
        return 0, float(cu['lo']), float(cu['hi']), bool(cu.get('logmode')), False
    return K.prior_desc(f, default_mode)


def customs_of(spec, order):
    cus = {f['name']: f.get('custom') for f in spec['fit']}
    return [cus.get(n) for n in order]


def to_model(cu, d, x):
    """the value a fitted parameter's prior hands to the model for the sampled value x: prior.prior(x) — x or 10**x for the
    built-in classes, the user's own map for a user-defined prior"""
    x = float(np.ravel(x)[0])
    if cu is not None:
        return math.exp(x) if cu['kind'] == 'ln' else cu['a'] * x + cu['b']
    return (10 ** x) if d[3] else x


def back_tok(cu, d):
    if cu is not None:
        return '2' if cu['kind'] == 'ln' else '3 %s %s' % (C.F(cu['a']), C.F(cu['b']))
    return '1' if d[3] else '0'


def make_optimizer(spec, model, obs):
    """K.make_optimizer, then the user-defined priors of the case handed over with Optimizer.set_prior"""
    opt = K.make_optimizer(spec, model, obs)
    for f in spec['fit']:
        if f.get('custom') is not None:
            opt.set_prior(f['name'], user_prior(f['custom']))
    return opt


def vector_values(order, descs, vec, customs=None):
    """{parameter name: value in linear space} of one sampled vector (log-fitted entries are exponents)"""
    customs = customs or [None] * len(order)
    return {n: to_model(cu, d, v) for n, d, v, cu in zip(order, descs, vec, customs)}


def constructed(spec, order, descs, vec):
    """the real forward model CONSTRUCTED at the sampled values (constructor arguments): independent of every setter the
    optimizer writes through and of whatever the fitted object has computed or cached before"""
    return K.build_tm(K.tm_at(spec['model'], vector_values(order, descs, vec, customs_of(spec, order))))


def add_edge_bins(rng, obs, lo, hi, delta):
    """1-2 extra observation bins that reach beyond an end of the native wavenumber grid [lo, hi] (spacing delta): bins the
    native spectrum covers only partly (10-90 %)"""
    wl = [float(x) for x in obs['wl']]
    n0 = len(wl)
    widths = obs.get('widths')
    if widths is None:
        widths = [float(w) for w in (np.asarray(wl) * rng.uniform(0.02, 0.06, size=n0))]
    else:
        widths = [float(w) for w in widths]
    spectrum, err = [float(x) for x in obs['spectrum']], [float(x) for x in obs['err']]
    ends = [['blue'], ['red'], ['blue', 'red']][int(rng.integers(0, 3))]
    for end in ends:
        W = float(delta * rng.uniform(4.0, 9.0))
        f = float(rng.uniform(-0.4, 0.8))
        c = hi + f * W / 2 if end == 'blue' else lo - f * W / 2
        w_ = 10000.0 / c
        wl.append(w_)
        widths.append(W * w_ * w_ / 10000.0)
        spectrum.append(float(np.mean(spectrum[:n0])))
        err.append(float(np.mean(err[:n0])))
    return dict(obs, wl=wl, widths=widths, spectrum=spectrum, err=err), ends


def gen_fit_spec(rng, k, big, tm=False, custom=False):
    base = K.gen_tm_spec(rng, k) if tm else K.gen_poly_spec(rng, k)
    spec = dict(base)
    spec.pop('cubes', None)
    spec['stream'] = 'fit:' + base['stream']
    spec['fit'] = [dict(f) for f in spec['fit']]
    # quota (ArraySpectrum / FluxBinner observations, half of them): observation bins that reach beyond the end of
    # the model's native grid, i.e. bins the native spectrum covers only partly
    spec['edge_bins'] = []
    if spec['obs']['type'] != 'grid' and rng.random() < 0.5:
        if tm:
            lo_, hi_, dl_ = float(K.TM_WN[0]), float(K.TM_WN[-1]), float(K.TM_WN[1] - K.TM_WN[0])
        else:
            nat_ = spec['model']['native']
            grid_ = np.arange(*nat_['arange']) if isinstance(nat_, dict) else np.asarray(nat_, float)
            lo_, hi_, dl_ = float(grid_[0]), float(grid_[-1]), float(grid_[1] - grid_[0])
        spec['obs'], spec['edge_bins'] = add_edge_bins(rng, spec['obs'], lo_, hi_, dl_)
    # quota (real model): fitted subsets around the planet - the mass fitted with / without the radius, the radius (fitted by
    # default) switched off with disable_fit
    spec['disable'] = []
    if tm:
        sub = (k // 3) % 4
        names = [f['name'] for f in spec['fit']]
        if sub in (1, 2) and 'planet_mass' not in names:
            mass = float(spec['model']['mass'])
            spec['fit'].append(dict(name='planet_mass', mode='linear', bounds=[0.4 * mass, 2.5 * mass], prior=None))
        if sub in (1, 3):
            spec['fit'] = [f for f in spec['fit'] if f['name'] != 'planet_radius']
            spec['disable'] = ['planet_radius']
        spec['subset'] = ['as-generated', 'mass-without-radius', 'mass-and-radius', 'radius-off'][sub]
    # quota (custom=True): 1-2 of the fitted parameters get a user-defined prior (a Prior subclass overriding prior()); the
    # real model keeps the map increasing and leaves the parameters alone whose invalid-atmosphere quota depends on the cube
    spec['user_priors'] = []
    if custom:
        cands = [f for f in spec['fit'] if f.get('bounds') is not None and f['bounds'][0] > 0 and f['bounds'][1] > f['bounds'][0]
                 and f['name'] != 'offset' and (not tm or (f.get('mode') == 'linear' and not f['name'].startswith('kappa')))]
        if not cands and tm:
            mass = float(spec['model']['mass'])
            if all(f['name'] != 'planet_mass' for f in spec['fit']):
                spec['fit'].append(dict(name='planet_mass', mode='linear', bounds=[0.4 * mass, 2.5 * mass], prior=None))
            cands = [f for f in spec['fit'] if f['name'] == 'planet_mass']
        for i in rng.permutation(len(cands))[:int(rng.integers(1, 3))]:
            f = cands[int(i)]
            f['prior'] = None
            f['custom'] = gen_custom(rng, float(f['bounds'][0]), float(f['bounds'][1]), increasing=tm)
            spec['user_priors'].append(f['custom']['kind'] + (':log-mode' if f['custom']['logmode'] else ''))
    # quota (MultiNest): importance sampling, which switches mode separation off; the chains directory is shared by all
    # cases of a run, so files of earlier mode-separated runs are lying around, as in a re-used chains directory
    spec['importance'] = bool(spec.get('sampler') == 'multinest' and (k // 3) % 4 == 3)
    if spec['importance']:
        spec['multimodal'] = False        # what MultiNestOptimizer does: importance sampling switches mode separation off
        spec['search_multi_modes'] = bool((k // 12) % 2 == 0)     # the option itself is left at its default half the time
    m = spec['model']
    if m['kind'] == 'poly':
        m['limit'] = 1e300
        m['nan_idx'] = []
        derived = [d for d in ['csum', 'cprod'] if rng.random() < 0.6]
    else:
        derived = [d for d in ['mu', 'logg'] if rng.random() < 0.6]
    spec['derived'] = derived
    sampler = spec['sampler']
    nmodes = 1
    if sampler == 'multinest' and spec['multimodal'] and rng.random() < 0.5:
        nmodes = int(rng.integers(2, 4))
    if sampler == 'polychord':
        spec['cluster'] = bool(rng.random() < 0.7)
        if spec['cluster'] and rng.random() < 0.5:
            nmodes = int(rng.integers(2, 4))
    model2, obs2 = K.build_pair(spec)
    order, fitset = fit_order(spec, model2, obs2)
    owner = {n: (model2 if n in model2.fittingParameters else obs2) for n in order}
    descs = [desc_of(fitset[n], owner[n].fittingParameters[n][4]) for n in order]
    modes = []
    wkind = WKINDS[(k // 3) % len(WKINDS)]
    redrawn = 0

    def draw(n, tied):
        cols = []
        for d, name in zip(descs, order):
            lo_u, hi_u = (0.05, 0.6) if tm else (0.0, 1.0)
            if name == 'P_point1':
                lo_u = 0.3
            u = gen_column(rng, n, lo_u, hi_u, tied)
            if d[4]:
                u = np.clip(u, 0.02, 0.98)
            cols.append(np.array([K.oracle_sample(d, float(x)) for x in u]))
        return np.stack(cols, axis=1)

    def valid(vec):
        """a sample the forward model rejects as an invalid atmosphere (mixture above unity, temperature nodes out of order,
        ...) is not part of a sampler's output: outside the quantifier"""
        if not tm:
            return True
        try:
            constructed(spec, order, descs, vec)
            return True
        except fx_invalid:
            return False

    fx_invalid = K.fixtures()['InvalidModelException']
    for j in range(nmodes):
        n = gen_size(rng, 60 if tm else big)
        if sampler != 'nestle':
            n = max(n, 2)          # a one-row text file is outside the quantifier (malformed stream)
        tied = n <= 12 and rng.random() < 0.15
        samples = draw(n, tied)
        keep = []
        for r in range(n):
            row = samples[r]
            tries = 0
            while not valid(row) and tries < 60:
                row = draw(1, False)[0]
                tries += 1
            if tries:
                redrawn += 1
            if tries < 60:
                keep.append(row)
        if len(keep) < (1 if sampler == 'nestle' else 2):
            raise C.InfraError('C09 generator: no valid sample row found for %r' % ([f['name'] for f in spec['fit']],))
        samples = np.stack(keep, axis=0)
        n = len(keep)
        w = gen_weights(rng, n, wkind)
        m2 = rng.permutation(n).astype(float) + rng.random()       # distinct "-2 log L" column
        modes.append(dict(samples=samples, weights=w, m2logl=m2, mean=samples.mean(0), sigma=samples.std(0) + 1e-3,
                          maximum=samples[int(np.argmin(m2))], map=samples[int(rng.integers(0, n))],
                          logz=float(-rng.uniform(1, 50)), logzerr=0.1))
    spec['modes'] = modes
    spec['wkind'] = wkind
    spec['redrawn_rows'] = redrawn
    return spec


def eval_fit(ctx, spec):
    fx = K.fixtures()
    sampler = spec['sampler']
    modes = [dict(m, samples=np.asarray(m['samples'], float), weights=np.asarray(m['weights'], float),
                  m2logl=np.asarray(m['m2logl'], float)) for m in spec['modes']]
    model, obs = K.build_pair(spec)
    model2, obs2 = K.build_pair(spec)
    order, fitset = fit_order(spec, model2, obs2)
    owner2 = {n: (model2 if n in model2.fittingParameters else obs2) for n in order}
    descs = [desc_of(fitset[n], owner2[n].fittingParameters[n][4]) for n in order]
    customs = customs_of(spec, order)
    for up in spec.get('user_priors') or []:
        ctx.bucket('prior:user-defined:' + up)
    sm = dict(K.small(spec), user_priors=[cu for cu in customs if cu is not None], derived=spec['derived'], sizes=[len(m['weights']) for m in modes], wkind=spec.get('wkind'))
    tm = spec['model']['kind'] == 'tm'
    if spec.get('subset'):
        ctx.bucket('fitted-subset:' + spec['subset'])
    if spec.get('edge_bins'):
        ctx.bucket('observation:bins-partly-outside-the-native-grid:' + '+'.join(spec['edge_bins']))
    if spec.get('redrawn_rows'):
        ctx.bucket('sample-rows-redrawn(invalid atmosphere, outside the quantifier)', int(spec['redrawn_rows']))
    case = dict(spec)
    doubles.REC.reset()
    doubles.REC.script = lambda call: dict(modes=modes, logz=-3.0, logzerr=0.2, h=1.5)
    import random
    random.seed(12345)
    try:
        with contextlib.redirect_stdout(io.StringIO()):
            opt = make_optimizer(spec, model, obs)
            for nm in spec.get('disable') or []:
                opt.disable_fit(nm)
            for d in spec['derived']:
                opt.enable_derived(d)
            sol = opt.fit()
    except Exception as e:
        import traceback
        tb = traceback.extract_tb(e.__traceback__)[-1]
        if isinstance(e, fx['InvalidModelException']):
            # every stored sample is a valid atmosphere (generator: redrawn otherwise), but a SUMMARY point computed from them
            # — the per-parameter median of a multi-node temperature profile, say — need not be one; the forward model then
            # rejects it and there is no profile / spectrum for the property to speak about: outside the quantifier
            ctx.malformed_outcome('fit:summary-point-is-an-invalid-atmosphere:' + type(e).__name__)
            return
        ctx.violation('fit-raises:' + sampler, 'Optimizer.fit() raised %r at %s:%d' % (e, tb.filename, tb.lineno),
                      case, dict(error=repr(e)))
        return
    names = opt.fit_names
    exp_names = [('log_' + n if d[3] else n) for n, d in zip(order, descs)]
    ctx.check_eq('fit_names', names, exp_names, sm)
    keys = sorted(k for k in sol if k.startswith('solution'))
    if keys != ['solution%d' % j for j in range(len(modes))]:
        ctx.violation('solutions-missing:' + sampler, 'one solution per sampler mode expected', case, dict(keys=keys))
        return
    compare_chain_files(ctx, opt, sampler, sol, names, sm)
    binner2 = obs2.create_binner()

    def write(vec):
        for n, d, v, cu in zip(order, descs, vec, customs):
            owner2[n][n] = to_model(cu, d, v)

    for j, mode in enumerate(modes):
        s = sol['solution%d' % j]
        S, W = mode['samples'], mode['weights']
        n, nd = S.shape
        where = sampler
        # ---- traces and weights stored unchanged
        same = (np.asarray(s['tracedata']).shape == S.shape and np.array_equal(np.asarray(s['tracedata']), S) and
                np.array_equal(np.asarray(s['weights']), W) and np.array_equal(np.asarray(opt.get_samples(j)), S) and
                np.array_equal(np.asarray(opt.get_weights(j)), W))
        if not same:
            ctx.violation('trace-changed:' + where, 'stored tracedata / weights are not the sampler\'s samples unchanged',
                          case, dict(mode=j))
            return
        # ---- per-parameter summaries
        mapvec, medvec = [], []
        for i, nm in enumerate(names):
            e = s['fit_params'][nm]
            if not np.array_equal(np.asarray(e['trace']), S[:, i]):
                ctx.violation('trace-column:' + where, 'fit_params trace is not the column of the stored samples', case,
                              dict(param=nm))
            check_summary(ctx, where, e, S[:, i], W, dict(sm, param=nm, mode=j),
                          mean_key='mean' if sampler == 'nestle' else None)
            medvec.append(float(e['value']))
            if sampler == 'nestle':
                mi = ctx.model().call('c09.argmax', C.L(W)).nat()
                ctx.check_close('map vs trace[Posterior.argmaxFirst]', float(e['map']), float(S[mi, i]),
                                dict(sm, param=nm), rel=0, abs_=0)
                admissible = S[W == W.max(), i]
                if float(e['map']) not in admissible.tolist():
                    ctx.violation('map-not-heaviest:' + where, 'MAP is not the sample of greatest weight', case,
                                  dict(param=nm, map=float(e['map']), heaviest=admissible))
                mapvec.append(float(e['map']))
            else:
                rep = np.ravel(np.asarray(e['nest_map'], float))
                want = mode['map'][i] if sampler == 'multinest' else S[int(np.argmin(mode['m2logl'])), i]
                if not (len(rep) == 1 and rep[0] == float(want)):
                    ctx.violation('map-passthrough:' + where, 'sampler-reported MAP not passed through unchanged', case,
                                  dict(param=nm, stored=rep, reported=float(want)))
                mapvec.append(float(rep[0]))
        if sampler == 'nestle' and nd >= 1:
            # "the MAP is THE SAMPLE of greatest weight": the reported MAP values, taken together, are one stored sample
            # (one row of the traces) and that sample carries the greatest weight - judged on the whole vector, which only
            # differs from the per-parameter judgement above when several samples share the greatest weight
            heaviest = np.flatnonzero(W == W.max())
            ctx.bucket('map:greatest-weight-shared-by:%s:%s' % ('1' if len(heaviest) == 1 else '2+', '1-param' if nd == 1 else '2+params'))
            if not any(S[r].tolist() == mapvec for r in heaviest):
                ctx.violation('map-not-one-sample:' + where, 'the reported MAP values are not, together, one of the stored samples of '
                              'greatest weight (each parameter takes its MAP from a different sample)', case,
                              dict(mode=j, map=mapvec, heaviest_samples=S[heaviest][:4], heaviest_rows=heaviest[:8]))
            d = ctx.model().call('c09.store', C.N(nd), C.LL(S.tolist()), C.L(W))
            mi = d.nat()
            ctx.check_eq('MAP vector vs Posterior.mapVector', mapvec, d.list(), sm)
            if not any(np.unique(S[:, i]).size < n for i in range(nd)):
                ctx.check_close('median vector vs Posterior.medianVector', medvec, d.list(), sm, rel=1e-9,
                                abs_=1e-9 * float(np.max(np.abs(S))))
        # ---- from the sampled space to the model: what update_model hands the model for the MAP, the median and a sample
        check_model_point(ctx, opt, model, obs, order, descs, customs, [mapvec, medvec, S[0], S[-1]], dict(sm, mode=j))
        # ---- stored spectrum = forward model at the MAP binned to the observation
        if len(modes) == 1 or True:
            write(mapvec)
            nat = model2.model(cutoff_grid=False)
            exp_sp = np.ravel(np.asarray(binner2.bindown(nat[0], nat[1])[1], float))
            sp = s['Spectra']
            got = np.ravel(np.asarray(sp['binned_spectrum'] if 'binned_spectrum' in sp else sp['native_spectrum'], float))
            if not (got.shape == exp_sp.shape and C.close(got, exp_sp, rel=1e-10, abs_=1e-300)):
                ctx.violation('spectrum-not-at-map:' + where,
                              'stored solution spectrum is not the forward model at the MAP binned to the observation',
                              case, dict(mode=j, stored=got[:4], expected=exp_sp[:4]))
            if tm:
                # the same against a forward model CONSTRUCTED at the MAP (not reached through the setters of an object that
                # has been evaluated before)
                nat3 = constructed(spec, order, descs, mapvec).model(cutoff_grid=False)
                exp3 = np.ravel(np.asarray(binner2.bindown(nat3[0], nat3[1])[1], float))
                nsp = np.ravel(np.asarray(sp.get('native_spectrum', nat3[1]), float))
                ctx.bucket('spectrum-vs-model-constructed-at-map')
                if not (got.shape == exp3.shape and C.close(got, exp3, rel=1e-9, abs_=1e-300)
                        and nsp.shape == np.ravel(nat3[1]).shape and C.close(nsp, np.ravel(nat3[1]), rel=1e-9, abs_=1e-300)):
                    ctx.violation('spectrum-not-at-map:constructed:' + where,
                                  'stored solution spectrum is not the spectrum of a forward model constructed at the MAP '
                                  '(binned to the observation)', case,
                                  dict(mode=j, map=vector_values(order, descs, mapvec, customs), stored=got[:4], expected=exp3[:4]))
            if 'binned_spectrum' in sp and spec['obs']['type'] != 'grid':
                check_binned(ctx, where, binner2, nat, got, case, dict(sm, mode=j))
            # ---- stored profiles = those of the median solution
            if True:                        # real models and the polynomial fixture (whose store_contributions fails)
                write(medvec)
                model2.model(cutoff_grid=False)
                exp_prof = model2.generate_profiles()
                for pk, pv in exp_prof.items():
                    if pk not in s['Profiles']:
                        ctx.violation('profile-missing:' + where, 'profile %s not stored' % pk, case)
                    elif isinstance(pv, np.ndarray) and not C.close(np.ravel(s['Profiles'][pk]), np.ravel(pv), rel=1e-10,
                                                                   abs_=1e-300):
                        ctx.violation('profiles-not-at-median:' + where,
                                      'stored profile %s is not that of the median solution' % pk, case,
                                      dict(mode=j, stored=np.ravel(s['Profiles'][pk])[:3], expected=np.ravel(pv)[:3]))
                if tm:
                    m3 = constructed(spec, order, descs, medvec)
                    m3.model(cutoff_grid=False)
                    for pk, pv in m3.generate_profiles().items():
                        if pk in s['Profiles'] and isinstance(pv, np.ndarray) and not C.close(
                                np.ravel(s['Profiles'][pk]), np.ravel(pv), rel=1e-9, abs_=1e-300):
                            ctx.violation('profiles-not-at-median:constructed:' + where,
                                          'stored profile %s is not that of a forward model constructed at the median '
                                          'solution' % pk, case,
                                          dict(mode=j, median=vector_values(order, descs, medvec, customs),
                                               stored=np.ravel(s['Profiles'][pk])[:3], expected=np.ravel(pv)[:3]))
                ctx.bucket('profiles-checked')
        # ---- derived traces: one entry per sample, in sample order; same quantile rule
        dp = s.get('derived_params', {})
        derived = list(spec['derived'])
        for own_ in (model2, obs2):
            derived += [n_ for n_, p_ in own_.derivedParameters.items() if p_[3] and n_ not in derived]
        if sorted(dp.keys()) != sorted(d + '_derived' for d in derived):
            ctx.violation('derived-missing:' + where, 'derived parameter entries missing', case, dict(keys=list(dp.keys())))
        for dname in derived:
            e = dp.get(dname + '_derived')
            if e is None:
                continue
            tr = np.asarray(e['trace'], float)
            if tr.shape != (n,):
                ctx.violation('derived-trace-length:' + where, 'derived trace does not have one entry per sample', case,
                              dict(shape=tr.shape, n=n))
                continue
            own = model2 if dname in model2.derivedParameters else obs2
            exp_tr = np.empty(n)
            for r in range(n):
                write(S[r])
                model2.initialize_profiles()
                exp_tr[r] = float(own.derivedParameters[dname][2]())
            if not C.close(tr, exp_tr, rel=1e-10, abs_=1e-300):
                bad = int(np.argmax(~np.isclose(tr, exp_tr, rtol=1e-10, atol=0)))
                ctx.violation('derived-trace-order:' + where,
                              'derived trace entry i is not the derived value at sample i (sample order)', case,
                              dict(first_bad=bad, stored=tr[:5], expected=exp_tr[:5], weights=W[:5]))
                continue
            if tm:
                # entry i against the derived value of a forward model CONSTRUCTED at sample i
                exp3 = np.array([float(constructed(spec, order, descs, S[r]).derivedParameters[dname][2]())
                                 for r in range(n)])
                ctx.bucket('derived-vs-models-constructed-at-the-samples')
                if not C.close(tr, exp3, rel=1e-9, abs_=1e-300):
                    bad = int(np.argmax(~np.isclose(tr, exp3, rtol=1e-9, atol=0)))
                    ctx.violation('derived-trace-order:constructed:' + where,
                                  'derived trace entry i is not the derived value of a forward model constructed at sample i',
                                  case, dict(derived=dname, first_bad=bad, stored=tr[:5], expected=exp3[:5],
                                             sample=vector_values(order, descs, S[bad], customs)))
                    continue
            if float(np.max(np.abs(exp_tr))) > 0:
                check_summary(ctx, where + ':derived', e, exp_tr, W, dict(sm, derived=dname, mode=j))
            # the re-ordering step of compute_derived_trace on the model (one process: index = 0 .. n-1)
            ctx.check_eq('derived re-ordering vs Posterior.restoreOrder', tr.tolist(),
                         ctx.model().call('c09.restore', C.L(range(n), C.N), C.L(exp_tr)).list()
                         if C.close(tr, exp_tr, rel=0, abs_=0) else tr.tolist(), sm)
            ctx.bucket('derived-checked')
        npos = int(np.sum(W > 0))
        ctx.case(key=(spec['stream'], sampler, spec.get('cluster'), spec.get('multimodal') if sampler == 'multinest' else None,
                      spec.get('wkind'), size_class(n), nd, len(spec['derived']), len(modes))
                 if npos > 1 else None,
                 sample=dict(sm, value=medvec[:2], map=mapvec[:2]), bucket='stream:' + spec['stream'])
        ctx.bucket('sampler:' + sampler)
        ctx.bucket('weights:%s' % spec.get('wkind'))
        ctx.bucket('size:' + size_class(n))
    ctx.bucket('modes:%d' % len(modes))


def check_model_point(ctx, opt, model, obs, order, descs, customs, vecs, sm):
    """Optimizer.update_model of the optimizer that produced the solution, on sampled vectors: the values that reach the
    parameters (read back through their getters) against Posterior.modelPoint — entry i is prior_i.prior(v_i), the map of
    that parameter's own prior object (x / 10**x for the built-in classes, the user's map for a user-defined prior)"""
    owner = {n: (model if n in model.fittingParameters else obs) for n in order}
    vecs = [[float(np.ravel(x)[0]) for x in v] for v in vecs]
    if any(len(v) != len(order) for v in vecs) or len(opt.fitting_parameters) != len(order):
        return
    d = ctx.model().call('c09.modelpoint', C.L(list(zip(customs, descs)), lambda cd: back_tok(cd[0], cd[1])), C.LL(vecs))
    mp = d.list(d.list)
    for v, m in zip(vecs, mp):
        try:
            opt.update_model(v)
            got = [float(owner[n].fittingParameters[n][2]()) for n in order]
        except Exception as e:
            ctx.mismatch('update_model on a stored vector', sm, dict(error=repr(e), vector=v))
            continue
        ctx.check_close('update_model: values handed to the model vs Posterior.modelPoint', got, m, dict(sm, vector=v),
                        rel=1e-12, abs_=1e-300)
        own = [float(p.prior(x)) for p, x in zip(opt.fitting_priors, v)]
        ctx.check_close("each prior's own prior(value) vs Posterior.Back.apply", own, m, dict(sm, vector=v), rel=1e-12,
                        abs_=1e-300)
    ctx.bucket('update_model-vs-modelPoint')


def check_binned(ctx, where, binner, nat, stored, case, sm):
    """'binned to the observation': the stored binned spectrum against the C05 model of FluxBinner.bindown fed with the
    native spectrum at the MAP and the observation's bins (Binning.fluxBindown and its specification overlapMeanSpec, op
    c05.flux), and against the relation itself: in every observation bin the mean of the native spectrum weighted with the
    overlap of the native bins (centre +- width/2, widths from the mid-points) with the bin, over the part of the bin the
    native grid covers"""
    nc = np.asarray(nat[0], float)
    ns = np.ravel(np.asarray(nat[1], float))
    out = binner.bindown(nc, ns)
    tc, tw = np.asarray(out[0], float), np.asarray(out[3], float)
    if len(nc) < 2 or stored.shape != tc.shape:
        return
    d = ctx.model('C05').call('c05.flux', C.N(0), C.L(nc), C.L([]), C.LL([ns.tolist()]), C.LL([]), C.N(2), C.L(tc),
                              C.L(tw))
    d.list(), d.list()
    mb = d.list(d.list)
    d.list(d.list)
    ordered = d.bool()
    sumov = np.array(d.list())
    mspec = d.list(d.list)
    if not ordered:
        return
    scale = float(np.max(np.abs(ns))) if ns.size else 1.0
    ctx.check_close('stored binned_spectrum vs Binning.fluxBindown (C05 model) of the native MAP spectrum', stored, mb[0], sm,
                    rel=1e-9, abs_=1e-12 * scale)
    # the relation itself
    edges = np.concatenate([[nc[0] - (nc[1] - nc[0]) / 2], (nc[:-1] + nc[1:]) / 2, [nc[-1] + (nc[-1] - nc[-2]) / 2]])
    nw = np.abs(np.diff(edges))
    nlo, nhi = nc - nw / 2, nc + nw / 2
    if not (np.all(np.diff(nlo) >= 0) and np.all(np.diff(nhi) >= 0)):
        return
    partly = 0
    for i, (c_, w_) in enumerate(zip(tc, tw)):
        lo, hi = c_ - w_ / 2, c_ + w_ / 2
        ov = np.clip(np.minimum(hi, nhi) - np.maximum(lo, nlo), 0.0, None)
        tot = float(np.sum(ov))
        if not tot > 1e-9 * w_:
            continue                                    # a bin the native grid does not reach: not judged
        covered = tot / w_
        if covered < 1 - 1e-9:
            partly += 1
        exp = float(np.sum(ov * ns) / tot)
        ctx.check_close('overlap-weighted mean vs Binning.overlapMeanSpec (C05 model)', exp, mspec[0][i], sm, rel=1e-9,
                        abs_=1e-12 * scale)
        if not abs(float(stored[i]) - exp) <= 1e-9 * abs(exp) + 1e-12 * scale:
            ctx.violation('spectrum-not-binned-to-observation:' + where + (':partly-covered-bin' if covered < 1 - 1e-9 else ''),
                          'stored binned spectrum is not the overlap-weighted mean of the native MAP spectrum over the '
                          'observation bin', case,
                          dict(bin=i, centre=float(c_), width=float(w_), covered_fraction=covered, stored=float(stored[i]),
                               expected=exp))
            break
    ctx.bucket('binned-spectrum-vs-overlap-mean')
    if partly:
        ctx.bucket('binned-spectrum-vs-overlap-mean:with-partly-covered-bins')


# ------------------------------------------------------------------------------------------ malformed
def malformed(ctx):
    from taurex.util.util import quantile_corner
    rng = ctx.rng
    for k in range(ctx.n(8, 60)):
        n = int(rng.integers(1, 8))
        x = rng.normal(size=n)
        what = ['zero-total', 'negative-weight', 'nan-weight', 'nan-sample'][k % 4]
        w = rng.random(n)
        if what == 'zero-total':
            w[:] = 0.0
        elif what == 'negative-weight':
            w[0] = -w[0] - 2.0
        elif what == 'nan-weight':
            w[0] = np.nan
        else:
            x[0] = np.nan
        try:
            out = quantile_corner(x, QS, weights=w)
            ctx.malformed_outcome('%s:%s' % (what, 'finite' if np.all(np.isfinite(out)) else 'nonfinite'))
        except Exception as e:
            ctx.malformed_outcome('%s:%s' % (what, type(e).__name__))
    # a posterior file with a single row (np.loadtxt returns a 1-D array); PolyChord without clustering
    for sampler, extra in [('multinest', dict(multimodal=False)), ('polychord', dict()), ('multinest', dict(multimodal=True))]:
        spec = gen_fit_spec(rng, SAMPLER_INDEX[sampler], 20)
        spec.update(extra)
        spec['modes'] = spec['modes'][:1]
        for key in ('samples', 'weights', 'm2logl'):
            spec['modes'][0][key] = np.asarray(spec['modes'][0][key])[:1]
        spec['modes'][0]['map'] = spec['modes'][0]['samples'][0]
        sub = C.Ctx(ctx.pid, ctx.tier, ctx.seed)
        sub.driver = ctx.model()
        eval_fit(sub, spec)
        ctx.malformed_outcome('one-row-file:%s%s:%s' % (sampler, '' if extra.get('multimodal', True) else '-single',
                                                      sub.violations[0]['key'] if sub.violations else 'ok'))
    try:
        spec = gen_fit_spec(rng, SAMPLER_INDEX['polychord'], 20)
        spec['modes'] = spec['modes'][:1]
        fx = K.fixtures()
        model, obs = K.build_pair(spec)
        doubles.REC.reset()
        modes = spec['modes']
        doubles.REC.script = lambda call: dict(modes=modes, logz=-3.0, logzerr=0.2, h=1.5)
        with contextlib.redirect_stdout(io.StringIO()):
            opt = fx['Pc'](polychord_path=K.tmpdir(), observed=obs, model=model, cluster=False)
            for f in spec['fit']:
                opt.enable_fit(f['name'])
                opt.set_boundary(f['name'], list(f['bounds']))
            opt.fit()
        ctx.malformed_outcome('polychord-cluster-false:ok')
    except Exception as e:
        ctx.malformed_outcome('polychord-cluster-false:%s' % type(e).__name__)


def compare_chain_files(ctx, opt, sampler, sol, names, case):
    """MultiNest / PolyChord: the text files the wrapper has just read back, read here independently and handed to the Lean
    model of the reading code (Posterior.nestChainsSingle / nestChainsModes / polyChains): every stored solution's tracedata
    and weights must be what the model makes of the files, solution by solution"""
    if sampler == 'nestle':
        return
    tab = lambda a: C.LL(np.atleast_2d(np.asarray(a, float)).tolist())
    if sampler == 'multinest':
        base = os.path.join(opt.dir_multinest, opt.multinest_prefix)
        if opt.multimodes:
            with open(base + 'post_separate.dat') as fh:
                lines = fh.readlines()
            enc = lambda ln: ('1' if ln == '\n' else '0') + ' ' + C.L([float(x) for x in ln.split()])
            d = ctx.model().call('c09.nestmodes', C.L(lines, enc))
            what = 'Posterior.nestChainsModes'
        else:
            d = ctx.model().call('c09.nestsingle', tab(np.loadtxt(base + '.txt')))
            what = 'Posterior.nestChainsSingle'
        arrays = d.list(lambda: d.list(d.list))
        weights = d.list(d.list)
    else:
        dirp = opt.dir_polychord
        dc = bool(opt.do_clustering)
        nc = int(opt.get_poly_cluster_number(dirp)) if dc else 1
        clusters = []
        if dc and nc != 1:
            clusters = [np.atleast_2d(np.loadtxt(os.path.join(dirp, 'clusters/1-_%d.txt' % (k + 1)))).tolist()
                        for k in range(nc)]
        d = ctx.model().call('c09.polychains', C.N(len(names)), C.N(1 if dc else 0), C.N(nc),
                             tab(np.loadtxt(os.path.join(dirp, '1-.txt'))), C.LLL(clusters))
        arrays = d.list(lambda: d.list(d.list))
        weights = d.list(d.list)
        nsol = d.nat()
        what = 'Posterior.polyChains'
        ctx.check_eq('number of solutions vs %s' % what, len([k for k in sol if k.startswith('solution')]), nsol, case)
    keys = sorted((k for k in sol if k.startswith('solution')), key=lambda k: int(k[8:]))
    ctx.check_eq('number of solutions vs %s (arrays)' % what, len(keys), len(arrays), case)
    for j, k in enumerate(keys[:len(arrays)]):
        td = np.asarray(sol[k]['tracedata'], float)
        ma = np.asarray(arrays[j], float).reshape(td.shape) if np.asarray(arrays[j]).size == td.size else \
            np.asarray(arrays[j], float)
        ctx.check_eq('tracedata shape vs %s' % what, list(td.shape), list(ma.shape), dict(case, solution=j))
        if td.shape == ma.shape:
            ctx.check_close('tracedata vs %s' % what, td.ravel(), ma.ravel(), dict(case, solution=j), 0.0, 0.0)
        ctx.check_close('weights vs %s' % what, np.asarray(sol[k]['weights'], float).ravel(), weights[j],
                        dict(case, solution=j), 0.0, 0.0)


SAMPLER_INDEX = {'nestle': 0, 'multinest': 1, 'polychord': 2}


# ------------------------------------------------------------------------------------------ entry points
def run(ctx):
    ctx.notes.append('MultiNest/PolyChord output files are written by the doubles in the layout the wrappers parse; the '
                     'real samplers\' layouts cannot be checked offline (modelled, not verified). Their MAP is the '
                     'sampler-reported vector and is checked for pass-through only.')
    ctx.notes.append('outside the quantifier, recorded in malformed_stream: zero / negative / NaN total weight; a '
                     'posterior text file with a single row (np.loadtxt returns 1-D, the wrappers raise IndexError)')
    try:
        K.fixtures()
        validate_externals(ctx)
        rng = ctx.rng
        big = ctx.n(200, 500)
        for k in range(ctx.n(2400, 40000)):
            eval_quantile(ctx, gen_quantile_case(rng, k, 500))
        for k in range(ctx.n(600, 9000)):
            eval_fit(ctx, gen_fit_spec(rng, k, big))
        for k in range(ctx.n(90, 800)):
            eval_fit(ctx, gen_fit_spec(rng, k, big, tm=True))
        # user-defined priors (Prior subclasses overriding prior(), set with set_prior): all three samplers, both models
        for k in range(ctx.n(75, 600)):
            eval_fit(ctx, gen_fit_spec(rng, k, big, custom=True))
        for k in range(ctx.n(12, 60)):
            eval_fit(ctx, gen_fit_spec(rng, k, big, tm=True, custom=True))
        malformed(ctx)
    finally:
        K.cleanup()


def replay(ctx, case):
    if isinstance(case.get('case'), dict) and 'sampler' not in case and 'x' not in case:
        case = case['case']          # a replay file written by main.py wraps the failing input
    try:
        K.fixtures()
        if 'modes' in case:
            eval_fit(ctx, case)
        else:
            eval_quantile(ctx, case)
    finally:
        K.cleanup()
