"""C11 — vertical structure is hydrostatic, ordered and one value per layer.

Real code: SimplePressureProfile / ArrayPressureProfile.compute_pressure_profile, Planet.gravity / gravity_at_height /
calculate_scale_properties, SimpleForwardModel (TransmissionModel) altitude / gravity / scale-height / density
bookkeeping and generate_profiles().  Compared with Structure.lean (logLevels, layerPressures, arrayLevels, scaleProps,
views, density) through the driver; the property's own predicates are evaluated on the implementation."""
import os
import math
import shutil
import numpy as np
from harness import common as C

USES_MODELS = ['C10']     # Chemistry.twoLayerGas: the layer-dependent mixing ratio on the model's pressure profile

# ----------------------------------------------------------------------------- source tie (harness/translate.py)
# Regenerated on every run into lean/TaurexModel/Gen/SrcC11.lean; lean/Props/C11Src.lean proves each definition equal to
# the hand-written model of TaurexModel/Structure.lean.  dialect='arr': the array idioms of harness/translate_arr.py.
_PLANET = 'taurex/data/planet.py'
_PATTRS = {'self.fullMass': ('fullMass', 's'), 'self.fullRadius': ('fullRadius', 's')}
SRC_SPECS = [
    dict(module=_PLANET, cls='BasePlanet', func='gravity', callname='self.gravity', lean='gravity', property=True,
         dialect='arr', params={}, attrs=_PATTRS, consts={'G': 's'}),
    dict(module=_PLANET, cls='BasePlanet', func='gravity_at_height', callname='self.gravity_at_height',
         lean='gravity_at_height', dialect='arr', params=dict(height='s'), attrs=_PATTRS, consts={'G': 's'}),
    dict(module=_PLANET, cls='BasePlanet', func='calculate_scale_properties',
         callname='self.planet.calculate_scale_properties', lean='calculate_scale_properties', dialect='arr',
         params=dict(T='arr', Pl='arr', mu='arr', length_units='skip'), lens={'T': 'n'}, consts={'KBOLTZ': 's'},
         s_externals={"conversion_factor('m', length_units)": 'unit'}, ret_kinds=['arr', 'arr', 'arr', 'arr']),
    dict(module='taurex/data/profiles/pressure/pressureprofile.py', cls='SimplePressureProfile',
         func='compute_pressure_profile', lean='compute_pressure_profile', dialect='arr', params={},
         attrs={'self._atm_min_pressure': ('pmin', 's'), 'self._atm_max_pressure': ('pmax', 's'),
                'self.nLevels': ('nLevels', 'nat'), 'self.pressure_profile_levels': ('levels', 'arr'),
                'self.pressure_profile': ('layers', 'arr')},
         state=['self.pressure_profile_levels', 'self.pressure_profile'],
         arr_externals={'np.logspace': ('logspace', ['s', 's', 'nat'], 2)}),
    dict(module='taurex/data/profiles/pressure/arraypressure.py', cls='ArrayPressureProfile',
         func='compute_pressure_profile', lean='array_pressure_levels', dialect='arr', params={},
         attrs={'self.pressure_profile': ('profile', 'arr'), 'self.pressure_profile_levels': ('levels', 'arr')},
         lens={'self.pressure_profile': 'n'}, state=['self.pressure_profile_levels'],
         arr_fn_externals={'np.gradient': 'gradient'}),
    dict(module='taurex/model/simplemodel.py', cls='SimpleForwardModel',
         func='_compute_altitude_gravity_scaleheight_profile', lean='compute_altitude_gravity_scaleheight_profile',
         dialect='arr', params=dict(mu_profile='optarr'), lens={'self.temperatureProfile': 'n'},
         attrs={'self._chemistry.muProfile': ('chem_mu', 'arr'),
                'self.pressure.pressure_profile_levels': ('levels', 'arr'),
                'self.temperatureProfile': ('temperatureProfile', 'arr'),
                'self.altitude_profile': ('altitude_profile', 'arr'),
                'self.scaleheight_profile': ('scaleheight_profile', 'arr'),
                'self.gravity_profile': ('gravity_profile', 'arr'),
                'self.altitude_boundaries': ('altitude_boundaries', 'arr'), 'self.deltaz': ('deltaz_out', 'arr')},
         state=['self.altitude_profile', 'self.scaleheight_profile', 'self.gravity_profile',
                'self.altitude_boundaries', 'self.deltaz']),
    dict(module='taurex/model/simplemodel.py', cls='SimpleForwardModel', func='densityProfile', lean='densityProfile',
         dialect='arr', params={}, returns='arr', consts={'KBOLTZ': 's'},
         attrs={'self.pressureProfile': ('pressureProfile', 'arr'),
                'self.temperatureProfile': ('temperatureProfile', 'arr')}),
    # ---- dialect 'seq': the dictionary of stored profiles (output.generate_profile_dict, then generate_profiles adds the
    # mean molecular weight).  What the model object exposes (`model.temperatureProfile`, …: per-layer arrays; the two
    # gas-mix tables: optional 2-D arrays; `model.chemistry.hasCondensates`: a bool) are inputs; `generate_profiles` passes
    # `self` as `model`, so both functions read the same attributes
    dict(module='taurex/util/output.py', func='generate_profile_dict', lean='generate_profile_dict', dialect='seq',
         params=dict(model='skip'),
         attrs={'model.temperatureProfile': ('temperatureProfile', 'list'),
                'model.chemistry.activeGasMixProfile': ('activeGasMixProfile', ('optl', 'rows')),
                'model.chemistry.inactiveGasMixProfile': ('inactiveGasMixProfile', ('optl', 'rows')),
                'model.densityProfile': ('densityProfile', 'list'),
                'model.scaleheight_profile': ('scaleheight_profile', 'list'),
                'model.altitudeProfile': ('altitudeProfile', 'list'),
                'model.gravity_profile': ('gravity_profile', 'list'),
                'model.pressureProfile': ('pressureProfile', 'list'),
                'model.chemistry.hasCondensates': ('hasCondensates', 'bool'),
                'model.chemistry.condensateMixProfile': ('condensateMixProfile', 'rows')}),
    dict(module='taurex/model/simplemodel.py', cls='SimpleForwardModel', func='generate_profiles',
         lean='generate_profiles', dialect='seq', params={},
         attrs={'self.chemistry.muProfile': ('muProfile', 'list')}),
]

RULE = ('planets 0.01-20 M_J, 0.1-3 R_J; 1-200 layers (quota for 1, 2, 3); pressure ranges pmin<pmax over 1e-6..1e8 Pa; '
        'temperature profiles isothermal / 2-point / Guillot / arbitrary positive array (quota: whole-number temperatures held '
        'in an INTEGER array - TemperatureArray(tp_array=[ints], one per layer) in the model stream, int64/int32 arrays handed to '
        'calculate_scale_properties); mean molecular weight constant '
        'or varying with height (TwoLayerGas); pressure grids: SimplePressureProfile, ArrayPressureProfile (given or '
        'reversed, log-regular / jittered / wild), FilePressureProfile (text file in Pa, bar, mbar); plus calculate_scale_properties on arbitrary strictly decreasing levels '
        'with random T and mu; re-use stream: one SimplePressureProfile / one built model whose bounds, planet mass '
        'and radius, temperatures and abundances are changed through the public setters / model[name] and which is '
        're-initialised, judged against the new values and a freshly built object; shared-components stream: a second model '
        '(other layer count / pressure grid) built around the temperature profile / chemistry / planet / star OBJECTS of a first '
        'one, both judged and compared with models built from new components; TwoLayerGas smoothing windows: default, collapsing '
        'to one layer (int(n*w/100) <= 1), wide - the CO2 row compared with the C10 model on the model pressure profile and judged '
        'for alignment with it; contributions stream: transmission / emission models that CARRY opacity contributions (absorption, '
        'CIA, Rayleigh, H- continuum with H and e- in the chemistry, grey clouds, flat Mie haze; every one at least once per run), '
        'judged after build and again after 1-3 evaluations through model() / model_contrib() / model_full_contrib() - the '
        'structure must satisfy every relation with the REQUESTED grid (an array grid is the given array) and be what it was '
        'before the evaluation; length units km / cm / mm / AU / Rjup judged against an independent table of unit sizes. distinct non-trivial = distinct (stream, pressure class, temperature class, layers, '
        'mu class) with non-constant T or mu or more than one layer')
ASSUMPTIONS = [
    'np.linspace(a, b, n+1) = i*((b-a)/n) + a with the last entry set to b; np.logspace = 10**linspace; x**2 = x*x',
    'np.gradient with unit spacing: one-sided differences at the ends, (f[i+1]-f[i-1])/2 inside',
    'conversion_factor("m", "m") = 1; KBOLTZ and G are read from taurex.constants at run time and passed to the model',
    'conversion_factor between metre multiples (m, km, cm, mm, um) = Structure.lengthFactor = ratio of the unit sizes (validated '
    'for all 25 pairs); AU = 149597870700 m, Rjup = taurex.constants.RJUP (the harness table of unit sizes)',
    'TwoLayerGas on the model pressure profile = Chemistry.twoLayerGas of the C10 model (driver_c10), for two or more layers',
    'the atmosphere stays finite in doubles (z_top below 1e3 planetary radii); runaway (unbound) cases go to the '
    'malformed stream',
    'rounding: model on Float vs numpy doubles compared to 1e-9 relative',
    'source tie (Props/C11Src.lean): np.logspace(a, b, m) = 10**linspace(a, b, m), np.gradient = gradientAt on the n '
    'entries (the two externals above), self.nLevels = nLayers + 1; the results of calculate_scale_properties carry the '
    'factor conversion_factor("m", length_units) exactly as the code multiplies it in',
    'source tie of the profile dictionary (dialect seq): output.generate_profile_dict / SimpleForwardModel.generate_profiles '
    'are translated as insertion-ordered association lists (d[k] = v replaces an existing key in place, appends a new one); '
    'what the model object exposes (per-layer arrays, the two optional gas-mix tables, hasCondensates) are inputs; '
    'Structure.profileDict is compared key by key and value by value with generate_profiles() of every built model '
    '(op c11.profiledict)',
]

REL = 1e-9
_CONST = {}



def _invalid_params(ctx, e):
    """a parameter set the model itself rejects as invalid (InvalidModelException and subclasses) is outside every
    property's quantifier: recorded in the malformed stream, never judged"""
    from taurex.exceptions import InvalidModelException
    if isinstance(e, InvalidModelException):
        ctx.malformed_outcome('invalid-model-after-setters:' + type(e).__name__)
        return True
    return False

def constants():
    if not _CONST:
        import taurex.constants as tc
        from taurex.util.util import conversion_factor
        _CONST.update(KBOLTZ=float(tc.KBOLTZ), G=float(tc.G), RJUP=float(tc.RJUP), MJUP=float(tc.MJUP),
                      AMU=float(tc.AMU), unit=float(conversion_factor('m', 'm')))
        import logging
        from taurex.log import setLogLevel
        setLogLevel(logging.CRITICAL)
    return _CONST


# ----------------------------------------------------------------------------- predicates on the implementation
def strictly_decreasing(a):
    a = np.asarray(a, float)
    return bool(np.all(a[1:] < a[:-1]))


def check_levels(ctx, levels, layers, n, pmin, pmax, case, where):
    """SimplePressureProfile: ordering, end points, geometric mean"""
    if len(levels) != n + 1 or len(layers) != n:
        ctx.violation('lengths:' + where, 'pressure levels/layers do not have nLayers+1 / nLayers entries', case,
                      dict(levels=len(levels), layers=len(layers), nlayers=n))
        return
    if not strictly_decreasing(levels):
        ctx.violation('levels-not-strictly-decreasing:' + where, 'pressure levels do not decrease strictly from the '
                      'surface to the top', case, dict(levels=levels))
    if not (C.close(levels[0], pmax, 1e-11) and C.close(levels[-1], pmin, 1e-11)):
        ctx.violation('levels-endpoints:' + where, 'first/last level is not the maximum/minimum pressure', case,
                      dict(first=levels[0], last=levels[-1], pmin=pmin, pmax=pmax))
    check_geomean(ctx, levels, layers, case, where)


def check_geomean(ctx, levels, layers, case, where):
    levels = np.asarray(levels, float)
    layers = np.asarray(layers, float)
    if not C.close(layers ** 2, levels[:-1] * levels[1:], 1e-11):
        ctx.violation('layer-not-geometric-mean:' + where, 'layer pressure squared differs from the product of its two '
                      'levels', case, dict(layers=layers, levels=levels))
    if strictly_decreasing(levels) and not bool(np.all((layers < levels[:-1]) & (layers > levels[1:]))):
        ctx.violation('layer-outside-levels:' + where, 'a layer pressure is not strictly between its two levels', case,
                      dict(layers=layers, levels=levels))


def check_hydrostatic(ctx, z, H, g, dz, T, pl, mu, gm, R, kb, case, where):
    """any strictly decreasing levels: z0 = 0, dz > 0, z strictly increasing, dz = H ln(P_l/P_{l+1}),
    H = kT/(mu g), g = GM/(R+z)^2"""
    z, H, g, dz, T, pl, mu = (np.asarray(a, float) for a in (z, H, g, dz, T, pl, mu))
    n = len(T)
    if not (len(z) == n + 1 and len(H) == n and len(g) == n and len(dz) == n):
        ctx.violation('lengths:' + where, 'z/H/g/dz do not have n+1/n/n/n entries', case,
                      dict(n=n, z=len(z), H=len(H), g=len(g), dz=len(dz)))
        return
    if z[0] != 0.0:
        ctx.violation('z0-not-zero:' + where, 'altitude does not start at zero at the surface', case, dict(z0=z[0]))
    if not bool(np.all(dz > 0)):
        ctx.violation('dz-not-positive:' + where, 'a layer thickness is not positive', case, dict(dz=dz))
    if not strictly_decreasing(-z):
        ctx.violation('z-not-increasing:' + where, 'altitude does not increase strictly', case, dict(z=z))
    if not C.close(z[1:] - z[:-1], dz, 1e-9, 1e-9 * float(np.max(np.abs(z))) * 1e-3):
        ctx.violation('z-not-cumulative-dz:' + where, 'boundaries are not the running sum of the thicknesses', case,
                      dict(z=z, dz=dz))
    if not C.close(dz, H * np.log(pl[:-1] / pl[1:]), 1e-10):
        ctx.violation('dz-formula:' + where, 'dz differs from H ln(P_lower/P_upper)', case,
                      dict(dz=dz, expected=H * np.log(pl[:-1] / pl[1:])))
    if not C.close(H, kb * T / (mu * g), 1e-10):
        ctx.violation('scale-height-formula:' + where, 'H differs from kT/(mu g)', case,
                      dict(H=H, expected=kb * T / (mu * g)))
    if not C.close(g, gm / (R + z[:-1]) ** 2, 1e-10):
        ctx.violation('gravity-inverse-square:' + where, 'g differs from GM/(R+z)^2 at the layer bottom', case,
                      dict(g=g, expected=gm / (R + z[:-1]) ** 2))


# ----------------------------------------------------------------------------- stream 1: pressure grids
def eval_simple_pressure(ctx, c):
    from taurex.data.profiles.pressure import SimplePressureProfile
    n, pmin, pmax = int(c['n']), float(c['pmin']), float(c['pmax'])
    small = dict(kind='simple-pressure', n=n, pmin=pmin, pmax=pmax)
    pp = SimplePressureProfile(n, pmin, pmax)
    pp.compute_pressure_profile()
    levels = np.asarray(pp.pressure_profile_levels, float)
    layers = np.asarray(pp.profile, float)
    ctx.case(key=('simple-pressure', n if n < 4 else int(math.log2(n)), int(math.log10(pmax / pmin))),
             sample=dict(small, levels=levels[:3], layers=layers[:2]), bucket='pressure:simple')
    ctx.bucket('layers:%s' % (n if n < 4 else '4+'))
    check_levels(ctx, levels, layers, n, pmin, pmax, small, 'SimplePressureProfile')
    if pp.nLayers != n or pp.nLevels != n + 1:
        ctx.violation('lengths:nLayers', 'nLayers/nLevels differ from the requested layer count', small)
    d = ctx.model().call('c11.levels', C.N(n), C.F(pmin), C.F(pmax))
    ml, mp = d.list(), d.list()
    ctx.check_close('SimplePressureProfile levels vs Structure.logLevels', levels, ml, small, REL)
    ctx.check_close('SimplePressureProfile layers vs Structure.layerPressures', layers, mp, small, REL)


def eval_array_pressure(ctx, c):
    from taurex.data.profiles.pressure import ArrayPressureProfile
    arr = np.asarray(c['array'], float)
    rev = bool(c['reverse'])
    small = dict(kind='array-pressure', array=arr, reverse=rev)
    prof = arr[::-1] if rev else arr
    n = len(arr)
    tmp = None
    try:
        if c.get('file'):
            # the same array through FilePressureProfile: a two-column text file in the given units, one header row
            import tempfile
            from taurex.data.profiles.pressure import FilePressureProfile
            from taurex.util.util import conversion_factor
            units = c['file']
            to_pa = float(conversion_factor(units, 'Pa'))
            tmp = tempfile.mkdtemp(prefix='verif_c11_')
            fn = os.path.join(tmp, 'pressure.dat')
            with open(fn, 'w') as fh:
                fh.write('# layer pressure[%s]\n' % units)
                for i, v in enumerate(arr):
                    fh.write('%d %s\n' % (i, repr(float(v / to_pa))))
            pp = FilePressureProfile(fn, usecols=1, skiprows=1, units=units,
                                     reverse=[rev, np.bool_(rev), int(rev)][(len(arr) + 1) % 3])
            ctx.bucket('pressure:file:' + units)
            if not C.close(np.asarray(pp.profile, float), prof, 1e-12):
                ctx.violation('file-profile-changed', 'FilePressureProfile.profile is not the file column converted '
                              'to Pa', small, dict(profile=pp.profile, expected=prof))
            prof = np.asarray(pp.profile, float)
        else:
            # the flag as a caller computes it: a Python bool, a numpy bool (`P[0] < P[-1]`) or an integer 0/1
            flag = [rev, np.bool_(rev), int(rev)][len(arr) % 3]
            ctx.bucket('reverse-flag-type:' + type(flag).__name__)
            pp = ArrayPressureProfile(arr, reverse=flag)
        pp.compute_pressure_profile()
    except Exception as e:
        if n < 2:
            d = ctx.model().call('c11.arraylevels', C.L(prof))
            ctx.check_eq('ArrayPressureProfile with one layer raises (np.gradient) vs Structure.arrayLevels = none',
                         None, d.opt(d.list), small)
            ctx.malformed_outcome('array-pressure-one-layer:' + type(e).__name__)
            return
        ctx.violation('raises:ArrayPressureProfile', 'ArrayPressureProfile raised %r' % (e,), small)
        return
    finally:
        if tmp is not None:
            shutil.rmtree(tmp, ignore_errors=True)
    levels = np.asarray(pp.pressure_profile_levels, float)
    layers = np.asarray(pp.profile, float)
    dec = strictly_decreasing(levels)
    ctx.case(key=('array-pressure', n if n < 4 else int(math.log2(n)), rev, c.get('shape'), dec),
             sample=dict(small, levels=levels[:3]), bucket='pressure:array:' + str(c.get('shape')))
    ctx.bucket('array-levels-decreasing' if dec else 'array-levels-not-decreasing(not judged)')
    if len(levels) != n + 1 or len(layers) != n or pp.nLayers != n:
        ctx.violation('lengths:ArrayPressureProfile', 'levels/layers do not have nLayers+1 / nLayers entries', small,
                      dict(levels=len(levels), layers=len(layers)))
    if not same_arrays(layers, prof):
        ctx.violation('array-profile-changed', 'ArrayPressureProfile.profile is not the given array', small)
    d = ctx.model().call('c11.arraylevels', C.L(prof))
    ml = d.opt(d.list)
    ctx.check_close('ArrayPressureProfile levels vs Structure.arrayLevels', levels, ml if ml is not None else [],
                    small, REL)
    if dec and c.get('shape') == 'logregular':
        # on a log-regular grid the given layer pressures are the geometric means of the derived levels
        check_geomean(ctx, levels, layers, small, 'ArrayPressureProfile')


def _enc_opt_table(v):
    return '0' if v is None else '1 ' + C.LL(np.asarray(v, float).tolist())


def compare_profile_dict(ctx, m, prof, small):
    """generate_profiles() of a built model against Structure.profileDict fed with the arrays the model object exposes:
    the same keys in the same (insertion) order, every value of the same kind (None / 1-D / 2-D) and equal entry by entry"""
    ch = m.chemistry
    cond = ch.condensateMixProfile if ch.hasCondensates else None
    f = lambda a: C.L(np.asarray(a, float).tolist())
    d = ctx.model().call('c11.profiledict', f(m.temperatureProfile), f(m.pressureProfile), f(m.densityProfile),
                         f(ch.muProfile), f(m.scaleheight_profile), f(m.altitudeProfile), f(m.gravity_profile),
                         _enc_opt_table(ch.activeGasMixProfile), _enc_opt_table(ch.inactiveGasMixProfile),
                         _enc_opt_table(cond))

    def val():
        tag = d.nat()
        if tag == 0:
            return None
        if tag == 1:
            return d.list()
        return d.list(d.list)
    model = d.list(lambda: (d.str(), val()))
    ctx.check_eq('generate_profiles() keys (insertion order) vs Structure.profileDict', list(prof.keys()),
                 [k for k, _ in model], small)
    for key, mv in model:
        if key not in prof:
            continue
        iv = prof[key]
        ishape = None if iv is None else list(np.asarray(iv).shape)
        mshape = None if mv is None else list(np.asarray(mv, float).shape) if len(mv) else \
            ([0] if ishape is None or len(ishape) == 1 else [0] + ishape[1:])
        ctx.check_eq('generate_profiles()[%r] kind/shape vs Structure.profileDict' % key, ishape, mshape, small)
        if iv is not None and mv is not None and ishape == mshape:
            ctx.check_close('generate_profiles()[%r] vs Structure.profileDict' % key,
                            np.asarray(iv, float).ravel(), np.asarray(mv, float).ravel(), small, 0.0, 0.0)


def same_arrays(a, b):
    a = np.asarray(a, float)
    b = np.asarray(b, float)
    return a.shape == b.shape and bool(np.all(a == b))


# ----------------------------------------------------------------------------- stream 2: calculate_scale_properties
METRE_MULTIPLES = ['m', 'km', 'cm', 'mm', 'um']


def metres_per(unit):
    """size of a length unit in metres, independent of taurex.util.util.conversion_factor"""
    k = constants()
    return {'m': 1.0, 'km': 1e3, 'cm': 1e-2, 'mm': 1e-3, 'um': 1e-6, 'AU': 149597870700.0, 'Rjup': k['RJUP']}[unit]


def check_unit_factor(ctx, a, b, case):
    """conversion_factor(a, b) against Structure.lengthFactor (metre multiples) and against the ratio of the unit sizes"""
    from taurex.util.util import conversion_factor
    f = float(conversion_factor(a, b))
    if a in METRE_MULTIPLES and b in METRE_MULTIPLES:
        d = ctx.model().call('c11.unit', C.S(a), C.S(b))
        ctx.check_close('conversion_factor(%r, %r) vs Structure.lengthFactor' % (a, b), f, d.opt(d.flt), case, 1e-12)
    ctx.check_close('conversion_factor(%r, %r) vs the ratio of the unit sizes' % (a, b), f, metres_per(a) / metres_per(b),
                    case, 1e-12)


def validate_units(ctx):
    """external: conversion_factor between every pair of metre multiples (both directions)"""
    for a in METRE_MULTIPLES:
        for b in METRE_MULTIPLES:
            check_unit_factor(ctx, a, b, dict(kind='unit', frm=a, to=b))
            ctx.bucket('external:conversion_factor')


def gen_planet(rng):
    mass = float(10 ** rng.uniform(-2, math.log10(20)))
    radius = float(10 ** rng.uniform(-1, math.log10(3)))
    return mass, radius


def bounded_T(rng, n, mass, radius, mu_amu, decades, kind):
    """temperatures such that the atmosphere stays bound (total extent below ~half a planetary radius)"""
    k = constants()
    g0 = k['G'] * mass * k['MJUP'] / (radius * k['RJUP']) ** 2
    tmax = 0.5 * radius * k['RJUP'] * mu_amu * k['AMU'] * g0 / (k['KBOLTZ'] * decades * math.log(10))
    hi = min(3500.0, tmax)
    lo = min(60.0, hi / 3)
    if kind == 'isothermal':
        return np.full(n, float(rng.uniform(lo, hi)))
    if kind == 'linear':
        return np.linspace(float(rng.uniform(lo, hi)), float(rng.uniform(lo, hi)), n)
    return rng.uniform(lo, hi, n)


def eval_direct(ctx, c):
    """Planet.calculate_scale_properties on arbitrary strictly decreasing levels"""
    from taurex.data import Planet
    k = constants()
    mass, radius = float(c['mass']), float(c['radius'])
    T = np.asarray(c['T'], float)
    pl = np.asarray(c['pl'], float)
    mu = np.asarray(c['mu'], float)
    n = len(T)
    small = dict(kind='direct', mass=mass, radius=radius, T=T, pl=pl, mu=mu)
    if c.get('tdtype'):
        small['tdtype'] = str(c['tdtype'])
    planet = Planet(mass, radius)
    M, R = float(planet.fullMass), float(planet.fullRadius)
    gm = k['G'] * M
    # quota: the temperature array as the caller holds it - whole-number temperatures in an INTEGER array (what
    # np.array([1800, 1700, ...]) or TemperatureArray(tp_array=[1800, ...]) hands over); the relations are judged with the
    # same temperatures as doubles
    Tin = T.astype(c['tdtype']) if c.get('tdtype') else T
    with np.errstate(all='ignore'):
        z, H, g, dz = planet.calculate_scale_properties(Tin, pl, mu)
    z, H, g, dz = (np.asarray(a, float) for a in (z, H, g, dz))
    if not (np.all(np.isfinite(z)) and z[-1] < 1e3 * R):
        ctx.malformed_outcome('unbound-atmosphere:' + ('finite' if np.all(np.isfinite(z)) else 'nonfinite'))
        return
    ctx.case(key=('direct', n if n < 4 else int(math.log2(n)), c.get('tkind'), c.get('mukind'), c.get('pkind')),
             sample=dict(mass=mass, radius=radius, n=n, z=z[:3], H=H[:2], g=g[:2]), bucket='scale:direct')
    ctx.bucket('layers:%s' % (n if n < 4 else '4+'))
    ctx.bucket('T:' + str(c.get('tkind')))
    ctx.bucket('mu:' + str(c.get('mukind')))
    ctx.bucket('levels:' + str(c.get('pkind')))
    ctx.bucket('T-dtype:' + str(c.get('tdtype') or 'float64'))
    if not C.close(planet.gravity, gm / R ** 2, 1e-12) or not C.close(planet.gravity_at_height(z[-1]),
                                                                      gm / (R + z[-1]) ** 2, 1e-12):
        ctx.violation('gravity-inverse-square:Planet', 'Planet.gravity / gravity_at_height is not GM/(R+h)^2', small)
    d = ctx.model().call('c11.gravity', C.F(k['G']), C.F(M), C.F(R), C.F(z[-1]))
    ctx.check_close('Planet.gravity, gravity_at_height vs Structure.surfaceGravity, gravityAt',
                    [planet.gravity, planet.gravity_at_height(z[-1])], [d.flt(), d.flt()], small, REL)
    check_hydrostatic(ctx, z, H, g, dz, T, pl, mu, gm, R, k['KBOLTZ'], small, 'calculate_scale_properties')
    d = ctx.model().call('c11.scale', C.F(k['KBOLTZ']), C.F(k['G']), C.F(M), C.F(R), C.L(T), C.L(pl), C.L(mu))
    mz, mH, mg, mdz = d.list(), d.list(), d.list(), d.list()
    ctx.check_close('calculate_scale_properties z vs Structure.scaleProps', z, mz, small, REL)
    ctx.check_close('calculate_scale_properties H vs Structure.scaleProps', H, mH, small, REL)
    ctx.check_close('calculate_scale_properties g vs Structure.scaleProps', g, mg, small, REL)
    ctx.check_close('calculate_scale_properties dz vs Structure.scaleProps', dz, mdz, small, REL)
    # non-default length units (fixed quota: every third case): all four outputs are the metre values times ONE factor,
    # so the hydrostatic relations hold in any unit
    if (n + int(abs(float(T[0])) * 7)) % 3 == 0:
        from taurex.util.util import conversion_factor
        unit = ['km', 'cm', 'AU', 'Rjup', 'mm'][(n + int(abs(float(pl[0])))) % 5]
        try:
            f = float(conversion_factor('m', unit))
            with np.errstate(all='ignore'):
                zu, Hu, gu, dzu = planet.calculate_scale_properties(Tin, pl, mu, length_units=unit)
        except Exception as e:
            ctx.violation('length-units-raises:' + unit, 'calculate_scale_properties(length_units=%r) raised %r' % (unit, e),
                          small)
            return
        ctx.bucket('length_units:' + unit)
        # the hydrostatic relations IN THE REQUESTED UNIT, with the size of the unit taken from an independent table (the
        # metre multiples: Structure.lengthFactor): H = kT/(mu g), g = GM/(R+z)^2 and the altitudes, each expressed in it
        size = metres_per(unit)
        su = dict(small, unit=unit)
        check_unit_factor(ctx, 'm', unit, su)
        g_m = gm / (R + z[:-1]) ** 2
        H_m = k['KBOLTZ'] * T / (mu * g_m)
        if not (C.close(Hu, H_m / size, 1e-9) and C.close(gu, g_m / size, 1e-9) and C.close(zu, z / size, 1e-9)
                and C.close(dzu, dz / size, 1e-9)):
            ctx.violation('length-units-scale:' + unit,
                          'calculate_scale_properties(length_units=%r): scale height / gravity / altitude are not kT/(mu g), '
                          'GM/(R+z)^2 and the hydrostatic altitude expressed in that unit' % unit, su,
                          dict(unit=unit, metres_per_unit=size, H=Hu[:3], expected_H=(H_m / size)[:3], z=zu[:3],
                               expected_z=(z / size)[:3]))
        # the planet's own radius in the same unit, and a radius given in it
        rad_u = float(planet.get_planet_radius(unit=unit))
        p2 = Planet(mass, radius)
        p2.set_planet_radius(rad_u, unit=unit)
        if not (C.close(rad_u, R / size, 1e-12) and C.close(float(p2.fullRadius), rad_u * size, 1e-12)):
            ctx.violation('length-units-radius:' + unit, 'get_planet_radius / set_planet_radius in %r do not convert by the '
                          'size of the unit' % unit, su, dict(radius_in_unit=rad_u, expected=R / size,
                                                              fullRadius_after_set=float(p2.fullRadius), expected_m=R))
        ok = (C.close(zu, z * f, 1e-12) and C.close(Hu, H * f, 1e-12) and C.close(gu, g * f, 1e-12)
              and C.close(dzu, dz * f, 1e-12) and C.close(np.diff(zu), dzu, 1e-9, abs_=1e-9 * abs(float(zu[-1]))))
        if not ok:
            ctx.violation('length-units-inconsistent:' + unit,
                          'calculate_scale_properties(length_units=%r): altitudes, scale heights, gravities and layer '
                          'thicknesses are not all the metre values times the unit factor (dz != diff z in that unit)'
                          % unit, small, dict(unit=unit, factor=f, z=zu[:3], dz=dzu[:3], z_m=z[:3], dz_m=dz[:3]))


def gen_direct(rng, k):
    quota = [1, 2, 3]
    n = quota[k % 10] if k % 10 < 3 else int(rng.integers(1, 201))
    mass, radius = gen_planet(rng)
    pkind = ['logregular', 'jittered', 'twoscale'][int(rng.integers(0, 3))]
    lmax = float(rng.uniform(2, 8))
    decades = float(rng.uniform(0.05, 12))
    if pkind == 'logregular':
        lev = np.linspace(lmax, lmax - decades, n + 1)
    elif pkind == 'jittered':
        steps = rng.uniform(0.05, 1.0, n)
        lev = lmax - np.concatenate([[0.0], np.cumsum(steps / steps.sum() * decades)])
    else:
        steps = np.where(np.arange(n) < n // 2, 1.0, 0.01) * rng.uniform(0.9, 1.1, n)
        lev = lmax - np.concatenate([[0.0], np.cumsum(steps / steps.sum() * decades)])
    pl = 10 ** lev
    mukind = 'const' if rng.random() < 0.4 else 'varying'
    mu_amu = float(rng.uniform(2.0, 44.0))
    AMU = constants()['AMU']
    mu = np.full(n, mu_amu * AMU) if mukind == 'const' else rng.uniform(2.0, 44.0, n) * AMU
    tkind = ['isothermal', 'linear', 'random'][int(rng.integers(0, 3))]
    T = bounded_T(rng, n, mass, radius, 2.0, decades, tkind)
    c = dict(mass=mass, radius=radius, T=T, pl=pl, mu=mu, tkind=tkind, mukind=mukind, pkind=pkind)
    if k % 5 == 4:                       # quota: whole-number temperatures held in an integer array
        c['T'] = np.maximum(np.floor(T), 1.0)
        c['tdtype'] = ['int64', 'int32'][(k // 5) % 2]
    return c


# ----------------------------------------------------------------------------- stream 3: a real forward model
def co2_smoothing(c):
    """smoothing window (percent of the layers) of the layer-dependent CO2 profile; cases stored before it was generated
    have the constructor default"""
    return float(c['co2'][3]) if len(c['co2']) > 3 else 10.0


def build_model(c, comps=None):
    """the forward model of case `c`; `comps` = component OBJECTS to use instead of new ones (temperature_profile,
    chemistry, planet, star): the way a session builds a second model around components it already has"""
    from taurex.model import TransmissionModel
    from taurex.data import Planet
    from taurex.data.stellar import BlackbodyStar
    from taurex.data.profiles.temperature import Isothermal, NPoint, Guillot2010
    from taurex.data.profiles.temperature.temparray import TemperatureArray
    from taurex.data.profiles.temperature.tprofile import TemperatureProfile
    from taurex.data.profiles.chemistry import TaurexChemistry, ConstantGas, TwoLayerGas
    from taurex.data.profiles.pressure import ArrayPressureProfile

    class ArrayT(TemperatureProfile):
        """an arbitrary positive temperature per layer"""

        def __init__(self, arr):
            super().__init__('ArrayT')
            self._arr = np.asarray(arr, float)

        @property
        def profile(self):
            return self._arr

    register_opacity()
    n = int(c['n'])
    if comps is None:
        comps = {}
    tk = c['tkind']
    if 'temperature_profile' in comps:
        tp = comps['temperature_profile']
    elif tk == 'isothermal':
        tp = Isothermal(float(c['T'][0]))
    elif tk == 'npoint':
        tp = NPoint(T_surface=float(c['T'][0]), T_top=float(c['T'][1]))
    elif tk == 'guillot':
        tp = Guillot2010(T_irr=float(c['T'][0]))
    elif c.get('tarray') == 'TemperatureArray-int':
        # one whole-number temperature per layer typed as plain ints: TemperatureArray hands its int64 array on unchanged
        tp = TemperatureArray(tp_array=[int(t) for t in c['T']])
    else:
        tp = ArrayT(c['T'])
    if 'chemistry' in comps:
        chem = comps['chemistry']
    else:
        chem = TaurexChemistry(fill_gases=['H2', 'He'], ratio=float(c['ratio']))
        chem.addGas(ConstantGas('H2O', mix_ratio=float(c['h2o'])))
        if c['mukind'] == 'varying':
            chem.addGas(TwoLayerGas('CO2', mix_ratio_surface=float(c['co2'][0]), mix_ratio_top=float(c['co2'][1]),
                                    mix_ratio_P=float(c['co2'][2]), mix_ratio_smoothing=co2_smoothing(c)))
        if 'hm' in [t['type'] for t in c.get('contribs', [])]:
            # the H- continuum reads atomic hydrogen and free electrons off the chemistry
            chem.addGas(ConstantGas('H', mix_ratio=float(c['hm_mix'][0])))
            chem.addGas(ConstantGas('e-', mix_ratio=float(c['hm_mix'][1])))
    kw = dict(planet=comps.get('planet') or Planet(float(c['mass']), float(c['radius'])),
              star=comps.get('star') or BlackbodyStar(5800.0, 1.0), temperature_profile=tp, chemistry=chem)
    klass = TransmissionModel
    if c.get('mkind', 'transmission') == 'emission':
        from taurex.model import EmissionModel
        klass = EmissionModel
    if c['pkind'] == 'simple':
        m = klass(nlayers=n, atm_min_pressure=float(c['pmin']), atm_max_pressure=float(c['pmax']), **kw)
    else:
        m = klass(pressure_profile=ArrayPressureProfile(np.asarray(c['array'], float), reverse=bool(c['reverse'])), **kw)
    if c.get('contribs'):
        from harness import fm_common as FM
        register_cia()
        for t in c['contribs']:
            m.add_contribution(FM.make_contribution(dict(t)))
    m.build()
    return m


def register_cia():
    """an in-memory H2-H2 collision-induced absorption table (for models that carry a CIA contribution)"""
    if _CONST.get('cia'):
        return
    from harness import fm_common as FM
    from taurex.cache import CIACache
    if 'H2-H2' not in CIACache().cia_dict:
        FM.register_cia(FM.MemCIA('H2-H2', np.linspace(400.0, 6000.0, 5), np.array([50.0, 1000.0, 5000.0]),
                                  np.full((3, 5), 1e-46)))
    _CONST['cia'] = True


def register_opacity():
    """an in-memory H2O cross-section so that the chemistry has one active and several inactive gases"""
    if _CONST.get('opacity'):
        return
    from taurex.opacity.interpolateopacity import InterpolatingOpacity
    from taurex.cache import OpacityCache
    wn = np.linspace(400.0, 6000.0, 8)
    tg = np.array([100.0, 1000.0, 4000.0])
    pg = np.array([1e-8, 1e2, 1e9])
    tab = np.full((3, 3, 8), 1e-22)

    class MemOpacity(InterpolatingOpacity):
        def __init__(self):
            super().__init__('MemOpacity', interpolation_mode='linear')

        moleculeName = 'H2O'
        xsecGrid = property(lambda self: tab)
        wavenumberGrid = property(lambda self: wn)
        temperatureGrid = property(lambda self: tg)
        pressureGrid = property(lambda self: pg)

    if 'H2O' not in OpacityCache().opacity_dict:
        OpacityCache().add_opacity(MemOpacity())
    _CONST['opacity'] = True


PER_LAYER = ['pressureProfile', 'temperatureProfile', 'densityProfile', 'altitudeProfile', 'gravity_profile',
             'scaleheight_profile', 'deltaz']


def eval_model(ctx, c):
    k = constants()
    import copy
    small = dict(c, kind='model')
    try:
        with np.errstate(all='ignore'):
            m = build_model(copy.deepcopy(c))      # the real objects keep the arrays they are handed: give them their own
    except Exception as e:
        ctx.violation('raises:build', 'building the forward model raised %r' % (e,), small)
        return
    judge_model(ctx, m, c, small, 'model')
    # quota: the structure is read again AFTER a forward-model evaluation on the same object (the usual output order:
    # model(), then the profiles): evaluating the spectrum must not alter altitudes, thicknesses, gravity, density
    if len(repr(sorted(c.items(), key=lambda kv: kv[0]))) % 3 == 0:
        try:
            with np.errstate(all='ignore'):
                m.model()
        except Exception as e:
            if not _invalid_params(ctx, e):
                ctx.violation('raises:model', 'evaluating the built forward model raised %r' % (e,), small)
            return
        ctx.bucket('model:structure-reread-after-model()')
        judge_model(AfterModelCtx(ctx, 'after-model:'), m, c, small, 'after-model')


def judge_model(ctx, m, c, small, stream):
    """every predicate and model comparison of one (freshly built or re-used) forward model against the values in `c`"""
    k = constants()
    n = int(m.nLayers)
    P = np.asarray(m.pressureProfile, float)
    pl = np.asarray(m.pressure.pressure_profile_levels, float)
    T = np.asarray(m.temperatureProfile, float)
    mu = np.asarray(m.chemistry.muProfile, float)
    z = np.asarray(m.altitude_boundaries, float)
    M, R = float(m.planet.fullMass), float(m.planet.fullRadius)
    gm = k['G'] * M
    if not (C.close(M, float(c['mass']) * k['MJUP'], 1e-12) and C.close(R, float(c['radius']) * k['RJUP'], 1e-12)):
        ctx.violation('planet-mass-radius', 'planet.fullMass/fullRadius are not the requested mass/radius', small,
                      dict(M=M, R=R))
    if not (np.all(np.isfinite(z)) and np.all(np.isfinite(T)) and np.all(T > 0) and z[-1] < 1e3 * R):
        ctx.malformed_outcome('unbound-or-nonpositive-T:' + str(c['tkind']))
        return
    dec = strictly_decreasing(pl)
    ctx.case(key=(stream, c['pkind'], c['tkind'], c['mukind'], n if n < 4 else int(math.log2(n))),
             sample=dict(n=n, pkind=c['pkind'], tkind=c['tkind'], mass=c['mass'], radius=c['radius'], z=z[:3]),
             bucket=stream + ':pressure:' + c['pkind'])
    ctx.bucket('layers:%s' % (n if n < 4 else '4+'))
    ctx.bucket('T:' + c['tkind'])
    if c['tkind'] == 'array':
        ctx.bucket(stream + ':T-array:' + str(c.get('tarray') or 'float-array') + ':dtype=' + str(np.asarray(m.temperatureProfile).dtype))
    ctx.bucket('mu:' + c['mukind'])
    # -- one value per layer, aligned with the pressure profile
    if n != int(c['n']):
        ctx.violation('lengths:nLayers', 'model.nLayers differs from the requested layer count', small)
    for name in PER_LAYER:
        v = np.asarray(getattr(m, name))
        if v.shape != (n,):
            ctx.violation('lengths:' + name, 'model.%s has shape %s for %d layers' % (name, v.shape, n), small,
                          dict(shape=list(v.shape), nlayers=n))
    if np.asarray(m.altitude_boundaries).shape != (n + 1,) or pl.shape != (n + 1,):
        ctx.violation('lengths:boundaries', 'boundary arrays do not have nLayers+1 entries', small)
    if mu.shape != (n,):
        ctx.violation('lengths:muProfile', 'chemistry.muProfile has shape %s for %d layers' % (mu.shape, n), small)
    for name in ('activeGasMixProfile', 'inactiveGasMixProfile'):
        v = np.asarray(getattr(m.chemistry, name))
        if v.ndim != 2 or v.shape[-1] != n:
            ctx.violation('lengths:' + name, 'chemistry.%s has shape %s for %d layers' % (name, v.shape, n), small)
    prof = m.generate_profiles()
    for key, v in prof.items():
        v = np.asarray(v)
        if v.ndim < 1 or v.shape[-1] != n:
            ctx.violation('lengths:generate_profiles:' + key, 'generate_profiles()[%r] has shape %s for %d layers'
                          % (key, v.shape, n), small, dict(shape=list(v.shape), nlayers=n))
    stored = dict(density_profile='densityProfile', scaleheight_profile='scaleheight_profile',
                  altitude_profile='altitudeProfile', gravity_profile='gravity_profile',
                  pressure_profile='pressureProfile', temp_profile='temperatureProfile')
    for key, attr in stored.items():
        if key not in prof or not same_arrays(prof[key], getattr(m, attr)):
            ctx.violation('stored-profile:' + key, 'generate_profiles()[%r] is not model.%s' % (key, attr), small)
    if 'mu_profile' not in prof or not same_arrays(prof['mu_profile'], mu):
        ctx.violation('stored-profile:mu_profile', 'generate_profiles()["mu_profile"] is not chemistry.muProfile', small)
    compare_profile_dict(ctx, m, prof, small)
    H = np.asarray(m.scaleheight_profile, float)
    g = np.asarray(m.gravity_profile, float)
    dz = np.asarray(m.deltaz, float)
    alt = np.asarray(m.altitudeProfile, float)
    if alt.shape == (n,) and not same_arrays(alt, z[:-1]):
        ctx.violation('altitude-profile-not-layer-bottoms', 'altitudeProfile is not the lower boundary of each layer',
                      small, dict(altitudeProfile=alt, boundaries=z))
    # -- pressure grid predicates
    if c['pkind'] == 'simple':
        check_levels(ctx, pl, P, n, float(c['pmin']), float(c['pmax']), small, 'model')
    else:
        given = np.asarray(c['array'], float)
        given = given[::-1] if c['reverse'] else given
        if not same_arrays(P, given):
            ctx.violation('array-profile-changed:model', 'model.pressureProfile of a model built on an array pressure profile is '
                          'not the given array of layer pressures', small, dict(pressureProfile=P[:4], given=given[:4]))
    # -- hydrostatic predicates (any strictly decreasing levels)
    if dec:
        if H.shape == (n,) and g.shape == (n,) and dz.shape == (n,):
            check_hydrostatic(ctx, z, H, g, dz, T, pl, mu, gm, R, k['KBOLTZ'], small, 'model')
    else:
        ctx.bucket(stream + ':levels-not-decreasing(not judged)')
    judge_mixing(ctx, m, c, small, stream, n, P, T, mu)
    dens = np.asarray(m.densityProfile, float)
    if dens.shape == (n,) and not C.close(dens, P / (k['KBOLTZ'] * T), 1e-12):
        ctx.violation('density-formula', 'densityProfile differs from P/(kT)', small)
    # -- correspondence
    d = ctx.model().call('c11.scale', C.F(k['KBOLTZ']), C.F(k['G']), C.F(M), C.F(R), C.L(T), C.L(pl), C.L(mu))
    mz, mH, mg, mdz, malt, msh, mgr = (d.list() for _ in range(7))
    ctx.check_close('model.altitude_boundaries vs Structure.scaleProps.z', z, mz, small, REL)
    ctx.check_close('model.deltaz vs Structure.scaleProps.dz', dz, mdz, small, REL)
    ctx.check_close('model.altitudeProfile vs Structure.views.altitudeProfile', alt, malt, small, REL)
    ctx.check_close('model.scaleheight_profile vs Structure.views.scaleheightProfile', H, msh, small, REL)
    ctx.check_close('model.gravity_profile vs Structure.views.gravityProfile', g, mgr, small, REL)
    d = ctx.model().call('c11.density', C.F(k['KBOLTZ']), C.L(P), C.L(T))
    ctx.check_close('model.densityProfile vs Structure.density', dens, d.list(), small, REL)
    if c['pkind'] == 'simple':
        d = ctx.model().call('c11.levels', C.N(n), C.F(float(c['pmin'])), C.F(float(c['pmax'])))
        ctx.check_close('model pressure levels vs Structure.logLevels', pl, d.list(), small, REL)
        ctx.check_close('model.pressureProfile vs Structure.layerPressures', P, d.list(), small, REL)
    else:
        d = ctx.model().call('c11.arraylevels', C.L(P))
        ml = d.opt(d.list)
        ctx.check_close('model pressure levels vs Structure.arrayLevels', pl, ml if ml is not None else [], small, REL)


def judge_mixing(ctx, m, c, small, stream, n, P, T, mu):
    """mixing ratios and mean molecular weight: one entry per layer, ALIGNED with the pressure profile (entry l belongs to
    the layer of pressure P[l], surface first).  The layer-dependent CO2 profile is compared with the C10 model of
    TwoLayerGas (Chemistry.twoLayerGas, driver_c10) evaluated on the model's own pressure profile; its own predicate: every
    layer that lies below the transition (more than the smoothing half-window under its lower node) carries the surface
    abundance, every layer above it the top abundance.  mu[l] is the sum of the layer-l mixing ratios times the masses."""
    from taurex.util.util import get_molecular_weight
    ch = m.chemistry
    mix = np.atleast_2d(np.asarray(ch.mixProfile, float))
    gases = list(ch.gases)
    if mix.shape != (len(gases), n) or mu.shape != (n,):
        return                       # reported by the length predicates
    mu_o = np.zeros(n)
    for row, g in zip(mix, gases):
        mu_o = mu_o + row * float(get_molecular_weight(g))
    if not C.close(mu, mu_o, 1e-12):
        ctx.violation('mu-not-aligned', 'muProfile[l] is not the sum of the layer-l mixing ratios times the molecular masses',
                      small, dict(mu=mu[:4], expected=mu_o[:4]))
    if c['mukind'] != 'varying' or 'CO2' not in gases:
        return
    row = np.asarray(ch.get_gas_mix_profile('CO2'), float)
    surf, top, pb = (float(x) for x in c['co2'][:3])
    w = co2_smoothing(c)
    if n < 2:
        return          # one layer: the nodes of the two-layer profile coincide (the C10 model is stated for two or more layers)
    d = ctx.model('C10').call('c10.gas', ' '.join([C.N(1), C.F(surf), C.F(top), C.F(pb), C.F(w)]), C.N(n), C.L(P), C.L(T))
    if d.nat() == 0:
        ctx.check_close('chemistry CO2 (TwoLayerGas) row vs Chemistry.twoLayerGas on the model pressure profile', row,
                        d.list(), small, REL, 1e-300)
    pl_ = int(np.abs(P - pb).argmin())
    start = max(int(pl_ - w / 2), 0)
    end = min(int(pl_ + w / 2), n - 1)
    ws = int(n * (w / 100.0))
    half = (ws + (1 if ws % 2 == 0 else 0)) // 2
    idx = np.arange(n)
    deep = idx < start - half
    high = idx > end + half
    collapsed = ws <= 1
    ctx.bucket(stream + ':two-layer-window:' + ('one-layer' if collapsed else 'several-layers'))
    if np.any(deep) or np.any(high):
        ctx.bucket(stream + ':two-layer-aligned-judged' + (':one-layer-window' if collapsed else ''))
    if (np.any(deep) and not C.close(row[deep], np.full(int(deep.sum()), surf), 1e-9)) or \
            (np.any(high) and not C.close(row[high], np.full(int(high.sum()), top), 1e-9)):
        ctx.violation('mixing-ratio-not-aligned:' + ('one-layer-window' if collapsed else 'smoothed'),
                      'the layer-dependent mixing ratio is not aligned with the pressure profile: layers below the '
                      'transition must carry the surface abundance, layers above it the top abundance', small,
                      dict(P=P, row=row, surface=surf, top=top, P_boundary=pb, window=w))


def gen_pressure_range(rng):
    lmax = float(rng.uniform(2, 8))
    decades = float(rng.choice([rng.uniform(0.01, 1), rng.uniform(1, 12)]))
    return 10 ** (lmax - decades), 10 ** lmax, decades


def gen_model_case(rng, k):
    quota = [1, 2, 3]
    n = quota[k % 8] if k % 8 < 3 else int(rng.integers(1, 201))
    mass, radius = gen_planet(rng)
    pmin, pmax, decades = gen_pressure_range(rng)
    pkind = 'simple' if rng.random() < 0.65 else 'array'
    c = dict(n=n, mass=mass, radius=radius, pmin=pmin, pmax=pmax, pkind=pkind)
    if pkind == 'array':
        if n < 2:
            n = c['n'] = 2 + int(rng.integers(0, 3))
        c.update(gen_array(rng, n, pmin, pmax))
    tkind = ['isothermal', 'npoint', 'guillot', 'array'][int(rng.integers(0, 4))]
    if n == 1 and tkind == 'npoint':
        tkind = 'array'          # NPoint needs two distinct node pressures (its own domain, C12)
    Tb = bounded_T(rng, max(n, 2), mass, radius, 2.0, decades + 1.0, 'random')
    if tkind == 'guillot':
        Tb = np.minimum(Tb, 2500.0)
    c['T'] = Tb[:n] if tkind == 'array' else Tb[:2]
    c['tkind'] = tkind
    if tkind == 'array' and k % 2 == 1:
        # quota: the per-layer temperatures typed as whole numbers (plain ints) into the stock TemperatureArray class
        c['T'] = np.maximum(np.floor(c['T']), 1.0)
        c['tarray'] = 'TemperatureArray-int'
    c['ratio'] = float(rng.uniform(0.05, 0.3))
    c['h2o'] = float(10 ** rng.uniform(-8, -1))
    c['mukind'] = 'varying' if rng.random() < 0.5 else 'const'
    c['co2'] = [float(10 ** rng.uniform(-6, -0.5)), float(10 ** rng.uniform(-9, -2)),
                float(10 ** rng.uniform(math.log10(pmin), math.log10(pmax))), gen_smoothing(rng, n, k)]
    return c


def gen_smoothing(rng, n, k):
    """smoothing window of the TwoLayerGas in percent of the layers: the constructor default, a window that collapses to a
    single layer (int(n*w/100) <= 1: nothing is trimmed off the ends of the moving average), a wide one"""
    r = (k // 2) % 4
    if r == 0:
        return 10.0
    if r == 1 or r == 3:
        return float(rng.uniform(0.0, 199.0 / max(n, 2)))
    return float(rng.uniform(0.0, 60.0))


def gen_array(rng, n, pmin, pmax):
    u = rng.random()
    shape = 'logregular' if u < 0.55 else ('jittered' if u < 0.9 else 'wild')
    if shape == 'logregular':
        lp = np.linspace(math.log10(pmax), math.log10(pmin), n)
    else:
        steps = rng.uniform(0.6, 1.0, n - 1) if shape == 'jittered' else 10 ** rng.uniform(-2, 1, n - 1)
        lp = math.log10(pmax) - np.concatenate([[0.0], np.cumsum(steps / steps.sum())]) * math.log10(pmax / pmin)
    arr = 10 ** lp
    reverse = bool(rng.random() < 0.4)
    out = dict(array=arr[::-1].copy() if reverse else arr, reverse=reverse, shape=shape)
    if rng.random() < 0.15:
        out['file'] = str(rng.choice(['Pa', 'bar', 'mbar']))
    return out


# ----------------------------------------------------------------------------- stream 3b: models that carry contributions
CONTRIB_TYPES = ['absorption', 'cia', 'rayleigh', 'hm', 'clouds', 'flatmie']
HOW_EVAL = ['model', 'model_contrib', 'model_full_contrib']
SNAPSHOT = ['pressureProfile', 'temperatureProfile', 'densityProfile', 'altitudeProfile', 'gravity_profile',
            'scaleheight_profile', 'deltaz', 'altitude_boundaries']


def gen_contrib_case(rng, k):
    """a forward model WITH opacity contributions (what every real run has): each contribution type is pinned in turn, 0-3
    more are drawn; transmission or emission; evaluated 1-3 times through one of the three public evaluation calls"""
    import copy
    c = gen_model_case(rng, k)
    n = int(c['n'])
    if n > 60:                            # the H- continuum is a Python loop over layers and wavelengths
        n = c['n'] = 2 + n % 59
        if c['pkind'] == 'array':
            c.update(gen_array(rng, n, c['pmin'], c['pmax']))
        if c['tkind'] == 'array':
            c['T'] = np.asarray(c['T'], float)[:n]
    c.pop('file', None)
    c.pop('tarray', None)                 # (the contribution kernels are compiled for double temperatures)
    types = [CONTRIB_TYPES[k % len(CONTRIB_TYPES)]]
    for t in CONTRIB_TYPES:
        if t not in types and rng.random() < 0.3:
            types.append(t)
    contribs = []
    for t in types:
        if t == 'cia':
            contribs.append(dict(type='cia', pairs=['H2-H2']))
        elif t == 'clouds':
            contribs.append(dict(type='clouds', clouds_pressure=float(10 ** rng.uniform(math.log10(c['pmin']),
                                                                                        math.log10(c['pmax'])))))
        elif t == 'flatmie':
            lo, hi = sorted(float(10 ** rng.uniform(math.log10(c['pmin']), math.log10(c['pmax']))) for _ in range(2))
            contribs.append(dict(type='flatmie', flat_mix_ratio=float(10 ** rng.uniform(-30, -24)), flat_bottomP=hi,
                                 flat_topP=lo))
        else:
            contribs.append(dict(type=t))
    c['contribs'] = contribs
    c['hm_mix'] = [float(10 ** rng.uniform(-6, -2)), float(10 ** rng.uniform(-9, -4))]
    c['mkind'] = 'emission' if k % 3 == 2 else 'transmission'
    c['evals'] = int(rng.integers(1, 4))
    c['how'] = HOW_EVAL[(k // 2) % 3]
    return dict(copy.deepcopy(c), kind='model-contrib')


def eval_model_contrib(ctx, c):
    """the structure of a model that carries contributions: judged after build and after the evaluations, against the
    values REQUESTED (a private copy of the case: the arrays handed to the real objects are theirs to keep) and against what
    the same object exposed before it was evaluated"""
    import copy
    ref = copy.deepcopy({k_: v for k_, v in c.items() if k_ != 'kind'})
    small = dict(copy.deepcopy(ref), kind='model-contrib')
    given = copy.deepcopy(ref)               # what the real objects are built from (and may hold on to)
    try:
        with np.errstate(all='ignore'):
            m = build_model(given)
    except Exception as e:
        if _invalid_params(ctx, e):
            return
        ctx.violation('raises:build', 'building the forward model raised %r' % (e,), small)
        return
    for t in ref['contribs']:
        ctx.bucket('contrib:' + t['type'])
    ctx.bucket('contrib:model:' + ref['mkind'])
    z = np.asarray(m.altitude_boundaries, float)
    T0 = np.asarray(m.temperatureProfile, float)
    if not (np.all(np.isfinite(z)) and np.all(np.isfinite(T0)) and np.all(T0 > 0) and z[-1] < 1e3 * float(m.planet.fullRadius)):
        ctx.malformed_outcome('unbound-or-nonpositive-T:' + str(ref['tkind']))
        return
    judge_model(ctx, m, ref, small, 'contrib')
    before = {a: np.array(getattr(m, a), float) for a in SNAPSHOT}
    before['pressure_profile_levels'] = np.array(m.pressure.pressure_profile_levels, float)
    before['muProfile'] = np.array(m.chemistry.muProfile, float)
    for i in range(int(ref['evals'])):
        try:
            with np.errstate(all='ignore'):
                if ref['how'] == 'model_full_contrib' and i == 0:
                    m.model()        # the order of the package's own output stage (the per-component call needs a prepared model)
                getattr(m, ref['how'])()
        except Exception as e:
            if not _invalid_params(ctx, e):
                ctx.violation('raises:' + ref['how'], 'evaluating the built forward model (%s) raised %r' % (ref['how'], e),
                              small)
            return
        ctx.bucket('contrib:structure-reread-after-%s()' % ref['how'])
        actx = AfterModelCtx(ctx, 'after-model:')
        judge_model(actx, m, ref, small, 'contrib-after-model')
        after = {a: np.asarray(getattr(m, a), float) for a in SNAPSHOT}
        after['pressure_profile_levels'] = np.asarray(m.pressure.pressure_profile_levels, float)
        after['muProfile'] = np.asarray(m.chemistry.muProfile, float)
        for name, b in before.items():
            a = after[name]
            ctx.disagreements_checked += 1
            if a.shape != b.shape or not C.close(a.ravel(), b.ravel(), 1e-12, 0.0):
                actx.violation('structure-changed:' + name, 'model.%s after evaluation %d of the forward model is not what the '
                               'same model exposed after build (same parameters)' % (name, i + 1), small,
                               dict(contributions=[t['type'] for t in ref['contribs']], after=a[:4], before=b[:4]))
                return


# ----------------------------------------------------------------------------- stream 4: re-used objects
class AfterModelCtx:
    """the run context with every violation key prefixed: structure read after model() on the same object"""

    def __init__(self, ctx, prefix):
        object.__setattr__(self, '_ctx', ctx)
        object.__setattr__(self, '_prefix', prefix)

    def __getattr__(self, name):
        return getattr(self._ctx, name)

    def __setattr__(self, name, value):
        setattr(self._ctx, name, value)

    def violation(self, key, what, case, detail=None):
        self._ctx.violation(self._prefix + key, what + ' [read after model() was evaluated on the object]', case, detail)


class PrefixCtx:
    """the run context with every violation key prefixed (same counters, same driver)"""

    def __init__(self, ctx, prefix, note=None):
        object.__setattr__(self, '_ctx', ctx)
        object.__setattr__(self, '_prefix', prefix)
        object.__setattr__(self, '_note', note)

    def __getattr__(self, name):
        return getattr(self._ctx, name)

    def __setattr__(self, name, value):
        setattr(self._ctx, name, value)

    def violation(self, key, what, case, detail=None):
        note = getattr(self, '_note', None) or ' [object re-used after a parameter change]'
        self._ctx.violation(self._prefix + key, what + note, case, detail)


FRESH_ATTRS = ['pressureProfile', 'temperatureProfile', 'densityProfile', 'altitudeProfile', 'gravity_profile',
               'scaleheight_profile', 'deltaz', 'altitude_boundaries']


def eval_reuse_pressure(ctx, c):
    """one SimplePressureProfile: compute, move the bounds through the public setters, compute again"""
    from taurex.data.profiles.pressure import SimplePressureProfile
    n = int(c['n'])
    small = dict(c, kind='reuse-pressure')
    pp = SimplePressureProfile(n, float(c['pmin0']), float(c['pmax0']))
    pp.compute_pressure_profile()
    how = c.get('how', 'property')
    if how == 'property':
        pp.minAtmospherePressure = float(c['pmin'])
        pp.maxAtmospherePressure = float(c['pmax'])
    else:
        fp = pp.fitting_parameters()
        fp['atm_min_pressure'][3](float(c['pmin']))
        fp['atm_max_pressure'][3](float(c['pmax']))
    pp.compute_pressure_profile()
    levels = np.asarray(pp.pressure_profile_levels, float)
    layers = np.asarray(pp.profile, float)
    ctx.case(key=('reuse-pressure', n if n < 4 else int(math.log2(n)), how), sample=dict(small, levels=levels[:3]),
             bucket='reuse:pressure:' + how)
    pctx = PrefixCtx(ctx, 'stale-state:')
    check_levels(pctx, levels, layers, n, float(c['pmin']), float(c['pmax']), small, 'SimplePressureProfile')
    fresh = SimplePressureProfile(n, float(c['pmin']), float(c['pmax']))
    fresh.compute_pressure_profile()
    if not (same_arrays(levels, fresh.pressure_profile_levels) and same_arrays(layers, fresh.profile)):
        ctx.violation('stale-state:pressure-differs-from-fresh', 'a SimplePressureProfile whose bounds were changed '
                      'through its setters differs from one constructed with the new bounds', small,
                      dict(levels=levels, fresh_levels=fresh.pressure_profile_levels, layers=layers,
                           fresh_layers=fresh.profile))
    d = ctx.model().call('c11.levels', C.N(n), C.F(float(c['pmin'])), C.F(float(c['pmax'])))
    ctx.check_close('re-used SimplePressureProfile levels vs Structure.logLevels', levels, d.list(), small, REL)
    ctx.check_close('re-used SimplePressureProfile layers vs Structure.layerPressures', layers, d.list(), small, REL)


def apply_changes(m, c0, c1):
    """move model `m` (built from c0) to the parameters of c1 through `model[name] = value`; returns the names set"""
    todo = [('planet_mass', c1['mass']), ('planet_radius', c1['radius']), ('He_H2', c1['ratio']), ('H2O', c1['h2o'])]
    if c1['pkind'] == 'simple':
        todo += [('atm_min_pressure', c1['pmin']), ('atm_max_pressure', c1['pmax'])]
    if c1['tkind'] == 'isothermal':
        todo += [('T', c1['T'][0])]
    elif c1['tkind'] == 'npoint':
        todo += [('T_surface', c1['T'][0]), ('T_top', c1['T'][1])]
    elif c1['tkind'] == 'guillot':
        todo += [('T_irr', c1['T'][0])]
    if c1['mukind'] == 'varying':
        todo += [('CO2_surface', c1['co2'][0]), ('CO2_top', c1['co2'][1]), ('CO2_P', c1['co2'][2])]
    if c1.get('set_order') is not None:
        # the order in which a caller writes the parameters is its own business; parameters that keep their value are not
        # written at all (e.g. a new planet mass at an unchanged radius)
        todo = [todo[i] for i in c1['set_order'] if i < len(todo)]
        same = {'planet_mass': 'mass', 'planet_radius': 'radius'}
        todo = [t for t in todo if not (t[0] in same and float(c0[same[t[0]]]) == float(c1[same[t[0]]]))]
    for name, value in todo:
        m[name] = float(value)
    return [t[0] for t in todo]


def eval_reuse_model(ctx, c):
    """one forward model: build with c['before'], set every parameter of c['after'] through model[...], re-initialise,
    judge against the NEW values and against a freshly built model"""
    c0, c1 = c['before'], c['after']
    small = dict(kind='reuse-model', before=c0, after=c1)
    try:
        with np.errstate(all='ignore'):
            m = build_model(c0)
            names = apply_changes(m, c0, c1)
            m.initialize_profiles()
            fresh = build_model(c1)
    except Exception as e:
        if _invalid_params(ctx, e):
            return
        ctx.violation('stale-state:raises', 'changing parameters of a built model and re-initialising raised %r' % (e,),
                      small)
        return
    for nm in names:
        ctx.bucket('reuse:set:' + nm)
    judge_model(PrefixCtx(ctx, 'stale-state:'), m, c1, small, 'reuse')
    z = np.asarray(fresh.altitude_boundaries, float)
    if not (np.all(np.isfinite(z)) and z[-1] < 1e3 * float(fresh.planet.fullRadius)):
        return
    pairs = [(a, getattr(m, a), getattr(fresh, a)) for a in FRESH_ATTRS]
    pairs.append(('pressure_profile_levels', m.pressure.pressure_profile_levels, fresh.pressure.pressure_profile_levels))
    pairs.append(('muProfile', m.chemistry.muProfile, fresh.chemistry.muProfile))
    for name, a, b in pairs:
        a = np.asarray(a, float)
        b = np.asarray(b, float)
        ctx.disagreements_checked += 1
        if a.shape != b.shape or not C.close(a.ravel(), b.ravel(), 1e-12, 0.0):
            ctx.violation('stale-state:differs-from-fresh:' + name, 'model.%s after changing parameters through '
                          'model[...] and re-initialising differs from a freshly built model' % name, small,
                          dict(reused=a, fresh=b))


def gen_reuse_model(rng, k):
    c0 = gen_model_case(rng, k)
    c1 = dict(c0)
    c1['mass'], c1['radius'] = gen_planet(rng)
    decades = 6.0
    if c0['pkind'] == 'simple':
        c1['pmin'], c1['pmax'], decades = gen_pressure_range(rng)
    else:
        decades = abs(math.log10(float(np.max(c0['array'])) / float(np.min(c0['array']))))
    n = int(c0['n'])
    if c0['tkind'] != 'array':
        Tb = bounded_T(rng, 2, c1['mass'], c1['radius'], 2.0, decades + 1.0, 'random')
        if c0['tkind'] == 'guillot':
            Tb = np.minimum(Tb, 2500.0)
        c1['T'] = Tb
    c1['ratio'] = float(rng.uniform(0.05, 0.3))
    c1['h2o'] = float(10 ** rng.uniform(-8, -1))
    lo = math.log10(c1['pmin']) if c1['pkind'] == 'simple' else math.log10(float(np.min(c0['array'])))
    hi = math.log10(c1['pmax']) if c1['pkind'] == 'simple' else math.log10(float(np.max(c0['array'])))
    c1['co2'] = [float(10 ** rng.uniform(-6, -0.5)), float(10 ** rng.uniform(-9, -2)), float(10 ** rng.uniform(lo, hi)),
                 co2_smoothing(c0)]
    if k % 2 == 1:
        c1['set_order'] = [int(i) for i in rng.permutation(12)]
        if rng.random() < 0.5:
            c1['radius'] = c0['radius']
    return dict(kind='reuse-model', before=c0, after=c1)


# ----------------------------------------------------------------------------- stream 5: components shared by two models
SHARE = ['temperature_profile', 'chemistry', 'planet', 'star']


def eval_shared(ctx, c):
    """a session that builds a SECOND forward model (other layer count / pressure grid, same physical parameters) around
    component objects a first model has already initialised and read: the second model is judged like a fresh one (one
    value per layer, hydrostatic, equal to a model built from new components), then the first one is re-initialised and
    judged again"""
    c0, c1, share = c['first'], c['second'], list(c['share'])
    small = dict(kind='shared', first=c0, second=c1, share=share)
    note = ' [model built around components (%s) another model had used before]' % ', '.join(share)
    try:
        with np.errstate(all='ignore'):
            a = build_model(c0)
            a.generate_profiles()
            objs = dict(temperature_profile=a.temperature, chemistry=a.chemistry, planet=a.planet, star=a.star)
            b = build_model(c1, {k_: objs[k_] for k_ in share})
    except Exception as e:
        if _invalid_params(ctx, e):
            return
        ctx.violation('shared-component:raises:build', 'building a second model around the components of a first one '
                      'raised %r' % (e,), small)
        return
    for nm in share:
        ctx.bucket('shared:' + nm)
    ctx.bucket('shared:layers:' + ('more' if int(c1['n']) > int(c0['n']) else 'fewer' if int(c1['n']) < int(c0['n'])
                                    else 'equal'))
    for which, m, cc in (('second', b, c1), ('first-again', a, c0)):
        try:
            with np.errstate(all='ignore'):
                if which == 'first-again':
                    m.initialize_profiles()
                judge_model(PrefixCtx(ctx, 'shared-component:', note), m, cc, small, 'shared-' + which)
                fresh = build_model(cc)
                pairs = [(nm, getattr(m, nm), getattr(fresh, nm)) for nm in FRESH_ATTRS]
                pairs.append(('muProfile', m.chemistry.muProfile, fresh.chemistry.muProfile))
        except Exception as e:
            if _invalid_params(ctx, e):
                return
            ctx.violation('shared-component:raises:' + which, 'reading the structure of a model built around components '
                          'another model had used raised %r' % (e,), small)
            return
        z = np.asarray(fresh.altitude_boundaries, float)
        if not (np.all(np.isfinite(z)) and z[-1] < 1e3 * float(fresh.planet.fullRadius)):
            continue
        for name, x, y in pairs:
            x = np.asarray(x, float)
            y = np.asarray(y, float)
            ctx.disagreements_checked += 1
            if x.shape != y.shape or not C.close(x.ravel(), y.ravel(), 1e-12, 0.0):
                ctx.violation('shared-component:differs-from-fresh:' + name, 'model.%s of a model built around components '
                              'another model had used differs from a model built from new components' % name, small,
                              dict(which=which, shape=list(x.shape), fresh_shape=list(y.shape), shared=x[:4], fresh=y[:4]))


def gen_shared(rng, k):
    c0 = gen_model_case(rng, k)
    if c0['tkind'] == 'array':             # one temperature per layer: cannot serve another layer count
        c0['tkind'] = ['isothermal', 'npoint', 'guillot'][k % 3]
        c0['T'] = np.minimum(np.asarray(c0['T'], float)[:2], 2500.0) if len(c0['T']) >= 2 else \
            np.array([float(c0['T'][0]), float(c0['T'][0])])
    if c0['tkind'] == 'npoint' and int(c0['n']) < 2:
        c0['n'] = 2
        if c0['pkind'] == 'array':
            c0.update(gen_array(rng, 2, c0['pmin'], c0['pmax']))
    c1 = dict(c0)
    n0 = int(c0['n'])
    lo = 2 if (c0['pkind'] == 'array' or c0['tkind'] == 'npoint') else 1
    n1 = [n0 + int(rng.integers(1, 40)), max(lo, n0 - int(rng.integers(1, 40))), int(rng.integers(lo, 201))][k % 3]
    c1['n'] = n1
    if c0['pkind'] == 'array':
        c1.pop('file', None)
        c1.update(gen_array(rng, n1, c0['pmin'], c0['pmax']))
    share = [SHARE[k % 4]] if k % 2 == 0 else [x for x in SHARE if rng.random() < 0.6] or ['temperature_profile']
    return dict(kind='shared', first=c0, second=c1, share=share)


# ----------------------------------------------------------------------------- entry points
def eval_case(ctx, c):
    kind = c.get('kind')
    if kind == 'shared':
        eval_shared(ctx, c)
    elif kind == 'reuse-pressure':
        eval_reuse_pressure(ctx, c)
    elif kind == 'reuse-model':
        eval_reuse_model(ctx, c)
    elif kind == 'simple-pressure':
        eval_simple_pressure(ctx, c)
    elif kind == 'array-pressure':
        eval_array_pressure(ctx, c)
    elif kind == 'direct':
        eval_direct(ctx, c)
    elif kind == 'model-contrib':
        eval_model_contrib(ctx, c)
    else:
        eval_model(ctx, c)


def malformed(ctx):
    """outside the quantifier: pmin = pmax, pmin > pmax, non-positive pressure, zero layers"""
    from taurex.data.profiles.pressure import SimplePressureProfile
    for name, args in [('pmin=pmax', (3, 1e3, 1e3)), ('pmin>pmax', (3, 1e4, 1e3)), ('pmin=0', (3, 0.0, 1e3)),
                       ('nlayers=0', (0, 1.0, 1e3)), ('pmin<0', (2, -1.0, 1e3))]:
        try:
            with np.errstate(all='ignore'):
                pp = SimplePressureProfile(*args)
                pp.compute_pressure_profile()
            lv = np.asarray(pp.pressure_profile_levels, float)
            ctx.malformed_outcome(name + ':' + ('decreasing' if strictly_decreasing(lv) else 'not-decreasing'))
        except Exception as e:
            ctx.malformed_outcome(name + ':' + type(e).__name__)


def run(ctx):
    rng = ctx.rng
    constants()
    validate_units(ctx)
    for k in range(ctx.n(400, 6000)):
        quota = [1, 2, 3]
        n = quota[k % 10] if k % 10 < 3 else int(rng.integers(1, 201))
        pmin, pmax, _ = gen_pressure_range(rng)
        eval_simple_pressure(ctx, dict(n=n, pmin=pmin, pmax=pmax))
    for k in range(ctx.n(300, 4000)):
        n = [1, 2, 3][k % 10] if k % 10 < 3 else int(rng.integers(2, 201))
        pmin, pmax, _ = gen_pressure_range(rng)
        if n == 1:
            eval_array_pressure(ctx, dict(array=np.array([pmax]), reverse=False, shape='single'))
        else:
            eval_array_pressure(ctx, gen_array(rng, n, pmin, pmax))
    for k in range(ctx.n(800, 12000)):
        eval_direct(ctx, gen_direct(rng, k))
    for k in range(ctx.n(500, 8000)):
        eval_model(ctx, gen_model_case(rng, k))
    for k in range(ctx.n(96, 1200)):
        eval_model_contrib(ctx, gen_contrib_case(rng, k))
    for k in range(ctx.n(150, 2500)):
        n = [1, 2, 3][k % 10] if k % 10 < 3 else int(rng.integers(1, 201))
        pmin0, pmax0, _ = gen_pressure_range(rng)
        pmin, pmax, _ = gen_pressure_range(rng)
        eval_reuse_pressure(ctx, dict(n=n, pmin0=pmin0, pmax0=pmax0, pmin=pmin, pmax=pmax,
                                      how='property' if k % 2 else 'fitparam'))
    for k in range(ctx.n(150, 2500)):
        eval_reuse_model(ctx, gen_reuse_model(rng, k))
    for k in range(ctx.n(120, 2000)):
        eval_shared(ctx, gen_shared(rng, k))
    malformed(ctx)


def replay(ctx, case):
    constants()
    eval_case(ctx, case)
