"""The `dyn` dialect of the source translator (specs with `dialect='dyn'`): DYNAMICALLY TYPED Python -> Lean 4.

`harness/translate.py` and its other dialects translate numerical kernels.  The glue code of /repo (typing of the values of
an input file, class factories, strict key checks, the recursive output writer, the loader that inverts it) is a dispatch on
the RUN-TIME TYPE of a value (`isinstance`), on exceptions (`try/except`), on dictionary membership and on string content.
This dialect keeps all of that dynamic: every Python value is a `Dyn.Val φ ω` (None | bool | int | float φ | str | list |
tuple | dict | object ω, see lean/TaurexModel/Gen/DynPrelude.lean) and every operation is the prelude function that
returns what CPython returns on those operands or raises the exception class CPython raises.  A generated definition

    def f {m} [Monad m] [MonadExceptOf Dyn.Exc m] {φ ω} [Dyn.FloatLike φ] [BEq ω] (ext : Dyn.Ext m φ ω) (p1 p2 … : Dyn.Val φ ω)
        : m (Dyn.Val φ ω)

is polymorphic in the monad `m` (`Except Dyn.Exc` for pure code, `Dyn.Eff σ` for code acting on external objects) and
takes ONE oracle `ext : Dyn.Ext m φ ω` for everything Python delegates to values that are not built-in data: module-level
names the translation does not define (`ext.global "np"`), attribute access, calls and method calls on objects, `isinstance`
against a class object, iteration / truth / arithmetic of objects, `float(str)`.  Nothing is special-cased by function
name; all text derives from the AST.  The tie theorems instantiate the oracle with the model's description of those
objects (and say so), embed the model's inputs into `Dyn.Val`, and prove that the generated function returns the embedding
of what the hand-written model function returns.

Subset (everything else raises Untranslatable):
  * statements: docstring, pass, import (the bound names are globals of the oracle unless translated in the same file),
    `x = e`, `a, b = e` (tuple unpacking: `Dyn.unpackN`, ValueError on a length mismatch), `x[k] = e`, `del x[k]`, `x op= e`,
    expression statements, `return [e]`, `raise E[(message)]`, bare `raise` in a handler, `if/elif/else`, `for t in it`
    with `break` / `continue` / `return` inside (`for … else` when the body has no `break`), `try/except` (several handlers, tuples of classes, no `else`/`finally`),
    nested `def` / `lambda` (closures over names that are not re-assigned afterwards); a nested GENERATOR function (plain
    `yield e` statements, no `return`) when it is only used as the iterable of `for` loops (`DynFn.for_generator`: the loop
    body is run at every `yield`, so the interleaving of effects is Python's); `with E as f:` (one manager, no
    return / break / continue inside; `__enter__` / `__exit__` are the oracle's, a suppressed exception continues after the
    block: `DynFn.with_stmt`); `c[...]`.
    Control flow is made explicit with the prelude's `Flow` / `LFlow` (falls through with the values of the variables the
    block assigns | `return r` | `break` | `continue`), loops are `Dyn.forM` (no escape in the body) or `Dyn.forIn`.
  * expressions (evaluated left to right into temporaries `t__N`, so the order of effects / exceptions is Python's):
    constants, names, list / tuple / dict displays, list and dict comprehensions (one `for`, optional `if`s), f-strings
    and `'..{}..'.format(…)` with plain `{}` fields, subscripts and slices (no step), attribute loads, calls (positional,
    keyword, `**d`), the operators + - * / ** % and unary -, comparisons (== != < <= > >= in / not in / is / is not), and / or /
    not (short-circuit), conditional expressions, the built-ins isinstance (built-in types, class objects, tuples of them),
    float, list, tuple, str, len, zip, enumerate, reversed, map (consumed by list()/tuple()/for), max, getattr, dict(),
    issubclass / hasattr (answered by the oracle),
    the methods lower / upper / strip / split / join / format / items / keys / values / pop / append / extend / update /
    index of built-in values (an object receiver: the oracle), any other method (oracle).
  * calls of functions translated earlier in the same file (by `callname`), with defaults, keywords and `mutates`.
  * RECURSION: `fuel=True` gives the definition a fuel argument (`0`: RecursionError — Python has a recursion limit too);
    every recursive call passes `fuel`.  `callees={'g': n}`: the function `g` it calls is a parameter (used to cut a
    mutual recursion: the caller passes itself at the smaller fuel).
  * `obj.attr[k] = e` (a store through a reference an object handed out) is the oracle's `setitem`.
  * `x[k1][k2] = e` (a store into a container that is an element of the local dict / list `x`): read `x[k1]`, store, put it
    back — only when the elements of `x` are provably referenced by `x` alone (`DynFn.nested_store_ok`).
  * logging calls (`ignore_calls`, default `log.*` / `self.debug|info|…`) and exception messages are not represented,
    but the attribute loads / subscripts / calls inside their arguments ARE evaluated (they can raise).

VALUE SEMANTICS.  Python lists and dicts are mutable objects, `Dyn.Val` is a value.  A store / `del` / mutating method on a
variable re-binds that variable; this is faithful as long as no second reference to the same object is used afterwards,
which the translator enforces: a variable may only be mutated if every binding of it is fresh (display, comprehension,
call result, operator result) or it is a parameter listed in `mutates` (the function then returns the final values of
those parameters next to its result, and a caller re-binds the variables it passed), and it is never shared (assigned to
another name, stored into a container, captured by a closure).  `unshared=[names]` in a spec overrides the check for a
name whose other reference is provably dead (stated in the tie file).  A dict / list that is iterated may not be mutated in
the loop body.  In `try: body except: handler` the handler sees the variables as they were before the `try`; the translator
therefore refuses a `try` body that assigns a variable in a non-final statement when that variable is read afterwards.
When a translated function raises, mutations it already made to its `mutates` arguments are not represented.
"""
import ast
import re

from harness.translate import Untranslatable, Fn, lname

PFX = ('{m : Type → Type} [Monad m] [MonadExceptOf Dyn.Exc m] {φ ω : Type} [Dyn.FloatLike φ] [BEq ω] '
       '(ext : Dyn.Ext m φ ω)')
V = 'Dyn.Val φ ω'

EXC_NAMES = {'Exception', 'TypeError', 'ValueError', 'KeyError', 'IndexError', 'LookupError', 'AttributeError',
             'NotImplementedError', 'RuntimeError', 'RecursionError', 'UnicodeError', 'UnicodeDecodeError',
             'ZeroDivisionError', 'ArithmeticError', 'NameError', 'OSError', 'ImportError', 'AssertionError',
             'StopIteration'}
BUILTIN_TYPES = {'bool': 'bool', 'int': 'int', 'float': 'float', 'str': 'str', 'list': 'list', 'tuple': 'tuple',
                 'dict': 'dict'}
BUILTIN_FUNCS = {'isinstance', 'float', 'list', 'tuple', 'str', 'len', 'zip', 'enumerate', 'reversed', 'map', 'max',
                 'getattr', 'dict', 'type', 'super', 'issubclass', 'hasattr'}
MUTATING = {'pop', 'append', 'extend', 'update'}
ALL_MUTATORS = MUTATING | {'insert', 'remove', 'clear', 'sort', 'reverse', 'setdefault', 'popitem', 'add', 'discard'}
VIEWS = {'items', 'keys', 'values'}
# methods of built-in values with a prelude definition: name -> number of positional arguments
PRELUDE_METHODS = {'lower': 0, 'upper': 0, 'strip': 0, 'split': 1, 'join': 1, 'index': 1}
BUILTIN_METHOD_NAMES = set()
for _t in (str, bytes, list, tuple, dict, int, float, bool, set, frozenset):
    BUILTIN_METHOD_NAMES |= {n for n in dir(_t) if not n.startswith('__')}
BINOPS = {ast.Add: 'add', ast.Sub: 'sub', ast.Mult: 'mul', ast.Div: 'truediv', ast.Pow: 'pow'}
CMPOPS = {ast.Lt: '<', ast.LtE: '<=', ast.Gt: '>', ast.GtE: '>='}
GENST = 'st__'          # inside a local generator: the state of the loop that consumes it


def lstr(s):
    """a Lean string literal"""
    out = []
    for ch in s:
        if ch == '"':
            out.append('\\"')
        elif ch == '\\':
            out.append('\\\\')
        elif ch == '\n':
            out.append('\\n')
        elif ch == '\t':
            out.append('\\t')
        elif ch == '\r':
            out.append('\\r')
        elif 32 <= ord(ch) < 127:
            out.append(ch)
        else:
            out.append('\\u{%x}' % ord(ch))
    return '"' + ''.join(out) + '"'


def ind(lines, n=2):
    """indent every (possibly multi-line) entry"""
    return ['\n'.join(' ' * n + x for x in l.split('\n')) for l in lines]


class Ctx:
    """how the block being translated ends.  kind: 'top' (function body), 'state' (falls through with `vars`, no escape),
    'flow2' (Flow: next | ret), 'flow4' (LFlow: next | ret | brk | cont); loop_vars: state of the innermost enclosing loop"""

    def __init__(self, kind, vars_=(), loop_vars=None):
        self.kind = kind
        self.vars = list(vars_)
        self.loop_vars = loop_vars


class DynFn:
    def __init__(self, spec, tree, src_lines, known):
        self.spec = spec
        self.known = known
        self.tree = tree
        self.literals = set()
        self.float_consts = {}
        self.extra_params = []
        self.index_dims = {}
        self.node = Fn.find(tree, spec['func'], spec.get('cls'))
        self.src = ''.join(src_lines[self.node.lineno - 1:self.node.end_lineno])
        self.lineno = self.node.lineno
        self.kinds = dict(spec.get('params', {}))
        self.mutates = list(spec.get('mutates', ()))
        self.fuel = bool(spec.get('fuel'))
        self.callees = dict(spec.get('callees', {}))
        self.calls = dict(spec.get('calls', {}))           # call text of the callee expression -> callname in `known`
        self.unshared = set(spec.get('unshared', ()))
        self.ignore_calls = spec.get('ignore_calls', r'^(log|self|self\._log|self\._logger)\.(debug|info|warning|error|critical)\(')
        self.lean = spec.get('lean', spec['func'])
        self.callname = spec.get('callname', spec['func'])
        self.ntemp = 0
        self.module_names = self.module_bound_names(tree)
        # `from a.b import c [as d]` at module level or inside the function: local name -> (module, name); relative imports
        # are resolved against the package of this module
        self.imports = {}
        pkg = spec['module'][:-3].replace('/', '.').split('.')[:-1]
        for n in list(tree.body) + [x for x in ast.walk(self.node) if isinstance(x, ast.ImportFrom)]:
            if isinstance(n, ast.ImportFrom):
                base = pkg[:len(pkg) - (n.level - 1)] if n.level else []
                mod = '.'.join(base + ([n.module] if n.module else []))
                for a in n.names:
                    self.imports[a.asname or a.name] = (mod, a.name)

    # ------------------------------------------------------------------ helpers
    def fail(self, node, why):
        raise Untranslatable('%s:%s line %d: %s: %s' % (self.spec['module'], self.spec['func'],
                                                        getattr(node, 'lineno', 0), why,
                                                        ast.unparse(node)[:120] if isinstance(node, ast.AST) else node))

    @staticmethod
    def module_bound_names(tree):
        """names bound at module level (a built-in name that is re-bound there is not the built-in)"""
        out = set()
        for n in tree.body:
            if isinstance(n, (ast.FunctionDef, ast.ClassDef)):
                out.add(n.name)
            elif isinstance(n, ast.Assign):
                for t in n.targets:
                    for x in ast.walk(t):
                        if isinstance(x, ast.Name):
                            out.add(x.id)
            elif isinstance(n, (ast.Import, ast.ImportFrom)):
                for a in n.names:
                    out.add((a.asname or a.name).split('.')[0])
        return out

    def temp(self):
        self.ntemp += 1
        return 't__%d' % self.ntemp

    def var(self, name):
        return lname(name)

    def is_builtin(self, name):
        return name not in self.locals and name not in self.module_names

    # ------------------------------------------------------------------ static analysis
    def own_nodes(self, stmts):
        """all AST nodes of a statement list, not descending into nested function definitions / lambdas"""
        stack = list(stmts)
        while stack:
            n = stack.pop()
            yield n
            for c in ast.iter_child_nodes(n):
                if isinstance(c, (ast.FunctionDef, ast.Lambda)):
                    yield c
                    continue
                stack.append(c)

    def target_names(self, t, out):
        if isinstance(t, ast.Name):
            out.append(t.id)
        elif isinstance(t, (ast.Tuple, ast.List)):
            for e in t.elts:
                self.target_names(e, out)
        elif isinstance(t, ast.Subscript) and isinstance(t.value, ast.Name):
            out.append(t.value.id)
        elif isinstance(t, ast.Subscript) and isinstance(t.value, ast.Subscript) and isinstance(t.value.value, ast.Name):
            out.append(t.value.value.id)                  # `x[k1][k2] = e` re-binds `x` (see `nested_store_ok`)
        elif isinstance(t, ast.Starred):
            self.fail(t, 'starred assignment target')

    def mutated_by_call(self, call):
        """names re-bound by a call expression: receiver of a mutating method, arguments in `mutates` positions of a known
        function"""
        out = []
        f = call.func
        if isinstance(f, ast.Attribute) and f.attr in MUTATING and isinstance(f.value, ast.Name) \
                and f.value.id in self.locals:
            out.append(f.value.id)
        tgt = self.known_target(call)
        if tgt is not None and tgt['dyn']['mutates']:
            bound = self.bind_args(call, tgt, check_only=True)
            for p in tgt['dyn']['mutates']:
                a = bound.get(p)
                if isinstance(a, ast.Name):
                    out.append(a.id)
        return out

    def assigned(self, stmts):
        """names (re)bound in a statement list, in order of first occurrence (nested defs excluded, loop targets excluded)"""
        out = []

        def add(n):
            if n not in out:
                out.append(n)

        def expr_calls(node):
            for x in self.own_nodes([node]):
                if isinstance(x, ast.Call):
                    for n in self.mutated_by_call(x):
                        add(n)

        def walk(ss):
            for s in ss:
                if isinstance(s, ast.Assign):
                    expr_calls(s.value)
                    for t in s.targets:
                        names = []
                        self.target_names(t, names)
                        for n in names:
                            add(n)
                elif isinstance(s, ast.AugAssign):
                    expr_calls(s.value)
                    names = []
                    self.target_names(s.target, names)
                    for n in names:
                        add(n)
                elif isinstance(s, ast.Delete):
                    for t in s.targets:
                        names = []
                        self.target_names(t, names)
                        for n in names:
                            add(n)
                elif isinstance(s, ast.For):
                    expr_calls(s.iter)
                    walk(s.body)
                elif isinstance(s, ast.If):
                    expr_calls(s.test)
                    walk(s.body)
                    walk(s.orelse)
                elif isinstance(s, ast.Try):
                    walk(s.body)
                    for h in s.handlers:
                        walk(h.body)
                elif isinstance(s, ast.FunctionDef):
                    add(s.name)
                elif isinstance(s, ast.With):
                    for it in s.items:
                        expr_calls(it.context_expr)
                        if it.optional_vars is not None:
                            names = []
                            self.target_names(it.optional_vars, names)
                            for n in names:
                                add(n)
                    walk(s.body)
                elif isinstance(s, (ast.Expr, ast.Return, ast.Raise)):
                    if isinstance(s, ast.Expr) and isinstance(s.value, ast.Yield):
                        add(GENST)                        # `yield e` hands the consumer's state through (see `for_generator`)
                    if getattr(s, 'value', None) is not None:
                        expr_calls(s.value)
                    if isinstance(s, ast.Raise) and s.exc is not None:
                        expr_calls(s.exc)
        walk(stmts)
        return out

    def can_fall(self, stmts):
        for s in stmts:
            if isinstance(s, (ast.Return, ast.Raise, ast.Break, ast.Continue)):
                return False
            if isinstance(s, ast.If) and s.orelse and not self.can_fall(s.body) and not self.can_fall(s.orelse):
                return False
            if isinstance(s, ast.Try) and not self.can_fall(s.body) and all(not self.can_fall(h.body) for h in s.handlers):
                return False
        return True

    def escapes(self, stmts, in_loop=False):
        """(has a `return`, has a `break`/`continue` that leaves this statement list)"""
        ret = brk = False
        for s in stmts:
            if isinstance(s, ast.Return):
                ret = True
            elif isinstance(s, (ast.Break, ast.Continue)):
                brk = brk or not in_loop
            elif isinstance(s, ast.If):
                r1, b1 = self.escapes(s.body, in_loop)
                r2, b2 = self.escapes(s.orelse, in_loop)
                ret, brk = ret or r1 or r2, brk or b1 or b2
            elif isinstance(s, ast.For):
                r1, _ = self.escapes(s.body, True)
                ret = ret or r1
            elif isinstance(s, ast.Try):
                for blk in [s.body] + [h.body for h in s.handlers]:
                    r1, b1 = self.escapes(blk, in_loop)
                    ret, brk = ret or r1, brk or b1
            elif isinstance(s, ast.With):
                r1, b1 = self.escapes(s.body, in_loop)
                ret, brk = ret or r1, brk or b1
        return ret, brk

    def defs_after(self, stmts, defined):
        """names definitely bound when the statement list falls through"""
        d = set(defined)
        for s in stmts:
            if isinstance(s, (ast.Assign, ast.AugAssign)):
                for t in (s.targets if isinstance(s, ast.Assign) else [s.target]):
                    names = []
                    self.target_names(t, names)
                    d |= set(names)
            elif isinstance(s, ast.FunctionDef):
                d.add(s.name)
            elif isinstance(s, ast.If):
                alts = [b for b in (s.body, s.orelse) if self.can_fall(b)]
                if alts:
                    sets = [self.defs_after(b, d) for b in alts]
                    d = set.intersection(*sets)
            elif isinstance(s, ast.Try):
                alts = []
                if self.can_fall(s.body):
                    alts.append(self.defs_after(s.body, d))
                for h in s.handlers:
                    if self.can_fall(h.body):
                        alts.append(self.defs_after(h.body, d))
                if alts:
                    d = set.intersection(*alts)
            elif isinstance(s, ast.With):
                for it in s.items:
                    if isinstance(it.optional_vars, ast.Name):
                        d.add(it.optional_vars.id)
            elif isinstance(s, (ast.Import, ast.ImportFrom)):
                pass
        return d

    def reads(self, nodes):
        out = set()
        for n in nodes:
            for x in ast.walk(n):
                if isinstance(x, ast.Name) and isinstance(x.ctx, ast.Load):
                    out.add(x.id)
        return out

    def check_aliasing(self):
        body = self.node.body
        mutated = {}
        fresh_ok = {}
        shared = set()

        def is_fresh(v):
            return isinstance(v, (ast.Dict, ast.List, ast.Set, ast.ListComp, ast.DictComp, ast.SetComp, ast.Call,
                                  ast.BinOp, ast.JoinedStr, ast.Constant, ast.Compare, ast.UnaryOp))

        def share(v):
            """bare names inside a value that is stored somewhere"""
            if isinstance(v, ast.Name):
                shared.add(v.id)
            elif isinstance(v, (ast.Tuple, ast.List, ast.Set)):
                for e in v.elts:
                    share(e)
            elif isinstance(v, ast.Dict):
                for e in v.values:
                    share(e)
            elif isinstance(v, ast.BoolOp):
                for e in v.values:
                    share(e)
            elif isinstance(v, ast.IfExp):
                share(v.body)
                share(v.orelse)

        for n in self.own_nodes(body):
            if isinstance(n, ast.Assign):
                for t in n.targets:
                    if isinstance(t, ast.Name):
                        fresh_ok.setdefault(t.id, True)
                        if not is_fresh(n.value):
                            fresh_ok[t.id] = False
                    elif isinstance(t, (ast.Tuple, ast.List)):
                        names = []
                        self.target_names(t, names)
                        for nm in names:
                            # the components of a call result are fresh objects as far as this function is concerned
                            fresh_ok[nm] = fresh_ok.get(nm, True) and isinstance(n.value, ast.Call)
                    elif isinstance(t, ast.Subscript) and isinstance(t.value, ast.Name):
                        mutated[t.value.id] = n
                    elif isinstance(t, ast.Subscript) and isinstance(t.value, ast.Subscript) \
                            and isinstance(t.value.value, ast.Name):
                        mutated[t.value.value.id] = n         # `x[k1][k2] = e`
                share(n.value)
            elif isinstance(n, ast.AugAssign):
                if isinstance(n.target, ast.Name):
                    mutated[n.target.id] = n
                elif isinstance(n.target, ast.Subscript) and isinstance(n.target.value, ast.Name):
                    mutated[n.target.value.id] = n
            elif isinstance(n, ast.Delete):
                for t in n.targets:
                    if isinstance(t, ast.Subscript) and isinstance(t.value, ast.Name):
                        mutated[t.value.id] = n
            elif isinstance(n, ast.Call):
                for nm in self.mutated_by_call(n):
                    mutated[nm] = n
                f = n.func
                if isinstance(f, ast.Attribute) and f.attr in ('append', 'extend', 'update', 'insert'):
                    for a in n.args:
                        share(a)
            elif isinstance(n, ast.For):
                names = []
                self.target_names(n.target, names)
                for nm in names:
                    fresh_ok[nm] = False
                it = n.iter
                if isinstance(it, ast.Call) and isinstance(it.func, ast.Attribute) and it.func.attr in VIEWS:
                    it = it.func.value
                if isinstance(it, ast.Name) and it.id in self.assigned(n.body):
                    self.fail(n, 'the iterated container is modified in the loop body')
            elif isinstance(n, (ast.FunctionDef, ast.Lambda)) and n is not self.node:
                bound = {a.arg for a in n.args.args}
                inner = n.body if isinstance(n.body, list) else [n.body]
                for nm in self.reads(inner) - bound:
                    shared.add(nm)
                    if nm in self.locals and len([1 for x in self.own_nodes(body) if isinstance(x, ast.Assign)
                                                  and any(isinstance(t, ast.Name) and t.id == nm for t in x.targets)]) > 1:
                        self.fail(n, 'closure over a variable that is assigned more than once (%s)' % nm)
        params = {a.arg for a in self.node.args.args}
        for nm, where in mutated.items():
            if nm in self.unshared:
                continue
            if nm in params:
                if nm not in self.mutates:
                    self.fail(where, 'parameter %s is modified in place but not declared in `mutates`' % nm)
                if nm in fresh_ok and not fresh_ok[nm]:
                    self.fail(where, 'mutated parameter %s is also bound to a shared object' % nm)
            elif not fresh_ok.get(nm, False):
                self.fail(where, 'in-place modification of %s, which may be an alias of another object' % nm)
            if nm in shared:
                self.fail(where, 'in-place modification of %s, which is also referenced elsewhere' % nm)

    # ------------------------------------------------------------------ calls of translated functions
    def known_target(self, call):
        """the entry of `known` a call dispatches to (None: not a translated function)"""
        t = ast.unparse(call.func)
        name = self.calls.get(t, t)
        if name == self.callname and self.fuel:
            return dict(lean=self.lean, dyn=self.own_sig(), self_call=True)
        tgt = self.known.get(name)
        if tgt is not None and 'dyn' in tgt:
            if isinstance(call.func, ast.Name) and call.func.id in self.locals:
                return None
            if isinstance(call.func, ast.Name) and tgt['dyn'].get('module') != self.spec['module']:
                # a function of another module: only if this module / function imports exactly that one
                want = tgt['dyn'].get('module', '')[:-3].replace('/', '.')
                if self.imports.get(call.func.id) != (want, tgt['dyn'].get('func')):
                    return None
            return tgt
        return None

    def own_sig(self):
        return dict(params=self.param_names, kinds=self.param_kinds, defaults=self.defaults, mutates=self.mutates,
                    fuel=self.fuel, callees=self.callees, takes_self=self.takes_self, module=self.spec['module'],
                    func=self.spec['func'])

    def bind_args(self, call, tgt, check_only=False):
        """parameter name -> argument AST (or ('default', constant)) for a call of a translated function"""
        sig = tgt['dyn']
        params = [p for p in sig['params']]
        bound = {}
        args = list(call.args)
        if any(isinstance(a, ast.Starred) for a in args):
            self.fail(call, 'starred argument in a call of a translated function')
        recv_self = sig.get('takes_self') and isinstance(call.func, ast.Attribute)
        if recv_self:
            rv = call.func.value
            if isinstance(rv, ast.Call) and ast.unparse(rv) == 'super()':
                rv = ast.copy_location(ast.Name(id='self', ctx=ast.Load()), rv)
            args = [rv] + args
        if len(args) > len(params):
            self.fail(call, 'too many arguments for %s' % tgt['lean'])
        for p, a in zip(params, args):
            bound[p] = a
        for k in call.keywords:
            if k.arg is None:
                self.fail(call, '** in a call of a translated function')
            if k.arg not in params or k.arg in bound:
                self.fail(call, 'keyword %s does not match the translated signature' % k.arg)
            bound[k.arg] = k.value
        for p in params:
            if p not in bound:
                if p in sig['defaults']:
                    bound[p] = ('default', sig['defaults'][p])
                else:
                    self.fail(call, 'argument %s of %s is missing' % (p, tgt['lean']))
        return bound

    # ------------------------------------------------------------------ expressions
    def const(self, v, node):
        if v is None:
            return 'Dyn.Val.none'
        if v is True:
            return '(Dyn.Val.bool true)'
        if v is False:
            return '(Dyn.Val.bool false)'
        if isinstance(v, int):
            return '(Dyn.Val.int %d)' % v if v >= 0 else '(Dyn.Val.int (%d))' % v
        if isinstance(v, str):
            return '(Dyn.Val.str %s)' % lstr(v)
        if isinstance(v, float):
            from harness.translate import const_name
            if v < 0:
                self.fail(node, 'negative float literal')
            nm = const_name(v)
            self.float_consts[nm] = float(v)
            if (nm, 'φ') not in self.extra_params:
                self.extra_params.append((nm, 'φ'))
            return '(Dyn.Val.float %s)' % nm
        self.fail(node, 'unsupported literal')

    def bindm(self, out, rhs, pat=None):
        """emit `let t ← rhs`, return t"""
        t = pat or self.temp()
        out.append('let %s ← %s' % (t, rhs))
        return t

    def sub_do(self, lines, result):
        """a parenthesised `do` block computing `result` after `lines`"""
        if not lines:
            return '(pure %s)' % result
        return '(do\n' + '\n'.join(ind(lines + ['pure %s' % result], 4)) + ')'

    def expr(self, node, out):
        """translate an expression in value position; appends the effectful steps to `out`, returns an atom of type Val"""
        if isinstance(node, ast.Constant):
            if node.value is Ellipsis:
                self.fail(node, 'Ellipsis')
            return self.const(node.value, node)
        if isinstance(node, ast.Name):
            return self.name(node, out)
        if isinstance(node, ast.List):
            return '(Dyn.Val.list [%s])' % ', '.join(self.expr(e, out) for e in self.no_star(node.elts))
        if isinstance(node, ast.Tuple):
            return '(Dyn.Val.tuple [%s])' % ', '.join(self.expr(e, out) for e in self.no_star(node.elts))
        if isinstance(node, ast.Dict):
            return self.dict_display(node, out)
        if isinstance(node, ast.ListComp):
            return '(Dyn.Val.list %s)' % self.comprehension(node, out)
        if isinstance(node, ast.DictComp):
            return self.dict_comp(node, out)
        if isinstance(node, ast.JoinedStr):
            return self.fstring(node, out)
        if isinstance(node, ast.Attribute):
            return self.bindm(out, 'Dyn.getAttr ext %s %s' % (self.expr(node.value, out), lstr(node.attr)))
        if isinstance(node, ast.Subscript):
            return self.subscript(node, out)
        if isinstance(node, ast.Call):
            return self.call(node, out)
        if isinstance(node, ast.BinOp):
            if type(node.op) in BINOPS:
                a = self.expr(node.left, out)
                b = self.expr(node.right, out)
                return self.bindm(out, 'Dyn.%s ext %s %s' % (BINOPS[type(node.op)], a, b))
            if isinstance(node.op, ast.Mod):
                a = self.expr(node.left, out)
                b = self.expr(node.right, out)
                return self.bindm(out, 'ext.op "%%" [%s, %s]' % (a, b))
            self.fail(node, 'unsupported operator')
        if isinstance(node, ast.UnaryOp):
            if isinstance(node.op, ast.USub):
                if isinstance(node.operand, ast.Constant) and isinstance(node.operand.value, int) \
                        and not isinstance(node.operand.value, bool):
                    return self.const(-node.operand.value, node)
                return self.bindm(out, 'Dyn.neg ext %s' % self.expr(node.operand, out))
            if isinstance(node.op, ast.Not):
                return '(Dyn.Val.bool (%s))' % self.cond(node, out)
            self.fail(node, 'unsupported unary operator')
        if isinstance(node, ast.Compare):
            if len(node.ops) == 1 and type(node.ops[0]) in CMPOPS:
                a = self.expr(node.left, out)
                b = self.expr(node.comparators[0], out)
                return self.bindm(out, 'Dyn.compare ext %s %s %s' % (lstr(CMPOPS[type(node.ops[0])]), a, b))
            if len(node.ops) == 1 and isinstance(node.ops[0], (ast.Eq, ast.NotEq)):
                a = self.expr(node.left, out)
                b = self.expr(node.comparators[0], out)
                t = self.bindm(out, 'Dyn.eqV ext %s %s' % (a, b))
                if isinstance(node.ops[0], ast.NotEq):
                    return '(Dyn.Val.bool (!%s))' % self.bindm(out, 'Dyn.truthy ext %s' % t)
                return t
            return '(Dyn.Val.bool (%s))' % self.cond(node, out)
        if isinstance(node, ast.BoolOp):
            # `a or b` / `a and b` as VALUES: the first operand that decides, the others are not evaluated
            vals = list(node.values)
            first = []
            a = self.expr(vals[0], first)
            restnode = vals[1] if len(vals) == 2 else ast.copy_location(ast.BoolOp(op=node.op, values=vals[1:]), node)
            other = []
            b = self.expr(restnode, other)
            out.extend(first)
            c = self.bindm(out, 'Dyn.truthy ext %s' % a)
            if isinstance(node.op, ast.Or):
                return self.bindm(out, '(if %s then pure %s else %s)' % (c, a, self.sub_do(other, b)))
            return self.bindm(out, '(if %s then %s else pure %s)' % (c, self.sub_do(other, b), a))
        if isinstance(node, ast.IfExp):
            c = self.cond(node.test, out)
            l1, l2 = [], []
            a = self.expr(node.body, l1)
            b = self.expr(node.orelse, l2)
            return self.bindm(out, '(if %s then %s else %s)' % (c, self.sub_do(l1, a), self.sub_do(l2, b)))
        if isinstance(node, ast.Lambda):
            self.fail(node, 'a lambda in value position (only as an argument for a function-valued parameter)')
        self.fail(node, 'unsupported expression')

    def no_star(self, elts):
        for e in elts:
            if isinstance(e, ast.Starred):
                self.fail(e, 'starred element')
        return elts

    def name(self, node, out):
        n = node.id
        if n in self.locals:
            if n not in self.defined and n in getattr(self, 'unbound_names', ()):
                # after a `with` whose context manager suppressed the exception: a name only the last statement of the body
                # binds is unbound here — Python raises UnboundLocalError (a NameError); the rest of the block is dead
                out.append('let _ ← (throw Dyn.Exc.NameError : m Unit)')
                return 'Dyn.Val.none'
            if n not in self.defined:
                self.fail(node, 'variable %s may be unbound here' % n)
            if self.localkind.get(n) == 'fn':
                self.fail(node, 'a local function used as a value')
            if self.localkind.get(n) == 'gen':
                self.fail(node, 'a local generator used otherwise than as the iterable of a for loop')
            return self.var(n)
        if n in self.callees or (n in self.known and 'dyn' in self.known[n]):
            self.fail(node, 'a translated function used as a value (only as an argument for a function-valued parameter)')
        return self.bindm(out, 'ext.global %s' % lstr(n))

    def dict_display(self, node, out):
        items = []
        keys = []
        for k, v in zip(node.keys, node.values):
            if k is None:
                self.fail(node, '** in a dict display')
            if not (isinstance(k, ast.Constant) and isinstance(k.value, str)):
                self.fail(node, 'dict display with a key that is not a string literal')
            if k.value in keys:
                self.fail(node, 'dict display with a repeated key')
            keys.append(k.value)
            items.append('(%s, %s)' % (self.const(k.value, k), self.expr(v, out)))
        return '(Dyn.Val.dict [%s])' % ', '.join(items)

    def with_targets(self, target, body_fn=None):
        """`fun <x> => do <unpack targets>; <body>` for a loop / comprehension target; returns (param name, prefix lines)"""
        if isinstance(target, ast.Name):
            self.locals_push([target.id])
            return self.var(target.id), []
        if isinstance(target, (ast.Tuple, ast.List)) and all(isinstance(e, ast.Name) for e in target.elts) \
                and 2 <= len(target.elts) <= 4:
            names = [e.id for e in target.elts]
            self.locals_push(names)
            it = self.temp()
            return it, ['let (%s) ← Dyn.unpack%d ext %s' % (', '.join(self.var(n) for n in names), len(names), it)]
        self.fail(target, 'unsupported loop target')

    def locals_push(self, names):
        for n in names:
            self.defined.add(n)

    def comprehension(self, node, out):
        """[elt for target in iter if c …] -> a term of type List Val"""
        if len(node.generators) != 1 or node.generators[0].is_async:
            self.fail(node, 'comprehension with several generators')
        g = node.generators[0]
        xs = self.iterable(g.iter, out)
        saved = set(self.defined)
        x, pre = self.with_targets(g.target, None)
        body = list(pre)
        if not g.ifs:
            e = self.expr(node.elt, body)
            res = self.bindm(out, 'Dyn.mapM (fun %s => %s) %s' % (x, self.sub_do(body, e), xs))
        else:
            conds = [self.cond(c, body) for c in g.ifs]
            inner = []
            e = self.expr(node.elt, inner)
            body.append('if %s then %s else pure acc__' % (' && '.join(conds), self.sub_do(inner, '(acc__ ++ [%s])' % e)))
            res = self.bindm(out, 'Dyn.forM %s ([] : List (%s)) (fun acc__ %s => do\n%s)' % (
                xs, V, x, '\n'.join(ind(body, 4))))
        self.defined = saved
        return res

    def dict_comp(self, node, out):
        if len(node.generators) != 1 or node.generators[0].ifs:
            self.fail(node, 'unsupported dict comprehension')
        g = node.generators[0]
        xs = self.iterable(g.iter, out)
        saved = set(self.defined)
        x, pre = self.with_targets(g.target, None)
        body = list(pre)
        k = self.expr(node.key, body)
        v = self.expr(node.value, body)
        body.append('Dyn.setItem ext acc__ %s %s' % (k, v))
        res = self.bindm(out, 'Dyn.forM %s (Dyn.Val.dict []) (fun acc__ %s => do\n%s)' % (xs, x, '\n'.join(ind(body, 4))))
        self.defined = saved
        return res

    def format_parts(self, template, node):
        """the literal pieces around the `{}` fields of a format template"""
        parts = []
        cur = ''
        i = 0
        while i < len(template):
            ch = template[i]
            if ch == '{':
                if template[i:i + 2] == '{{':
                    cur += '{'
                    i += 2
                    continue
                if template[i:i + 2] != '{}':
                    self.fail(node, 'format field other than a plain {}')
                parts.append(cur)
                cur = ''
                i += 2
                continue
            if ch == '}':
                if template[i:i + 2] == '}}':
                    cur += '}'
                    i += 2
                    continue
                self.fail(node, 'single } in a format template')
            cur += ch
            i += 1
        parts.append(cur)
        return parts

    def fstring(self, node, out):
        parts = ['']
        args = []
        for v in node.values:
            if isinstance(v, ast.Constant):
                parts[-1] += v.value
            elif isinstance(v, ast.FormattedValue):
                if v.conversion != -1 or v.format_spec is not None:
                    self.fail(node, 'f-string conversion / format spec')
                args.append(self.expr(v.value, out))
                parts.append('')
        return self.bindm(out, 'Dyn.m_format ext [%s] [%s]' % (', '.join(lstr(p) for p in parts), ', '.join(args)))

    def subscript(self, node, out):
        c = self.expr(node.value, out)
        s = node.slice
        if isinstance(s, ast.Slice):
            if s.step is not None:
                self.fail(node, 'slice with a step')
            lo = self.expr(s.lower, out) if s.lower is not None else 'Dyn.Val.none'
            hi = self.expr(s.upper, out) if s.upper is not None else 'Dyn.Val.none'
            return self.bindm(out, 'Dyn.getSlice ext %s %s %s' % (c, lo, hi))
        if isinstance(s, ast.Tuple) and any(isinstance(e, ast.Slice) for e in s.elts):
            self.fail(node, 'multi-dimensional slice')
        if isinstance(s, ast.Constant) and s.value is Ellipsis:
            return self.bindm(out, 'Dyn.getItemEllipsis ext %s' % c)      # `c[...]`
        k = self.expr(s, out)
        return self.bindm(out, 'Dyn.getItem ext %s %s' % (c, k))

    def iterable(self, node, out):
        """an expression that is iterated as a whole (for / comprehension / list() / tuple()): a term of type List Val"""
        if isinstance(node, ast.Call) and not node.keywords:
            f = node.func
            if isinstance(f, ast.Attribute) and f.attr in VIEWS and not node.args:
                return self.bindm(out, 'Dyn.m_%s ext %s' % (f.attr, self.expr(f.value, out)))
            if isinstance(f, ast.Name) and self.is_builtin(f.id):
                if f.id == 'zip' and len(node.args) == 2:
                    a = self.expr(node.args[0], out)
                    b = self.expr(node.args[1], out)
                    return self.bindm(out, 'Dyn.zip_ ext %s %s' % (a, b))
                if f.id in ('enumerate', 'reversed') and len(node.args) == 1:
                    return self.bindm(out, 'Dyn.%s_ ext %s' % (f.id, self.expr(node.args[0], out)))
                if f.id == 'map' and len(node.args) == 2:
                    fn = self.fn_arg(node.args[0], 1)
                    xs = self.iterable(node.args[1], out)
                    return self.bindm(out, 'Dyn.mapM %s %s' % (fn, xs))
        return self.bindm(out, 'Dyn.iter ext %s' % self.expr(node, out))

    def fn_arg(self, node, arity):
        """an argument in function position (a parameter of kind fnN, `map(f, …)`): a Lean function of `arity` values"""
        xs = ['a__%d' % i for i in range(arity)]
        if isinstance(node, ast.Lambda):
            a = node.args
            if a.vararg or a.kwarg or a.kwonlyargs or a.defaults or len(a.args) != arity:
                self.fail(node, 'lambda does not take %d plain arguments' % arity)
            saved = set(self.defined), set(self.locals)
            names = [x.arg for x in a.args]
            self.locals |= set(names)
            self.defined |= set(names)
            body = []
            r = self.expr(node.body, body)
            self.defined, self.locals = saved
            return '(fun %s => %s)' % (' '.join(self.var(n) for n in names), self.sub_do(body, r))
        if isinstance(node, ast.Name):
            n = node.id
            if n in self.locals:
                if self.localkind.get(n) == 'fn':
                    return self.var(n)
                # a value that is called
                return '(fun %s => Dyn.call ext %s [%s] [])' % (' '.join(xs), self.var(n), ', '.join(xs))
            fake = ast.copy_location(ast.Call(func=node, args=[ast.Name(id=x, ctx=ast.Load()) for x in xs], keywords=[]),
                                     node)
            saved = set(self.defined), set(self.locals)
            self.locals |= set(xs)
            self.defined |= set(xs)
            body = []
            r = self.call(fake, body)
            self.defined, self.locals = saved
            return '(fun %s => %s)' % (' '.join(xs), self.sub_do(body, r))
        self.fail(node, 'unsupported function-valued argument')

    def class_objects_first(self, cls, out, memo):
        """Python evaluates the class expression (attribute loads) before the test: hoist them"""
        if isinstance(cls, ast.Tuple):
            for c in cls.elts:
                self.class_objects_first(c, out, memo)
        elif not (isinstance(cls, ast.Name) and cls.id in BUILTIN_TYPES and self.is_builtin(cls.id)):
            memo[id(cls)] = self.expr(cls, out)

    def isinstance_test(self, node, out):
        if len(node.args) != 2 or node.keywords:
            self.fail(node, 'isinstance arity')
        v = self.expr(node.args[0], out)
        memo = {}
        self.class_objects_first(node.args[1], out, memo)

        def test(cls):
            if isinstance(cls, ast.Tuple):
                if not cls.elts:
                    return 'false'
                return '(' + ' || '.join(test(c) for c in cls.elts) + ')'
            if id(cls) in memo:
                return 'Dyn.isinstObj ext %s %s' % (v, memo[id(cls)])
            return 'Dyn.Val.isTy .%s %s' % (BUILTIN_TYPES[cls.id], v)
        return test(node.args[1])

    def cond(self, node, out):
        """translate an expression in truth-value position: a Lean Bool term"""
        if isinstance(node, ast.Constant) and isinstance(node.value, bool):
            return 'true' if node.value else 'false'
        if isinstance(node, ast.UnaryOp) and isinstance(node.op, ast.Not):
            return '(!%s)' % self.cond(node.operand, out)
        if isinstance(node, ast.BoolOp):
            vals = list(node.values)
            a = self.cond(vals[0], out)
            restnode = vals[1] if len(vals) == 2 else ast.copy_location(ast.BoolOp(op=node.op, values=vals[1:]), node)
            other = []
            b = self.cond(restnode, other)
            if not other:
                return '(%s %s %s)' % (a, '&&' if isinstance(node.op, ast.And) else '||', b)
            if isinstance(node.op, ast.And):
                return self.bindm(out, '(if %s then %s else pure false)' % (a, self.sub_do(other, b)))
            return self.bindm(out, '(if %s then pure true else %s)' % (a, self.sub_do(other, b)))
        if isinstance(node, ast.Call) and isinstance(node.func, ast.Name) and node.func.id == 'isinstance' \
                and self.is_builtin('isinstance'):
            return self.isinstance_test(node, out)
        if isinstance(node, ast.Compare):
            if len(node.ops) != 1:
                self.fail(node, 'chained comparison')
            op = node.ops[0]
            l, r = node.left, node.comparators[0]
            if isinstance(op, (ast.Is, ast.IsNot)):
                neg = isinstance(op, ast.IsNot)
                for x, y in ((l, r), (r, l)):
                    if isinstance(y, ast.Constant) and y.value is None:
                        c = 'Dyn.Val.isNone %s' % self.expr(x, out)
                        return '(!%s)' % c if neg else '(%s)' % c
                a = self.expr(l, out)
                b = self.expr(r, out)
                c = self.bindm(out, 'Dyn.is_ ext %s %s' % (a, b))
                return '(!%s)' % c if neg else c
            if isinstance(op, (ast.In, ast.NotIn)):
                x = self.expr(l, out)
                if isinstance(r, ast.Call) and isinstance(r.func, ast.Attribute) and r.func.attr == 'keys' \
                        and not r.args and not r.keywords:
                    c = '(Dyn.Val.list %s)' % self.iterable(r, out)       # `x in d.keys()`
                else:
                    c = self.expr(r, out)
                t = self.bindm(out, 'Dyn.contains ext %s %s' % (x, c))
                return '(!%s)' % t if isinstance(op, ast.NotIn) else t
            if isinstance(op, (ast.Eq, ast.NotEq)):
                a = self.expr(l, out)
                b = self.expr(r, out)
                t = self.bindm(out, 'Dyn.eqB ext %s %s' % (a, b))
                return '(!%s)' % t if isinstance(op, ast.NotEq) else t
            if type(op) in CMPOPS:
                a = self.expr(l, out)
                b = self.expr(r, out)
                t = self.bindm(out, 'Dyn.compare ext %s %s %s' % (lstr(CMPOPS[type(op)]), a, b))
                return self.bindm(out, 'Dyn.truthy ext %s' % t)
            self.fail(node, 'unsupported comparison')
        return self.bindm(out, 'Dyn.truthy ext %s' % self.expr(node, out))

    # ------------------------------------------------------------------ calls
    def kwargs_of(self, node, out):
        """the keyword part of a call: a term of type List (String × Val)"""
        parts = []
        cur = []
        for k in node.keywords:
            if k.arg is None:
                if cur:
                    parts.append('[%s]' % ', '.join(cur))
                    cur = []
                parts.append(self.bindm(out, 'Dyn.starStar %s' % self.expr(k.value, out)))
            else:
                cur.append('(%s, %s)' % (lstr(k.arg), self.expr(k.value, out)))
        if cur or not parts:
            parts.append('[%s]' % ', '.join(cur))
        return parts[0] if len(parts) == 1 else '(' + ' ++ '.join(parts) + ')'

    def pos_args(self, node, out):
        for a in node.args:
            if isinstance(a, ast.Starred):
                self.fail(node, 'starred argument')
        return '[%s]' % ', '.join(self.expr(a, out) for a in node.args)

    def call_known(self, node, tgt, out):
        sig = tgt['dyn']
        bound = self.bind_args(node, tgt)
        args = []
        for p in sig['params']:
            a = bound[p]
            k = sig['kinds'].get(p, 'val')
            if isinstance(a, tuple):
                args.append(self.const(a[1], node))
            elif k.startswith('fn'):
                args.append(self.fn_arg(a, int(k[2:])))
            else:
                args.append(self.expr(a, out))
        pre = ['ext']
        for cn, ar in sig['callees'].items():
            xs = ' '.join('c__%d' % i for i in range(ar))
            if cn == self.callname and self.fuel:
                pre.append('(fun %s => %s ext fuel %s)' % (xs, self.lean, xs))
            elif cn in self.callees:
                pre.append(self.var(cn))
            elif cn in self.known and 'dyn' in self.known[cn] and not self.known[cn]['dyn']['fuel'] \
                    and not self.known[cn]['dyn']['mutates'] and not self.known[cn]['dyn']['callees']:
                pre.append('(fun %s => %s ext %s)' % (xs, self.known[cn]['lean'], xs))
            else:
                self.fail(node, 'no translated function for the callee parameter %s' % cn)
        for nm, ty in tgt.get('extra_params', []):
            if nm == 'fuel__' and self.fuel:
                pre.append('fuel')
                continue
            if (nm, ty) not in self.extra_params:
                self.extra_params.append((nm, ty))
            pre.append(nm)
        if sig['fuel']:
            if not self.fuel:
                pre.append('fuel__')
                if ('fuel__', 'Nat') not in self.extra_params:
                    self.extra_params.append(('fuel__', 'Nat'))
            else:
                pre.append('fuel')
        rhs = '%s %s' % (tgt['lean'], ' '.join(pre + args))
        if sig['mutates']:
            r = self.temp()
            pats = [r]
            for p in sig['mutates']:
                a = bound[p]
                if isinstance(a, ast.Name) and a.id in self.locals:
                    pats.append(self.var(a.id))
                    self.defined.add(a.id)
                else:
                    pats.append('_')
            out.append('let (%s) ← %s' % (', '.join(pats), rhs))
            return r
        return self.bindm(out, rhs)

    def call(self, node, out):
        f = node.func
        tgt = self.known_target(node)
        if tgt is not None:
            return self.call_known(node, tgt, out)
        if isinstance(f, ast.Name):
            n = f.id
            if n in self.callees:
                if node.keywords or len(node.args) != self.callees[n]:
                    self.fail(node, 'call of the callee parameter %s does not match its declared arity' % n)
                return self.bindm(out, '%s %s' % (self.var(n), ' '.join(self.expr(a, out) for a in node.args)))
            if n in self.locals and self.localkind.get(n) == 'fn':
                if node.keywords or len(node.args) != self.localarity[n]:
                    self.fail(node, 'call of the local function %s does not match its arity' % n)
                return self.bindm(out, '%s %s' % (self.var(n), ' '.join(self.expr(a, out) for a in node.args)))
            if n not in self.locals and self.is_builtin(n) and n in BUILTIN_FUNCS:
                return self.builtin_call(node, out)
        if isinstance(f, ast.Attribute):
            return self.method_call(node, out)
        fv = self.expr(f, out)
        args = self.pos_args(node, out)
        kw = self.kwargs_of(node, out)
        return self.bindm(out, 'Dyn.call ext %s %s %s' % (fv, args, kw))

    def builtin_call(self, node, out):
        n = node.func.id
        a = node.args
        if n == 'isinstance':
            return '(Dyn.Val.bool (%s))' % self.isinstance_test(node, out)
        if node.keywords:
            self.fail(node, 'keyword arguments in a call of the built-in %s' % n)
        if n in ('float', 'str', 'len', 'max') and len(a) == 1:
            return self.bindm(out, 'Dyn.%s ext %s' % ({'float': 'float_', 'str': 'str_', 'len': 'len', 'max': 'max_'}[n],
                                                      self.expr(a[0], out)))
        if n in ('list', 'tuple') and len(a) == 1:
            return '(Dyn.Val.%s %s)' % (n, self.iterable(a[0], out))
        if n in ('list', 'tuple', 'dict') and not a:
            return '(Dyn.Val.%s [])' % n
        if n == 'dict' and len(a) == 1:
            # dict(iterable of pairs): the pairs are stored in order
            xs = self.iterable(a[0], out)
            it = self.temp()
            return self.bindm(out, 'Dyn.forM %s (Dyn.Val.dict []) (fun acc__ %s => do\n'
                              '    let (k__, v__) ← Dyn.unpack2 ext %s\n    Dyn.setItem ext acc__ k__ v__)' % (xs, it, it))
        if n in ('issubclass', 'hasattr') and len(a) == 2:
            # answered by the oracle (class hierarchy / attribute tables are not built-in data)
            x = self.expr(a[0], out)
            y = self.expr(a[1], out)
            return self.bindm(out, 'ext.op %s [%s, %s]' % (lstr(n), x, y))
        if n == 'getattr' and len(a) == 2:
            o = self.expr(a[0], out)
            nm = self.expr(a[1], out)
            return self.bindm(out, 'Dyn.getattrDyn ext %s %s' % (o, nm))
        if n == 'type' and len(a) == 3:
            # type(name, bases, namespace): class creation — the oracle's (C3 linearisation, metaclasses, the checks that
            # raise TypeError are not built-in data); the three arguments are translated
            xs = [self.expr(x, out) for x in a]
            return self.bindm(out, 'ext.op %s [%s]' % (lstr('type3'), ', '.join(xs)))
        self.fail(node, 'unsupported use of the built-in %s' % n)

    def method_call(self, node, out):
        f = node.func
        name = f.attr
        recv = f.value
        if isinstance(recv, ast.Call) and ast.unparse(recv) == 'super()':
            self.fail(node, 'super() call that is not declared in `calls`')
        # '…{}…'.format(args)
        if name == 'format' and isinstance(recv, ast.Constant) and isinstance(recv.value, str) and not node.keywords:
            parts = self.format_parts(recv.value, node)
            args = [self.expr(a, out) for a in self.no_star(node.args)]
            return self.bindm(out, 'Dyn.m_format ext [%s] [%s]' % (', '.join(lstr(p) for p in parts), ', '.join(args)))
        if name in MUTATING and not node.keywords and len(node.args) == 1:
            if isinstance(recv, ast.Name) and recv.id in self.locals:
                r = self.expr(recv, out)
                x = self.expr(node.args[0], out)
                if name == 'pop':
                    t = self.temp()
                    out.append('let (%s, %s) ← Dyn.m_pop ext %s %s' % (t, r, r, x))
                    return t
                out.append('let %s ← Dyn.m_%s ext %s %s' % (r, name, r, x))
                return 'Dyn.Val.none'
            self.fail(node, 'mutating method on something that is not a local variable')
        if name in ALL_MUTATORS:
            self.fail(node, 'mutating method %s in a form the prelude does not define' % name)
        if name in PRELUDE_METHODS and not node.keywords and len(node.args) == PRELUDE_METHODS[name]:
            r = self.expr(recv, out)
            args = [self.expr(a, out) for a in node.args]
            return self.bindm(out, 'Dyn.m_%s ext %s' % (name, ' '.join([r] + args)))
        if name in VIEWS and not node.args and not node.keywords:
            self.fail(node, 'a dictionary view used as a value (only iteration, list(), len(), `in`)')
        r = self.expr(recv, out)
        args = self.pos_args(node, out)
        kw = self.kwargs_of(node, out)
        fn = 'Dyn.callMethodB' if name in BUILTIN_METHOD_NAMES else 'Dyn.callMethod'
        return self.bindm(out, '%s ext %s %s %s %s' % (fn, r, lstr(name), args, kw))

    def risky(self, node, out):
        """evaluate, for their possible exceptions, the attribute loads / subscripts / calls inside an expression whose
        own value is not represented (logging arguments, exception messages)"""
        if isinstance(node, (ast.Constant, ast.Name)):
            return
        if isinstance(node, ast.Call):
            f = node.func
            if isinstance(f, ast.Attribute) and f.attr == 'format' or isinstance(f, ast.Name) and f.id in ('type', 'str', 'repr') \
                    and self.is_builtin(f.id):
                if isinstance(f, ast.Attribute):
                    self.risky(f.value, out)
                for a in node.args:
                    self.risky(a, out)
                for k in node.keywords:
                    self.risky(k.value, out)
                return
            if isinstance(f, ast.Attribute) and f.attr in VIEWS and not node.args:
                self.iterable(node, out)
                return
            self.expr(node, out)
            return
        if isinstance(node, (ast.Attribute, ast.Subscript)):
            self.expr(node, out)
            return
        if isinstance(node, ast.JoinedStr):
            for v in node.values:
                if isinstance(v, ast.FormattedValue):
                    self.risky(v.value, out)
            return
        if isinstance(node, ast.BinOp) and isinstance(node.op, ast.Mod):
            self.risky(node.left, out)
            self.risky(node.right, out)
            return
        if isinstance(node, (ast.Tuple, ast.List)):
            for e in node.elts:
                self.risky(e, out)
            return
        if isinstance(node, ast.ListComp):
            self.expr(node, out)
            return
        self.expr(node, out)

    # ------------------------------------------------------------------ statements
    def pack(self, names):
        vs = [self.var(n) for n in names]
        if not vs:
            return '()'
        return vs[0] if len(vs) == 1 else '(' + ', '.join(vs) + ')'

    def ret_value(self, e):
        if not self.mutates:
            return e
        return '(' + ', '.join([e] + [self.var(p) for p in self.mutates]) + ')'

    def fall(self, ctx):
        """the last line of a block that falls off its end"""
        if ctx.kind == 'top':
            return 'pure %s' % self.ret_value('Dyn.Val.none')
        if ctx.kind == 'state':
            return 'pure %s' % self.pack(ctx.vars)
        if ctx.kind == 'flow2':
            return 'pure (Dyn.Flow.next %s)' % self.pack(ctx.vars)
        return 'pure (Dyn.LFlow.next %s)' % self.pack(ctx.vars)

    def ret(self, ctx, r):
        if ctx.kind == 'top':
            return 'pure %s' % r
        if ctx.kind == 'flow2':
            return 'pure (Dyn.Flow.ret %s)' % r
        if ctx.kind == 'flow4':
            return 'pure (Dyn.LFlow.ret %s)' % r
        raise Untranslatable('%s: internal: return in a state block' % self.spec['func'])

    def exc_class(self, node):
        """an exception class expression in `raise` / `except` -> Lean term"""
        if isinstance(node, ast.Name):
            if node.id in EXC_NAMES and self.is_builtin(node.id):
                return 'Dyn.Exc.%s' % node.id
            return '(Dyn.Exc.other %s)' % lstr(node.id)
        if isinstance(node, ast.Attribute):
            return '(Dyn.Exc.other %s)' % lstr(ast.unparse(node))
        self.fail(node, 'unsupported exception class')

    def sub_ctx_kind(self, stmts):
        r, b = self.escapes(stmts)
        return 'flow4' if b else ('flow2' if r else 'state')

    def compound(self, s, inner_lines_fn, svars, kind, ctx, rest, out):
        """emit a compound statement whose translation (built by inner_lines_fn(subctx) -> term text) is matched on"""
        sub = Ctx(kind, svars, ctx.loop_vars)
        term = inner_lines_fn(sub)
        if kind == 'state':
            out.append('let %s ← %s' % (self.pack(svars) if svars else '_', term))
            return None
        r = self.temp()
        out.append('let %s ← %s' % (r, term))
        return r

    def after_compound(self, r, svars, kind, ctx, rest_lines):
        """the `match` that follows a compound statement translated in a flow mode"""
        lines = ['match %s with' % r]
        T = 'Dyn.Flow' if kind == 'flow2' else 'Dyn.LFlow'
        lines.append('| %s.ret r__ => %s' % (T, self.ret(ctx, 'r__') if ctx.kind != 'state' else 'throw Dyn.Exc.RuntimeError'))
        if kind == 'flow4':
            if ctx.kind != 'flow4':
                raise Untranslatable('%s: break/continue outside a loop body' % self.spec['func'])
            for c in ('brk', 'cont'):
                lines.append('| Dyn.LFlow.%s %s => pure (Dyn.LFlow.%s %s)' % (c, self.pack(svars), c, self.pack(ctx.loop_vars)))
        lines.append('| %s.next %s => do' % (T, self.pack(svars)))
        lines.extend(ind(rest_lines, 2))
        return lines

    def block(self, stmts, ctx):
        """the lines of a `do` block for a statement list"""
        out = []
        for i, s in enumerate(stmts):
            rest = stmts[i + 1:]
            if isinstance(s, ast.Expr) and isinstance(s.value, ast.Constant):
                continue
            if isinstance(s, ast.Pass):
                continue
            if isinstance(s, (ast.Import, ast.ImportFrom)):
                for a in s.names:
                    nm = (a.asname or a.name).split('.')[0]
                    if nm in self.locals_assigned_non_import:
                        self.fail(s, 'an imported name that is also assigned')
                continue
            if isinstance(s, ast.Expr) and isinstance(s.value, ast.Yield):
                # `yield e` in a local generator that a `for` loop consumes: one pass of that loop's body (`for_generator`)
                if not getattr(self, 'in_generator', False) or s.value.value is None:
                    self.fail(s, 'yield outside a local generator consumed by a for loop')
                e = self.expr(s.value.value, out)
                out.append('let %s ← yield__ %s %s' % (GENST, GENST, e))
                continue
            if isinstance(s, ast.Expr):
                self.expr_stmt(s.value, out)
                continue
            if isinstance(s, ast.Assign):
                self.assign(s, out)
                continue
            if isinstance(s, ast.AugAssign):
                self.augassign(s, out)
                continue
            if isinstance(s, ast.Delete):
                for t in s.targets:
                    if not (isinstance(t, ast.Subscript) and isinstance(t.value, ast.Name) and t.value.id in self.locals
                            and not isinstance(t.slice, ast.Slice)):
                        self.fail(s, 'unsupported del')
                    c = self.expr(t.value, out)
                    k = self.expr(t.slice, out)
                    out.append('let %s ← Dyn.delItem ext %s %s' % (c, c, k))
                continue
            if isinstance(s, ast.Return):
                if s.value is None:
                    out.append(self.ret(ctx, self.ret_value('Dyn.Val.none')))
                else:
                    e = self.expr(s.value, out)
                    out.append(self.ret(ctx, self.ret_value(e)))
                return out
            if isinstance(s, ast.Raise):
                if s.exc is None:
                    if not self.handler_var:
                        self.fail(s, 'bare raise outside a handler')
                    out.append('throw %s' % self.handler_var[-1])
                    return out
                if s.cause is not None:
                    self.fail(s, 'raise … from')
                e = s.exc
                if isinstance(e, ast.Call):
                    for a in e.args:
                        self.risky(a, out)
                    if e.keywords:
                        self.fail(s, 'keyword arguments of an exception')
                    e = e.func
                out.append('throw %s' % self.exc_class(e))
                return out
            if isinstance(s, ast.Break):
                if ctx.kind != 'flow4':
                    self.fail(s, 'break outside a loop body')
                out.append('pure (Dyn.LFlow.brk %s)' % self.pack(ctx.loop_vars))
                return out
            if isinstance(s, ast.Continue):
                if ctx.kind != 'flow4':
                    self.fail(s, 'continue outside a loop body')
                out.append('pure (Dyn.LFlow.cont %s)' % self.pack(ctx.loop_vars))
                return out
            if isinstance(s, ast.FunctionDef):
                self.local_def(s, out)
                continue
            if isinstance(s, ast.If):
                done = self.if_stmt(s, ctx, rest, out)
                if done:
                    return out
                continue
            if isinstance(s, ast.For):
                done = self.for_stmt(s, ctx, rest, out)
                if done:
                    return out
                continue
            if isinstance(s, ast.Try):
                done = self.try_stmt(s, ctx, rest, out)
                if done:
                    return out
                continue
            if isinstance(s, ast.With):
                self.with_stmt(s, ctx, rest, out)
                return out
            self.fail(s, 'unsupported statement')
        out.append(self.fall(ctx))
        return out

    def expr_stmt(self, v, out):
        if isinstance(v, ast.Call) and re.search(self.ignore_calls, ast.unparse(v)):
            for a in v.args:
                self.risky(a, out)
            for k in v.keywords:
                self.risky(k.value, out)
            return
        r = self.expr(v, out)
        # the value is dropped; an atom that is a fresh temporary has already been bound
        return r

    def assign(self, s, out):
        if len(s.targets) != 1:
            self.fail(s, 'multiple assignment targets')
        t = s.targets[0]
        if isinstance(t, ast.Name):
            if isinstance(s.value, ast.Lambda):
                self.fail(s, 'a lambda bound to a name')
            e = self.expr(s.value, out)
            out.append('let %s : %s := %s' % (self.var(t.id), V, e))
            self.defined.add(t.id)
            return
        if isinstance(t, (ast.Tuple, ast.List)):
            if not all(isinstance(e, ast.Name) for e in t.elts) or not 2 <= len(t.elts) <= 4:
                self.fail(s, 'unsupported unpacking target')
            e = self.expr(s.value, out)
            names = [x.id for x in t.elts]
            out.append('let (%s) ← Dyn.unpack%d ext %s' % (', '.join(self.var(n) for n in names), len(names), e))
            self.defined |= set(names)
            return
        if isinstance(t, ast.Subscript) and isinstance(t.value, ast.Name) and t.value.id in self.locals \
                and not isinstance(t.slice, ast.Slice):
            # Python evaluates the right-hand side first, then the container and the key
            e = self.expr(s.value, out)
            c = self.expr(t.value, out)
            k = self.expr(t.slice, out)
            out.append('let %s ← Dyn.setItem ext %s %s %s' % (c, c, k, e))
            return
        if isinstance(t, ast.Subscript) and isinstance(t.value, ast.Attribute) and not isinstance(t.slice, ast.Slice):
            # `obj.attr[k] = e`: a store through a reference that an object handed out — the oracle's (it owns that container)
            e = self.expr(s.value, out)
            c = self.expr(t.value, out)
            k = self.expr(t.slice, out)
            out.append('let _ ← ext.op "setitem" [%s, %s, %s]' % (c, k, e))
            return
        if isinstance(t, ast.Subscript) and isinstance(t.value, ast.Subscript) and isinstance(t.value.value, ast.Name) \
                and t.value.value.id in self.locals and not isinstance(t.slice, ast.Slice) \
                and not isinstance(t.value.slice, ast.Slice):
            # `x[k1][k2] = e`: Python evaluates e, then `x[k1]` (a REFERENCE to the inner container), then k2, and stores into
            # that inner container.  With values: read the inner container, store into it, put it back under k1 — the same
            # thing as long as the inner container is reachable through `x` only (`nested_store_ok`); putting it back cannot
            # raise once the read succeeded (x is a built-in dict / list there)
            self.nested_store_ok(t.value.value.id, s)
            e = self.expr(s.value, out)
            c = self.expr(t.value.value, out)
            k1 = self.expr(t.value.slice, out)
            inner = self.bindm(out, 'Dyn.getItem ext %s %s' % (c, k1))
            k2 = self.expr(t.slice, out)
            new = self.bindm(out, 'Dyn.setItem ext %s %s %s' % (inner, k2, e))
            out.append('let %s ← Dyn.setItem ext %s %s %s' % (c, c, k1, new))
            return
        self.fail(s, 'unsupported assignment target')

    def nested_store_ok(self, x, where):
        """`x[k1][k2] = e` is translated with values (see `assign`).  That is Python's meaning iff every container stored in
        `x` is referenced by `x` alone and `x` is a built-in container, which is enforced syntactically: `x` is a local
        variable (not a parameter) only ever bound to a dict / list display (or comprehension) whose elements are displays,
        comprehensions or constants; every `x[k] = v` stores such a fresh value; and `x` is read nowhere else than in
        `… in x` / `… not in x`, `len(x)`, `return x` and as the base of those stores (so no element of `x` is ever handed
        out, and no method of `x` is called)."""
        def fresh(v):
            return isinstance(v, (ast.Dict, ast.List, ast.ListComp, ast.DictComp, ast.Constant))

        def fresh_container(v):
            if isinstance(v, ast.Dict):
                return all(k is not None and fresh(e) for k, e in zip(v.keys, v.values))
            if isinstance(v, ast.List):
                return all(fresh(e) for e in v.elts)
            if isinstance(v, ast.ListComp):
                return fresh(v.elt)
            if isinstance(v, ast.DictComp):
                return fresh(v.value)
            return False

        if x in {a.arg for a in self.node.args.args}:
            self.fail(where, 'nested store into the parameter %s' % x)
        allowed = set()
        for n in ast.walk(self.node):
            if isinstance(n, ast.Assign):
                for t in n.targets:
                    if isinstance(t, ast.Name) and t.id == x:
                        if not fresh_container(n.value):
                            self.fail(n, 'nested store into %s, which is bound to something else than a display of fresh values' % x)
                    elif isinstance(t, (ast.Tuple, ast.List)):
                        if any(isinstance(y, ast.Name) and y.id == x for y in ast.walk(t)):
                            self.fail(n, 'nested store into %s, which is also an unpacking target' % x)
                    elif isinstance(t, ast.Subscript) and isinstance(t.value, ast.Name) and t.value.id == x:
                        if not fresh(n.value):
                            self.fail(n, 'nested store into %s, which also receives a value that may be shared' % x)
                        allowed.add(id(t.value))
                    elif isinstance(t, ast.Subscript) and isinstance(t.value, ast.Subscript) \
                            and isinstance(t.value.value, ast.Name) and t.value.value.id == x:
                        allowed.add(id(t.value.value))
            elif isinstance(n, (ast.AugAssign, ast.AnnAssign, ast.NamedExpr)):
                if any(isinstance(y, ast.Name) and y.id == x for y in ast.walk(n.target)):
                    self.fail(n, 'nested store into %s, which is also re-bound otherwise' % x)
            elif isinstance(n, (ast.For, ast.comprehension)):
                if any(isinstance(y, ast.Name) and y.id == x for y in ast.walk(n.target)):
                    self.fail(n, 'nested store into %s, which is also a loop target' % x)
            elif isinstance(n, ast.Compare) and len(n.ops) == 1 and isinstance(n.ops[0], (ast.In, ast.NotIn)) \
                    and isinstance(n.comparators[0], ast.Name):
                allowed.add(id(n.comparators[0]))
            elif isinstance(n, ast.Return) and isinstance(n.value, ast.Name):
                allowed.add(id(n.value))
            elif isinstance(n, ast.Call) and isinstance(n.func, ast.Name) and n.func.id == 'len' and len(n.args) == 1 \
                    and not n.keywords and isinstance(n.args[0], ast.Name) and self.is_builtin('len'):
                allowed.add(id(n.args[0]))
            elif isinstance(n, (ast.FunctionDef, ast.Lambda)) and n is not self.node:
                if x in {a.arg for a in n.args.args}:
                    self.fail(n, 'nested store into %s, which is also a parameter of a nested function' % x)
            elif isinstance(n, ast.ExceptHandler) and n.name == x:
                self.fail(n, 'nested store into %s, which is also an exception variable' % x)
        for n in ast.walk(self.node):
            if isinstance(n, ast.Name) and n.id == x and not isinstance(n.ctx, ast.Store) and id(n) not in allowed:
                self.fail(where, 'nested store into %s, which is also read at line %d (an element could be shared)'
                          % (x, getattr(n, 'lineno', 0)))

    def augassign(self, s, out):
        if type(s.op) not in BINOPS:
            self.fail(s, 'unsupported augmented assignment')
        op = BINOPS[type(s.op)]
        t = s.target
        if isinstance(t, ast.Name):
            a = self.expr(t, out)
            b = self.expr(s.value, out)
            out.append('let %s ← Dyn.%s ext %s %s' % (self.var(t.id), op, a, b))
            return
        if isinstance(t, ast.Subscript) and isinstance(t.value, ast.Name) and t.value.id in self.locals \
                and not isinstance(t.slice, ast.Slice):
            c = self.expr(t.value, out)
            k = self.expr(t.slice, out)
            old = self.bindm(out, 'Dyn.getItem ext %s %s' % (c, k))
            b = self.expr(s.value, out)
            new = self.bindm(out, 'Dyn.%s ext %s %s' % (op, old, b))
            out.append('let %s ← Dyn.setItem ext %s %s %s' % (c, c, k, new))
            return
        self.fail(s, 'unsupported augmented assignment target')

    def local_def(self, s, out):
        a = s.args
        if a.vararg or a.kwarg or a.kwonlyargs or a.defaults or s.decorator_list:
            self.fail(s, 'unsupported nested function signature')
        if any(isinstance(x, (ast.Yield, ast.YieldFrom)) for x in ast.walk(s)):
            self.local_generator(s)
            return
        names = [x.arg for x in a.args]
        saved = set(self.defined), set(self.locals), dict(self.localkind)
        inner_assigned = set(self.assigned(s.body))
        if inner_assigned & (self.locals - set(names)):
            self.fail(s, 'nested function assigns a variable of the enclosing function')
        self.locals |= set(names) | inner_assigned
        self.defined |= set(names)
        save_mut, self.mutates = self.mutates, []
        lines = self.block(s.body, Ctx('top'))
        self.mutates = save_mut
        self.defined, self.locals, self.localkind = saved
        out.append('let %s := fun (%s : %s) => (do\n%s : m (%s))' % (
            self.var(s.name), ' '.join(self.var(n) for n in names), V, '\n'.join(ind(lines, 4)), V))
        self.defined.add(s.name)
        self.localkind[s.name] = 'fn'
        self.localarity[s.name] = len(names)

    def local_generator(self, s):
        """a nested generator function: nothing is emitted at the `def`; a `for x in gen(args): body` that consumes it is
        translated by `for_generator` (the generator's body runs interleaved with the loop body, as in Python)"""
        yields = [x for x in ast.walk(s) if isinstance(x, (ast.Yield, ast.YieldFrom))]
        stmt_yields = {id(x.value) for x in ast.walk(s) if isinstance(x, ast.Expr) and isinstance(x.value, ast.Yield)}
        for y in yields:
            if isinstance(y, ast.YieldFrom) or id(y) not in stmt_yields or y.value is None:
                self.fail(s, 'nested generator with a yield that is not a plain `yield e` statement')
        for x in ast.walk(s):
            if isinstance(x, ast.Return):
                self.fail(s, 'nested generator with a return')
            if isinstance(x, (ast.FunctionDef, ast.Lambda)) and x is not s:
                self.fail(s, 'nested generator with a nested function')
            if isinstance(x, ast.Name) and x.id in (GENST, 'yield__'):
                self.fail(s, 'nested generator uses a reserved name')
        names = [x.arg for x in s.args.args]
        inner_assigned = set(self.assigned(s.body)) - {GENST}
        inner_targets = []
        for x in ast.walk(s):
            if isinstance(x, ast.For):
                self.target_names(x.target, inner_targets)
        # the names of the enclosing function proper (its parameters, what it assigns, its loop / comprehension targets)
        outer = {a.arg for a in self.node.args.args} | set(self.assigned(self.node.body))
        stack = list(self.node.body)
        while stack:
            n = stack.pop()
            if isinstance(n, (ast.FunctionDef, ast.Lambda)):
                continue
            if isinstance(n, ast.For):
                tn = []
                self.target_names(n.target, tn)
                outer |= set(tn)
            elif isinstance(n, (ast.ListComp, ast.DictComp, ast.SetComp, ast.GeneratorExp)):
                for gen in n.generators:
                    tn = []
                    self.target_names(gen.target, tn)
                    outer |= set(tn)
            elif isinstance(n, ast.ExceptHandler) and n.name:
                outer.add(n.name)
            stack.extend(ast.iter_child_nodes(n))
        if (inner_assigned | set(inner_targets)) & (outer - set(names)):
            self.fail(s, 'nested generator assigns a variable of the enclosing function')
        if not hasattr(self, 'localgens'):
            self.localgens = {}
        self.localgens[s.name] = s
        self.defined.add(s.name)
        self.localkind[s.name] = 'gen'

    def for_generator(self, s, ctx, rest, out):
        """`for x in gen(args): body` for a local generator `gen`.  Python runs the generator's body and the loop body as
        coroutines: each `yield e` runs one pass of the loop body with `x = e`.  So the generator's body is translated as a
        block that threads the STATE OF THE CONSUMING LOOP (`st__`: the variables the loop body re-binds) and calls the loop
        body (`yield__`) at every `yield` — the order of all effects and exceptions is Python's."""
        g = self.localgens[s.iter.func.id]
        call = s.iter
        if s.orelse:
            self.fail(s, 'for … else over a local generator')
        r, b = self.escapes(s.body, in_loop=False)
        if r or b:
            self.fail(s, 'return / break / continue in a loop over a local generator')
        if call.keywords or any(isinstance(a, ast.Starred) for a in call.args) or len(call.args) != len(g.args.args):
            self.fail(s, 'call of the local generator does not match its signature')
        args = [self.expr(a, out) for a in call.args]
        d0 = set(self.defined)
        tnames = []
        self.target_names(s.target, tnames)
        lvars = [n for n in self.assigned(s.body) if n in d0 and n not in tnames]
        sig = 'Unit' if not lvars else ' × '.join([V] * len(lvars))
        # the loop body: one pass, from the loop's state and the yielded value to the new state
        x, pre = self.with_targets(s.target, None)
        lines = pre + self.block(s.body, Ctx('state', lvars, lvars))
        self.defined = set(d0)
        consumer = '(fun %s %s => do\n%s)' % (self.pack(lvars) if lvars else '_', x, '\n'.join(ind(lines, 4)))
        # the generator's body, over the consumer's state
        names = [a.arg for a in g.args.args]
        saved = set(self.defined), set(self.locals), dict(self.localkind), getattr(self, 'in_generator', False)
        gtargets = []
        for y in ast.walk(g):
            if isinstance(y, ast.For):
                self.target_names(y.target, gtargets)
        self.locals |= set(names) | set(self.assigned(g.body)) | set(gtargets) | {GENST}
        self.defined |= set(names) | {GENST}
        for n in names:
            self.localkind[n] = 'val'
        self.in_generator = True
        save_mut, self.mutates = self.mutates, []
        glines = self.block(g.body, Ctx('state', [GENST], None))
        self.mutates = save_mut
        self.defined, self.locals, self.localkind, self.in_generator = saved
        params = ''.join(' (%s : %s)' % (self.var(n), V) for n in names)
        gen = '(fun%s (yield__ : %s → %s → m (%s)) (%s : %s) => (do\n%s : m (%s)))' % (
            params, '(%s)' % sig if lvars else sig, V, sig, GENST, sig, '\n'.join(ind(glines, 4)), sig)
        out.append('let %s ← %s %s\n    %s %s' % (self.pack(lvars) if lvars else '_', gen, ' '.join(args), consumer,
                                                   self.pack(lvars) if lvars else '()'))
        return False

    def with_stmt(self, s, ctx, rest, out):
        """`with E as f: BODY` then REST.  Python: `cm = E; f = cm.__enter__()`, run BODY; if it completes,
        `cm.__exit__(None, None, None)` and go on with REST; if it raises, `cm.__exit__(type, value, traceback)` — a true
        result SUPPRESSES the exception and execution goes on with REST, with the variables as far as BODY got.  The second
        path is representable because of two checks: no name that BODY binds before its last statement is read afterwards,
        and a name that is read afterwards is bound by the LAST statement of BODY only, a plain assignment — so on the
        suppressed path it still has its value from before the `with`, or is unbound (reading it raises NameError)."""
        if len(s.items) != 1:
            self.fail(s, 'with several context managers')
        item = s.items[0]
        if item.optional_vars is not None and not isinstance(item.optional_vars, ast.Name):
            self.fail(s, 'with … as <not a name>')
        r, b = self.escapes(s.body)
        if r or b:
            self.fail(s, 'return / break / continue inside a with block')
        body_assigned = self.assigned(s.body)
        used_after = self.reads(list(rest)) | self.reads_after_in_function(s)
        early = self.assigned(s.body[:-1])
        bad = [n for n in early if n in used_after]
        if bad:
            self.fail(s, 'with body assigns %s before its last statement and the value is used afterwards' % bad)
        last = s.body[-1]
        for n in body_assigned:
            if n in used_after and not (isinstance(last, ast.Assign) and n not in self.reads([last.value])):
                self.fail(s, 'a name read after the with block is bound by a compound last statement (%s)' % n)
        cm = self.expr(item.context_expr, out)
        cmv = self.temp()
        out.append('let %s : %s := %s' % (cmv, V, cm))
        f = self.bindm(out, 'Dyn.callMethod ext %s "__enter__" [] []' % cmv)
        if item.optional_vars is not None:
            if item.optional_vars.id in self.mutates:
                self.fail(s, 'with … as a `mutates` parameter')
            out.append('let %s : %s := %s' % (self.var(item.optional_vars.id), V, f))
            self.defined.add(item.optional_vars.id)
        d0 = set(self.defined)
        after = self.defs_after(s.body, d0)
        svars = [n for n in body_assigned if n in d0 or n in after]
        body, _ = self.branch(s.body, Ctx('state', svars, ctx.loop_vars))
        w = self.temp()
        ev = 'we__%s' % w[3:]
        term = ('(tryCatch (do\n    let s__ ← (do\n%s)\n    pure (some s__))\n  (fun %s => do\n    let sup__ ← Dyn.withExit ext %s (some %s)\n'
                '    if sup__ then pure none else throw %s))') % ('\n'.join(ind(body, 6)), ev, cmv, ev, ev)
        out.append('let %s ← %s' % (w, term))
        # REST after the body completed
        self.defined = set(after)
        rest_ok = ['let _ ← Dyn.withExit ext %s none' % cmv] + self.block(list(rest), ctx)
        # REST after a suppressed exception: the names only BODY binds are unbound
        self.defined = set(d0)
        saved_unbound = getattr(self, 'unbound_names', set())
        self.unbound_names = set(saved_unbound) | (set(after) - set(d0))
        rest_sup = self.block(list(rest), ctx)
        self.unbound_names = saved_unbound
        out.append('match %s with' % w)
        out.append('| some %s => do' % (self.pack(svars) if svars else '()'))
        out.extend(ind(rest_ok, 4))
        out.append('| none => do')
        out.extend(ind(rest_sup, 4))

    def branch(self, stmts, ctx):
        saved = set(self.defined)
        lines = self.block(stmts, ctx)
        d = self.defined
        self.defined = saved
        return lines, d

    def if_stmt(self, s, ctx, rest, out):
        c = self.cond(s.test, out)
        if not rest or not self.can_fall(s.body):
            # tail position, or the body always leaves: `if c then <body> else <orelse; rest>` in the current mode
            b1, _ = self.branch(list(s.body), ctx)
            if not rest:
                b2, _ = self.branch(list(s.orelse), ctx)
            else:
                b2, _ = self.branch(list(s.orelse) + list(rest), ctx)
            out.append('if %s then do' % c)
            out.extend(ind(b1))
            out.append('else do')
            out.extend(ind(b2))
            return True
        kind = self.sub_ctx_kind([s])
        d0 = set(self.defined)
        after = self.defs_after([s], d0)
        svars = [n for n in self.assigned([s]) if n in d0 or n in after]
        sub = Ctx(kind, svars, ctx.loop_vars)
        b1, _ = self.branch(s.body, sub)
        b2, _ = self.branch(list(s.orelse), sub)
        term = '(if %s then do\n%s\n  else do\n%s)' % (c, '\n'.join(ind(b1, 4)), '\n'.join(ind(b2, 4)))
        return self.finish_compound(term, svars, kind, ctx, rest, out, after)

    def finish_compound(self, term, svars, kind, ctx, rest, out, after):
        if kind == 'state':
            out.append('let %s ← %s' % (self.pack(svars) if svars else '_', term))
            self.defined = set(after)
            return False
        r = self.temp()
        out.append('let %s ← %s' % (r, term))
        self.defined = set(after)
        rest_lines = self.block(list(rest), ctx)
        out.extend(self.after_compound(r, svars, kind, ctx, rest_lines))
        return True

    def for_stmt(self, s, ctx, rest, out):
        if s.orelse:
            # `for … else`: the else block runs when the loop was not left by `break`; without a `break` in the body that
            # is: always after the loop (a `return` / exception in the body leaves the function anyway)
            if any(isinstance(x, ast.Break) for x in self.own_nodes(s.body)):
                self.fail(s, 'for … else with a break in the body')
            rest = list(s.orelse) + list(rest)
        if isinstance(s.iter, ast.Call) and isinstance(s.iter.func, ast.Name) \
                and s.iter.func.id in getattr(self, 'localgens', {}) and self.localkind.get(s.iter.func.id) == 'gen':
            return self.for_generator(s, ctx, rest, out)
        xs = self.iterable(s.iter, out)
        d0 = set(self.defined)
        body_assigned = self.assigned(s.body)
        tnames = []
        self.target_names(s.target, tnames)
        lvars = [n for n in body_assigned if n in d0 and n not in tnames]
        r, b = self.escapes(s.body, in_loop=False)
        saved_locals_defined = set(self.defined)
        x, pre = self.with_targets(s.target, None)
        if not r and not b:
            sub = Ctx('state', lvars, lvars)
            lines = pre + self.block(s.body, sub)
            self.defined = set(d0)
            term = 'Dyn.forM %s %s (fun %s %s => do\n%s)' % (xs, self.pack(lvars), self.pack(lvars) if lvars else '_', x,
                                                          '\n'.join(ind(lines, 4)))
            out.append('let %s ← %s' % (self.pack(lvars) if lvars else '_', term))
            if s.orelse:
                out.extend(self.block(rest, ctx))
                return True
            return False
        sub = Ctx('flow4', lvars, lvars)
        lines = pre + self.block(s.body, sub)
        self.defined = set(d0)
        term = 'Dyn.forIn %s %s (fun %s %s => do\n%s)' % (xs, self.pack(lvars), self.pack(lvars) if lvars else '_', x,
                                                       '\n'.join(ind(lines, 4)))
        if not r:
            # only break / continue: the loop as a whole falls through
            t = self.temp()
            out.append('let %s ← %s' % (t, term))
            out.append('let %s ← (match %s with | Dyn.Flow.next s__ => pure s__ | Dyn.Flow.ret (r__ : Unit) => throw Dyn.Exc.RuntimeError)'
                       % (self.pack(lvars) if lvars else '_', t))
            if s.orelse:
                out.extend(self.block(rest, ctx))
                return True
            return False
        t = self.temp()
        out.append('let %s ← %s' % (t, term))
        rest_lines = self.block(list(rest), ctx)
        out.extend(self.after_compound(t, lvars, 'flow2', ctx, rest_lines))
        return True

    def try_stmt(self, s, ctx, rest, out):
        if s.orelse or s.finalbody:
            self.fail(s, 'try … else / finally')
        # the handler sees the variables as they were before the `try`: refuse bodies for which that is not Python's view
        early = self.assigned(s.body[:-1])
        if early:
            used = self.reads([h for hd in s.handlers for h in hd.body] + list(rest)) | self.reads_after_in_function(s)
            bad = [n for n in early if n in used]
            if bad:
                self.fail(s, 'try body assigns %s before its last statement and the value is used afterwards' % bad)
        tail = not rest
        if tail:
            kind, svars, sub = ctx.kind, ctx.vars, ctx
            after = None
        else:
            kind = self.sub_ctx_kind([s])
            d0 = set(self.defined)
            after = self.defs_after([s], d0)
            svars = [n for n in self.assigned([s]) if n in d0 or n in after]
            sub = Ctx(kind, svars, ctx.loop_vars)
        body, _ = self.branch(s.body, sub)
        ev = 'e__%d' % (len(self.handler_var) + 1)
        hl = []
        for h in s.handlers:
            if h.name is not None and h.name in self.reads(h.body):
                self.fail(h, 'the exception object is used')
            if h.type is None:
                test = 'true'
            else:
                cls = h.type.elts if isinstance(h.type, ast.Tuple) else [h.type]
                test = '%s.isaAny [%s]' % (ev, ', '.join(self.exc_class(c) for c in cls))
            self.handler_var.append(ev)
            hb, _ = self.branch(h.body, sub)
            self.handler_var.pop()
            hl.append((test, hb))
        lines = []
        for i, (test, hb) in enumerate(hl):
            lines.append('%sif %s then do' % ('' if i == 0 else 'else ', test))
            lines.extend(ind(hb))
        lines.append('else throw %s' % ev)
        term = '(tryCatch (do\n%s)\n  (fun %s => do\n%s))' % ('\n'.join(ind(body, 4)), ev, '\n'.join(ind(lines, 4)))
        if tail:
            out.append(term)
            return True
        return self.finish_compound(term, svars, kind, ctx, rest, out, after)

    def reads_after_in_function(self, s):
        """names read in the function after statement `s` at outer nesting levels (conservative: every read in the function
        that is located after the end of `s`)"""
        out = set()
        for x in ast.walk(self.node):
            if isinstance(x, ast.Name) and isinstance(x.ctx, ast.Load) and getattr(x, 'lineno', 0) > s.end_lineno:
                out.add(x.id)
        # a loop around `s` executes earlier lines again
        for x in ast.walk(self.node):
            if isinstance(x, ast.For) and x.lineno <= s.lineno and x.end_lineno >= s.end_lineno:
                out |= self.reads(x.body)
        return out

    # ------------------------------------------------------------------ whole function
    def translate(self):
        try:
            return self.translate_()
        except Untranslatable:
            raise
        except (KeyError, IndexError, AttributeError, TypeError, ValueError, AssertionError, RecursionError) as e:
            raise Untranslatable('%s:%s: internal translator error %s: %s' % (self.spec['module'], self.spec['func'],
                                                                             type(e).__name__, e))

    def translate_(self):
        node = self.node
        a = node.args
        if a.vararg or a.kwarg or a.kwonlyargs or a.posonlyargs:
            self.fail(node, 'unsupported signature')
        allowed = set(self.spec.get('decorators', ()))
        for d in node.decorator_list:
            if ast.unparse(d) not in allowed:
                self.fail(node, 'decorator %s is not declared' % ast.unparse(d))
        def outside_nested(stmts):
            stack = list(stmts)
            while stack:
                n = stack.pop()
                if isinstance(n, (ast.FunctionDef, ast.Lambda)):
                    continue                               # a nested generator is checked by `local_generator`
                yield n
                stack.extend(ast.iter_child_nodes(n))
        if any(isinstance(x, (ast.Yield, ast.YieldFrom)) for x in outside_nested(node.body)) or \
                any(isinstance(x, (ast.Await, ast.Global, ast.Nonlocal, ast.While, ast.AsyncWith))
                    for x in self.own_nodes(node.body)):
            self.fail(node, 'generator / global / while / async with')
        names = [x.arg for x in a.args]
        # `self` counts as used only outside the receiver of an ignored (logging) call: `self.debug(…)` reads nothing
        ignored_funcs = {id(x.func) for x in ast.walk(node) if isinstance(x, ast.Call)
                         and re.search(self.ignore_calls, ast.unparse(x))}
        body_reads = set()
        stack = list(node.body)
        while stack:
            x = stack.pop()
            if id(x) in ignored_funcs:
                continue
            if isinstance(x, ast.Name) and isinstance(x.ctx, ast.Load):
                body_reads.add(x.id)
            stack.extend(ast.iter_child_nodes(x))
        self.takes_self = bool(names) and names[0] == 'self' and self.spec.get('cls') is not None
        if self.takes_self and 'self' not in body_reads and not self.spec.get('keep_self'):
            names = names[1:]
            self.takes_self = False
        self.param_names = names
        self.param_kinds = {}
        for n in names:
            self.param_kinds[n] = self.kinds.get(n, 'val')
        extra_decl = [p for p in self.kinds if p not in names]
        if extra_decl:
            raise Untranslatable('%s: declared parameter(s) %s no longer in the signature' % (self.spec['func'], extra_decl))
        for p in self.mutates:
            if p not in names:
                raise Untranslatable('%s: `mutates` parameter %s is not in the signature' % (self.spec['func'], p))
        # defaults (constants only) so that callers may omit them
        self.defaults = {}
        all_args = [x.arg for x in a.args]
        for nm, d in zip(all_args[len(all_args) - len(a.defaults):], a.defaults):
            if isinstance(d, ast.Constant) and (d.value is None or isinstance(d.value, (bool, int, str))):
                self.defaults[nm] = d.value
            elif isinstance(d, ast.Attribute) or isinstance(d, ast.Name):
                pass                                     # a default that is a module-level object: callers must pass it
            else:
                self.fail(d, 'unsupported default value')
        self.locals = set(names) | {x.id for x in self.own_nodes(node.body)
                                      if isinstance(x, ast.Name) and isinstance(x.ctx, ast.Store)}
        self.param_names_ready = True
        assigned = self.assigned(node.body)
        imported = set()
        for x in self.own_nodes(node.body):
            if isinstance(x, (ast.Import, ast.ImportFrom)):
                for al in x.names:
                    imported.add((al.asname or al.name).split('.')[0])
        self.locals_assigned_non_import = set(assigned)
        loop_targets = []
        for x in self.own_nodes(node.body):
            if isinstance(x, ast.For):
                self.target_names(x.target, loop_targets)
            elif isinstance(x, (ast.ListComp, ast.DictComp, ast.SetComp, ast.GeneratorExp)):
                for g in x.generators:
                    self.target_names(g.target, loop_targets)
            elif isinstance(x, ast.ExceptHandler) and x.name:
                loop_targets.append(x.name)
        self.locals = set(names) | set(assigned) | set(loop_targets)
        if imported & self.locals:
            raise Untranslatable('%s: an imported name is also a local variable' % self.spec['func'])
        self.defined = set(names)
        self.localkind = {n: ('fn' if self.param_kinds[n].startswith('fn') else 'val') for n in names}
        self.localarity = {n: int(self.param_kinds[n][2:]) for n in names if self.param_kinds[n].startswith('fn')}
        self.handler_var = []
        self.check_aliasing()
        lines = self.block(node.body, Ctx('top'))
        nmut = len(self.mutates)
        rty = V if not nmut else ' × '.join([V] * (nmut + 1))
        ptys = []
        for n in names:
            k = self.param_kinds[n]
            if k.startswith('fn'):
                ptys.append(('(%s : %s)' % (self.var(n), ' → '.join([V] * int(k[2:]) + ['m (%s)' % V])), self.var(n)))
            else:
                ptys.append(('(%s : %s)' % (self.var(n), V), self.var(n)))
        callee_params = ''.join(' (%s : %s)' % (self.var(cn), ' → '.join([V] * ar + ['m (%s)' % V]))
                                for cn, ar in self.callees.items())
        self.extra_params.sort()
        extra = ''.join(' (%s : %s)' % (n, t) for n, t in self.extra_params)
        self.arg_names = list(names)
        self.arg_kinds = [self.param_kinds[n] for n in names]
        self.known_extra = dict(dyn=self.own_sig())
        if self.fuel:
            tys = [pt[0][1:-1].split(' : ', 1)[1] for pt in ptys]
            head = 'def %s %s%s%s : Nat → %s\n  | 0%s => throw Dyn.Exc.RecursionError\n  | fuel + 1%s => do\n' % (
                self.lean, PFX, callee_params, extra,
                ' → '.join(['(%s)' % t if '→' in t else t for t in tys] + ['m (%s)' % rty]),
                ''.join(', _' for _ in ptys), ''.join(', ' + pt[1] for pt in ptys))
            return head + '\n'.join(ind(lines, 4)) + '\n'
        head = 'def %s %s%s%s %s : m (%s) := do\n' % (self.lean, PFX, callee_params, extra,
                                                     ' '.join(pt[0] for pt in ptys), rty)
        return head + '\n'.join(ind(lines, 2)) + '\n'
