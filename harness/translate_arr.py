"""Array / method idioms for harness/translate.py.

The functions below are installed as methods of `translate.Fn` (see the last line of translate.py); translate.py calls them
through small hooks (`expr_ext`, `cond_ext`, `stmt_ext`, `assigned_ext`).  Every hook returns None for a construct it does
not recognise, so the existing rules (and the text they generate) are unchanged.

Additional subset (everything else still raises Untranslatable):
  * whole-array expressions.  An array is a function `Nat → α` (plus a length that is only tracked where a rule needs it);
    an array-valued expression `e` denotes `fun i__ => e[i__]`, where `e[i]` is computed structurally:
        a[i]                         a declared / local array or array attribute
        (x op y)[i] = x[i] op y[i]   numpy broadcasting of a scalar: a scalar operand is itself
        f(x)[i] = f(x[i])            exp / log / log10 / sqrt
        a[lo:hi][i] = a[i + lo]      (the stop only shortens the array), a[:hi][i] = a[i]
        a[::-1][i] = a[len(a)-1-i]   (the length of `a` must be known: declared in `lens`, an allocation, an external)
        np.zeros(n)[i] = 0
        ext(args)[i] = ext args i    a declared array-valued external (`arr_externals`), e.g. np.logspace
  * statements: `x = np.zeros(n)`, `x[:] = scalar`, `x = <array expression>`, `n = a.shape[0]` for an array whose length is
    declared, `with np.errstate(...):` (transparent: it only changes how floating-point warnings are reported),
    `a, b, c = known_method(...)` (tuple result of a function translated earlier in the same file), `return e1, e2, …`
    (declared `ret_kinds=[kind, …]`), `return <array expression>` (declared `returns='arr'`), array-valued state attributes;
  * `self.prop` where `prop` is a property translated earlier in the same file (spec `property=True`);
  * a call whose whole text is declared in `s_externals` (e.g. a unit conversion with string arguments) is a parameter;
  * `def f(a, b): …` inside the function (a local function of scalars, becomes a local `fun`); a call statement of a
    translated method declared `raises=True` (its Bool result says whether it raises): `if chk then <raise_value> else <rest>`;
    `returns='opt'`: `return e` is `some e` (and `raise_value='none'`); `x ** c` with a non-integral literal `c` is the declared
    external `'**'`; `any(c(i) for i in range(a[, b]))` / `all(…)` is `List.any` / `List.all` over `List.range'`; float `a == b` is `a ≤ b ∧ b ≤ a` (IEEE: false for NaN, true for ±0);
  * PYTHON LISTS.  Kinds 'slist' (list of scalars, `List α`) and 'rows' (list of 1-D arrays, `List (Nat → α)`), locals declared
    in `locals`: `x = []`, `x.append(e)`, `[e1, e2]`, `xs + ys` (`++`), `sum(xs)` (the builtin: left fold of `+` from 0; for
    rows the fold is taken entry by entry), `return xs`;
  * OPAQUE SEQUENCES (`seqs`: lists of names / objects, with their length declared in `lens`): an element is represented by
    its index; `for x in SEQ`, `for i, x in enumerate(SEQ)` fold over `List.range' 0 n`; `x.attr` (declared in `elem_attrs`)
    and `f(x)` (declared in `elem_funcs`) are functions of the index (parameters); `for x, y in zip(SEQ[1:], L)` with `x` not
    used in the body folds over `L.take (n - 1)` (zip stops at the shorter operand);
  * `np.any(<comparison of arrays>)` is `List.any` over the index range of the (known) length; `a += <array>` on arrays;
    `if X is not None:` for an attribute the spec declares `not_none` runs its body; `stop_at=<statement text>` +
    `result=[names]`: the translated value is the value of the named locals right after that statement (the rest of the
    function is not part of the translation); `start_at=<statement text>` + `free_locals={name: kind}`: the statements
    before it are not part of the translation either, the locals live at that point are parameters;
  * 2-D ARRAY EXPRESSIONS (`Nat → Nat → α`): element-wise operators and exp/log/log10/sqrt/abs, `x[:, None]` (entry (i, j) is
    `x[i]`), `x[None, :]` (entry (i, j) is `x[j]`), `X[:, :]`; `np.sum(X, axis=0)[j]` = the column entries added in index
    order from 0 (the number of rows is declared in `nrows`); `W.dot(x)` is the declared external `dot` (BLAS: the order of
    the additions is not specified by numpy) applied to W, x, len(x) and the row index;
  * `[a, *xs, b]` (lists of scalars: `[a] ++ xs ++ [b]`); `x = self.attr` for an optional scalar attribute ('opt') followed by
    `if x is None or c(x): x = e` (short-circuit `or`): `match x with | none => e | some v => if c(v) then e else v`;
  * `np.append(A, v)[i]` = `A[i]` for `i < len(A)`, else the scalar `v`; a declared external array function of one array
    (`arr_fn_externals`, e.g. np.gradient) is a parameter applied to the array, its length and the index;
  * ALIASING: arrays are translated as values.  An in-place store (`a[k] = e`, `a[lo:hi] = E`, `a[:] = c`, `a += E`) is only
    translated when `a` was created in this function as a fresh array (np.zeros, an arithmetic result, a result of a
    translated function) and neither is a view (name / attribute / basic slice of another array), nor has a live view, nor
    was put into a list — otherwise Untranslatable (numpy views share memory);
  * stores `a[k] = e` (k may be a negative literal when the length of `a` is known) and `a[lo:hi] = E` on a local array or an
    array state attribute: `fun i => if lo ≤ i ∧ i < hi then E[i - lo] else a i`;
  * `np.power(x, y)` is `x ** y`; `x ** y` with `y` not an integral literal and `x` not the literal 10 is the declared
    external `'**'`; `np.ones(n)[i] = 1`;
  * calls of translated methods with array-expression arguments and with omitted trailing parameters (defaults) that the
    callee declares as 'skip'."""
import ast
import re

IDX = 'i__'
MATH_FUNCS = ('exp', 'log', 'log10', 'sqrt')


def _nm(n):
    return ast.Name(id=n, ctx=ast.Load())


def _const(v):
    return ast.Constant(value=v)


def zeros_len(self, node):
    """np.zeros(n) / np.zeros((n)) / np.zeros((n,)) / np.zeros(shape=(n,)) -> AST of n, else None"""
    if not (isinstance(node, ast.Call) and ast.unparse(node.func) in ('np.zeros', 'numpy.zeros')):
        return None
    if len(node.args) == 1 and not node.keywords:
        a = node.args[0]
    elif not node.args and len(node.keywords) == 1 and node.keywords[0].arg == 'shape':
        a = node.keywords[0].value
    else:
        return None
    if isinstance(a, ast.Tuple):
        if len(a.elts) != 1:
            return None
        a = a.elts[0]
    return a


def known_entry(self, node):
    """the registry entry of a translated function called / read by `node` (Call or property Attribute), else None"""
    if isinstance(node, ast.Call):
        return self.known.get(ast.unparse(node.func))
    if isinstance(node, ast.Attribute):
        e = self.known.get(ast.unparse(node))
        return e if e is not None and e.get('property') else None
    return None


def is_arr(self, node, env):
    if isinstance(node, ast.Call) and ast.unparse(node.func) in self.spec.get('arr_fn_externals', {}) \
            and len(node.args) == 1 and not node.keywords:
        return is_arr(self, node.args[0], env)
    if isinstance(node, ast.Call) and ast.unparse(node.func) in ('np.append', 'numpy.append') and len(node.args) == 2 \
            and not node.keywords:
        return is_arr(self, node.args[0], env) and not is_arr(self, node.args[1], env)
    if colsum_call(self, node) is not None:
        return is_arr2(self, colsum_call(self, node), env)
    if dot_call(self, node, env) is not None:
        return True
    if isinstance(node, ast.Call) and len(node.args) == 1 and not node.keywords \
            and self.call_name(node)[0] in ('abs', 'fabs'):
        return is_arr(self, node.args[0], env)
    if isinstance(node, ast.Attribute) and seq_elem(self, node.value, env) is not None:
        return elem_attr(self, node, env)[1] == 'arr'
    if isinstance(node, ast.Call) and ast.unparse(node.func) == 'sum' and len(node.args) == 1 and not node.keywords:
        return kind_of(self, node.args[0], env) == 'rows'
    if isinstance(node, ast.Call) and ast.unparse(node.func) in ('np.ones', 'numpy.ones') and len(node.args) == 1 \
            and not node.keywords:
        return True
    if isinstance(node, ast.Call) and ast.unparse(node.func) in ('np.power', 'numpy.power') and len(node.args) == 2 \
            and not node.keywords:
        return is_arr(self, node.args[0], env) or is_arr(self, node.args[1], env)
    if isinstance(node, ast.Subscript) and not isinstance(node.slice, (ast.Slice, ast.Tuple)):
        b = node.value
        if isinstance(b, ast.Name) and env.get(b.id) == 'arr2':
            return True
        if isinstance(b, ast.Attribute) and ast.unparse(b) in self.attrs and self.attrs[ast.unparse(b)][1] == 'arr2':
            return True
    if isinstance(node, ast.Name):
        return self.kind_of_name(node.id, env) == 'arr'
    if isinstance(node, ast.Attribute):
        t = ast.unparse(node)
        if t in env:
            return env[t] == 'arr'
        if t in self.attrs:
            return self.attrs[t][1] == 'arr'
        e = known_entry(self, node)
        return e is not None and e.get('returns') == 'arr'
    if isinstance(node, ast.Subscript) and isinstance(node.slice, ast.Slice):
        return is_arr(self, node.value, env)
    if isinstance(node, ast.BinOp):
        return is_arr(self, node.left, env) or is_arr(self, node.right, env)
    if isinstance(node, ast.UnaryOp) and isinstance(node.op, (ast.USub, ast.UAdd)):
        return is_arr(self, node.operand, env)
    if isinstance(node, ast.Call):
        short, full = self.call_name(node)
        if full in self.arr_externals or zeros_len(self, node) is not None:
            return True
        if short in MATH_FUNCS and len(node.args) == 1 and not node.keywords:
            return is_arr(self, node.args[0], env)
        e = known_entry(self, node)
        return e is not None and e.get('returns') == 'arr'
    return False


def arr_len(self, node, env):
    """AST of the length of an array-valued expression, or None when it is not tracked"""
    if isinstance(node, ast.Call) and ast.unparse(node.func) in self.spec.get('arr_fn_externals', {}) \
            and len(node.args) == 1:
        return arr_len(self, node.args[0], env)            # (declared: the result has the length of the argument)
    if isinstance(node, ast.Call) and ast.unparse(node.func) in ('np.append', 'numpy.append') and len(node.args) == 2:
        ln = arr_len(self, node.args[0], env)
        return ast.BinOp(left=ln, op=ast.Add(), right=_const(1)) if ln is not None else None
    if isinstance(node, ast.Attribute) and seq_elem(self, node.value, env) is not None:
        ln = elem_attr(self, node, env)[2]
        return _nm(ln) if ln else None
    if isinstance(node, ast.Call) and ast.unparse(node.func) == 'sum' and self.spec.get('row_len'):
        return _nm(self.spec['row_len'])
    if isinstance(node, ast.Call) and ast.unparse(node.func) in ('np.ones', 'numpy.ones') and len(node.args) == 1:
        return node.args[0]
    if isinstance(node, (ast.Name, ast.Attribute)):
        t = ast.unparse(node)
        if ('#len', t) in env:
            return env[('#len', t)]
        if t in self.lens:
            return _nm(self.lens[t])
        return None
    if isinstance(node, ast.Subscript) and isinstance(node.slice, ast.Slice):
        sl = node.slice
        ln = arr_len(self, node.value, env)
        if ln is None:
            return None
        if sl.step is not None:
            return ln if ast.unparse(sl.step) == '-1' and sl.lower is None and sl.upper is None else None
        hi = ln
        if sl.upper is not None:
            u = sl.upper
            if isinstance(u, ast.UnaryOp) and isinstance(u.op, ast.USub) and isinstance(u.operand, ast.Constant) \
                    and isinstance(u.operand.value, int):
                hi = ast.BinOp(left=ln, op=ast.Sub(), right=u.operand)
            else:
                return None                                # min(stop, len): not tracked
        if sl.lower is None:
            return hi
        if self.is_nat(sl.lower, env):
            return ast.BinOp(left=hi, op=ast.Sub(), right=sl.lower)
        return None
    if isinstance(node, ast.BinOp):
        return arr_len(self, node.left, env) if is_arr(self, node.left, env) else arr_len(self, node.right, env)
    if isinstance(node, ast.UnaryOp):
        return arr_len(self, node.operand, env)
    if isinstance(node, ast.Call):
        z = zeros_len(self, node)
        if z is not None:
            return z
        short, full = self.call_name(node)
        if full in self.arr_externals:
            return node.args[self.arr_externals[full][2]]
        if short in MATH_FUNCS and len(node.args) == 1:
            return arr_len(self, node.args[0], env)
    return None


def at(self, node, env, idx):
    """AST of element `idx` (a natural-number AST) of the array-valued expression `node`; a scalar is broadcast"""
    if not is_arr(self, node, env):
        return node
    if colsum_call(self, node) is not None:
        return ast.Call(func=_nm('__colsum__'), args=[colsum_call(self, node), idx], keywords=[])
    if isinstance(node, ast.Call) and ast.unparse(node.func) in self.spec.get('arr_fn_externals', {}):
        return ast.Subscript(value=node, slice=idx, ctx=ast.Load())
    if isinstance(node, ast.Call) and ast.unparse(node.func) in ('np.append', 'numpy.append'):
        # np.append(A, v)[i] = A[i] for i < len(A), then the scalar v
        ln = arr_len(self, node.args[0], env)
        if ln is None:
            self.fail(node, 'np.append to an array of unknown length')
        return ast.IfExp(test=ast.Compare(left=idx, ops=[ast.Lt()], comparators=[ln]),
                         body=at(self, node.args[0], env, idx), orelse=node.args[1])
    if dot_call(self, node, env) is not None:
        return ast.Subscript(value=node, slice=idx, ctx=ast.Load())
    if isinstance(node, ast.Call) and len(node.args) == 1 and self.call_name(node)[0] in ('abs', 'fabs'):
        return ast.Call(func=node.func, args=[at(self, node.args[0], env, idx)], keywords=[])
    if isinstance(node, ast.Call) and ast.unparse(node.func) == 'sum':
        return ast.Call(func=_nm('__rowsum__'), args=[node.args[0], idx], keywords=[])
    if isinstance(node, ast.Call) and ast.unparse(node.func) in ('np.ones', 'numpy.ones'):
        self.nat(node.args[0], env)
        return _const(1)
    if isinstance(node, ast.Call) and ast.unparse(node.func) in ('np.power', 'numpy.power'):
        return ast.Call(func=node.func, args=[at(self, a, env, idx) for a in node.args], keywords=[])
    if isinstance(node, ast.Subscript) and not isinstance(node.slice, (ast.Slice, ast.Tuple)):
        return ast.Subscript(value=node, slice=idx, ctx=ast.Load())      # a row of a 2-D array
    if isinstance(node, (ast.Name, ast.Attribute)):
        return ast.Subscript(value=node, slice=idx, ctx=ast.Load())
    if isinstance(node, ast.Subscript) and isinstance(node.slice, ast.Slice):
        sl = node.slice
        if sl.step is None:
            u = sl.upper
            if not (u is None or self.is_nat(u, env) or (
                    isinstance(u, ast.UnaryOp) and isinstance(u.op, ast.USub) and isinstance(u.operand, ast.Constant)
                    and isinstance(u.operand.value, int))):
                self.fail(node, 'unsupported slice stop')
            if sl.lower is None or (isinstance(sl.lower, ast.Constant) and sl.lower.value == 0):
                return at(self, node.value, env, idx)
            if not self.is_nat(sl.lower, env):
                self.fail(node, 'unsupported slice start')
            return at(self, node.value, env, ast.BinOp(left=idx, op=ast.Add(), right=sl.lower))
        if ast.unparse(sl.step) == '-1' and sl.lower is None and sl.upper is None:
            ln = arr_len(self, node.value, env)
            if ln is None:
                self.fail(node, 'reversal of an array of unknown length')
            j = ast.BinOp(left=ast.BinOp(left=ln, op=ast.Sub(), right=_const(1)), op=ast.Sub(), right=idx)
            return at(self, node.value, env, j)
        self.fail(node, 'unsupported slice')
    if isinstance(node, ast.BinOp):
        return ast.BinOp(left=at(self, node.left, env, idx), op=node.op, right=at(self, node.right, env, idx))
    if isinstance(node, ast.UnaryOp):
        return ast.UnaryOp(op=node.op, operand=at(self, node.operand, env, idx))
    if isinstance(node, ast.Call):
        short, full = self.call_name(node)
        if full in self.arr_externals or zeros_len(self, node) is not None or known_entry(self, node) is not None:
            return ast.Subscript(value=node, slice=idx, ctx=ast.Load())
        if short in MATH_FUNCS and len(node.args) == 1:
            return ast.Call(func=node.func, args=[at(self, node.args[0], env, idx)], keywords=[])
    self.fail(node, 'unsupported array expression')


def arr_name(self, node, env):
    """Lean name of an array variable / attribute (None when `node` is a compound expression)"""
    if isinstance(node, ast.Name) and self.kind_of_name(node.id, env) == 'arr':
        return self.var(node.id)
    if isinstance(node, ast.Attribute):
        t = ast.unparse(node)
        if env.get(t) == 'arr' and t in self.attrs:
            return self.attrs[t][0]
        if t in self.attrs and self.attrs[t][1] == 'arr':
            self.add_param(self.attrs[t][0], 'Nat → α')
            return self.attrs[t][0]
    return None


def arr_lambda(self, node, env):
    """Lean term of type `Nat → α` for an array-valued expression"""
    nm = arr_name(self, node, env)
    if nm is not None:
        return nm
    if not is_arr(self, node, env):
        self.fail(node, 'an array was expected')
    env2 = dict(env)
    env2[IDX] = 'nat'
    return '(fun (%s : Nat) => %s)' % (IDX, self.expr(at(self, node, env, _nm(IDX)), env2))


def needs_ext_call(self, node, env, entry):
    """would the plain rule of translate.expr reject this call of a translated function?"""
    if len(node.args) != len(entry['arg_kinds']):
        return True
    if entry.get('lens_order'):
        return True
    for a, k in zip(node.args, entry['arg_kinds']):
        if k == 'arr' and not (isinstance(a, ast.Name) and env.get(a.id) == 'arr'):
            return True
    return False


def call_known2(self, node, env, entry):
    """as call_known, inserting the declared length arguments of the callee (`lens` of the callee: the caller must know the
    length of the corresponding argument)"""
    kinds, names = entry['arg_kinds'], entry['arg_names']
    if node.keywords or len(node.args) > len(kinds):
        self.fail(node, 'call of a translated function with keywords / too many arguments')
    if any(k != 'skip' for k in kinds[len(node.args):]):
        self.fail(node, 'call of a translated function omits a parameter that it uses')
    args = []
    byname = {}
    for a, k, pn in zip(node.args, kinds, names):
        byname[pn] = a
        if k == 'skip':
            continue
        if k == 'arr':
            args.append(arr_lambda(self, a, env))
        elif k == 'nat':
            args.append(self.index(a, env, entry['index_dims'].get(pn)))
        else:
            args.append(self.arg(a, k, env))
    for pn, ln_name in entry.get('lens_order', ()):        # the callee's explicit length parameters, in its order
        if pn in names:                                    # length of an array parameter: the caller must know it
            ln = arr_len(self, byname[pn], env) if pn in byname else None
            if ln is None:
                self.fail(node, 'length of the argument for %s is not known' % pn)
            args.append(self.nat(ln, env))
        else:                                              # length of an attribute sequence: the same attribute here
            if env.get(ln_name) != 'nat':
                self.add_param(ln_name, 'Nat')
            args.append(ln_name)
    for nm, ty in entry['extra_params']:
        self.add_param(nm, ty)
        args.append(nm)
    return '(%s %s)' % (entry['lean'], ' '.join(args)) if args else entry['lean']


def neg_index(self, node, env, lnt):
    """index text; a negative literal -k is `len - k` (lnt: Lean text of the length, or None)"""
    if isinstance(node, ast.UnaryOp) and isinstance(node.op, ast.USub) and isinstance(node.operand, ast.Constant) \
            and isinstance(node.operand.value, int) and node.operand.value >= 1:
        if lnt is None:
            self.fail(node, 'negative index into an array of unknown length')
        return '(%s - %d)' % (lnt, node.operand.value)
    return self.nat(node, env)


def expr_ext(self, node, env):
    """scalar expressions added by this module; None = not recognised"""
    if not self.arr_on:
        return None
    r = seq_expr(self, node, env)
    if r is not None:
        return r
    if isinstance(node, ast.Call) and ast.unparse(node.func) in ('np.power', 'numpy.power') and len(node.args) == 2 \
            and not node.keywords:
        # np.power(x, y) is x ** y (element-wise)
        return self.expr(ast.BinOp(left=node.args[0], op=ast.Pow(), right=node.args[1]), env)
    if isinstance(node, ast.Attribute):
        e = known_entry(self, node)
        if e is not None and ast.unparse(node) not in self.attrs:
            if e.get('returns', 's') != 's':
                self.fail(node, 'property that is not a scalar used as a scalar')
            for nm, ty in e['extra_params']:
                self.add_param(nm, ty)
            args = [nm for nm, _ in e['extra_params']]
            return '(%s %s)' % (e['lean'], ' '.join(args)) if args else e['lean']
        return None
    if isinstance(node, ast.Subscript) and isinstance(node.slice, ast.UnaryOp) and isinstance(node.slice.op, ast.USub) \
            and isinstance(node.value, (ast.Name, ast.Attribute)) and ast.unparse(node.value) not in self.dims \
            and is_arr(self, node.value, env):
        # a[-k] on an array whose length is known
        ln = arr_len(self, node.value, env)
        k = neg_index(self, node.slice, env, self.nat(ln, env) if ln is not None else None)
        return '(%s %s)' % (arr_name(self, node.value, env), k)
    if isinstance(node, ast.Subscript) and not isinstance(node.slice, (ast.Slice, ast.Tuple)):
        base = node.value
        if isinstance(base, ast.Call):
            short, full = self.call_name(base)
            if full in self.arr_externals:
                nm, kinds, _ = self.arr_externals[full]
                if base.keywords or len(base.args) != len(kinds):
                    self.fail(node, 'array external called with other arguments than declared')
                self.add_param(nm, ' → '.join([self.lean_ty(k) for k in kinds] + ['Nat', 'α']))
                args = [self.nat(a, env) if k == 'nat' else self.expr(a, env) for a, k in zip(base.args, kinds)]
                return '(%s %s %s)' % (nm, ' '.join(args), self.nat(node.slice, env))
            if zeros_len(self, base) is not None:
                self.nat(zeros_len(self, base), env)
                self.literals.add(0)
                return '(0 : α)'
            e = known_entry(self, base)
            if e is not None and e.get('returns') == 'arr':
                return '(%s %s)' % (call_known2(self, base, env, e), self.nat(node.slice, env))
        if isinstance(base, ast.Attribute) and env.get(ast.unparse(base)) == 'arr' and ast.unparse(base) in self.attrs:
            # an array state attribute assigned earlier in this function: a local
            return '(%s %s)' % (self.attrs[ast.unparse(base)][0], self.nat(node.slice, env))
        if isinstance(base, ast.Subscript) and isinstance(base.slice, ast.Slice) and is_arr(self, base, env):
            return self.expr(at(self, base, env, node.slice), env)
        return None
    if isinstance(node, ast.Call):
        t = ast.unparse(node)
        if t in self.s_externals:
            nm = self.s_externals[t]
            self.add_param(nm, 'α')
            return nm
        e = known_entry(self, node)
        if e is not None and e.get('returns', 's') == 's' and needs_ext_call(self, node, env, e):
            return call_known2(self, node, env, e)
        if isinstance(node.func, ast.Name) and isinstance(env.get(node.func.id), tuple) and env[node.func.id][0] == 'fn':
            if node.keywords or len(node.args) != env[node.func.id][1]:
                self.fail(node, 'local function called with other arguments than it declares')
            return '(%s %s)' % (self.var(node.func.id), ' '.join(self.expr(a, env) for a in node.args))
        return None
    if isinstance(node, ast.BinOp) and isinstance(node.op, ast.Pow) and '**' in self.externals \
            and not (isinstance(node.left, ast.Constant) and node.left.value in (10, 10.0)) \
            and not (isinstance(node.right, ast.Constant) and isinstance(node.right.value, (int, float))
                     and float(node.right.value) == int(node.right.value)):
        # x ** y with y not an integral literal (and x not the literal 10): the declared external power function
        nm, arity = self.externals['**']
        self.add_param(nm, 'α → α → α')
        return '(%s %s %s)' % (nm, self.expr(node.left, env), self.expr(node.right, env))
    return None


def cond_ext(self, node, env):
    if not self.arr_on:
        return None
    r = seq_cond(self, node, env)
    if r is not None:
        return r
    if isinstance(node, ast.Call) and ast.unparse(node.func) in ('any', 'all') and len(node.args) == 1 \
            and not node.keywords and isinstance(node.args[0], ast.GeneratorExp):
        # any(cond(i) for i in range(a[, b])): the builtin over a generator = List.any over the index list
        g = node.args[0]
        if len(g.generators) != 1 or g.generators[0].ifs or g.generators[0].is_async:
            self.fail(node, 'unsupported generator')
        c = g.generators[0]
        if not (isinstance(c.target, ast.Name) and isinstance(c.iter, ast.Call) and ast.unparse(c.iter.func) == 'range'
                and not c.iter.keywords and 1 <= len(c.iter.args) <= 2):
            self.fail(node, 'generator over something else than range(a[, b])')
        if len(c.iter.args) == 1:
            lo, cnt = '0', self.nat(c.iter.args[0], env)
        else:
            lo = self.nat(c.iter.args[0], env)
            cnt = '(%s - %s)' % (self.nat(c.iter.args[1], env), lo)
        env2 = dict(env)
        env2[c.target.id] = 'nat'
        return "((List.range' %s %s).%s (fun (%s : Nat) => %s))" % (lo, cnt, ast.unparse(node.func),
                                                                  self.var(c.target.id), self.cond(g.elt, env2))
    if isinstance(node, ast.Compare) and len(node.ops) == 1 and isinstance(node.ops[0], (ast.Eq, ast.NotEq)):
        l, r = node.left, node.comparators[0]
        if ast.unparse(l) in self.enums or (self.is_nat(l, env) and self.is_nat(r, env)):
            return None
        if isinstance(r, ast.Constant) and (r.value is None or isinstance(r.value, (str, bool))):
            return None
        # IEEE / numpy `a == b` on floats: true exactly when a <= b and b <= a (false for NaN, true for +0 == -0)
        a, b = self.expr(l, env), self.expr(r, env)
        c = '(decide (%s ≤ %s) && decide (%s ≤ %s))' % (a, b, b, a)
        return c if isinstance(node.ops[0], ast.Eq) else '(!%s)' % c
    if isinstance(node, ast.Compare) and len(node.ops) == 1 and isinstance(node.ops[0], (ast.Is, ast.IsNot)) \
            and isinstance(node.comparators[0], ast.Constant) and node.comparators[0].value is None \
            and isinstance(node.left, ast.Name) and str(env.get(node.left.id, '')).startswith('opt'):
        c = '%s.isNone' % self.var(node.left.id)
        return c if isinstance(node.ops[0], ast.Is) else '(!%s)' % c
    return None


def assigned_ext(self, s, env, add):
    """more statements that assign variables (for the carried state of loops and conditionals)"""
    if not self.arr_on:
        return
    if isinstance(s, ast.With):
        for n in self.assigned(s.body, env):
            add(n)
    if isinstance(s, ast.Expr) and isinstance(s.value, ast.Call) and isinstance(s.value.func, ast.Attribute) \
            and s.value.func.attr == 'append' and isinstance(s.value.func.value, ast.Name):
        add(s.value.func.value.id)                         # x.append(e) re-binds the list x
    if isinstance(s, ast.Assign):
        for t in s.targets:
            if isinstance(t, ast.Tuple):
                for e in t.elts:
                    if isinstance(e, ast.Name):
                        add(e.id)


def ret_text(self, kind, node, env):
    if kind == 'arr':
        return arr_lambda(self, node, env)
    if kind == 'nat':
        return self.nat(node, env)
    if kind == 's':
        return self.expr(node, env)
    self.fail(node, 'unsupported result kind')


def stmt_ext(self, s, env, ind, rest, tail, inline):
    """statements added by this module.  Returns None (not recognised) or (text, done): done=True means `text` is the value
    of the rest of the block"""
    if not self.arr_on:
        return None
    r = seq_stmt(self, s, env, ind, rest, tail, inline)
    if r is not None:
        return r
    # ---- with np.errstate(...): body   (only changes the reporting of floating-point warnings)
    if isinstance(s, ast.With):
        for it in s.items:
            if it.optional_vars is not None or not re.match(r'(np|numpy)\.errstate\(', ast.unparse(it.context_expr)):
                self.fail(s, 'unsupported context manager')
        if self.ends_in_return(s.body):
            self.fail(s, 'return inside a with block')
        return self.block(s.body, env, ind, None, inline=True), False
    # ---- def f(a, b): …   inside the function: a local function of scalars
    if isinstance(s, ast.FunctionDef):
        a = s.args
        if a.vararg or a.kwarg or a.kwonlyargs or a.defaults or a.posonlyargs or s.decorator_list:
            self.fail(s, 'unsupported local function signature')
        names = [x.arg for x in a.args]
        env2 = dict(env)
        for x in names:
            env2[x] = 's'
        saved = self.spec, self.raise_value
        self.spec = dict(self.spec, returns='s', ret_kinds=None, fall_value=None)
        self.raise_value = None
        try:
            body = self.block(s.body, env2, ind + '    ', None)
        finally:
            self.spec, self.raise_value = saved
        env[s.name] = ('fn', len(names))
        return '%slet %s : %s := fun %s =>\n%s' % (ind, self.var(s.name), ' → '.join(['α'] * (len(names) + 1)),
                                                  ' '.join('(%s : α)' % self.var(x) for x in names), body), False
    # ---- self.check()   a translated method that only raises (result: "it raises"): the rest runs when it does not
    if isinstance(s, ast.Expr) and isinstance(s.value, ast.Call) and not inline:
        e = known_entry(self, s.value)
        if e is not None and e.get('raises'):
            if self.raise_value is None:
                self.fail(s, 'call of a raising method (no total value declared for raise)')
            other = self.block(rest, env, ind + '  ', tail)
            return '%sif %s then\n%s  %s\n%selse\n%s' % (ind, call_known2(self, s.value, env, e), ind,
                                                         self.raise_value, ind, other), True
    # ---- x = self.attr   (an optional 2-D array attribute)
    if isinstance(s, ast.Assign) and len(s.targets) == 1 and isinstance(s.targets[0], ast.Name) \
            and isinstance(s.value, ast.Attribute) and ast.unparse(s.value) in self.attrs \
            and self.attrs[ast.unparse(s.value)][1] == 'optarr2' and env.get(s.targets[0].id) is None:
        nm = self.attrs[ast.unparse(s.value)][0]
        self.add_param(nm, self.lean_ty('optarr2'))
        env[s.targets[0].id] = 'optarr2'
        return '%slet %s := %s\n' % (ind, self.var(s.targets[0].id), nm), False
    # ---- if x is None: x = <2-D array>   (x an optional 2-D array: afterwards x is a 2-D array)
    if isinstance(s, ast.If) and not s.orelse and len(s.body) == 1 and isinstance(s.body[0], ast.Assign) \
            and isinstance(s.test, ast.Compare) and len(s.test.ops) == 1 and isinstance(s.test.ops[0], ast.Is) \
            and isinstance(s.test.left, ast.Name) and env.get(s.test.left.id) == 'optarr2' \
            and isinstance(s.test.comparators[0], ast.Constant) and s.test.comparators[0].value is None \
            and len(s.body[0].targets) == 1 and isinstance(s.body[0].targets[0], ast.Name) \
            and s.body[0].targets[0].id == s.test.left.id:
        x = s.test.left.id
        v = s.body[0].value
        e = known_entry(self, v) if isinstance(v, ast.Call) else None
        if e is not None and e.get('returns') == 'arr2':
            dflt = call_known2(self, v, env, e)
        elif is_arr2(self, v, env):
            dflt = arr2_lambda(self, v, env)
        else:
            self.fail(s, 'a 2-D array was expected')
        env[x] = 'arr2'
        return '%slet %s : Nat → Nat → α := (match %s with | some v__ => v__ | none => %s)\n' % (
            ind, self.var(x), self.var(x), dflt), False
    # ---- if x is None: x = <array>      (x an optional array parameter: afterwards x is an array)
    if isinstance(s, ast.If) and not s.orelse and len(s.body) == 1 and isinstance(s.body[0], ast.Assign) \
            and isinstance(s.test, ast.Compare) and len(s.test.ops) == 1 and isinstance(s.test.ops[0], ast.Is) \
            and isinstance(s.test.left, ast.Name) and env.get(s.test.left.id) == 'optarr' \
            and isinstance(s.test.comparators[0], ast.Constant) and s.test.comparators[0].value is None \
            and len(s.body[0].targets) == 1 and isinstance(s.body[0].targets[0], ast.Name) \
            and s.body[0].targets[0].id == s.test.left.id:
        x = s.test.left.id
        dflt = arr_lambda(self, s.body[0].value, env)
        env[x] = 'arr'
        return '%slet %s : Nat → α := (match %s with | some v__ => v__ | none => %s)\n' % (
            ind, self.var(x), self.var(x), dflt), False
    if isinstance(s, ast.Assign) and len(s.targets) == 1:
        t, v = s.targets[0], s.value
        # ---- n = a.shape[0] for an array with a declared length
        if isinstance(t, ast.Name):
            m = re.fullmatch(r'(\w+)\.shape\[0\]', ast.unparse(v))
            if m and m.group(1) in self.lens and env.get(m.group(1)) in ('arr', 'arr2'):
                env[t.id] = 'nat'
                return '%slet %s := %s\n' % (ind, self.var(t.id), self.var(self.lens[m.group(1)])), False
        # ---- x = np.zeros(n)
        if isinstance(t, ast.Name) and zeros_len(self, v) is not None and env.get(t.id) in (None, 'arr'):
            n = zeros_len(self, v)
            self.nat(n, env)                               # must be a natural-number expression
            self.literals.add(0)
            env[t.id] = 'arr'
            env[('#len', t.id)] = n
            note_binding(self, t.id, None, env)
            return '%slet %s : Nat → α := fun _ => (0 : α)\n' % (ind, self.var(t.id)), False
        # ---- x[:] = scalar
        if isinstance(t, ast.Subscript) and isinstance(t.value, ast.Name) and env.get(t.value.id) == 'arr' \
                and isinstance(t.slice, ast.Slice) and t.slice.lower is None and t.slice.upper is None \
                and t.slice.step is None and not is_arr(self, v, env):
            check_mutation(self, t.value.id, env, s)
            return '%slet %s : Nat → α := fun _ => %s\n' % (ind, self.var(t.value.id), self.expr(v, env)), False
        # ---- x = <array expression>
        if isinstance(t, ast.Name) and env.get(t.id) in (None, 'arr') and is_arr(self, v, env) \
                and self.alloc_idiom(v) is None:
            txt = '%slet %s : Nat → α := %s\n' % (ind, self.var(t.id), arr_lambda(self, v, env))
            ln = arr_len(self, v, env)
            note_binding(self, t.id, v, env)
            env[t.id] = 'arr'
            env.pop(('#len', t.id), None)
            if ln is not None:
                env[('#len', t.id)] = ln
            return txt, False
        # ---- array-valued state attribute
        if isinstance(t, ast.Attribute) and ast.unparse(t) in self.state and self.attrs[ast.unparse(t)][1] == 'arr':
            key = ast.unparse(t)
            txt = '%slet %s : Nat → α := %s\n' % (ind, self.attrs[key][0], arr_lambda(self, v, env))
            ln = arr_len(self, v, env)
            note_binding(self, key, v, env)
            env[key] = 'arr'
            env.pop(('#len', key), None)
            if ln is not None:
                env[('#len', key)] = ln
            return txt, False
        # ---- a, b, c = known(...)
        if isinstance(t, ast.Tuple) and isinstance(v, ast.Call):
            e = known_entry(self, v)
            if e is not None and isinstance(e.get('returns'), (list, tuple)):
                kinds = list(e['returns'])
                if len(kinds) != len(t.elts) or not all(isinstance(x, ast.Name) for x in t.elts):
                    self.fail(s, 'tuple unpacking does not match the result of the translated function')
                out = '%slet r__ := %s\n' % (ind, call_known2(self, v, env, e))
                path = 'r__'
                for i, (x, k) in enumerate(zip(t.elts, kinds)):
                    last = i == len(kinds) - 1
                    out += '%slet %s := %s\n' % (ind, self.var(x.id), path if last else path + '.1')
                    path += '.2'
                    env[x.id] = k
                    note_binding(self, x.id, None, env)
                    env.pop(('#len', x.id), None)
                return out, False
    # ---- return e1, e2, ...   /   return <array expression>
    if isinstance(s, ast.Return) and s.value is not None and not inline:
        ret = self.spec.get('ret_kinds') or self.spec.get('returns')
        if isinstance(ret, (list, tuple)):
            if not (isinstance(s.value, ast.Tuple) and len(s.value.elts) == len(ret)):
                self.fail(s, 'the declared tuple result has another size')
            return ind + '(' + ', '.join(ret_text(self, k, e, env) for k, e in zip(ret, s.value.elts)) + ')\n', True
        if ret == 'opt':
            return ind + '(some %s)\n' % self.expr(s.value, env), True
        if ret == 'arr' and not (isinstance(s.value, ast.Name) and env.get(s.value.id) == 'arr'):
            return ind + arr_lambda(self, s.value, env) + '\n', True
    return None


# ----------------------------------------------------------------------------- aliasing (numpy views share memory)
def view_roots(self, node, env):
    """the array variables whose memory the value of `node` may share (names / attributes / basic slices are views)"""
    if isinstance(node, ast.Name):
        return {node.id} if env.get(node.id) in ('arr', 'arr2') else set()
    if isinstance(node, ast.Attribute):
        return {ast.unparse(node)}
    if isinstance(node, ast.Subscript):
        return view_roots(self, node.value, env)
    if isinstance(node, ast.Call) and isinstance(node.func, ast.Attribute) \
            and node.func.attr in ('ravel', 'reshape', 'view', 'squeeze', 'transpose'):
        return view_roots(self, node.func.value, env)
    return set()


def note_binding(self, key, value, env):
    """`key` (a local array or array state attribute) is bound to the value of `value` (None: a fresh array)"""
    env[('#local', key)] = True
    env[('#views', key)] = view_roots(self, value, env) - {key} if value is not None else set()


def check_mutation(self, key, env, node):
    """an in-place store into array `key` is only translated (as a new value of `key`) when nothing else can observe it"""
    if not env.get(('#local', key)):
        self.fail(node, 'in-place store into an array that was not created in this function')
    if env.get(('#views', key)):
        self.fail(node, 'in-place store into a view of %s' % sorted(env[('#views', key)]))
    if env.get(('#inlist', key)):
        self.fail(node, 'in-place store into an array that was put into a list')
    for k, v in list(env.items()):
        if isinstance(k, tuple) and k[0] == '#views' and k[1] != key and key in v:
            self.fail(node, 'in-place store into an array that %s is a view of' % k[1])


# ----------------------------------------------------------------------------- 2-D array expressions
JDX = 'j__'
EW_FUNCS = MATH_FUNCS + ('abs', 'fabs')


def _bcast_axes(self, sl):
    """for a 2-tuple subscript made of `:` and None: ('row'|'col'|'both'), else None"""
    if not (isinstance(sl, ast.Tuple) and len(sl.elts) == 2):
        return None
    def full(x):
        return isinstance(x, ast.Slice) and x.lower is None and x.upper is None and x.step is None
    def none(x):
        return isinstance(x, ast.Constant) and x.value is None
    a, b = sl.elts
    if full(a) and none(b):
        return 'row'        # x[:, None]: entry (i, j) is x[i]
    if none(a) and full(b):
        return 'col'        # x[None, :]: entry (i, j) is x[j]
    if full(a) and full(b):
        return 'both'
    return None


def is_arr2(self, node, env):
    if isinstance(node, ast.Name):
        return self.kind_of_name(node.id, env) == 'arr2'
    if isinstance(node, ast.Attribute):
        t = ast.unparse(node)
        return t in self.attrs and self.attrs[t][1] == 'arr2'
    if isinstance(node, ast.Subscript):
        ax = _bcast_axes(self, node.slice)
        if ax in ('row', 'col'):
            return is_arr(self, node.value, env)
        if ax == 'both':
            return is_arr2(self, node.value, env)
        return False
    if isinstance(node, ast.BinOp):
        return is_arr2(self, node.left, env) or is_arr2(self, node.right, env)
    if isinstance(node, ast.UnaryOp) and isinstance(node.op, (ast.USub, ast.UAdd)):
        return is_arr2(self, node.operand, env)
    if isinstance(node, ast.Call):
        short, full = self.call_name(node)
        if short in EW_FUNCS and len(node.args) == 1 and not node.keywords:
            return is_arr2(self, node.args[0], env)
    return False


def at2(self, node, env, i, j):
    """AST of entry (i, j) of a 2-D array expression (numpy broadcasting of scalars and of `x[:, None]` / `x[None, :]`)"""
    if not is_arr2(self, node, env):
        if is_arr(self, node, env):
            return at(self, node, env, j)                  # a 1-D operand is aligned with the trailing axis
        return node
    if isinstance(node, (ast.Name, ast.Attribute)):
        return ast.Subscript(value=node, slice=ast.Tuple(elts=[i, j], ctx=ast.Load()), ctx=ast.Load())
    if isinstance(node, ast.Subscript):
        ax = _bcast_axes(self, node.slice)
        if ax == 'row':
            return at(self, node.value, env, i)
        if ax == 'col':
            return at(self, node.value, env, j)
        return at2(self, node.value, env, i, j)
    if isinstance(node, ast.BinOp):
        return ast.BinOp(left=at2(self, node.left, env, i, j), op=node.op, right=at2(self, node.right, env, i, j))
    if isinstance(node, ast.UnaryOp):
        return ast.UnaryOp(op=node.op, operand=at2(self, node.operand, env, i, j))
    if isinstance(node, ast.Call):
        return ast.Call(func=node.func, args=[at2(self, node.args[0], env, i, j)], keywords=[])
    self.fail(node, 'unsupported 2-D array expression')


def arr2_lambda(self, node, env):
    if isinstance(node, ast.Name) and env.get(node.id) == 'arr2':
        return self.var(node.id)
    env2 = dict(env)
    env2[IDX] = 'nat'
    env2[JDX] = 'nat'
    return '(fun (%s : Nat) (%s : Nat) => %s)' % (IDX, JDX, self.expr(at2(self, node, env, _nm(IDX), _nm(JDX)), env2))


def nrows_of(self, node, env):
    """Lean text of the number of rows of a 2-D array variable (declared in `nrows`)"""
    t = ast.unparse(node)
    d = self.spec.get('nrows', {})
    if t in d:
        if env.get(d[t]) != 'nat':
            self.add_param(d[t], 'Nat')
        return d[t]
    self.fail(node, 'number of rows of the 2-D array is not declared')


def colsum_call(self, node):
    """np.sum(X, axis=0) / X.sum(axis=0) -> X, else None"""
    if isinstance(node, ast.Call) and len(node.keywords) == 1 and node.keywords[0].arg == 'axis' \
            and isinstance(node.keywords[0].value, ast.Constant) and node.keywords[0].value.value == 0:
        if ast.unparse(node.func) in ('np.sum', 'numpy.sum') and len(node.args) == 1:
            return node.args[0]
        if isinstance(node.func, ast.Attribute) and node.func.attr == 'sum' and not node.args:
            return node.func.value
    return None


def dot_call(self, node, env):
    """W.dot(x) with W 2-D and x 1-D (declared external `dot`) -> (W, x), else None"""
    if isinstance(node, ast.Call) and isinstance(node.func, ast.Attribute) and node.func.attr == 'dot' \
            and len(node.args) == 1 and not node.keywords and 'dot' in self.externals \
            and is_arr2(self, node.func.value, env) and is_arr(self, node.args[0], env):
        return node.func.value, node.args[0]
    return None


# ----------------------------------------------------------------------------- python lists and opaque sequences
def seq_elem(self, node, env):
    """index text of an element of an opaque sequence (a loop variable over it), else None"""
    if isinstance(node, ast.Name) and isinstance(env.get(node.id), tuple) and env[node.id][0] == 'seqelem':
        return env[node.id][1]
    return None


def elem_attr(self, node, env):
    """(leanname, kind, length) for `x.attr` with x an element of an opaque sequence, else None"""
    if isinstance(node, ast.Attribute) and seq_elem(self, node.value, env) is not None:
        d = self.spec.get('elem_attrs', {})
        if node.attr in d:
            return d[node.attr]
        self.fail(node, 'undeclared attribute of a sequence element')
    return None


def kind_of(self, node, env):
    """'rows' / 'slist' for list-valued names and attributes"""
    if isinstance(node, ast.Name):
        k = env.get(node.id)
        return k if k in ('rows', 'slist') else None
    if isinstance(node, ast.Attribute):
        t = ast.unparse(node)
        if t in self.attrs and self.attrs[t][1] in ('rows', 'slist'):
            return self.attrs[t][1]
    return None


def list_name(self, node, env):
    if isinstance(node, ast.Name):
        return self.var(node.id)
    nm, k = self.attrs[ast.unparse(node)]
    if ast.unparse(node) not in env:
        self.add_param(nm, self.lean_ty(k))
    return nm


def rows_expr(self, node, env):
    """Lean text (`List (Nat → α)`) of a list-of-arrays expression, else None"""
    if kind_of(self, node, env) == 'rows':
        return list_name(self, node, env)
    if isinstance(node, ast.List) and node.elts and all(is_arr(self, e, env) for e in node.elts):
        for e in node.elts:
            for r in view_roots(self, e, env):
                env[('#inlist', r)] = True
        return '[' + ', '.join(arr_lambda(self, e, env) for e in node.elts) + ']'
    if isinstance(node, ast.BinOp) and isinstance(node.op, ast.Add):
        l, r = rows_expr(self, node.left, env), rows_expr(self, node.right, env)
        if l is not None and r is not None:
            return '(%s ++ %s)' % (l, r)
        return None
    if isinstance(node, ast.Call):
        e = known_entry(self, node)
        if e is not None and e.get('returns') == 'rows':
            return call_known2(self, node, env, e)
    return None


def slist_expr(self, node, env):
    if kind_of(self, node, env) == 'slist':
        return list_name(self, node, env)
    if isinstance(node, ast.List) and node.elts:
        # [a, *xs, b]: the concatenation of the singletons and the starred lists, in order
        parts = []
        for e in node.elts:
            if isinstance(e, ast.Starred):
                x = slist_expr(self, e.value, env)
                if x is None:
                    return None
                parts.append(x)
            else:
                if is_arr(self, e, env) or is_arr2(self, e, env):
                    return None
                parts.append('[%s]' % self.expr(e, env))
        return '(' + ' ++ '.join(parts) + ')'
    return None


def seq_loop(self, s, env, ind):
    """for-loops over python lists / opaque sequences (see the module docstring); None = not one of them"""
    it = s.iter
    seqs = self.spec.get('seqs', ())
    if s.orelse:
        return None
    env2 = dict(env)
    if isinstance(it, ast.Attribute) and ast.unparse(it) in seqs and isinstance(s.target, ast.Name):
        lst = "(List.range' 0 %s)" % self.nat(ast.Call(func=_nm('len'), args=[it], keywords=[]), env)
        lv, lty = self.var(s.target.id), 'Nat'
        env2[s.target.id] = ('seqelem', lv)
    elif isinstance(it, ast.Call) and ast.unparse(it.func) == 'enumerate' and len(it.args) == 1 and not it.keywords \
            and ast.unparse(it.args[0]) in seqs and isinstance(s.target, ast.Tuple) and len(s.target.elts) == 2 \
            and all(isinstance(e, ast.Name) for e in s.target.elts):
        lst = "(List.range' 0 %s)" % self.nat(ast.Call(func=_nm('len'), args=[it.args[0]], keywords=[]), env)
        i, x = s.target.elts
        lv, lty = self.var(i.id), 'Nat'
        env2[i.id] = 'nat'
        env2[x.id] = ('seqelem', lv)
    elif isinstance(it, ast.Call) and ast.unparse(it.func) == 'zip' and len(it.args) == 2 and not it.keywords \
            and isinstance(s.target, ast.Tuple) and len(s.target.elts) == 2 \
            and all(isinstance(e, ast.Name) for e in s.target.elts):
        a, b = it.args
        x, y = s.target.elts
        if not (isinstance(a, ast.Subscript) and isinstance(a.slice, ast.Slice) and ast.unparse(a.value) in seqs
                and a.slice.step is None and a.slice.upper is None and a.slice.lower is not None
                and self.is_nat(a.slice.lower, env) and slist_expr(self, b, env) is not None):
            self.fail(s, 'unsupported zip')
        if any(isinstance(n, ast.Name) and n.id == x.id for st in s.body for n in ast.walk(st)):
            self.fail(s, 'the element of the opaque sequence is used in the loop body')
        n = '(%s - %s)' % (self.nat(ast.Call(func=_nm('len'), args=[a.value], keywords=[]), env),
                           self.nat(a.slice.lower, env))
        lst = '(%s.take %s)' % (slist_expr(self, b, env), n)
        lv, lty = self.var(y.id), 'α'
        env2[y.id] = 's'
    else:
        return None
    names = [n for n in self.assigned(s.body, env) if n in env]
    if not names:
        self.fail(s, 'loop without a carried variable')
    pack = self.state_pack(names)
    body = self.unpack(names, 'st__', ind + '    ') if len(names) > 1 else ''
    stvar = 'st__' if len(names) > 1 else self.var(names[0])
    inner = self.block(s.body, env2, ind + '    ', pack)
    src = '%s.foldl (fun (%s : %s) (%s : %s) =>\n%s%s%s  ) %s' % (
        lst, stvar, self.state_type(names, env), lv, lty, body, inner, ind, pack)
    return self.unpack(names, src, ind)


def seq_stmt(self, s, env, ind, rest, tail, inline):
    locs = self.spec.get('locals', {})
    # ---- start_at: the statements before it are not part of the translation; the locals live there (`free_locals`) are
    #      parameters of the translated segment
    if self.spec.get('start_at') and not getattr(self, '_started', False) and not inline:
        if ast.unparse(s) != self.spec['start_at']:
            if not rest:
                self.fail(s, 'start_at statement not found')
            return '', False
        self._started = True
        for n, k in self.spec.get('free_locals', {}).items():
            self.add_param(self.var(n), self.lean_ty(k))
            env[n] = k
    # ---- stop_at: the value of the named locals right after this statement
    if self.spec.get('stop_at') and not inline and not getattr(self, '_stopping', False) \
            and ast.unparse(s) == self.spec['stop_at']:
        self._stopping = True
        try:
            txt = self.block([s], env, ind, None, inline=True)
        finally:
            self._stopping = False
        res = self.state_pack(self.spec['result'])
        for n in self.spec['result']:
            if n not in env:
                self.fail(s, 'result variable %s is not assigned' % n)
        if str(self.spec.get('returns', '')).startswith('opt'):
            res = '(some %s)' % res
        return txt + ind + res + '\n', True
    # ---- x = self.attr   (an optional scalar attribute)
    if isinstance(s, ast.Assign) and len(s.targets) == 1 and isinstance(s.targets[0], ast.Name) \
            and isinstance(s.value, ast.Attribute) and ast.unparse(s.value) in self.attrs \
            and self.attrs[ast.unparse(s.value)][1] == 'opt' and env.get(s.targets[0].id) is None:
        nm = self.attrs[ast.unparse(s.value)][0]
        self.add_param(nm, self.lean_ty('opt'))
        env[s.targets[0].id] = 'opt'
        return '%slet %s := %s\n' % (ind, self.var(s.targets[0].id), nm), False
    # ---- if x is None or c(x): x = e     (x optional; `or` evaluates c(x) only when x is not None): afterwards x is a scalar
    if isinstance(s, ast.If) and not s.orelse and len(s.body) == 1 and isinstance(s.body[0], ast.Assign) \
            and len(s.body[0].targets) == 1 and isinstance(s.body[0].targets[0], ast.Name) \
            and env.get(s.body[0].targets[0].id) == 'opt':
        x = s.body[0].targets[0].id
        tests = s.test.values if isinstance(s.test, ast.BoolOp) and isinstance(s.test.op, ast.Or) else [s.test]
        t0 = tests[0]
        if isinstance(t0, ast.Compare) and len(t0.ops) == 1 and isinstance(t0.ops[0], ast.Is) \
                and isinstance(t0.left, ast.Name) and t0.left.id == x and isinstance(t0.comparators[0], ast.Constant) \
                and t0.comparators[0].value is None:
            e = self.expr(s.body[0].value, env)
            env2 = dict(env)
            env2[x] = 's'
            saved = dict(self.rename)
            self.rename[x] = 'v__'
            try:
                cs = [self.cond(c, env2) for c in tests[1:]]
            finally:
                self.rename = saved
            inner = 'if (%s) then %s else v__' % (' || '.join(cs), e) if cs else 'v__'
            env[x] = 's'
            return '%slet %s : α := (match %s with | none => %s | some v__ => %s)\n' % (
                ind, self.var(x), self.var(x), e, inner), False
    # ---- x = <list of scalars>
    if isinstance(s, ast.Assign) and len(s.targets) == 1 and isinstance(s.targets[0], ast.Name) \
            and env.get(s.targets[0].id) in (None, 'slist') and isinstance(s.value, ast.List) and s.value.elts:
        r = slist_expr(self, s.value, env)
        if r is not None:
            env[s.targets[0].id] = 'slist'
            return '%slet %s : List α := %s\n' % (ind, self.var(s.targets[0].id), r), False
    # ---- x = []
    if isinstance(s, ast.Assign) and len(s.targets) == 1 and isinstance(s.targets[0], ast.Name) \
            and isinstance(s.value, ast.List) and not s.value.elts and s.targets[0].id in locs:
        x = s.targets[0].id
        env[x] = locs[x]
        return '%slet %s : %s := []\n' % (ind, self.var(x), self.lean_ty(locs[x])), False
    # ---- x = np.any(<comparison>) / any(<generator>): a Bool
    if isinstance(s, ast.Assign) and len(s.targets) == 1 and isinstance(s.targets[0], ast.Name) \
            and isinstance(s.value, ast.Call) and ast.unparse(s.value.func) in ('np.any', 'numpy.any', 'np.all',
                                                                                'numpy.all', 'any', 'all'):
        c = self.cond(s.value, env)
        env[s.targets[0].id] = 'bool'
        return '%slet %s : Bool := %s\n' % (ind, self.var(s.targets[0].id), c), False
    # ---- x.append(e)
    if isinstance(s, ast.Expr) and isinstance(s.value, ast.Call) and isinstance(s.value.func, ast.Attribute) \
            and s.value.func.attr == 'append' and isinstance(s.value.func.value, ast.Name) \
            and env.get(s.value.func.value.id) in ('rows', 'slist') and len(s.value.args) == 1 and not s.value.keywords:
        x = s.value.func.value.id
        for r in view_roots(self, s.value.args[0], env):
            env[('#inlist', r)] = True
        e = arr_lambda(self, s.value.args[0], env) if env[x] == 'rows' else self.expr(s.value.args[0], env)
        return '%slet %s := (%s ++ [%s])\n' % (ind, self.var(x), self.var(x), e), False
    # ---- x = <rows expression>
    if isinstance(s, ast.Assign) and len(s.targets) == 1 and isinstance(s.targets[0], ast.Name) \
            and env.get(s.targets[0].id) in (None, 'rows') and not isinstance(s.value, ast.Name):
        r = rows_expr(self, s.value, env)
        if r is not None:
            env[s.targets[0].id] = 'rows'
            return '%slet %s : List (Nat → α) := %s\n' % (ind, self.var(s.targets[0].id), r), False
    # ---- x = <2-D array expression>
    if isinstance(s, ast.Assign) and len(s.targets) == 1 and isinstance(s.targets[0], ast.Name) \
            and env.get(s.targets[0].id) in (None, 'arr2') and not isinstance(s.value, (ast.Name, ast.Attribute)) \
            and is_arr2(self, s.value, env):
        txt = '%slet %s : Nat → Nat → α := %s\n' % (ind, self.var(s.targets[0].id), arr2_lambda(self, s.value, env))
        env[s.targets[0].id] = 'arr2'
        return txt, False
    if isinstance(s, ast.Return) and s.value is not None and not inline and self.spec.get('returns') == 'arr2' \
            and is_arr2(self, s.value, env):
        return ind + arr2_lambda(self, s.value, env) + '\n', True
    # ---- x = <2-D array attribute>
    if isinstance(s, ast.Assign) and len(s.targets) == 1 and isinstance(s.targets[0], ast.Name) \
            and isinstance(s.value, ast.Attribute) and ast.unparse(s.value) in self.attrs \
            and self.attrs[ast.unparse(s.value)][1] == 'arr2' and env.get(s.targets[0].id) in (None, 'arr2'):
        nm = self.attrs[ast.unparse(s.value)][0]
        self.add_param(nm, 'Nat → Nat → α')
        env[s.targets[0].id] = 'arr2'
        return '%slet %s : Nat → Nat → α := %s\n' % (ind, self.var(s.targets[0].id), nm), False
    # ---- a[k] = e / a[lo:hi] = E   on an array variable or an array state attribute (a new function: the stored
    #      entries are replaced, the others kept)
    if isinstance(s, ast.Assign) and len(s.targets) == 1 and isinstance(s.targets[0], ast.Subscript) \
            and not isinstance(s.targets[0].slice, ast.Tuple):
        t = s.targets[0]
        b = t.value
        key = b.id if isinstance(b, ast.Name) else ast.unparse(b)
        is_state = isinstance(b, ast.Attribute) and key in self.state and env.get(key) == 'arr'
        is_local = isinstance(b, ast.Name) and env.get(key) == 'arr'
        sl = t.slice
        whole = isinstance(sl, ast.Slice) and sl.lower is None and sl.upper is None and sl.step is None
        if is_local or is_state:
            check_mutation(self, key, env, s)              # (also for the stores translate.py's own rule handles)
        if (is_state or (is_local and isinstance(sl, ast.Slice))) and not (is_local and whole):
            nm = self.var(key)
            ln = arr_len(self, b, env)
            lnt = self.nat(ln, env) if ln is not None else None
            if not isinstance(sl, ast.Slice):
                k = neg_index(self, sl, env, lnt)
                return '%slet %s : Nat → α := fun i__ => if i__ = %s then %s else %s i__\n' % (
                    ind, nm, k, self.expr(s.value, env), nm), False
            if sl.step is not None:
                self.fail(s, 'store into a strided slice')
            lo = self.nat(sl.lower, env) if sl.lower is not None else '0'
            u = sl.upper
            if u is None:
                hi = lnt
            elif isinstance(u, ast.UnaryOp) and isinstance(u.op, ast.USub) and isinstance(u.operand, ast.Constant) \
                    and isinstance(u.operand.value, int) and u.operand.value >= 1:
                hi = '(%s - %d)' % (lnt, u.operand.value) if lnt is not None else None
            else:
                hi = self.nat(u, env)
            if hi is None:
                self.fail(s, 'store into a slice of an array of unknown length')
            env2 = dict(env)
            env2[IDX] = 'nat'
            j = ast.BinOp(left=_nm(IDX), op=ast.Sub(), right=sl.lower) if sl.lower is not None else _nm(IDX)
            e = self.expr(at(self, s.value, env, j), env2)
            return '%slet %s : Nat → α := fun i__ => if %s ≤ i__ ∧ i__ < %s then %s else %s i__\n' % (
                ind, nm, lo, hi, e, nm), False
    if isinstance(s, ast.AugAssign) and isinstance(s.target, ast.Subscript) and isinstance(s.target.value, ast.Name) \
            and env.get(s.target.value.id) == 'arr':
        check_mutation(self, s.target.value.id, env, s)
    # ---- a += <array>   (a an array variable or an array state attribute)
    if isinstance(s, ast.AugAssign) and isinstance(s.op, (ast.Add, ast.Sub, ast.Mult, ast.Div)):
        t = s.target
        key = t.id if isinstance(t, ast.Name) else ast.unparse(t)
        if isinstance(t, (ast.Name, ast.Attribute)) and env.get(key) == 'arr' \
                and (isinstance(t, ast.Name) or key in self.state):
            check_mutation(self, key, env, s)
            load = _nm(t.id) if isinstance(t, ast.Name) else t
            e = arr_lambda(self, ast.BinOp(left=load, op=s.op, right=s.value), env)
            return '%slet %s : Nat → α := %s\n' % (ind, self.var(key), e), False
    # ---- if X is not None:   (X declared not_none: the body runs)
    if isinstance(s, ast.If) and not s.orelse and isinstance(s.test, ast.Compare) and len(s.test.ops) == 1 \
            and isinstance(s.test.ops[0], ast.IsNot) and isinstance(s.test.comparators[0], ast.Constant) \
            and s.test.comparators[0].value is None and ast.unparse(s.test.left) in self.spec.get('not_none', ()):
        if self.ends_in_return(s.body):
            self.fail(s, 'return inside a not-None block')
        return self.block(s.body, env, ind, None, inline=True), False
    # ---- loops over lists / opaque sequences
    if isinstance(s, ast.For):
        r = seq_loop(self, s, env, ind)
        if r is not None:
            return r, False
    # ---- return <rows>
    if isinstance(s, ast.Return) and s.value is not None and not inline \
            and self.spec.get('returns') in ('rows', 'optrows'):
        r = rows_expr(self, s.value, env)
        if r is None:
            self.fail(s, 'a list of arrays was declared as the result')
        return ind + (r if self.spec['returns'] == 'rows' else '(some %s)' % r) + '\n', True
    return None


def seq_expr(self, node, env):
    # x.attr / f(x) for an element x of an opaque sequence: functions of the index
    if isinstance(node, ast.Subscript) and not isinstance(node.slice, (ast.Slice, ast.Tuple)):
        ea = elem_attr(self, node.value, env)
        if ea is not None and ea[1] == 'arr':
            self.add_param(ea[0], 'Nat → Nat → α')
            return '(%s %s %s)' % (ea[0], seq_elem(self, node.value.value, env), self.nat(node.slice, env))
    if isinstance(node, ast.Call) and ast.unparse(node.func) in self.spec.get('elem_funcs', {}) \
            and len(node.args) == 1 and not node.keywords and seq_elem(self, node.args[0], env) is not None:
        nm, k = self.spec['elem_funcs'][ast.unparse(node.func)]
        if k != 's':
            self.fail(node, 'unsupported kind of element function')
        self.add_param(nm, 'Nat → α')
        return '(%s %s)' % (nm, seq_elem(self, node.args[0], env))
    if isinstance(node, ast.Call) and ast.unparse(node.func) == 'sum' and len(node.args) == 1 and not node.keywords:
        l = slist_expr(self, node.args[0], env)
        if l is not None:
            self.literals.add(0)
            return '(List.foldl (fun a__ b__ => (a__ + b__)) (0 : α) %s)' % l
    if isinstance(node, ast.Subscript) and not isinstance(node.slice, (ast.Slice, ast.Tuple)) \
            and isinstance(node.value, ast.Call) \
            and ast.unparse(node.value.func) in self.spec.get('arr_fn_externals', {}) and len(node.value.args) == 1:
        # an external array function of one array (e.g. np.gradient): applied to the array, its length and the index
        nm = self.spec['arr_fn_externals'][ast.unparse(node.value.func)]
        a = node.value.args[0]
        ln = arr_len(self, a, env)
        if ln is None:
            self.fail(node, 'external array function of an array of unknown length')
        self.add_param(nm, '(Nat → α) → Nat → Nat → α')
        return '(%s %s %s %s)' % (nm, arr_lambda(self, a, env), self.nat(ln, env), self.nat(node.slice, env))
    if isinstance(node, ast.Call) and ast.unparse(node.func) == '__colsum__':
        # np.sum(X, axis=0)[j]: the entries X[0][j], X[1][j], … added in index order (from 0)
        x, j = node.args
        env2 = dict(env)
        env2['r__'] = 'nat'
        self.literals.add(0)
        return "(List.foldl (fun a__ r__ => (a__ + %s)) (0 : α) (List.range' 0 %s))" % (
            self.expr(at2(self, x, env, _nm('r__'), j), env2), nrows_of(self, x, env))
    if isinstance(node, ast.Subscript) and not isinstance(node.slice, (ast.Slice, ast.Tuple)) \
            and dot_call(self, node.value, env) is not None:
        w, x = dot_call(self, node.value, env)
        ln = arr_len(self, x, env)
        if ln is None:
            self.fail(node, 'dot with a vector of unknown length')
        nm, _ = self.externals['dot']
        self.add_param(nm, '(Nat → Nat → α) → (Nat → α) → Nat → Nat → α')
        return '(%s %s %s %s %s)' % (nm, arr2_lambda(self, w, env), arr_lambda(self, x, env), self.nat(ln, env),
                                     self.nat(node.slice, env))
    if isinstance(node, ast.Call) and ast.unparse(node.func) == '__rowsum__':
        self.literals.add(0)
        return '(List.foldl (fun a__ r__ => (a__ + (r__ %s))) (0 : α) %s)' % (
            self.nat(node.args[1], env), rows_expr(self, node.args[0], env))
    if isinstance(node, ast.Call) and ast.unparse(node.func) in ('np.ones', 'numpy.ones') and False:
        return None
    return None


def seq_cond(self, node, env):
    if isinstance(node, ast.Call) and ast.unparse(node.func) in ('np.any', 'numpy.any', 'np.all', 'numpy.all') \
            and len(node.args) == 1 and not node.keywords and isinstance(node.args[0], ast.Compare) \
            and len(node.args[0].ops) == 1:
        c = node.args[0]
        sides = [c.left, c.comparators[0]]
        ln = None
        for x in sides:
            if is_arr(self, x, env):
                ln = ln or arr_len(self, x, env)
        if ln is None:
            self.fail(node, 'np.any / np.all over an array of unknown length')
        env2 = dict(env)
        env2[IDX] = 'nat'
        cmp_i = ast.Compare(left=at(self, c.left, env, _nm(IDX)), ops=c.ops,
                            comparators=[at(self, c.comparators[0], env, _nm(IDX))])
        return "((List.range' 0 %s).%s (fun (%s : Nat) => %s))" % (
            self.nat(ln, env), 'any' if 'any' in ast.unparse(node.func) else 'all', IDX, self.cond(cmp_i, env2))
    return None


def result_type_ext(self, ret, rty):
    """Lean result type (tuple results, array-valued state); also publishes what callers need to know"""
    if not self.arr_on:
        return rty
    ret = self.spec.get('ret_kinds') or ret
    self.known_extra = dict(returns=(list(ret) if isinstance(ret, (list, tuple)) else ret),
                            property=bool(self.spec.get('property')), raises=bool(self.spec.get('raises')),
                            lens_order=[(a, self.var(n)) for a, n in self.lens.items()])

    def paren(k):
        ty = self.lean_ty(k)
        return '(%s)' % ty if '→' in ty else ty
    if self.state:
        kinds = [self.attrs[a][1] for a in self.state]
        if self.spec.get('returns') is None:
            self.known_extra['returns'] = kinds if len(kinds) > 1 else kinds[0]
        return ' × '.join(paren(k) for k in kinds)
    if isinstance(ret, (list, tuple)):
        return ' × '.join(paren(k) for k in ret)
    return rty


def install(Fn):
    for f in (zeros_len, known_entry, is_arr, arr_len, at, arr_name, arr_lambda, call_known2, needs_ext_call,
              expr_ext, cond_ext, assigned_ext, stmt_ext, ret_text, result_type_ext):
        setattr(Fn, f.__name__, f)
