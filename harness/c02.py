"""C02 — emission / direct-image spectra equal the layered thermal integral.
Correspondence of Emission.lean (planck, muOf/wOf, intensity, fluxOf, eclipse, direct) with real EmissionModel /
DirectImageModel objects built on in-memory cross-sections and CIA, plus the property's own predicates evaluated on
the implementation: isothermal identity, hot/cold bounds, quadrature sum, direct-image scaling, and equality with an
independent numpy evaluation of the documented integral (within the licensed exp(-10) clamp band).
Also: the contribution function `tau` returned by model() / partial_model() vs Emission.contribFn (op c02.contrib) with its
own predicate (non-negative, layer sum within exp(-10) above 1 - exp(-surface_tau)), and the call sequence of
partial_model vs Emission.partialModelSteps (op c02.partial)."""
import math
import numpy as np
from harness import common as C
from harness import em_common as E

# ---- source tie (harness/translate.py -> lean/TaurexModel/Gen/SrcC02.lean, theorems in lean/Props/C02Src.lean)
_UE = 'taurex/util/emission.py'
_ME = 'taurex/model/emission.py'
_PCONST = {'PI': 's', 'PLANCK': 's', 'SPDLIGT': 's', 'KBOLTZ': 's'}
_KERN = dict(startK='nat', endK='nat', density_offset='nat', sigma='arr', density='arr', path='arr', nlayers='skip',
             ngrid='skip', layer='nat', tau='arr')
_CMETH = dict(model='skip', start_layer='nat', end_layer='nat', density_offset='nat', layer='nat', density='arr',
              tau='arr', path_length='arr')
_EVAL_ANGLE = dict(module=_ME, cls='EmissionModel', func='evaluate_emission', params=dict(wngrid='skip', return_contrib='skip'),
                   dialect='np', returns='s', slice=True,
                   attrs={'self.usingKTables': ('usingKTables', 'bool'), 'self._mu_quads': ('mu_quads', 'elem'),
                          'self._wi_quads': ('wi_quads', 'elem')},
                   objlists={'self.contribution_list': dict(n='ncontrib', methods={'contribute': dict(
                       lean='contribute', params=list(_CMETH), kinds=_CMETH, inout='tau')})})
SRC_SPECS = [
    dict(module=_UE, func='_convert_lamb', lean='convert_lamb', callname='_convert_lamb', params=dict(lamb='elem')),
    dict(module=_UE, func='_black_body_vec', lean='black_body_vec', callname='_black_body_vec',
         params=dict(wl='elem', temp='s'), consts=_PCONST),
    # `black_body` is what the models import; the module binds it by `black_body = black_body_numba` (alias followed)
    dict(module=_UE, func='black_body', lean='black_body', params=dict(lamb='elem', temp='s'), consts=_PCONST),
    dict(module=_ME, cls='EmissionModel', func='compute_final_flux', lean='emission_final_flux',
         params=dict(f_total='elem'),
         attrs={'self._star.spectralEmissionDensity': ('star_sed', 'elem'), 'self._star.radius': ('star_radius', 's'),
                'self._planet.fullRadius': ('planet_radius', 's')}),
    dict(module='taurex/model/directimage.py', cls='DirectImageModel', func='compute_final_flux',
         lean='direct_final_flux', params=dict(f_total='elem'), consts={'PI': 's'},
         attrs={'self._star.distance': ('star_distance', 's'), 'self._planet.fullRadius': ('planet_radius', 's')}),
    # the optical-depth kernels (one wavenumber: `wn` lifted; called for their effect on `tau`) and the methods that call them
    dict(module='taurex/contributions/contribution.py', func='contribute_tau', lean='contribute_tau', params=_KERN,
         lift=['wn'], dialect='np', result='tau', returns='arr'),
    dict(module='taurex/contributions/cia.py', func='contribute_cia', lean='contribute_cia', params=_KERN,
         lift=['wn'], dialect='np', result='tau', returns='arr'),
    dict(module='taurex/contributions/contribution.py', cls='Contribution', func='contribute',
         lean='contribution_contribute', params=_CMETH, attrs={'self.sigma_xsec': ('sigma_xsec', 'arr')},
         dialect='np', result='tau', returns='arr'),
    dict(module='taurex/contributions/cia.py', cls='CIAContribution', func='contribute', lean='cia_contribute',
         params=_CMETH, attrs={'self.sigma_xsec': ('sigma_xsec', 'arr'), 'self._total_cia': ('total_cia', 'nat')},
         dialect='np', result='tau', returns='arr'),
    # the layer loop: all wavenumbers (whole arrays along the wavenumber axis, length nw), one emission angle
    dict(module=_ME, cls='EmissionModel', func='evaluate_emission', lean='evaluate_emission',
         params=dict(wngrid='arr', return_contrib='skip'), lens={'wngrid': 'nw'}, vec_len='nw', consts=_PCONST,
         dialect='np', returns='arr', returns_index=0, slice=True,
         attrs={'self.usingKTables': ('usingKTables', 'bool'), 'self.deltaz': ('deltaz', 'arr'),
                'self.nLayers': ('nLayers', 'nat'), 'self.densityProfile': ('densityProfile', 'arr'),
                'self.temperatureProfile': ('temperatureProfile', 'arr'), 'self._mu_quads': ('mu_quads', 'elem'),
                'self._wi_quads': ('wi_quads', 'elem'), 'self._clamp': ('clamp', 's')},
         vec_externals={'self.evaluate_emission_ktables(wngrid, return_contrib)': 'ktables_I'},
         objlists={'self.contribution_list': dict(n='ncontrib', methods={'contribute': dict(
             lean='contribute', params=list(_CMETH), kinds=_CMETH, inout='tau')})}),
    # the mode switch read by `evaluate_emission` (the global opacity_method setting; 'ktables' is coded 1)
    dict(module=_ME, cls='EmissionModel', func='usingKTables', lean='usingKTables', params={}, returns='bool', dialect='np',
         enums={"GlobalCache()['opacity_method']": ('opacity_method', {'ktables': 1})}),
    # components 1 and 2 of the tuple `evaluate_emission` returns (`_mu`, `_w`), for one emission angle
    dict(_EVAL_ANGLE, lean='evaluate_emission_mu', returns_index=1,
         vec_externals={'self.evaluate_emission_ktables(wngrid, return_contrib)': 'ktables_mu'}),
    dict(_EVAL_ANGLE, lean='evaluate_emission_w', returns_index=2,
         vec_externals={'self.evaluate_emission_ktables(wngrid, return_contrib)': 'ktables_w'}),
    # component 3 of the tuple `evaluate_emission` returns: the contribution function `tau[layer, wn]` that `model()` hands to
    # the user (whole arrays along the wavenumber axis, the layer axis explicit; the statements feeding only `I` are sliced away)
    dict(module=_ME, cls='EmissionModel', func='evaluate_emission', lean='evaluate_emission_tau',
         params=dict(wngrid='skip', return_contrib='skip'), lens={'wngrid': 'nw'}, vec_len='nw',
         dialect='np', returns='arr2', returns_index=3, slice=True,
         attrs={'self.usingKTables': ('usingKTables', 'bool'), 'self.deltaz': ('deltaz', 'arr'),
                'self.nLayers': ('nLayers', 'nat'), 'self.densityProfile': ('densityProfile', 'arr'),
                'self._clamp': ('clamp', 's')},
         vec_externals={'self.evaluate_emission_ktables(wngrid, return_contrib)': 'ktables_tau'},
         objlists={'self.contribution_list': dict(n='ncontrib', methods={'contribute': dict(
             lean='contribute', params=list(_CMETH), kinds=_CMETH, inout='tau')})}),
    # the angle quadrature: one wavenumber (point-wise), whole arrays along the angle axis (length ngauss)
    dict(module=_ME, cls='EmissionModel', func='path_integral', lean='path_integral',
         params=dict(wngrid='skip', return_contrib='skip'), vec_len='ngauss', dialect='np', returns='s', returns_index=0,
         slice=True, attrs={'np.pi': ('npPi', 's')},
         tuples={'self.evaluate_emission(wngrid, return_contrib)': [('I', 'arr'), ('mu', 'arr'), ('w', 'arr'),
                                                                    ('tauE', 's')]},
         externals={'self.compute_final_flux': ('final_flux', 1)}),
    # component 1 of what `path_integral` returns (handed on by `model()` as the contribution function): the `tau` of
    # `evaluate_emission`, untouched
    dict(module=_ME, cls='EmissionModel', func='path_integral', lean='path_integral_tau',
         params=dict(wngrid='skip', return_contrib='skip'), vec_len='ngauss', dialect='np', returns='s', returns_index=1,
         slice=True, attrs={'np.pi': ('npPi', 's')},
         tuples={'self.evaluate_emission(wngrid, return_contrib)': [('I', 'arr'), ('mu', 'arr'), ('w', 'arr'),
                                                                    ('tauE', 's')]},
         externals={'self.compute_final_flux': ('final_flux', 1)}),
    # the orchestration of `partial_model` (dialect 'dyn': every call on another object goes to an oracle): which methods it
    # calls on the model, the star and the contributions, in which order and on which grid
    dict(module=_ME, cls='EmissionModel', func='partial_model', lean='partial_model', dialect='dyn', keep_self=True),
    # the stellar black body (`black_body` in star.py is the function imported from taurex.util.emission)
    dict(module='taurex/data/stellar/star.py', cls='Star', func='initialize', lean='star_initialize',
         params=dict(wngrid='elem'), consts=_PCONST, attrs={'self.sed': ('sed', 'elem'), 'self.temperature': ('tstar', 's')},
         state=['self.sed']),
    dict(module='taurex/data/stellar/star.py', cls='Star', func='spectralEmissionDensity', lean='star_sed', params={},
         attrs={'self.sed': ('sed', 'elem')}),
    # the mapped Gauss-Legendre nodes / weights (one node: element-wise); leggauss itself is an assumption of C02
    dict(module=_ME, cls='EmissionModel', func='set_num_gauss', lean='set_num_gauss',
         params=dict(value='skip', coeffs='skip'), dialect='np', slice=True, returns='s',
         attrs={'self._mu_quads': ('mu_quads', 'elem'), 'self._wi_quads': ('wi_quads', 'elem')},
         state=['self._mu_quads', 'self._wi_quads'],
         tuples={'np.polynomial.legendre.leggauss(self._ngauss)': [('x', 'elem'), ('wt', 'elem')]}),
    dict(module=_ME, cls='EmissionModel', func='set_quadratures', lean='set_quadratures',
         params=dict(mu='elem', weight='elem', coeffs='skip'), dialect='np', slice=True, returns='s',
         attrs={'self._mu_quads': ('mu_quads', 'elem'), 'self._wi_quads': ('wi_quads', 'elem')},
         state=['self._mu_quads', 'self._wi_quads']),
]

USES_MODELS = ['C04', 'C20', 'C01']      # Interp.computeOpacity: the table look-up behind every layer's opacity; KTau.emissionK: the
#                                   emission integral of the correlated-k opacity mode; AbsorptionGrid.scaledSigma (driver_c01): the
#                                   Rayleigh cross-section law(wn) x abundance of the layer, summed over the molecules

RULE = ('real EmissionModel/DirectImageModel, 1-40 layers, 1-12 wavenumbers, ngauss 1-8, temperature profile in '
        '{isothermal, decreasing, inverted, random, two-level}, 1-3 active gases with in-memory tables whose magnitude '
        'regime is drawn from {zero, thin, mid, saturated, mixed-per-wavenumber}, optional CIA pair; plus a reuse stream '
        '(one model object, parameters changed through the public setters between model() calls, judged against '
        'the new values and a freshly built model); the absorption opacity of every layer is re-derived from the installed '
        'tables at the layer (T, P) (C04 model Interp.computeOpacity x mixing ratio) and the spectrum judged against the '
        'documented integral over THOSE opacities, with a fixed quota (every 7th case) of atmospheres whose upper or lower '
        'layers leave the table on both axes (the four (T, P) corners); '
        'distinct non-trivial = distinct (kind, nlayers, ngauss, T-profile class, opacity regime, cia, clamp pattern) '
        'with at least one column neither transparent nor saturated; plus a correlated-k stream (opacity_method = ktables: '
        'pickle k-tables with 1-12 g-points, 1-2 molecules, optional CIA before / after the molecular absorption, emission and '
        'direct image, T-profile class x opacity class in {mid, mixed, saturated, and three classes in which the g-weighted '
        'transmittance of the whole column UNDERFLOWS to exactly zero: at every emission angle, at the most inclined angles '
        'only, at some wavenumbers only - the tables are scaled after a probing run so that the weakest g-point has the drawn '
        'optical depth}) judged against KTau.emissionK (driver_c20) and the documented integral in k form; plus three object-history '
        'streams: break-down (model_contrib() and model_full_contrib() of one object with >= 2 active gases, a CIA pair, optional '
        'Rayleigh, four list orders, native or request-clipped grid: every per-contribution / per-component spectrum judged '
        'against Emission.eclipse/direct on that single contribution and the predicates, the call sequence against '
        'Emission.contribModelSteps, the star SED afterwards, model() again), regrid (one object asked for windows A, B, A, native '
        'where A and B clip the native grid to the same number of points at different wavenumbers; every answer judged like a '
        'fresh run on the restricted tables), switch (one object evaluated, GlobalCache opacity_method switched xsec <-> ktables, '
        'evaluated again, three evaluations; cross-section evaluations judged against Emission, k-table ones against '
        'KTau.emissionK); plus a zero-abundance stream (atmospheres in which an absorbing trace gas and an added scatter-only '
        'gas N2 / O2 at 5-40 % have abundance profiles that are EXACTLY zero in some layers and not in others - zero aloft / below / '
        'in one layer / in scattered layers -, Rayleigh scattering among the contributions, wavenumbers 5000-30000 cm-1, surface '
        'pressure 10^5.5-10^7 Pa; the Rayleigh cross-section is rebuilt from the per-molecule laws and the abundances of each layer '
        'by AbsorptionGrid.scaledSigma (driver_c01), compared with the prepared contribution, and enters the documented integral); '
        'plus an explicit-quadrature stream (set_quadratures: ONE pair of caller-owned Gauss-Legendre node / weight arrays, 1-8 '
        'nodes, handed to two model objects in turn / twice to one object / to both objects before either is evaluated / as fresh '
        'copies, then set_num_gauss again; the nodes and weights every object holds judged against Emission.muOf / wOf (op '
        'c02.quad) of the rule as the caller supplied it, every spectrum against Emission and the documented integral on that rule)')
ASSUMPTIONS = ['the opacity of a layer is the tabulated cross-section at the layer (T, P) - bilinear in (T, log10 P), held at the '
               'nearest edge node outside the table, zero below both minima (the statement of C04, model Interp.computeOpacity '
               'served by driver_c04) - times the mixing ratio, summed over the active gases (all tables of a case share the '
               'wavenumber grid of the run)',
               'np.polynomial.legendre.leggauss(n): nodes in (-1,1), weights > 0, sum w = 2, sum w x = 0 (checked numerically n=1..16; flux_between / eclipse_between use all four)',
               'Planck constants and the literals 10000*1e-6, 1e-6, 3.08567758e16 are passed to the model as floats '
               '(constants read from taurex.util.emission at run time)',
               'sigma_xsec of the CIA contribution is an input here (the subject of C03); the absorption sigma_xsec is '
               'compared with the table look-up (above)',
               'rounding: model on Float vs numpy/numba(fastmath) doubles compared to 1e-8 relative',
               'exp(-10) clamp: implementation accepted if equal to the exactly-clamped model, or within the proved band '
               'exp(-10)*sum_{clamped layers} B(T_l) of the unclamped integral',
               'contribution function (model()[2], partial_model()[3]) vs Emission.contribFn: a layer whose clamp test '
               'x.min() < 10 is within 1e-6 of the threshold is not judged (either decision is a rounding outcome)',
               'source tie of the contribution function: a Python float 0.0 is read as the constant array (numpy '
               'broadcasting); `if isinstance(_tau, float)` is translated because both branches have one translation',
               'source tie of partial_model (dyn dialect): the called methods are an oracle that only logs the call; '
               'checked against the real objects by wrapping initialize_profiles / star.initialize / prepare / '
               'evaluate_emission with recorders (op c02.partial)',
               'break-down stream: the cross-section of the single contribution / component a spectrum was computed from is read '
               'from the contribution when its path_integral returns (the molecular absorption is also re-derived from the tables); '
               'the call sequence of model_contrib is recorded by wrapping initialize_profiles / star.initialize / prepare / '
               'path_integral (op c02.breakdown)']

MOLS = ['H2O', 'CH4', 'CO2', 'CO', 'NH3']
CORNERS = ['T>max,P<min', 'T<min,P<min', 'T>max,P>max', 'T<min,P>max']
PC_LIT = (10000 * 1e-6, 1e-6)
PARSEC = 3.08567758e16
EM10 = math.exp(-10.0)
_jit_warm = [False]



def _invalid_params(ctx, e):
    """a parameter set the model itself rejects as invalid (InvalidModelException and subclasses) is outside every
    property's quantifier: recorded in the malformed stream, never judged"""
    from taurex.exceptions import InvalidModelException
    if isinstance(e, InvalidModelException):
        ctx.malformed_outcome('invalid-model-after-setters:' + type(e).__name__)
        return True
    return False

def gen_case(rng, k, thorough=False):
    nl = int(rng.integers(1, 41 if thorough else 21)) if rng.random() < 0.9 else int(rng.integers(1, 4))
    nwn = int(rng.integers(1, 13 if thorough else 7))
    wn = np.sort(rng.choice(np.arange(200.0, 12000.0, 13.0), size=nwn, replace=False))
    tclass = ['isothermal', 'decreasing', 'inverted', 'random', 'twolevel'][k % 5]
    # fixed quota: an atmosphere whose top or bottom layers leave the opacity tables on BOTH axes (hot thermosphere at low
    # pressure, cold top, hot / cold deep layers at high pressure)
    corner = CORNERS[(k // 7) % len(CORNERS)] if k % 7 == 3 else None
    if corner:
        nl = max(nl, 6)
        tclass = 'inverted' if corner in ('T>max,P<min', 'T<min,P>max') else 'decreasing'
    if tclass == 'isothermal':
        T = float(rng.uniform(300, 2800))
    else:
        a = rng.uniform(300, 2800, size=nl)
        if tclass == 'decreasing':
            a = np.sort(a)[::-1]
        elif tclass == 'inverted':
            a = np.sort(a)
        elif tclass == 'twolevel':
            lo, hi = rng.uniform(300, 1200), rng.uniform(1300, 2800)
            cut = int(rng.integers(0, nl + 1))
            a = np.where(np.arange(nl) < cut, hi, lo) if rng.random() < 0.5 else np.where(np.arange(nl) < cut, lo, hi)
        T = [float(x) for x in a]
    regime = ['zero', 'thin', 'mid', 'saturated', 'mixed', 'mid', 'mixed'][(k // 5) % 7]
    ngas = int(rng.integers(1, 4))
    names = [str(x) for x in rng.choice(MOLS, size=ngas, replace=False)]
    gases = {}
    tables = {}
    for nm in names:
        nT = int(rng.integers(2, 5))
        nP = int(rng.integers(2, 5))
        tg = np.sort(rng.choice(np.arange(100.0, 3500.0, 50.0), size=nT, replace=False))
        pg = 10 ** np.sort(rng.choice(np.linspace(-8, 2, 41), size=nP, replace=False))
        if regime == 'zero':
            tab = np.zeros((nP, nT, nwn))
        else:
            if regime == 'thin':
                e = rng.uniform(-34, -30, size=nwn)
            elif regime == 'mid':
                e = rng.uniform(-25.5, -21, size=nwn)
            elif regime == 'saturated':
                e = rng.uniform(-18, -12, size=nwn)
            else:
                e = rng.uniform(-30, -14, size=nwn)
            tab = 10 ** (e[None, None, :] + rng.uniform(-0.5, 0.5, size=(nP, nT, nwn)))
        gases[nm] = float(10 ** rng.uniform(-7, -2))
        tables[nm] = dict(tg=tg, pg=pg, tab=tab)
    cia = None
    if rng.random() < 0.35:
        pair = 'H2-He' if rng.random() < 0.5 else 'H2-H2'
        ctg = np.sort(rng.choice(np.arange(100.0, 3500.0, 100.0), size=3, replace=False))
        ce = {'zero': -80, 'thin': -62, 'mid': -54, 'saturated': -46, 'mixed': -54}[regime]
        ctab = 10 ** (ce + rng.uniform(-2, 2, size=(3, nwn)))
        cia = dict(pair=pair, tg=ctg, tab=ctab)
    spec = dict(mp=float(rng.uniform(0.3, 5)), rp=float(rng.uniform(0.5, 1.6)), ts=float(rng.uniform(3000, 9000)),
                rs=float(rng.uniform(0.3, 2.0)), dist=float(10 ** rng.uniform(-0.5, 2.5)), nlayers=nl,
                pmin=float(10 ** rng.uniform(-3, 1)), pmax=float(10 ** rng.uniform(4, 7)), T=T, gases=gases,
                ngauss=int(rng.integers(1, 9)), cia=[cia['pair']] if cia else [])
    kind = 'direct' if k % 4 == 3 else 'emission'
    if corner:
        # every table ends inside the atmosphere on both axes: temperature nodes within the middle half of the profile's
        # range, pressure nodes within the middle half (in log) of the pressure range
        Ta = np.sort(np.asarray(T, float))
        tlo, thi = Ta[len(Ta) // 4], Ta[(3 * len(Ta)) // 4]
        if thi - tlo < 40.0:
            tlo, thi = tlo - 20.0, thi + 20.0
        lp0, lp1 = np.log10(spec['pmin']), np.log10(spec['pmax'])
        for t in tables.values():
            nT, nP = len(t['tg']), len(t['pg'])
            t['tg'] = np.round(np.linspace(tlo, thi, nT) + rng.uniform(-0.1, 0.1, nT) * (thi - tlo) / nT, 1)
            t['pg'] = 10 ** (np.linspace(lp0 + 0.25 * (lp1 - lp0), lp1 - 0.25 * (lp1 - lp0), nP)
                             + rng.uniform(-0.05, 0.05, nP) * (lp1 - lp0) / nP - 5.0)
            # steep dependence on both axes, so that a wrong node shows
            f = 10 ** (rng.uniform(0.3, 1.0) * np.linspace(-1, 1, nT))[None, :, None] * \
                10 ** (rng.uniform(0.3, 1.0) * np.linspace(-1, 1, nP))[:, None, None]
            t['tab'] = np.asarray(t['tab'], float) * (f if rng.random() < 0.5 else 1.0 / f)
    c = dict(kind=kind, spec=spec, wn=wn, tables=tables, cia=cia, tclass=tclass, regime=regime, corner=corner)
    if k % 8 == 6:
        c['wn_dtype'] = 'int64' if (k // 8) % 2 == 0 else 'float32'      # the grid values are whole numbers
    return c


def install(c):
    """register the case's in-memory opacities / CIA (call inside E.CacheState())"""
    wn = np.asarray(c['wn'], float)
    E.install_xsecs({nm: (t['tg'], t['pg'], np.asarray(t['tab'], float), wn) for nm, t in c['tables'].items()})
    cias = []
    if c.get('cia'):
        cias.append(E.mem_cia(c['cia']['pair'], c['cia']['tg'], np.asarray(c['cia']['tab'], float), wn))
    E.install_cia(cias)


def observe(m, wngrid=None):
    """run a (possibly reused) model object (on its native grid, or clipped to the request grid `wngrid`); returns everything
    observed, parameters read back from the object"""
    kw = {} if wngrid is None else dict(wngrid=np.asarray(wngrid, float))
    I, _mu, _w, ptau = m.partial_model(**kw)
    grid, flux, tau, _ = m.model(**kw)
    return dict(I=np.array(I, float), muinv=np.array(_mu, float).ravel(), w=np.array(_w, float).ravel(),
                tau=np.array(tau, float), ptau=np.array(ptau, float),
                grid=np.array(grid, float), flux=np.array(flux, float).ravel(),
                dz=np.array(m.deltaz, float), dens=np.array(m.densityProfile, float),
                T=np.array(m.temperatureProfile, float), contribs=E.contribution_inputs(m),
                P=np.array(m.pressureProfile, float), active=[str(g) for g in m.chemistry.activeGases],
                mix={str(g): np.array(m.chemistry.get_gas_mix_profile(g), float) for g in m.chemistry.activeGases},
                mu_quads=np.array(m._mu_quads, float), wi_quads=np.array(m._wi_quads, float),
                rp=float(m.planet.fullRadius), rs=float(m.star.radius), dist=float(m.star.distance),
                tstar=float(m.star.temperature), sed=np.array(m.star.spectralEmissionDensity, float),
                clamp=float(m._clamp))


def run_impl(c):
    """build the real model and run it; returns everything observed"""
    with E.CacheState():
        E.WN_DTYPE = c.get('wn_dtype')
        try:
            install(c)
            return observe(E.build_model(c['kind'], dict(c['spec'])))
        finally:
            E.WN_DTYPE = None


def pc_tokens():
    PI, H, CL, KB = E.planck_constants()
    return [C.F(PI), C.F(H), C.F(CL), C.F(KB), C.F(PC_LIT[0]), C.F(PC_LIT[1])]


def trace_partial(m, wngrid, cutoff):
    """run m.partial_model(wngrid, cutoff) with the methods it is meant to call wrapped by recorders; returns the calls as
    (kind, a, b) like the model's `c02.partial` (grid ids: 0 native, 1 clipped, 9 anything else), and the clipped grid"""
    from taurex.util.util import clip_native_to_wngrid
    native = np.array(m.nativeWavenumberGrid, float)
    clipped = np.array(clip_native_to_wngrid(native, wngrid), float) if wngrid is not None else None
    log = []

    def gid(g):
        g = np.asarray(g, float)
        if g.shape == native.shape and np.array_equal(g, native):
            return 0
        if clipped is not None and g.shape == clipped.shape and np.array_equal(g, clipped):
            return 1
        return 9

    undo = []

    def wrap(obj, name, rec):
        f = getattr(obj, name)

        def w(*a, **k):
            log.append(rec(*a, **k))
            return f(*a, **k)
        setattr(obj, name, w)                      # an instance attribute shadows the method
        undo.append(lambda: delattr(obj, name))
    wrap(m, 'initialize_profiles', lambda *a, **k: (0, 0, 0))
    wrap(m._star, 'initialize', lambda g, *a, **k: (1, gid(g), 0))
    wrap(m, 'evaluate_emission', lambda g, rc, *a, **k: (3, gid(g), 0) if rc is False else (3, 9, 9))
    for i, cb in enumerate(m.contribution_list):
        wrap(cb, 'prepare', lambda mod, g, i=i, **k: (2, i, gid(g)) if mod is m else (2, 9, 9))
    try:
        if wngrid is None:
            m.partial_model()
        else:
            m.partial_model(wngrid=wngrid, cutoff_grid=cutoff)
    finally:
        for u in undo:
            u()
    return log, native, clipped


def orchestration(ctx, c, small):
    """EmissionModel.partial_model calls initialize_profiles, star.initialize, every contribution's prepare and
    evaluate_emission in the order and on the grid of Emission.partialModelSteps (op c02.partial)"""
    with E.CacheState():
        install(c)
        m = E.build_model(c['kind'], dict(c['spec']))
        n = len(m.contribution_list)
        native = np.array(m.nativeWavenumberGrid, float)
        # a target grid of at least two points (clip_native_to_wngrid needs bin edges) that clips at least one native point
        sub = native[:max(2, len(native) // 2)]
        variants = ((None, True),) if len(native) < 3 else ((None, True), (sub, True), (sub, False))
        for wngrid, cutoff in variants:
            try:
                log, native, clipped = trace_partial(m, wngrid, cutoff)
            except Exception as e:
                ctx.violation('raises:partial_model', 'partial_model raised %r' % (e,), c)
                return
            if wngrid is not None and cutoff and clipped.shape == native.shape:
                continue                           # the clipped grid cannot be told from the native one here
            clip = wngrid is not None and bool(cutoff)
            d = ctx.model().call('c02.partial', C.N(n), C.N(1 if clip else 0))
            steps = d.list(lambda: (d.nat(), d.nat(), d.nat()))
            ctx.bucket('partial_model:' + ('clip' if clip else ('wngrid-no-cutoff' if wngrid is not None else 'native')))
            ctx.check_eq('partial_model call sequence vs Emission.partialModelSteps', [tuple(x) for x in log],
                         [tuple(x) for x in steps], dict(small, clip=clip, ncontrib=n))


def eval_case(ctx, c):
    spec = c['spec']
    kind = c['kind']
    if spec['nlayers'] % 4 == 0 and not c.get('wn_dtype'):
        orchestration(ctx, c, dict(kind=kind, nlayers=spec['nlayers'], nwn=len(c['wn'])))
    small = dict(kind=kind, nlayers=spec['nlayers'], ngauss=spec['ngauss'], tclass=c.get('tclass'),
                 regime=c.get('regime'), cia=bool(c.get('cia')), nwn=len(c['wn']))
    if c.get('wn_dtype'):
        ctx.bucket('wavenumber-axis-dtype:' + c['wn_dtype'])
    try:
        o = run_impl(c)
    except Exception as e:
        ctx.violation('raises:' + kind, 'forward model raised %r on a valid atmosphere' % (e,), c)
        return
    judge(ctx, c, o, small)


def judge(ctx, c, o, small, kp=''):
    """all comparisons and predicates for one observed run `o` of the case `c` (whose spec holds the parameter
    values the run must reflect); `kp` prefixes the violation keys (reuse stream: 'stale-state:')"""
    spec = c['spec']
    kind = c['kind']
    nq = spec['ngauss']
    xs, wts = np.polynomial.legendre.leggauss(nq)
    nus = o['grid']
    PI = E.planck_constants()[0]
    d = ctx.model().call('c02.emission', *pc_tokens(), C.F(np.pi),
                         C.L(nus), C.L(o['contribs'], lambda kc: C.N(kc[0]) + ' ' + C.LL(kc[1].tolist())),
                         C.L(o['dz']), C.L(o['dens']), C.L(o['T']), C.L(xs), C.L(wts), C.F(o['tstar']),
                         C.F(o['rp']), C.F(o['rs']), C.F(o['dist']), C.F(PARSEC))
    ncol = d.nat()
    mI, msurf, mflux, mecl, mdir, mfu = [], [], [], [], [], []
    for _ in range(ncol):
        mI.append(d.list())
        msurf.append(d.flt())
        mflux.append(d.flt())
        mecl.append(d.flt())
        mdir.append(d.flt())
        mfu.append(d.flt())
    flags = d.list(lambda: (d.bool(), d.bool()))
    mI = np.array(mI).T.reshape(nq, ncol)            # [angle, wn]
    mflux, mecl, mdir, mfu = (np.array(x) for x in (mflux, mecl, mdir, mfu))
    el = E.layer_elements(o['contribs'], o['dz'], o['dens'])
    ref = E.ref_emission(nus, el, o['T'], o['mu_quads'], o['wi_quads'], clamp=10.0)
    surf = ref['surf']
    nclamp = int(ref['clampedD'].sum())
    nontrivial = bool(np.any((surf > 1e-3) & (surf < 30)))
    ctx.case(key=(kind, spec['nlayers'], nq, c.get('tclass'), c.get('regime'), bool(c.get('cia')), nclamp > 0)
             if nontrivial else None,
             sample=dict(small, impl=o['flux'][:3], model=(mecl if kind == 'emission' else mdir)[:3]),
             bucket='regime:' + str(c.get('regime')))
    ctx.bucket('T:' + str(c.get('tclass')))
    ctx.bucket('kind:' + kind)
    ctx.bucket('clamped-layers:' + ('0' if nclamp == 0 else ('all' if nclamp == spec['nlayers'] else 'some')))
    ctx.bucket('ngauss:%d' % nq)
    # ---- correspondence ---------------------------------------------------------------------------------
    scale = float(np.max(ref['B'])) if ref['B'].size else 0.0
    final_factor = (1.0 / o['sed']) * (o['rp'] / o['rs']) ** 2 if kind == 'emission' else \
        np.full(len(nus), o['rp'] ** 2 / (2 * (o['dist'] * PARSEC) ** 2))
    mfinal = mecl if kind == 'emission' else mdir
    mfinal_uncut = mfu * final_factor
    band_final = ref['band_flux'] * final_factor
    band_I = EM10 * (ref['B'][ref['clampedD']].sum(axis=0) if nclamp else np.zeros(len(nus)))
    mIu = ref['I_uncut']

    def licensed(impl, cut, uncut, band, floor):
        impl, cut, uncut, band = (np.asarray(x, float).ravel() for x in (impl, cut, uncut, band))
        if impl.shape != cut.shape:
            return False
        for a, b, u, bd in zip(impl, cut, uncut, band):
            if C.close(a, b, rel=1e-8, abs_=floor):
                continue
            if abs(a - u) <= bd * (1 + 1e-6) + 1e-8 * abs(u) + floor:
                continue
            return False
        return True

    ctx.disagreements_checked += 2
    if not licensed(o['I'], mI, mIu, np.tile(band_I, nq), 1e-12 * scale):
        ctx.mismatch('partial_model intensity vs Emission.intensity', dict(c, small=small),
                     dict(impl=o['I'], model=mI, uncut=mIu, band=band_I))
    ff = 1e-12 * scale * float(np.max(np.abs(final_factor))) if len(nus) else 0.0
    if not licensed(o['flux'], mfinal, mfinal_uncut, band_final, ff):
        ctx.mismatch('model() flux vs Emission.eclipse/direct', dict(c, small=small),
                     dict(impl=o['flux'], model=mfinal, uncut=mfinal_uncut, band=band_final))
    ctx.check_close('1/_mu_quads vs Emission.muInvOf', o['muinv'], [1.0 / ((x + 1) / 2) for x in xs], small, rel=1e-12)
    ctx.check_close('star SED vs planck(T*)', o['sed'], E.planck_np(nus, o['tstar']), small, rel=1e-8)
    # clamp decisions (only where not within rounding of the threshold)
    for l, (kl, kd) in enumerate(flags):
        for name, mk, arr in (('layer_tau', kl, ref['lt'][l]), ('dtau', kd, ref['dt'][l])):
            v = float(arr.min())
            if abs(v - 10.0) > 1e-6:
                ctx.check_eq('clamp decision ' + name, bool(v < 10.0), bool(mk), dict(small, layer=l, min=v))
    # ---- the contribution function `tau[layer, wn]` that model() returns (and partial_model()) vs Emission.contribFn
    dc = ctx.model().call('c02.contrib', *pc_tokens(), C.L(nus),
                          C.L(o['contribs'], lambda kc: C.N(kc[0]) + ' ' + C.LL(kc[1].tolist())),
                          C.L(o['dz']), C.L(o['dens']), C.L(o['T']))
    mtau = np.array(dc.list(lambda: dc.list())).T.reshape(len(o['T']), len(nus))       # [layer, wn]
    # a layer whose clamp test is within rounding of the threshold may be decided either way: not judged
    sure = np.array([abs(float(ref['lt'][l].min()) - 10.0) > 1e-6 and abs(float(ref['dt'][l].min()) - 10.0) > 1e-6
                     for l in range(len(o['T']))], bool)
    for name, impl in (('model()[2]', o['tau']), ('partial_model()[3]', o['ptau'])):
        if impl.shape != mtau.shape:
            ctx.mismatch('contribution function %s: shape' % name, dict(c, small=small),
                         dict(impl=impl.shape, model=mtau.shape))
            continue
        ctx.check_close('contribution function %s vs Emission.contribFn' % name, impl[sure].ravel(), mtau[sure].ravel(),
                        small, rel=1e-8, abs_=1e-13)
    # the property of the contribution function (Props/C02.lean contrib_sum), on the implementation: non-negative, and
    # the entries of one wavenumber sum to the absorbed fraction of the vertical ray, within exp(-10) above it
    if o['tau'].shape == mtau.shape and o['tau'].size:
        tot = o['tau'].sum(axis=0)
        absorbed = 1.0 - np.exp(-ref['surf'])
        if np.any(o['tau'] < -1e-12) or np.any(tot < absorbed - 1e-9) or np.any(tot > absorbed + EM10 * (1 + 1e-6) + 1e-9):
            ctx.violation(kp + 'contribution-function:' + kind,
                          'contribution function negative or its layer sum not within exp(-10) above 1 - exp(-surface_tau)',
                          dict(c, small=small), dict(tot=tot, absorbed=absorbed, min=float(o['tau'].min())))
    # ---- the opacities themselves: every layer's absorption cross-section re-derived from the installed tables
    tables_check(ctx, c, o, small, kp)
    # ---- the property's own predicates, on the implementation --------------------------------------------
    predicates(ctx, c, o, ref, small, kp)


def table_lookup_np(tg, pg_pa, tab, T, P):
    """the documented look-up evaluated with plain numpy (m2): bilinear in (T, log10 P) inside the table, held at the nearest
    edge node outside it, zero below both the lowest temperature and the lowest pressure; tab[P, T, wn] in cm2"""
    tg, tab = np.asarray(tg, float), np.asarray(tab, float)
    lp = np.log10(np.asarray(pg_pa, float))
    x = math.log10(P)
    if T < tg[0] and x < lp[0]:
        return np.zeros(tab.shape[2])
    t = min(max(T, tg[0]), tg[-1])
    x = min(max(x, lp[0]), lp[-1])
    j = min(max(int(np.searchsorted(tg, t, side='right')) - 1, 0), len(tg) - 2)
    i = min(max(int(np.searchsorted(lp, x, side='right')) - 1, 0), len(lp) - 2)
    u = (t - tg[j]) / (tg[j + 1] - tg[j])
    v = (x - lp[i]) / (lp[i + 1] - lp[i])
    return ((1 - v) * (1 - u) * tab[i, j] + (1 - v) * u * tab[i, j + 1] + v * (1 - u) * tab[i + 1, j]
            + v * u * tab[i + 1, j + 1]) / 1e4


def region_of(tg, lp, T, x):
    a = 'T<min' if T < tg[0] else ('T>max' if T >= tg[-1] else 'T-in')
    b = 'P<min' if x < lp[0] else ('P>max' if x >= lp[-1] else 'P-in')
    return a + ',' + b


def tables_check(ctx, c, o, small, kp=''):
    """the absorption contribution's sigma_xsec[layer, wn] against sum over the active gases of (table of the gas looked up
    at the layer's (T, P)) x (mixing ratio of the gas in the layer): the C04 model through driver_c04 (mismatch); then the
    property on the real code: the spectrum equals the documented integral evaluated on the opacities the TABLES give
    (independent numpy look-up), within the licensed clamp band"""
    tables = c.get('tables') or {}
    # (`absorption_index`: position of the molecular absorption in o['contribs'] when other contributions of the same kind -
    # Rayleigh scattering - are in the list; absent: the molecular absorption is the only one of its kind)
    ai = o.get('absorption_index')
    ab = [sg for kd, sg in o['contribs'] if kd == 0] if ai is None else [o['contribs'][ai][1]]
    if not ab or any(g not in tables for g in o['active']) or len(o['grid']) != len(c['wn']):
        ctx.bucket('table-lookup:not-applicable')
        return
    sig_impl = ab[0]
    nl, nw = sig_impl.shape
    sig_model = np.zeros((nl, nw))
    sig_doc = np.zeros((nl, nw))
    regions = set()
    # quick tier: every case goes through the model driver; thorough tier: every second case (one driver call per layer and
    # gas; the numpy evaluation of the property below runs on every case in both tiers)
    via_driver = ctx.quick or ctx.evaluations % 2 == 0 or bool(c.get('corner'))
    for g in o['active']:
        t = tables[g]
        tg = np.asarray(t['tg'], float)
        pg_pa = np.asarray(t['pg'], float) * 1e5
        tab = np.asarray(t['tab'], float)
        lp = np.log10(pg_pa)
        tabs = C.LLL([tab[:, :, i].tolist() for i in range(tab.shape[2])])
        for l in range(nl):
            Tl, Pl = float(o['T'][l]), float(o['P'][l])
            if via_driver:
                d = ctx.model('C04').call('c04.opacity', C.N(0), C.L(tg), C.L(pg_pa), tabs, C.F(Tl), C.F(Pl))
                sig_model[l] += np.array(d.list()) * o['mix'][g][l]
            sig_doc[l] += table_lookup_np(tg, pg_pa, tab, Tl, Pl) * o['mix'][g][l]
            r = region_of(tg, lp, Tl, math.log10(Pl))
            regions.add(r)
            ctx.bucket('table-region:' + r)
    for r in regions:
        ctx.bucket('table-region-cases:' + r)
    if c.get('corner'):
        ctx.bucket('table-corner-quota:%s:%s' % (c['corner'], 'reached' if c['corner'] in regions else 'not-reached'))
    if via_driver:
        scale = float(np.max(sig_model)) if sig_model.size else 0.0
        ctx.bucket('table-lookup:compared-with-driver_c04')
        ctx.check_close('AbsorptionContribution.sigma_xsec vs Interp.computeOpacity(T_l, P_l) x mixing ratio (driver_c04)',
                        sig_impl.ravel(), sig_model.ravel(), dict(c, small=small), rel=1e-9, abs_=1e-13 * scale)
    # the property's statement on the real code: documented integral over the TABLE opacities
    kind = c['kind']
    nus = o['grid']
    if ai is None:
        contribs = [(0, sig_doc)] + [(kd, sg) for kd, sg in o['contribs'] if kd != 0]
    else:
        contribs = [(0, sig_doc) if j == ai else ks for j, ks in enumerate(o['contribs'])]
    el = E.layer_elements(contribs, o['dz'], o['dens'])
    ref = E.ref_emission(nus, el, o['T'], o['mu_quads'], o['wi_quads'], clamp=10.0)
    if kind == 'emission':
        fac = (o['rp'] / o['rs']) ** 2 / E.planck_np(nus, o['tstar'])
    else:
        fac = np.full(len(nus), o['rp'] ** 2 / (2 * (o['dist'] * PARSEC) ** 2))
    flux = o['flux']
    if not np.all(np.isfinite(flux)):
        return
    floor = 1e-12 * E.planck_np(nus, float(o['T'].max())) * fac
    for a, cut, u, bd, fl in zip(flux, ref['flux_cut'] * fac, ref['flux_uncut'] * fac, ref['band_flux'] * fac, floor):
        if C.close(a, cut, rel=1e-7, abs_=fl) or abs(a - u) <= bd * (1 + 1e-6) + 1e-7 * abs(u) + fl:
            continue
        ctx.violation(kp + 'integral-from-tables:' + kind, 'spectrum differs from the documented layered thermal integral '
                      'evaluated on the opacities the cross-section tables give at each layer (T, P)',
                      dict(c, small=small), dict(impl=flux, documented=ref['flux_uncut'] * fac,
                                                 band=ref['band_flux'] * fac, regions=sorted(regions)))
        break


def predicates(ctx, c, o, ref, small, kp=''):
    kind = c['kind']
    nus = o['grid']
    flux = o['flux']
    case = dict(c, small=small)
    # parameters the run must reflect (spec side) vs what the object reports
    if not np.all(np.isfinite(flux)):
        ctx.violation(kp + 'nonfinite:' + kind, 'spectrum not finite on a valid atmosphere', case, dict(flux=flux))
        return
    # quadrature: sum w mu = 1/2
    s = float(np.sum(o['mu_quads'] * o['wi_quads']))
    if abs(s - 0.5) > 1e-12:
        ctx.violation(kp + 'quadrature-half', 'sum_q w_q mu_q != 1/2 on the model nodes', case, dict(sum=s))
    if np.any(o['mu_quads'] <= 0) or np.any(o['mu_quads'] >= 1) or np.any(o['wi_quads'] <= 0):
        ctx.violation(kp + 'quadrature-range', 'mapped nodes outside (0,1) or non-positive weights', case)
    if kind == 'emission':
        fac = (o['rp'] / o['rs']) ** 2 / E.planck_np(nus, o['tstar'])
    else:
        fac = np.full(len(nus), o['rp'] ** 2 / (2 * (o['dist'] * PARSEC) ** 2))
    key_sfx = ':' + kind
    # documented integral (independent numpy evaluation), within the licensed clamp band
    # rounding floor: each layer term B_l*(exp(-lt)-exp(-dt)) carries an absolute error ~1e-16*B_l
    floor = 1e-12 * E.planck_np(nus, float(o['T'].max())) * fac
    for a, cut, u, bd, fl in zip(flux, ref['flux_cut'] * fac, ref['flux_uncut'] * fac, ref['band_flux'] * fac, floor):
        if C.close(a, cut, rel=1e-7, abs_=fl) or abs(a - u) <= bd * (1 + 1e-6) + 1e-7 * abs(u) + fl:
            continue
        ctx.violation(kp + 'integral' + key_sfx, 'spectrum differs from the documented layered thermal integral',
                      case, dict(impl=flux, documented=ref['flux_uncut'] * fac, band=ref['band_flux'] * fac))
        break
    # hot / cold bounds
    T = o['T']
    bmin = E.planck_np(nus, float(T.min())) * fac
    bmax = E.planck_np(nus, float(T.max())) * fac
    if np.any(flux < bmin * (1 - 1e-8) - floor) or np.any(flux > bmax * (1 + EM10) * (1 + 1e-8)):
        ctx.violation(kp + 'hot-cold-bounds' + key_sfx, 'spectrum outside the blackbody ratios of coldest/hottest layer',
                      case, dict(flux=flux, cold=bmin, hot=bmax))
    # isothermal identity
    if float(T.max()) == float(T.min()):
        want = E.planck_np(nus, float(T[0])) * fac
        ratio = flux / want
        sat = float(ref['surf'].min()) >= 10.0 - 1e-6
        hi = (1 + EM10) * (1 + 1e-8) if sat else 1 + 1e-8
        if np.any(ratio < 1 - 1e-8) or np.any(ratio > hi):
            ctx.violation(kp + 'isothermal-identity' + key_sfx,
                          'isothermal atmosphere does not return B(T)/B(T*)(Rp/Rs)^2 (Rp^2/(2d^2) B(T) for direct)',
                          case, dict(ratio=ratio, saturated=sat))


# ------------------------------------------------------------------------------------------- correlated-k opacity mode
# `[Global] opacity_method = ktables`: the molecular absorption enters as k-coefficients on g-points; the transmittance of a
# column is the g-weighted mean of exp(-tau_g / mu).  Real EmissionModel / DirectImageModel objects on k-table files written to
# a scratch directory; judged against KTau.emissionK (driver_c20) and the documented integral evaluated with numpy.
KCLASSES = ['underflow-all-angles', 'mid', 'underflow-some-angles', 'mixed', 'underflow-per-wavenumber', 'saturated']
KTCLASSES = ['isothermal', 'decreasing', 'inverted', 'random']
UNDERFLOW = 745.0          # exp(-x) is exactly 0.0 in double precision beyond x ~ 745.13


def gen_kcase(rng, k):
    kclass = KCLASSES[k % len(KCLASSES)]
    tclass = KTCLASSES[(k // len(KCLASSES)) % len(KTCLASSES)]
    kind = 'direct' if k % 5 == 4 else 'emission'
    nl = int(rng.integers(1, 16))
    nwn = int(rng.integers(2 if kclass == 'underflow-per-wavenumber' else 1, 6))
    wn = np.sort(rng.choice(np.arange(200.0, 12000.0, 13.0), size=nwn, replace=False))
    ng = int(rng.integers(1, 13)) if rng.random() < 0.8 else 1
    w = rng.random(ng) + 0.02
    if ng > 2 and rng.random() < 0.2:
        w[int(rng.integers(0, ng))] = 0.0
    w = w / w.sum()
    if tclass == 'isothermal':
        T = float(rng.uniform(300, 2800))
    else:
        a = rng.uniform(300, 2800, size=nl)
        a = np.sort(a)[::-1] if tclass == 'decreasing' else np.sort(a) if tclass == 'inverted' else a
        T = [float(x) for x in a]
    names = [str(x) for x in rng.choice(MOLS, size=int(rng.integers(1, 3)), replace=False)]
    gases, tables = {}, {}
    for nm in names:
        nT, nP = int(rng.integers(2, 4)), int(rng.integers(2, 4))
        tg = np.sort(rng.choice(np.arange(100.0, 3500.0, 50.0), size=nT, replace=False))
        pg = 10 ** np.sort(rng.choice(np.linspace(-8, 2, 41), size=nP, replace=False))
        e = {'mid': rng.uniform(-25.5, -21, size=nwn), 'saturated': rng.uniform(-18, -12, size=nwn),
             'mixed': rng.uniform(-30, -14, size=nwn)}.get(kclass, rng.uniform(-23, -21, size=nwn))
        base = 10 ** (e[None, None, :] + rng.uniform(-0.3, 0.3, size=(nP, nT, nwn)))
        spread = np.sort(rng.uniform(0.0, 3.0 if kclass.startswith('underflow') else 5.0, size=(nP, nT, nwn, ng)), axis=-1)
        gases[nm] = float(10 ** rng.uniform(-5, -2))
        tables[nm] = dict(tg=tg, pg=pg, kcoeff=base[..., None] * 10 ** spread)
    cia = None
    if rng.random() < 0.3:
        pair = 'H2-He' if rng.random() < 0.5 else 'H2-H2'
        ctg = np.sort(rng.choice(np.arange(100.0, 3500.0, 100.0), size=3, replace=False))
        ce = {'mid': -54, 'mixed': -54, 'saturated': -46}.get(kclass, -60)
        cia = dict(pair=pair, tg=ctg, tab=10 ** (ce + rng.uniform(-2, 2, size=(3, nwn))))
    ngauss = int(rng.integers(2 if kclass == 'underflow-some-angles' else 1, 9))
    spec = dict(mp=float(rng.uniform(0.3, 5)), rp=float(rng.uniform(0.5, 1.6)), ts=float(rng.uniform(3000, 9000)),
                rs=float(rng.uniform(0.3, 2.0)), dist=float(10 ** rng.uniform(-0.5, 2.5)), nlayers=nl,
                pmin=float(10 ** rng.uniform(-3, 1)), pmax=float(10 ** rng.uniform(4, 7)), T=T, gases=gases,
                ngauss=ngauss, cia=[cia['pair']] if cia else [], cia_first=bool(cia is not None and k % 2 == 0))
    c = dict(mode='ktables', kind=kind, kclass=kclass, tclass=tclass, spec=spec, wn=wn, tables=tables, weights=w, cia=cia)
    if kclass.startswith('underflow'):
        # where the weakest g-point of the whole column is to end up (vertical optical depth at the surface, per wavenumber);
        # the tables are scaled to it by prepare_kcase once the column of the atmosphere is known
        mus = (np.polynomial.legendre.leggauss(ngauss)[0] + 1) / 2
        if kclass == 'underflow-all-angles':
            tgt = 10 ** rng.uniform(3.0, 7.0, size=nwn)
        elif kclass == 'underflow-some-angles':
            lo, hi = 1.05 * UNDERFLOW * mus.min(), 0.95 * UNDERFLOW * mus.max()
            tgt = rng.uniform(lo, hi, size=nwn) if lo < hi else np.full(nwn, 0.5 * UNDERFLOW * (mus.min() + mus.max()))
        else:
            tgt = np.where(np.arange(nwn) % 2 == int(rng.integers(0, 2)), 10 ** rng.uniform(3.0, 6.0, size=nwn),
                           10 ** rng.uniform(-1.0, 1.5, size=nwn))
        c['target_weakest_tau'] = tgt
    return c


def k_elements(ok, w):
    """per layer / wavenumber / g-point optical-depth elements of the molecular absorption, those of the other contributions,
    and the vertical optical depth of the whole column seen by the weakest g-point (weights > 0)"""
    dzd = (ok['dz'] * ok['dens'])[:, None, None]
    kel = ok['sigma_abs'] * dzd
    nel = E.layer_elements(ok['nonmol'], ok['dz'], ok['dens']) if ok['nonmol'] else np.zeros(kel.shape[:2])
    weakest = kel.sum(axis=0)[:, np.asarray(w) > 0].min(axis=1)
    return kel, nel, weakest


def prepare_kcase(c, scratch):
    """scale the k-tables of an `underflow-*` case (all molecules, per wavenumber) so that the weakest g-point of the column
    has the drawn vertical optical depth; one probing run of the real model gives the column (linear table interpolation:
    the opacities scale with the tables).  The stored case holds the scaled tables: replaying it needs no probe."""
    if c.get('target_weakest_tau') is None or c.get('prepared'):
        return c
    ok = E.run_model(c['kind'], c['spec'], c['wn'], c['tables'], c.get('cia'), 'ktables', scratch, c['weights'])
    _, _, weakest = k_elements(ok, c['weights'])
    f = np.asarray(c['target_weakest_tau'], float) / np.maximum(weakest, 1e-300)
    c = dict(c, tables={nm: dict(t, kcoeff=np.asarray(t['kcoeff'], float) * f[None, None, :, None])
                        for nm, t in c['tables'].items()}, prepared=True)
    return c


def ref_emission_k(nus, kel, nel, w, T, mus, ws):
    """the documented plane-parallel integral in correlated-k mode, plain numpy: the transmittance from level l to space at
    angle mu is exp(-A_l/mu) * sum_g w_g exp(-K_lg/mu) (A: the other contributions, K: the k-coefficients, both summed over the
    layers l..top); I = B(T_0) t_0 + sum_l B(T_l) (t_{l+1} - t_l); flux = 2 pi sum_q I_q w_q mu_q.  No transmittance is ever
    turned into an optical depth and back."""
    PI = E.planck_constants()[0]
    n = len(T)
    w = np.asarray(w, float)
    K = np.concatenate([np.cumsum(kel[::-1], axis=0)[::-1], np.zeros((1,) + kel.shape[1:])])      # [level, wn, g]
    A = np.concatenate([np.cumsum(nel[::-1], axis=0)[::-1], np.zeros((1, nel.shape[1]))])         # [level, wn]
    B = np.array([E.planck_np(nus, T[l]) / PI for l in range(n)])
    I = []
    with np.errstate(under='ignore'):
        for mu in mus:
            t = np.exp(-A / mu) * (np.exp(-K / mu) * w).sum(axis=-1)
            I.append(B[0] * t[0] + (B * (t[1:] - t[:-1])).sum(axis=0))
        I = np.array(I)
        wm = (np.asarray(ws, float) * np.asarray(mus, float))[:, None]
        pos = w > 0
        depth = A[:-1] + K[:-1][:, :, pos].min(axis=-1)           # optical depth below each layer, weakest g-point
        sat = depth.min(axis=1) >= 10.0
        band = EM10 * (B[sat].sum(axis=0) * PI if sat.any() else np.zeros(len(nus)))
        under = np.array([(np.exp(-K[0] / mu) * w).sum(axis=-1) == 0.0 for mu in mus])             # [angle, wn]
    flux = 2 * np.pi * (I * wm).sum(axis=0)
    return dict(I=I, flux_cut=flux, flux_uncut=flux, band_flux=band * 2 * float(wm.sum()), surf=depth[0], B=B,
                underflow=under)


def eval_kcase(ctx, c, scratch):
    spec, kind = c['spec'], c['kind']
    w = np.asarray(c['weights'], float)
    small = dict(mode='ktables', kind=kind, kclass=c.get('kclass'), tclass=c.get('tclass'), nlayers=spec['nlayers'],
                 ngauss=spec['ngauss'], ng=len(w), nwn=len(c['wn']), cia=bool(c.get('cia')))
    try:
        c = prepare_kcase(c, scratch)
        ok = E.run_model(kind, spec, c['wn'], c['tables'], c.get('cia'), 'ktables', scratch, w)
    except Exception as e:
        ctx.violation('ktables:raises:' + kind, 'forward model in correlated-k mode raised %r on a valid atmosphere' % (e,),
                      dict(c, small=small))
        return
    judge_kcase(ctx, c, ok, small)


def judge_kcase(ctx, c, ok, small, kp='ktables:'):
    """all comparisons and predicates for one observed correlated-k run `ok` of the case `c`"""
    spec, kind = c['spec'], c['kind']
    w = np.asarray(c['weights'], float)
    case = dict(c, small=small)
    nus, nq = ok['grid'], spec['ngauss']
    xs, wts = np.polynomial.legendre.leggauss(nq)
    kel, nel, weakest = k_elements(ok, w)
    ref = ref_emission_k(nus, kel, nel, w, ok['T'], ok['mu_quads'], ok['wi_quads'])
    # ---- correspondence: KTau.emissionK / fluxOf / eclipse (driver_c20), direct-image scaling as Emission.direct
    d = ctx.model('C20').call('c20.emission', *pc_tokens(), C.F(np.pi), C.L(nus),
                              C.L(ok['nonmol'], lambda kc: C.N(kc[0]) + ' ' + C.LL(kc[1].tolist())),
                              C.LLL(ok['sigma_abs'].tolist()), C.L(w), C.L(ok['dz']), C.L(ok['dens']), C.L(ok['T']),
                              C.L(xs), C.L(wts), C.F(ok['tstar']), C.F(ok['rp']), C.F(ok['rs']))
    ncol = d.nat()
    mI, mflux, mecl = [], [], []
    for _ in range(ncol):
        mI.append(d.list())
        mflux.append(d.flt())
        mecl.append(d.flt())
    mI = np.array(mI).T.reshape(nq, ncol)
    mflux, mecl = np.array(mflux), np.array(mecl)
    PI = E.planck_constants()[0]
    mfinal = mecl if kind == 'emission' else (mflux * ok['rp'] ** 2 * 2.0 * PI) / (4 * PI * (ok['dist'] * PARSEC) ** 2)
    fac = (ok['rp'] / ok['rs']) ** 2 / ok['sed'] if kind == 'emission' else \
        np.full(len(nus), ok['rp'] ** 2 / (2 * (ok['dist'] * PARSEC) ** 2))
    scale = float(np.max(E.planck_np(nus, float(np.max(ok['T'])))))
    ctx.check_close('k-mode partial_model intensity vs KTau.emissionK', ok['I'].ravel(), mI.ravel(), case, rel=1e-8,
                    abs_=1e-12 * scale)
    ctx.check_close('k-mode model() spectrum vs KTau.emissionK / fluxOf / eclipse | direct', ok['flux'], mfinal, case,
                    rel=1e-8, abs_=1e-12 * scale * float(np.max(fac)))
    ctx.check_eq('k-table weights as loaded', [float(x) for x in ok['weights']], [float(x) for x in w], small)
    ctx.check_close('1/_mu_quads vs Emission.muInvOf', ok['muinv'], [1.0 / ((x + 1) / 2) for x in xs], small, rel=1e-12)
    # ---- input distribution
    un = ref['underflow']
    nontrivial = bool(np.any((weakest > 1e-3) & (weakest < 30))) or bool(un.any())
    ctx.case(key=('ktables', kind, spec['nlayers'], nq, c.get('tclass'), c.get('kclass'), len(w), bool(c.get('cia')))
             if nontrivial else None,
             sample=dict(small, impl=ok['flux'][:3], model=mfinal[:3]), bucket='ktables:class:' + str(c.get('kclass')))
    ctx.bucket('ktables:kind:' + kind)
    ctx.bucket('ktables:T:' + str(c.get('tclass')))
    ctx.bucket('ktables:g-points:' + ('1' if len(w) == 1 else '2-5' if len(w) <= 5 else '6-12'))
    ctx.bucket('ktables:surface-transmittance-underflows:' + ('all-angles-all-wavenumbers' if un.all() else
               'all-angles-some-wavenumbers' if un.all(axis=0).any() else 'some-angles' if un.any() else 'nowhere'))
    # ---- the property's own predicates on the real code (documented integral, hot / cold bounds, isothermal identity)
    predicates(ctx, dict(c, kind=kind), ok, ref, small, kp=kp)


def run_ktables(ctx):
    import shutil
    import tempfile
    scratch = tempfile.mkdtemp(prefix='verif_c02_')
    try:
        for k in range(ctx.n(72, 1500)):
            eval_kcase(ctx, gen_kcase(ctx.rng, k), scratch)
    finally:
        shutil.rmtree(scratch, ignore_errors=True)


def validate_leggauss(ctx):
    for n in range(1, 17):
        x, w = np.polynomial.legendre.leggauss(n)
        ok = abs(w.sum() - 2) < 1e-13 and abs((w * x).sum()) < 1e-13 and np.all(x > -1) and np.all(x < 1) and np.all(w > 0)
        ctx.check_eq('leggauss hypotheses n=%d' % n, True, bool(ok), dict(n=n))
        d = ctx.model().call('c02.quad', C.L(x), C.L(w))
        mu, wi, mi = d.list(), d.list(), d.list()
        ctx.check_close('sum w mu (model)', 0.5, float(np.dot(mu, wi)), dict(n=n), rel=1e-13)


def validate_planck(ctx):
    """black_body (the numba kernel) vs Emission.planck, incl. the documented value of tests/util/test_emission"""
    from taurex.util.emission import black_body
    rng = ctx.rng
    for _ in range(ctx.n(40, 400)):
        nus = np.sort(rng.uniform(50, 30000, size=int(rng.integers(1, 8))))
        T = float(rng.uniform(100, 10000))
        impl = np.array(black_body(nus, T), float)
        d = ctx.model().call('c02.planck', *pc_tokens(), C.L(nus), C.F(T))
        mod = np.array(d.list())
        ctx.check_close('black_body vs Emission.planck', impl, mod, dict(nus=nus, T=T), rel=1e-9)
        ctx.bucket('planck')
        if np.any(impl < 0) or np.any(~np.isfinite(impl)):
            ctx.violation('planck-sign', 'black_body negative or not finite', dict(nus=nus, T=T), dict(value=impl))
        T2 = T * float(rng.uniform(1.0, 3.0))
        if np.any(np.array(black_body(nus, T2)) < impl * (1 - 1e-12)):
            ctx.violation('planck-monotone', 'black_body not increasing in T', dict(nus=nus, T=T, T2=T2))


def malformed(ctx):
    """outside the quantifier: ngauss = 0, non-positive temperature — recorded, never judged"""
    for k in range(ctx.n(4, 20)):
        c = gen_case(ctx.rng, k)
        if k % 2 == 0:
            c['spec']['ngauss'] = 0
            tag = 'ngauss=0:'
        else:
            c['spec']['T'] = -500.0
            tag = 'T<0:'
        try:
            o = run_impl(c)
            ctx.malformed_outcome(tag + ('finite' if np.all(np.isfinite(o['flux'])) else 'nonfinite'))
        except Exception as e:
            ctx.malformed_outcome(tag + type(e).__name__)


def reuse_case(ctx, c, nsteps=3):
    """one model object, model() -> change a parameter through the public setters -> model() again; after every
    step the full set of comparisons / predicates is judged against the NEW parameter values, and the spectrum must
    equal that of a freshly built model with the same values"""
    from taurex.constants import RJUP, RSOL
    rng = ctx.rng
    c = dict(c, spec=dict(c['spec'], gases=dict(c['spec']['gases'])))
    kind = c['kind']
    with E.CacheState():
        install(c)
        try:
            m = E.build_model(kind, dict(c['spec']))
            observe(m)
        except Exception as e:
            ctx.violation('raises:' + kind, 'forward model raised %r on a valid atmosphere' % (e,), c)
            return
        params = ['star_temperature', 'planet_radius', 'planet_mass', 'gas', 'ngauss', 'star_distance', 'pmax']
        if np.ndim(c['spec']['T']) == 0:
            params += ['T', 'T']
        first = 'star_temperature' if rng.random() < 0.4 else None
        for step in range(nsteps):
            p = first if (step == 0 and first) else str(rng.choice(params))
            spec = c['spec']
            if p == 'star_temperature':
                v = float(rng.uniform(3000, 9000))
                m.star.temperature = v
                spec['ts'] = v
            elif p == 'star_distance':
                v = float(10 ** rng.uniform(-0.5, 2.5))
                m.star.distance = v
                spec['dist'] = v
            elif p == 'planet_radius':
                v = float(rng.uniform(0.5, 1.6))
                m['planet_radius'] = v
                spec['rp'] = v
            elif p == 'planet_mass':
                v = float(rng.uniform(0.3, 5))
                m['planet_mass'] = v
                spec['mp'] = v
            elif p == 'gas':
                g = str(rng.choice(sorted(spec['gases'])))
                v = float(10 ** rng.uniform(-7, -2))
                m[g] = v
                spec['gases'][g] = v
            elif p == 'ngauss':
                v = int(rng.integers(1, 9))
                m.set_num_gauss(v)
                spec['ngauss'] = v
            elif p == 'pmax':
                v = float(10 ** rng.uniform(4, 7))
                m['atm_max_pressure'] = v
                spec['pmax'] = v
            else:
                v = float(rng.uniform(300, 2800))
                m['T'] = v
                spec['T'] = v
            small = dict(kind=kind, nlayers=spec['nlayers'], ngauss=spec['ngauss'], tclass=c.get('tclass'),
                         regime=c.get('regime'), cia=bool(c.get('cia')), nwn=len(c['wn']), reuse_step=step, changed=p)
            case = dict(c, spec=dict(spec, gases=dict(spec['gases'])), reuse=dict(step=step, changed=p))
            try:
                o = observe(m)
                fresh = observe(E.build_model(kind, dict(case['spec'])))
            except Exception as e:
                if _invalid_params(ctx, e):
                    return
                ctx.violation('stale-state:raises:' + p, 'model raised %r after a parameter change' % (e,), case)
                return
            ctx.bucket('reuse:' + p)
            # the object must report the new values …
            want = dict(rp=spec['rp'] * RJUP, tstar=spec['ts'], dist=spec['dist'])
            for kk, vv in want.items():
                if not C.close(o[kk], vv, rel=1e-12):
                    ctx.violation('stale-state:readback:' + kk, 'parameter set through the public setter is not '
                                  'reported back', case, dict(got=o[kk], want=vv))
            # … and compute the same spectrum as a freshly built model with these values
            if o['flux'].shape != fresh['flux'].shape or not C.close(o['flux'], fresh['flux'], rel=1e-9):
                ctx.violation('stale-state:differs-from-fresh:' + p, 'a reused model object does not return the '
                              'spectrum of a freshly built model after changing ' + p, case,
                              dict(reused=o['flux'], fresh=fresh['flux']))
            judge(ctx, case, o, small, kp='stale-state:')


# ------------------------------------------------------------------------------------------- object histories
# One model object used the way the program / a plotting script / a retrieval over several instruments uses it: several flux
# normalisations per Star.initialize (model_contrib, model_full_contrib), the same object asked for different spectral windows,
# the global opacity method switched between two evaluations.  Every spectrum an object hands out is judged like a fresh run.
def _licensed(impl, cut, uncut, band, floor):
    impl, cut, uncut, band = (np.asarray(x, float).ravel() for x in (impl, cut, uncut, band))
    if impl.shape != cut.shape:
        return False
    for a, b, u, bd in zip(impl, cut, uncut, band):
        if C.close(a, b, rel=1e-8, abs_=floor):
            continue
        if abs(a - u) <= bd * (1 + 1e-6) + 1e-8 * abs(u) + floor:
            continue
        return False
    return True


def judge_spectrum(ctx, c, o, small, kp, what, tables=False):
    """one spectrum `o['flux']` on `o['grid']` that the object computed from the contributions `o['contribs']`: against
    Emission.eclipse / Emission.direct (op c02.emission, mismatch), then the property's predicates on the real code (documented
    integral, hot / cold bounds, isothermal identity; with `tables` also the integral over the opacities the tables give)"""
    kind, nq = c['kind'], c['spec']['ngauss']
    xs, wts = np.polynomial.legendre.leggauss(nq)
    nus = o['grid']
    d = ctx.model().call('c02.emission', *pc_tokens(), C.F(np.pi),
                         C.L(nus), C.L(o['contribs'], lambda kc: C.N(kc[0]) + ' ' + C.LL(kc[1].tolist())),
                         C.L(o['dz']), C.L(o['dens']), C.L(o['T']), C.L(xs), C.L(wts), C.F(o['tstar']),
                         C.F(o['rp']), C.F(o['rs']), C.F(o['dist']), C.F(PARSEC))
    mecl, mdir, mfu = [], [], []
    for _ in range(d.nat()):
        d.list()
        d.flt()
        d.flt()
        mecl.append(d.flt())
        mdir.append(d.flt())
        mfu.append(d.flt())
    mecl, mdir, mfu = (np.array(x) for x in (mecl, mdir, mfu))
    el = E.layer_elements(o['contribs'], o['dz'], o['dens']) if o['contribs'] else np.zeros((len(o['T']), len(nus)))
    ref = E.ref_emission(nus, el, o['T'], o['mu_quads'], o['wi_quads'], clamp=10.0)
    scale = float(np.max(ref['B'])) if ref['B'].size else 0.0
    # the model divides by planck(T*) itself: the star's stored SED is not an input of this comparison
    fac = (o['rp'] / o['rs']) ** 2 / E.planck_np(nus, o['tstar']) if kind == 'emission' else \
        np.full(len(nus), o['rp'] ** 2 / (2 * (o['dist'] * PARSEC) ** 2))
    ctx.disagreements_checked += 1
    ff = 1e-12 * scale * float(np.max(np.abs(fac))) if len(nus) else 0.0
    if not _licensed(o['flux'], mecl if kind == 'emission' else mdir, mfu * fac, ref['band_flux'] * fac, ff):
        ctx.mismatch(what + ' vs Emission.eclipse/direct', dict(c, small=small),
                     dict(impl=o['flux'], model=mecl if kind == 'emission' else mdir, uncut=mfu * fac))
    if tables:
        tables_check(ctx, c, o, small, kp)
    predicates(ctx, c, o, ref, small, kp)
    return ref


def breakdown_case(ctx, c):
    """model_contrib() and model_full_contrib() of one model object: the star is initialised once, then one spectrum per
    contribution / per component is integrated and normalised.  Each of them is the spectrum of the atmosphere with only that
    absorber: judged against the model on that single contribution (its cross-section captured when path_integral runs; for
    the molecular absorption also re-derived from the tables), with the property's predicates; afterwards the star's SED must
    still be the blackbody on the grid, and model() on the same object is judged again."""
    spec, kind = c['spec'], c['kind']
    req = (c.get('history') or {}).get('request')
    kw = {} if req is None else dict(wngrid=np.asarray(req, float))
    hist = dict(type='breakdown', request=req)
    c = dict(c, history=hist)
    with E.CacheState():
        install(c)
        try:
            m = E.build_model(kind, dict(spec))
            rec = []
            orig = m.path_integral

            tracing = []

            def recorder(wngrid, return_contrib):
                for t in tracing:
                    t(wngrid, return_contrib)
                r = orig(wngrid, return_contrib)
                rec.append(E.contribution_inputs(m))        # copies: the contribution re-uses its buffer
                return r
            m.path_integral = recorder                      # an instance attribute shadows the method
            try:
                # the calls of model_contrib (profiles, star, prepare, one integral per contribution), recorded like
                # trace_partial does (the integrals are logged when they start)
                from taurex.util.util import clip_native_to_wngrid
                native = np.array(m.nativeWavenumberGrid, float)
                clipped = np.array(clip_native_to_wngrid(native, kw['wngrid']), float) if kw else None
                full_list = list(m.contribution_list)
                log, undo = [], []

                def gid(g):
                    g = np.asarray(g, float)
                    if g.shape == native.shape and np.array_equal(g, native):
                        return 0
                    return 1 if clipped is not None and g.shape == clipped.shape and np.array_equal(g, clipped) else 9

                def wrap(obj, name, what):
                    f = getattr(obj, name)

                    def wr(*a, **k2):
                        log.append(what(*a, **k2))
                        return f(*a, **k2)
                    setattr(obj, name, wr)
                    undo.append(lambda: delattr(obj, name))
                wrap(m, 'initialize_profiles', lambda *a, **k2: (0, 0, 0))
                wrap(m._star, 'initialize', lambda g, *a, **k2: (1, gid(g), 0))
                tracing.append(lambda g, rc: log.append((4, full_list.index(m.contribution_list[0]), gid(g))
                                                        if rc is False and len(m.contribution_list) == 1 else (4, 9, 9)))
                for i, cb in enumerate(full_list):
                    wrap(cb, 'prepare', lambda mod, g, i=i, **k2: (2, i, gid(g)) if mod is m else (2, 9, 9))
                try:
                    g1, d1 = m.model_contrib(**kw)
                finally:
                    for u in undo[::-1]:
                        u()
                    del tracing[:]
                n1 = len(rec)
                g2, d2 = m.model_full_contrib(**kw)
            finally:
                del m.path_integral
            sed_after = np.array(m.star.spectralEmissionDensity, float)
            base = dict(dz=np.array(m.deltaz, float), dens=np.array(m.densityProfile, float),
                        T=np.array(m.temperatureProfile, float), P=np.array(m.pressureProfile, float),
                        mu_quads=np.array(m._mu_quads, float), wi_quads=np.array(m._wi_quads, float),
                        rp=float(m.planet.fullRadius), rs=float(m.star.radius), dist=float(m.star.distance),
                        tstar=float(m.star.temperature))
            active = [str(g) for g in m.chemistry.activeGases]
            mix = {g: np.array(m.chemistry.get_gas_mix_profile(g), float) for g in active}
            after = observe(m, req)
        except Exception as e:
            ctx.violation('breakdown:raises:' + kind, 'model_contrib / model_full_contrib raised %r on a valid atmosphere' % (e,), c)
            return
    parts = [('model_contrib', name, None, np.array(v[0], float).ravel(), np.array(g1, float)) for name, v in d1.items()]
    parts += [('model_full_contrib', name, str(comp[0]), np.array(comp[1], float).ravel(), np.array(g2, float))
              for name, comps in d2.items() for comp in comps]
    base_small = dict(kind=kind, nlayers=spec['nlayers'], ngauss=spec['ngauss'], tclass=c.get('tclass'),
                      regime=c.get('regime'), nwn=len(c['wn']), request=req is not None)
    if len(parts) != len(rec) or len(d1) != n1 or any(len(r) != 1 for r in rec):
        ctx.mismatch('break-down: one path_integral over one contribution per returned spectrum', dict(c, small=base_small),
                     dict(spectra=len(parts), integrals=len(rec), per_integral=[len(r) for r in rec]))
        return
    full = len(g1) == len(c['wn'])
    if req is None or clipped.shape != native.shape:         # (else the clipped grid cannot be told from the native one)
        dm = ctx.model().call('c02.breakdown', C.N(len(full_list)), C.N(0 if req is None else 1))
        steps = dm.list(lambda: (dm.nat(), dm.nat(), dm.nat()))
        norm = dm.list(lambda: (dm.nat(), dm.nat(), dm.nat()))
        ctx.check_eq('model_contrib call sequence vs Emission.contribModelSteps', [tuple(x) for x in log],
                     [tuple(x) for x in steps], dict(base_small, ncontrib=len(full_list)))
        # what the model derives from the sequence (Props/C02.lean breakdown_normalised_on_own_grid), on the recorded calls: every
        # integral after a star initialisation on its own grid
        last, impl_norm = 9, []
        for kd, a, b in log:
            if kd == 1:
                last = a
            elif kd == 4:
                impl_norm.append((a, b, last))
        ctx.check_eq('grid of the stellar SED each per-contribution flux is divided by vs Emission.normalisedBy', impl_norm,
                     [tuple(x) for x in norm], dict(base_small, ncontrib=len(full_list)))
        ctx.bucket('breakdown:model_contrib:call-sequence-compared')
    ctx.case(key=('breakdown', kind, spec['nlayers'], spec['ngauss'], c.get('tclass'), c.get('regime'), n1, len(parts) - n1),
             sample=dict(base_small, contributions=list(d1), components=len(parts) - n1),
             bucket='breakdown:kind:' + kind)
    ctx.bucket('breakdown:model_contrib:contributions:%d' % n1)
    ctx.bucket('breakdown:model_full_contrib:components:%d' % (len(parts) - n1))
    ctx.bucket('breakdown:grid:' + ('request-clipped' if req is not None else 'native'))
    seen = {}
    for (route, name, comp, flux, grid), contribs in zip(parts, rec):
        i = seen[route] = seen.get(route, -1) + 1
        small = dict(base_small, route=route, part=name if comp is None else name + '/' + comp, index=i)
        o = dict(base, grid=grid, flux=flux, contribs=contribs)
        molecular = name == 'Absorption'
        if molecular:
            o.update(active=active if comp is None else [comp], mix=mix)
        ctx.bucket('breakdown:%s:%s' % (route, 'first-spectrum-after-star-initialize' if i == 0 else
                                        'later-spectrum-after-star-initialize'))
        ctx.bucket('breakdown:part:' + name)
        judge_spectrum(ctx, c, o, small, 'breakdown:%s:' % route, '%s() spectrum of %s' % (route, small['part']),
                       tables=molecular and full and all(g in (c.get('tables') or {}) for g in o['active']))
    # the star after the run: still the blackbody of its temperature on the grid of the run
    ctx.check_close('star SED after model_contrib / model_full_contrib vs planck(T*)', sed_after,
                    E.planck_np(np.array(g2, float), base['tstar']), dict(c, small=base_small), rel=1e-8)
    # and the same object evaluated once more
    judge_spectrum(ctx, c, after, dict(base_small, route='model() after the break-down'), 'breakdown:after:',
                   'model() after the break-down')
    ctx.check_close('star SED after model() after the break-down vs planck(T*)', after['sed'],
                    E.planck_np(after['grid'], after['tstar']), dict(c, small=base_small), rel=1e-8)


def run_breakdown(ctx):
    """atmospheres with at least two contributions and at least two components in one of them: >= 2 active gases, a CIA pair,
    optionally Rayleigh scattering, in several list orders; every third case on a request grid that clips the native one"""
    rng = ctx.rng
    for k in range(ctx.n(40, 300)):
        c = None
        while c is None or len(c['spec']['gases']) < 2:
            c = gen_case(rng, k + 35 * int(rng.integers(0, 3)), thorough=False)     # T class k % 5, regime (k // 5) % 7
            c.pop('wn_dtype', None)
        c['kind'] = 'direct' if k % 6 == 5 else 'emission'
        wn = np.asarray(c['wn'], float)
        if not c.get('cia'):
            pair = 'H2-He' if rng.random() < 0.5 else 'H2-H2'
            ce = {'zero': -80, 'thin': -62, 'mid': -54, 'saturated': -46, 'mixed': -54}[c['regime']]
            c['cia'] = dict(pair=pair, tg=np.sort(rng.choice(np.arange(100.0, 3500.0, 100.0), size=3, replace=False)),
                            tab=10 ** (ce + rng.uniform(-2, 2, size=(3, len(wn)))))
            c['spec']['cia'] = [pair]
        order = [['absorption', 'cia'], ['absorption', 'cia', 'rayleigh'], ['absorption', 'rayleigh', 'cia'],
                 ['cia', 'absorption']][k % 4]
        c['spec']['contribs'] = order
        if k % 3 == 2 and len(wn) >= 4:
            c['history'] = dict(type='breakdown', request=[float(x) for x in wn[:max(2, len(wn) // 2 + 1)]])
        breakdown_case(ctx, c)


def _restrict(c, grid):
    """the case restricted to the columns of the clipped grid (its tables are those columns of the native tables)"""
    wn = np.asarray(c['wn'], float)
    idx = [int(np.argmin(np.abs(wn - g))) for g in grid]
    if len(idx) != len(grid) or not np.array_equal(wn[idx], np.asarray(grid, float)):
        return dict(c, tables=None)
    return dict(c, wn=wn[idx], tables={nm: dict(t, tab=np.asarray(t['tab'], float)[:, :, idx]) for nm, t in c['tables'].items()})


def _windows(wn):
    """request grids for one native grid: two windows A, B that clip the native grid to the same number of points at different
    wavenumbers (disjoint where the grid allows), asked in the order A, B, A, native"""
    from taurex.util.util import clip_native_to_wngrid
    cands = []
    for n in range(1, len(wn)):
        for i in range(len(wn) - n + 1):
            req = np.linspace(wn[i] - 1.0, wn[i + n - 1] + 1.0, 9)
            cands.append((req, np.array(clip_native_to_wngrid(wn, req), float)))
    best = None
    for a in range(len(cands)):
        for b in range(a + 1, len(cands)):
            ga, gb = cands[a][1], cands[b][1]
            if len(ga) == len(gb) and 0 < len(ga) < len(wn) and not np.array_equal(ga, gb):
                score = (len(set(ga.tolist()) & set(gb.tolist())) == 0, len(ga))
                if best is None or score > best[0]:
                    best = (score, cands[a][0], cands[b][0])
    if best is None:
        n = max(2, len(wn) // 2)
        return [[float(x) for x in wn[:n]], [float(x) for x in wn[-n:]], [float(x) for x in wn[:n]], None]
    A, B = [float(x) for x in best[1]], [float(x) for x in best[2]]
    return [A, B, A, None]


def regrid_case(ctx, c):
    """one model object asked for several spectral windows in turn (request grids; two of them clip the native grid to the
    same number of points at different wavenumbers), then for the native grid: every answer judged like a fresh run on that
    grid, the star's SED included"""
    spec, kind = c['spec'], c['kind']
    wn = np.asarray(c['wn'], float)
    h = (c.get('history') or {}).get('windows')
    if h is None:
        h = _windows(wn)
    native = {kk: v for kk, v in c.items() if kk not in ('history', 'native')}
    c = dict(c, history=dict(type='regrid', windows=h))
    base_small = dict(kind=kind, nlayers=spec['nlayers'], ngauss=spec['ngauss'], tclass=c.get('tclass'),
                      regime=c.get('regime'), cia=bool(c.get('cia')), nwn=len(wn))
    prev = None
    with E.CacheState():
        install(c)
        try:
            m = E.build_model(kind, dict(spec))
        except Exception as e:
            ctx.violation('raises:' + kind, 'forward model raised %r on a valid atmosphere' % (e,), c)
            return
        for step, req in enumerate(h):
            small = dict(base_small, window_step=step)
            try:
                o = observe(m, req)
            except Exception as e:
                ctx.violation('regrid:raises:' + kind, 'model(wngrid=...) raised %r on a reused model object' % (e,),
                              dict(c, small=small))
                return
            g = o['grid']
            if prev is not None:
                ctx.bucket('regrid:grid-vs-previous:' + ('same' if g.shape == prev.shape and np.array_equal(g, prev) else
                                                         'same-length-other-wavenumbers' if g.shape == prev.shape else
                                                         'other-length'))
            prev = g
            judge(ctx, dict(_restrict(c, g), history=dict(c['history'], step=step), native=native), o, small, kp='regrid:')
    ctx.bucket('regrid:histories')


def run_regrid(ctx):
    k = 0
    for _ in range(ctx.n(30, 200)):
        c = None
        while c is None or len(c['wn']) < 4 or c.get('wn_dtype'):
            c = gen_case(ctx.rng, k, thorough=False)
            k += 1
        regrid_case(ctx, c)


def switch_case(ctx, c, scratch):
    """one model object evaluated under one opacity method, the global `opacity_method` switched (cross-sections <-> k-tables
    of the same molecules), evaluated again: the cross-section evaluations judged against Emission (op c02.emission), the
    k-table ones against KTau.emissionK (driver_c20), each with the property's predicates"""
    spec, kind = c['spec'], c['kind']
    w = np.asarray(c['weights'], float)
    order = (c.get('history') or {}).get('order') or ['xsec', 'ktables', 'xsec']
    c = dict(c, history=dict(type='switch', order=list(order)))
    base_small = dict(kind=kind, kclass=c.get('kclass'), tclass=c.get('tclass'), nlayers=spec['nlayers'],
                      ngauss=spec['ngauss'], ng=len(w), nwn=len(c['wn']), cia=bool(c.get('cia')))
    with E.CacheState():
        try:
            # both opacity sets registered: k-table files in the scratch directory, cross-sections and CIA in memory
            E.install_tables(c['wn'], c['tables'], c.get('cia'), 'ktables', scratch, w)
            install(c)
            if order[0] == 'ktables':
                E.use_ktables(scratch)
            m = E.build_model(kind, dict(spec))
        except Exception as e:
            ctx.violation('raises:' + kind, 'forward model raised %r on a valid atmosphere' % (e,), c)
            return
        from taurex.cache import GlobalCache
        for step, mode in enumerate(order):
            small = dict(base_small, switch_step=step, mode=mode)
            GlobalCache()['opacity_method'] = mode
            try:
                o = observe(m) if mode == 'xsec' else E.observe_model(m, kind)
            except Exception as e:
                ctx.violation('switch:raises:' + kind, 'model() raised %r after opacity_method was set to %s on a used '
                              'model object' % (e, mode), dict(c, small=small))
                return
            ctx.bucket('switch:%s:%s' % ('first-evaluation' if step == 0 else 'after-%s' % order[step - 1], mode))
            cs = dict(c, history=dict(c['history'], step=step))
            if mode == 'xsec':
                judge(ctx, cs, o, small, kp='switch:')
            else:
                judge_kcase(ctx, cs, o, small, kp='switch:ktables:')


def run_switch(ctx):
    import shutil
    import tempfile
    scratch = tempfile.mkdtemp(prefix='verif_c02_')
    try:
        for k in range(ctx.n(24, 150)):
            c = gen_kcase(ctx.rng, 6 * k + (1 if k % 2 == 0 else 3))       # k-distribution classes mid / mixed, T classes cycle
            for t in c['tables'].values():
                kc = np.asarray(t['kcoeff'], float)
                t['tab'] = np.exp(np.log(kc).mean(axis=-1))              # a cross-section table of the same molecule
            c['history'] = dict(type='switch', order=['xsec', 'ktables', 'xsec'] if k % 3 else ['ktables', 'xsec', 'ktables'])
            switch_case(ctx, c, scratch)
    finally:
        shutil.rmtree(scratch, ignore_errors=True)


# ------------------------------------------------------------------------------------------- abundances that are exactly zero somewhere
# A species confined below a cold trap, a chemistry table with zeros aloft, a detached layer: the abundance profile of a gas
# is EXACTLY zero in some layers and not in others.  "Whatever its composition": the molecular absorption and the Rayleigh
# scattering of every layer are the cross-section / the law times the abundance OF THAT LAYER.  The Rayleigh cross-section
# is rebuilt without the contribution object (per-molecule law x published abundance row, AbsorptionGrid.scaledSigma served by
# driver_c01) and substituted in the documented integral.
ZERO_PATTERNS = ['zero-aloft', 'zero-below', 'zero-in-one-layer', 'zero-aloft', 'zero-in-scattered-layers']
SCATTER_ONLY = ['N2', 'O2']          # molecules with a Rayleigh law and no opacity table in these runs: never active


def zero_mask(rng, nl, pattern):
    z = np.zeros(nl, bool)
    if pattern == 'zero-aloft':
        z[int(rng.integers(1, nl)):] = True
    elif pattern == 'zero-below':
        z[:int(rng.integers(1, nl))] = True
    elif pattern == 'zero-in-one-layer':
        z[int(rng.integers(0, nl))] = True
    else:
        z = rng.random(nl) < 0.4
        z[int(rng.integers(0, nl))] = True
        z[(int(np.argmax(z)) + 1) % nl] = False
    return z


def zero_pattern(mix):
    """class of an abundance profile by where it is EXACTLY zero"""
    z = np.asarray(mix) == 0.0
    if not z.any():
        return 'nowhere-zero'
    if z.all():
        return 'zero-everywhere'
    if not z[0] and z[-1] and np.all(np.diff(z.astype(int)) >= 0):
        return 'zero-aloft'
    if z[0] and not z[-1] and np.all(np.diff(z.astype(int)) <= 0):
        return 'zero-below'
    return 'zero-in-scattered-layers' if z.sum() > 1 else 'zero-in-one-layer'


def build_profiles_model(kind, spec):
    """like em_common.build_model with an explicit contribution list (`spec['contribs']`), for a composition in which a gas may
    be given as one abundance PER LAYER (`spec['gases'][name]` a sequence: ArrayGas) instead of a constant"""
    from taurex.data import Planet
    from taurex.data.stellar import BlackbodyStar
    from taurex.data.profiles.temperature import Isothermal
    from taurex.data.profiles.temperature.temparray import TemperatureArray
    from taurex.data.profiles.chemistry import TaurexChemistry, ConstantGas
    from taurex.data.profiles.chemistry.gas.arraygas import ArrayGas
    from taurex.contributions import AbsorptionContribution, CIAContribution, RayleighContribution
    from taurex.model import EmissionModel, DirectImageModel
    T = spec['T']
    tp = Isothermal(T=float(T)) if np.ndim(T) == 0 else TemperatureArray(tp_array=np.asarray(T, float))
    chem = TaurexChemistry(fill_gases=['H2', 'He'], ratio=spec.get('ratio', 0.17))
    for g, mix in spec['gases'].items():
        chem.addGas(ConstantGas(g, mix_ratio=float(mix)) if np.ndim(mix) == 0 else
                    ArrayGas(g, mix_ratio_array=np.asarray(mix, float)))
    cls = DirectImageModel if kind == 'direct' else EmissionModel
    m = cls(planet=Planet(planet_mass=spec['mp'], planet_radius=spec['rp']),
            star=BlackbodyStar(temperature=spec['ts'], radius=spec['rs'], distance=spec.get('dist', 1.0)),
            temperature_profile=tp, chemistry=chem, nlayers=int(spec['nlayers']), atm_min_pressure=spec['pmin'],
            atm_max_pressure=spec['pmax'], ngauss=int(spec.get('ngauss', 4)))
    for name in spec['contribs']:
        m.add_contribution(AbsorptionContribution() if name == 'absorption' else RayleighContribution() if name == 'rayleigh'
                           else CIAContribution(cia_pairs=list(spec['cia'])))
    m.build()
    return m


def gen_zero_case(rng, k):
    c = None
    # temperature classes cycle (isothermal last); table magnitude at most of the order of the scattering
    kk = 5 * [1, 0, 2, 1][(k // 5) % 4] + [1, 2, 3, 4, 0][k % 5]
    while c is None or c['spec']['nlayers'] < 3:
        c = gen_case(rng, kk)
    c.pop('wn_dtype', None)
    spec = c['spec']
    nl = spec['nlayers']
    c['wn'] = np.sort(rng.choice(np.arange(5000.0, 30000.0, 7.0), size=len(c['wn']), replace=False))
    spec['pmax'] = float(10 ** rng.uniform(5.5, 7))
    pattern = ZERO_PATTERNS[k % len(ZERO_PATTERNS)]
    g = sorted(spec['gases'])[int(rng.integers(0, len(spec['gases'])))]
    prof = 10 ** rng.uniform(-6, -2, size=nl)
    prof[zero_mask(rng, nl, pattern)] = 0.0
    spec['gases'][g] = prof
    prof2 = rng.uniform(0.05, 0.4, size=nl)
    prof2[zero_mask(rng, nl, pattern)] = 0.0
    spec['gases'][SCATTER_ONLY[int(rng.integers(0, 2))]] = prof2
    spec['contribs'] = [['absorption', 'rayleigh'], ['rayleigh', 'absorption']][(k // 2) % 2] + (['cia'] if c.get('cia') else [])
    c['kind'] = 'direct' if k % 6 == 5 else 'emission'
    c['zero_layers'] = pattern
    return c


def zero_layers_case(ctx, c):
    from taurex.util.scattering import rayleigh_sigma_from_name
    spec, kind = c['spec'], c['kind']
    small = dict(kind=kind, nlayers=spec['nlayers'], ngauss=spec['ngauss'], tclass=c.get('tclass'), regime=c.get('regime'),
                 cia=bool(c.get('cia')), nwn=len(c['wn']), zero_layers=c.get('zero_layers'))
    with E.CacheState():
        install(c)
        try:
            m = build_profiles_model(kind, spec)
            o = observe(m)
            types = [type(x).__name__ for x in m.contribution_list]
            chem = m.chemistry
            act, ina = [str(x) for x in chem.activeGases], [str(x) for x in chem.inactiveGases]
            # abundances as the atmosphere holds them: the rows of the chemistry's published tables
            rows = {g: np.array(chem.activeGasMixProfile[i], float) for i, g in enumerate(act)}
            rows.update({g: np.array(chem.inactiveGasMixProfile[i], float) for i, g in enumerate(ina)})
        except Exception as e:
            ctx.violation('zero-layers:raises:' + kind, 'forward model raised %r on a valid atmosphere' % (e,), dict(c, small=small))
            return
    nus, n = o['grid'], len(o['T'])
    if len(types) != len(o['contribs']) or 'RayleighContribution' not in types:
        ctx.mismatch('zero-layers: contribution list as built', dict(c, small=small), dict(types=types))
        return
    mols = [(g, np.asarray(rayleigh_sigma_from_name(g, nus), float), rows[g]) for g in act + ina
            if rayleigh_sigma_from_name(g, nus) is not None]
    d = ctx.model('C01').call('c01.scaledsigma', C.N(n), C.N(len(nus)), C.LL([x[1] for x in mols]), C.LL([x[2] for x in mols]))
    doc = np.array(d.list(lambda: d.list()), float).reshape(n, len(nus))
    i = types.index('RayleighContribution')
    impl = o['contribs'][i][1]
    ctx.disagreements_checked += 1
    sc = float(np.max(np.abs(doc))) if doc.size else 0.0
    if impl.shape != doc.shape or not C.close(np.ravel(impl), np.ravel(doc), rel=1e-9, abs_=1e-15 * sc):
        ctx.mismatch('RayleighContribution.sigma_xsec vs AbsorptionGrid.scaledSigma (law x abundance of the layer)',
                     dict(c, small=small), dict(impl=impl[:, :1], model=doc[:, :1], molecules=[x[0] for x in mols],
                                                profiles=[zero_pattern(x[2]) for x in mols]))
    for g, _, mx in mols:
        ctx.bucket('zero-layers:rayleigh-gas-profile:' + zero_pattern(mx))
    for g in act:
        ctx.bucket('zero-layers:absorbing-gas-profile:' + zero_pattern(rows[g]))
    rtau = (doc * (o['dz'] * o['dens'])[:, None]).sum(axis=0)
    ctx.bucket('zero-layers:rayleigh-optical-depth:' + ('0.001-30-somewhere' if np.any((rtau > 1e-3) & (rtau < 30)) else 'elsewhere'))
    ctx.bucket('quota:abundance-zero-in-some-layers:' + str(c.get('zero_layers')))
    # the documented integral with the cross-sections the property names: the Rayleigh one rebuilt above
    o2 = dict(o, contribs=[(kd, doc if j == i else sg) for j, (kd, sg) in enumerate(o['contribs'])],
              absorption_index=types.index('AbsorptionContribution'))
    judge(ctx, c, o2, small, kp='zero-layers:')


def run_zero_layers(ctx):
    for k in range(ctx.n(40, 400)):
        zero_layers_case(ctx, gen_zero_case(ctx.rng, k))


# ------------------------------------------------------------------------------------------- explicit quadrature rule
# `set_quadratures(mu, weight)`: the caller supplies the Gauss-Legendre nodes / weights on [-1, 1] (the arrays stay the
# caller's: typically ONE leggauss(n) result handed to every model of a comparison, or handed again after a change).  Whatever
# the history of such calls, every model integrates over emission angle with the rule mapped to [0, 1] once: nodes (x+1)/2,
# weights w/2 (Emission.muOf / wOf).
QUAD_HISTORIES = ['two-models-in-turn', 'same-model-twice', 'two-models-then-evaluate', 'fresh-copies-then-set_num_gauss']


def quadrature_case(ctx, c):
    spec, kind = c['spec'], c['kind']
    h = c['history']
    n, pattern = int(h['nodes']), h['pattern']
    x0, w0 = np.polynomial.legendre.leggauss(n)
    d = ctx.model().call('c02.quad', C.L(x0), C.L(w0))
    mmu, mwi = np.array(d.list()), np.array(d.list())
    base_small = dict(kind=kind, nlayers=spec['nlayers'], ngauss=spec['ngauss'], tclass=c.get('tclass'), regime=c.get('regime'),
                      cia=bool(c.get('cia')), nwn=len(c['wn']), explicit_nodes=n, pattern=pattern)
    x, w = x0.copy(), w0.copy()              # the caller's arrays
    native = {kk: v for kk, v in c.items() if kk not in ('history', 'native', 'small')}
    with E.CacheState():
        install(c)
        try:
            A = E.build_model(kind, dict(spec))
            B = E.build_model(kind, dict(spec))
        except Exception as e:
            ctx.violation('raises:' + kind, 'forward model raised %r on a valid atmosphere' % (e,), c)
            return
        if pattern == 'two-models-in-turn':
            steps = [('set', A), ('eval', A), ('set', B), ('eval', B), ('eval', A)]
        elif pattern == 'same-model-twice':
            steps = [('set', A), ('eval', A), ('set', A), ('eval', A)]
        elif pattern == 'two-models-then-evaluate':
            steps = [('set', A), ('set', B), ('eval', A), ('eval', B)]
        else:
            steps = [('set-copy', A), ('eval', A), ('set-copy', A), ('eval', A), ('num', A), ('eval', A)]
        nq = {id(A): spec['ngauss'], id(B): spec['ngauss']}
        for step, (what, m) in enumerate(steps):
            small = dict(base_small, step=step, object='A' if m is A else 'B')
            try:
                if what == 'set':
                    m.set_quadratures(x, w)
                    nq[id(m)] = n
                elif what == 'set-copy':
                    m.set_quadratures(x0.copy(), w0.copy())
                    nq[id(m)] = n
                elif what == 'num':
                    m.set_num_gauss(spec['ngauss'])
                    nq[id(m)] = spec['ngauss']
                else:
                    o = observe(m)
            except Exception as e:
                ctx.violation('quadrature-history:raises:' + kind, '%s raised %r' % (what, e), dict(c, small=small))
                return
            if what != 'eval':
                continue
            k = nq[id(m)]
            if k == n:
                emu, ewi = mmu, mwi
            else:
                xs, ws = np.polynomial.legendre.leggauss(k)
                d = ctx.model().call('c02.quad', C.L(xs), C.L(ws))
                emu, ewi = np.array(d.list()), np.array(d.list())
            case = dict(c, spec=dict(spec, ngauss=k), history=dict(h, step=step), small=small, native=native)
            ctx.bucket('quadrature-history:%s:evaluation-%d' % (pattern, sum(1 for s in steps[:step] if s[0] == 'eval')))
            ctx.check_close('_mu_quads after set_quadratures / set_num_gauss vs Emission.muOf of the rule supplied', o['mu_quads'], emu,
                            case, rel=1e-13)
            ctx.check_close('_wi_quads after set_quadratures / set_num_gauss vs Emission.wOf of the rule supplied', o['wi_quads'], ewi,
                            case, rel=1e-13)
            xs, ws = np.polynomial.legendre.leggauss(k)
            if o['mu_quads'].shape != xs.shape or not C.close(o['mu_quads'], (xs + 1) / 2, rel=1e-13) or \
                    not C.close(o['wi_quads'], ws / 2, rel=1e-13):
                ctx.violation('quadrature-history:nodes:' + kind, 'the emission angles / weights the model integrates with are not '
                              'the supplied Gauss-Legendre rule mapped to [0, 1] ((x+1)/2, w/2)', case,
                              dict(mu_quads=o['mu_quads'], wi_quads=o['wi_quads'], expected_mu=(xs + 1) / 2, expected_w=ws / 2))
            # the spectrum, judged on the rule as supplied (not on what the object holds)
            judge(ctx, case, dict(o, mu_quads=(xs + 1) / 2, wi_quads=ws / 2), small, kp='quadrature-history:')
    ctx.bucket('quadrature-history:' + pattern)
    ctx.bucket('quadrature-history:nodes-%s-constructor-ngauss' % ('equal-to' if n == spec['ngauss'] else 'differ-from'))


def run_quadrature(ctx):
    rng = ctx.rng
    for k in range(ctx.n(24, 240)):
        c = gen_case(rng, k, thorough=False)
        c.pop('wn_dtype', None)
        c['history'] = dict(type='quadrature', nodes=int(rng.integers(1, 9)), pattern=QUAD_HISTORIES[k % len(QUAD_HISTORIES)])
        quadrature_case(ctx, c)


def run(ctx):
    validate_leggauss(ctx)
    validate_planck(ctx)
    n = ctx.n(500, 18000)
    for k in range(n):
        eval_case(ctx, gen_case(ctx.rng, k, thorough=not ctx.quick))
    for k in range(ctx.n(80, 1500)):
        reuse_case(ctx, gen_case(ctx.rng, k, thorough=False))
    run_ktables(ctx)
    run_breakdown(ctx)
    run_regrid(ctx)
    run_switch(ctx)
    run_zero_layers(ctx)
    run_quadrature(ctx)
    malformed(ctx)


def replay(ctx, case):
    case = dict(case.get('case', case))      # a replays/*.json payload or a bare case
    case.pop('small', None)
    case.pop('reuse', None)       # a reuse-stream case replays as a fresh run on the final parameter values
    hist = case.get('history')
    if hist:                      # an object history replays as the whole history on the stored (native) case
        hist = dict(hist)
        hist.pop('step', None)
        case = dict(case.pop('native', case), history=hist)
        if hist['type'] == 'quadrature':
            quadrature_case(ctx, case)
        elif hist['type'] == 'breakdown':
            breakdown_case(ctx, case)
        elif hist['type'] == 'regrid':
            regrid_case(ctx, case)
        else:
            import shutil
            import tempfile
            scratch = tempfile.mkdtemp(prefix='verif_c02_')
            try:
                switch_case(ctx, case, scratch)
            finally:
                shutil.rmtree(scratch, ignore_errors=True)
        return
    if case.get('zero_layers'):
        zero_layers_case(ctx, case)
        return
    if case.get('mode') == 'ktables':
        import shutil
        import tempfile
        scratch = tempfile.mkdtemp(prefix='verif_c02_')
        try:
            eval_kcase(ctx, case, scratch)
        finally:
            shutil.rmtree(scratch, ignore_errors=True)
        return
    eval_case(ctx, case)


# assumptions of the source tie (lean/Props/C02Src.lean), recorded with the harness assumptions
ASSUMPTIONS = ASSUMPTIONS + [
    'source tie: `contrib.contribute(...)` changes nothing but its `tau` argument and is a function of its arguments and '
    'the contribution; which method runs (Contribution.contribute / CIAContribution.contribute) is Python dispatch, '
    'instantiated in the theorem (`dispatch`)',
    'source tie: Python `sum` over the angle axis and `ndarray.min()` are the left folds of the generated text; numpy '
    'arrays are total functions Nat -> carrier (shapes / broadcasting errors are not modelled)',
    'source tie: attribute values are instantiated in the theorem statements (self._clamp = 10 from __init__, '
    'nLayers = len(temperatureProfile), wngrid = the columns\' wavenumbers); `black_body` in star.py / emission.py is '
    'the function of that name in taurex/util/emission.py (imports are not resolved by the translator)']
