"""LIST MODE of the source translator (specs with `dialect='list'`): numpy-vectorised Python -> carrier-polymorphic Lean 4.

`harness/translate.py` (scalar kernels, arrays as `Nat → α`) stays as it is; a spec with `dialect='list'` is translated by
`VFn` below instead.  A 1-D numpy array is a Lean `List`; the numpy operations are the primitives of the import-free
prelude `lean/TaurexModel/Gen/Prelude.lean` (`Np.diff`, `Np.zip2` = element-wise operation with numpy's broadcasting of
equal-length / length-1 operands, `Np.sum`, `Np.searchsortedRight`, `Np.take`, `Np.compress`, `Np.argsort`, …).  The
translation is TYPED: every expression has one of the types
    's' α | 'nat' Nat | 'bool' Bool | 'list' List α | 'natlist' List Nat (index array) | 'mask' List Bool
    | 'rows' List (List α) (2-D array, row major) | 'none' Unit (the value None) | ('tuple', (t1, …)) | ('lit', n)
(`('lit', n)`: a non-negative integer literal whose type — index or carrier — is fixed by its first typed use).
Parameter kinds are these type names (plus 'skip'); a parameter of kind 'none' is a parameter the caller leaves at / passes
as `None`: it disappears from the signature and tests on it are decided at translation time (PARTIAL EVALUATION: `x is
None`, `x is not None`, `hasattr(x, '__len__')`, truth of a literal, `len(a.shape)` are static; an `if` with a static test
is replaced by the branch taken).  One Python function can therefore be translated several times under different calling
patterns (e.g. `FluxBinner.bindown` with / without `grid_width`), each a separate spec with its own `lean` name.

Subset (everything else raises Untranslatable; nothing is special-cased by function name, all text derives from the AST):
  * expressions: + - * / and `**k` (k literal 2..6) on scalars, on arrays (element-wise, `List.map` / `Np.zip2`) and mixed
    (broadcast of the scalar); unary -; comparisons (on arrays: boolean masks); `&`, `|`, `~` on masks; and/or/not;
    conditional expressions; `[e, …]` of scalars; tuples; subscripts `a[i]`, `a[-k]`, `a[lo:hi]`, `a[:-k]`, `a[k:]`,
    `a[::-1]`, `a[idx]` (index array), `a[mask]`, `a[..., i]` (the leading axes of an N-D spectrum are dropped: the model
    describes one 1-D row, the code is point-wise in the others), `rows[:, k]`, `rows[idx]`, `t[k]` on a tuple,
    `a.shape[0]`, `len(a)`, `len(a.shape)`; calls of np.diff, np.abs, np.sqrt/exp/log/log10, np.sum, np.minimum,
    np.maximum, np.searchsorted / a.searchsorted (side=), np.concatenate, np.zeros, np.zeros_like, np.ones_like,
    a.argsort(), a.min(), a.max(), a.take(idx), np.where(mask)[0], np.array_equal, np.arange(lo, hi), builtin min/max/abs,
    hasattr(x, '__len__'), other functions / methods / properties translated in the same file (`callname`), and
    declared externals (`vexternals`: become function parameters, one per calling form — `'np.histogram'`,
    `'np.histogram(weights)'`: the keyword arguments used, sorted, follow the positional ones; an argument declared 's*'
    may be an array, the external is then mapped over it; an external may return a function value `('fn', (args), ret)`
    that a local variable holds and the code calls), `slice(None)` as a value that is overwritten before use, methods
    listed in `lift_methods` (`.reshape(-1, ng)`: they only re-arrange the lifted axes) are dropped, `rows.shape[1]` is
    the declared Nat parameter `rows_ncols`;
  * statements: docstring, pass, import, logging calls, `x = e`, `x op= e`, tuple unpacking of a tuple value,
    `self.x = e` (assigned attributes are local state; a spec with `state=[…]` returns the final values of these
    attributes: that is how `__init__` and other mutating methods are described), stores `a[i] = e`, `a[i] op= e`,
    `a[lo:hi] = v`, `a[k::m] = v`, `a[..., i] = e`, `return e`, `raise` (the declared total value), `if/elif/else`,
    `for … in range(…)`, `for idx, x in enumerate(zip(A, B, …))`, `for x in A`, `for a, b in zip(A, B)` (a `List.foldl`
    whose state is the tuple of the variables assigned in the body that exist before the loop), `continue`, statement
    calls of translated state methods (`self._sort_spectrum()`: the caller's attribute state is updated).
Totalisations (numpy / Python raise instead): out-of-range index -> default 0; `a - b` on indices is the truncated
subtraction of Nat; arrays of different lengths in an element-wise operation -> `[]`.

N-D data with LIFTED leading axes (the `np.digitize` path of `util.bindown`, C05): a parameter of kind 'llist' is ONE ROW
(last axis) of an array with `lifted_ndim` axes (spec key; >= 2) — the code must be point-wise in the leading axes, which
the type system enforces: only `len(a.shape)` (the declared number of axes, static), `a[..., mask]` ('llist') and
`x.mean(axis=<last axis>)` ('ls': one value per leading index) are accepted on it; a list comprehension
`[E for i in range(lo, hi)]` of 'ls' values is 'lcols' (a Python list of 1-D arrays over the leading axis) and
`np.column_stack` of it (for 2 axes) is again one row, the list of these values.  `x.mean()` is `Np.mean`: the sum divided
by the count formed as a sum of ones.  List comprehensions over a `range` also build 'list' / 'natlist' values.

File containers (C17: `TaurexSpectrum._load_from_hdf5`, `ObservedSpectrum.__init__`):
  * kind 'str': a string the code only passes on (a file name): Lean `String`, no operations;
  * `resources={'h5py.File': dict(lean='h5', args=['str', ('const', 'r')], datasets={'A/B/name': 'list', …})}`:
    `with h5py.File(filename, 'r') as f:` binds `f` to an OPEN READ-ONLY HDF5 file for the statements of the `with` body
    (after it `f` is gone).  `f['A']['B']` is a group; `x = f['A']['B']['name'][:]` (or `[...]`), the read of a whole
    dataset, must be the right-hand side of an assignment to a name.  The content of the file is an input: the dataset
    becomes the parameter `h5_A_B_name : Option (List α)` (the name is the resource's `lean` prefix + the path strings of
    the source text; `none` = the file has no such object, the read raises KeyError).  The read is translated as
    `match h5_A_B_name with | none => <KeyError> | some v__ => let x := v__ …`: `<KeyError>` is the handler of the
    enclosing `try: … except KeyError:` (one handler, it must end in raise / return, no else / finally, the `try` body is
    a sequence of assignments), or, outside a `try`, the function's declared `raise_value` (the exception propagates);
  * `np.vstack((a, b, …))` of 1-D arrays: the 2-D array with these rows; `M.T` of a 2-D array: `Np.transpose`;
  * `resolve_super=True`: the statement `super().__init__(…)` in a class with exactly one base `B` runs the translated
    `B.__init__` (the spec whose `callname` is `B`) on the caller's attribute state (otherwise it is ignored, see
    `ignore_calls`)."""
import ast
import re

from harness.translate import Fn, Untranslatable, lname, const_name, MATH_FUNCS

LISTY = ('list', 'natlist', 'mask', 'rows')
ELEM = {'list': 's', 'natlist': 'nat', 'mask': 'bool', 'rows': 'list'}
OF_ELEM = {v: k for k, v in ELEM.items()}


def is_tuple(t):
    return isinstance(t, tuple) and t[0] == 'tuple'


def is_lit(t):
    return isinstance(t, tuple) and t[0] == 'lit'


def is_fn(t):
    return isinstance(t, tuple) and t[0] == 'fn'


def is_h5(t):
    """('h5', resource key, path): an open HDF5 file (path ()) or one of its groups / datasets"""
    return isinstance(t, tuple) and t[0] == 'h5'


def simple(txt):
    return re.fullmatch(r"[\w.']+", txt) is not None


class VFn(Fn):
    def __init__(self, spec, tree, src_lines, known_funcs):
        super().__init__(spec, tree, src_lines, known_funcs)
        self.vext = dict(spec.get('vexternals', {}))
        self.state = list(spec.get('state', ()))
        self.ret = None
        self.gen = {}                                    # key -> number of bindings so far (see check_carried)
        self.ignore_calls = spec.get('ignore_calls', r'^(self\.(debug|info|warning|error|critical)\(|super\(\)\.__init__\()')
        self.resources = dict(spec.get('resources', {}))  # 'h5py.File' -> dict(lean, args, datasets{path: kind})
        self.in_try = False
        self.bases = None                                # texts of the base classes of the method's class
        for n in tree.body:
            if isinstance(n, ast.ClassDef) and n.name == spec.get('cls'):
                self.bases = [ast.unparse(b) for b in n.bases]

    # ------------------------------------------------------------------ types
    def lean_ty(self, k):
        if is_tuple(k):
            if len(k[1]) == 1:
                return self.lean_ty(k[1][0])
            return '(' + ' × '.join(self.lean_ty(x) for x in k[1]) + ')'
        m = {'list': 'List α', 'natlist': 'List Nat', 'mask': 'List Bool', 'none': 'Unit', 'rows': 'List (List α)',
             'llist': 'List α', 'lcols': 'List α', 'ls': 'α'}      # (lifted leading axis: see the docstring)
        if k in m:
            return m[k]
        if is_lit(k):
            return 'Nat'
        if is_fn(k):                                       # ('fn', (argument types), result type): a function value
            return '(' + ' → '.join(self.lean_ty(x) for x in list(k[1]) + [k[2]]) + ')'
        if k == 'fullslice':
            return 'Unit'
        if k == 'str':
            return 'String'
        if is_h5(k):
            self.fail(None, 'an HDF5 file / group used as a value')
        return super().lean_ty(k)

    def default(self, ty, node=None):
        if ty == 'list':
            self.literals.add(0)
            return '(0 : α)'
        if ty == 'natlist':
            return '0'
        if ty == 'mask':
            return 'false'
        if ty == 'rows':
            return '[]'
        self.fail(node, 'no default element for %s' % (ty,))

    def co(self, res, want, node=None):
        """coerce a typed text to the wanted type (only literals change type)"""
        txt, ty = res
        if ty == want:
            return txt
        if is_lit(ty):
            if want == 's':
                self.literals.add(ty[1])
                return '(%d : α)' % ty[1]
            if want == 'nat':
                return str(ty[1])
        self.fail(node, 'type %s where %s is needed' % (ty, want))

    def attr_lean(self, key):
        if key in self.attrs:
            return self.attrs[key][0]
        return lname(key.split('.', 1)[1])

    # ------------------------------------------------------------------ static evaluation
    def static(self, node, env):
        """Python truth value of a test when it is decided by the declared kinds; None when it is dynamic"""
        if isinstance(node, ast.Compare) and len(node.ops) == 1 and isinstance(node.ops[0], (ast.Is, ast.IsNot)) \
                and isinstance(node.comparators[0], ast.Constant) and node.comparators[0].value is None:
            _, ty = self.tx(node.left, env)
            r = ty == 'none'
            return r if isinstance(node.ops[0], ast.Is) else not r
        if isinstance(node, ast.Call) and ast.unparse(node.func) == 'hasattr' and len(node.args) == 2 \
                and isinstance(node.args[1], ast.Constant) and node.args[1].value == '__len__':
            _, ty = self.tx(node.args[0], env)
            if ty in LISTY or is_tuple(ty):
                return True
            if ty in ('s', 'nat', 'none', 'bool') or is_lit(ty):
                return False
            return None
        if isinstance(node, ast.UnaryOp) and isinstance(node.op, ast.Not):
            r = self.static(node.operand, env)
            return None if r is None else not r
        if isinstance(node, ast.BoolOp):
            rs = [self.static(v, env) for v in node.values]
            if isinstance(node.op, ast.And):
                if any(r is False for r in rs):
                    return False
                return True if all(r is True for r in rs) else None
            if any(r is True for r in rs):
                return True
            return False if all(r is False for r in rs) else None
        if isinstance(node, ast.Name) and is_lit(env.get(node.id)):
            return bool(env[node.id][1])
        if isinstance(node, ast.Constant) and isinstance(node.value, (bool, int)):
            return bool(node.value)
        return None

    def lifted_ndim(self, node):
        n = self.spec.get('lifted_ndim')
        if not isinstance(n, int) or n < 2:
            self.fail(node, 'an array with lifted leading axes needs the declared number of axes (lifted_ndim >= 2)')
        return n

    # ------------------------------------------------------------------ shapes
    def shape(self, node, env):
        """the shape of an array expression as a list of Nat texts"""
        if isinstance(node, ast.Attribute) and node.attr == 'shape':
            txt, ty = self.tx(node.value, env)
            if ty in ('list', 'natlist', 'mask'):
                return ['%s.length' % txt if simple(txt) else '(List.length %s)' % txt]
            if ty == 's':
                return []
            if ty == 'rows' and self.spec.get('rows_ncols'):
                # the number of columns of a 2-D array is not visible in `List (List α)`: a declared Nat parameter
                self.add_param(self.spec['rows_ncols'], 'Nat')
                return [self.length(txt), self.spec['rows_ncols']]
            self.fail(node, 'shape of a %s' % (ty,))
        def is_shape(n):
            return (isinstance(n, ast.Attribute) and n.attr == 'shape') or isinstance(n, ast.Tuple) or \
                (isinstance(n, ast.BinOp) and isinstance(n.op, ast.Add) and is_shape(n.left) and is_shape(n.right))
        if isinstance(node, ast.BinOp) and isinstance(node.op, ast.Add) and is_shape(node):
            return self.shape(node.left, env) + self.shape(node.right, env)      # concatenation of two shape tuples
        if isinstance(node, ast.Tuple):
            return [self.co(self.tx(e, env), 'nat', e) for e in node.elts]
        return [self.co(self.tx(node, env), 'nat', node)]

    # ------------------------------------------------------------------ expressions
    def lam1(self, body):
        return '(fun x__ => %s)' % body

    def map1(self, f_body, arr):
        """List.map (fun x__ => f_body) arr"""
        return '(List.map (fun x__ => %s) %s)' % (f_body, arr)

    def arith(self, op, L, R, node):
        (lt, lty), (rt, rty) = L, R
        if is_lit(lty) and is_lit(rty):
            a, b = lty[1], rty[1]
            v = {'+': a + b, '-': a - b, '*': a * b}.get(op)
            if v is None or v < 0:
                self.fail(node, 'arithmetic on two literals')
            return str(v), ('lit', v)
        if is_lit(lty):
            want = 'nat' if rty == 'nat' else 's'
            lt, lty = self.co(L, want, node), want
        if is_lit(rty):
            want = 'nat' if lty == 'nat' else 's'
            rt, rty = self.co(R, want, node), want
        if lty == 'nat' and rty == 'nat':
            if op == '/':
                self.fail(node, 'true division of indices')
            return '(%s %s %s)' % (lt, {'//': '/'}.get(op, op), rt), 'nat'
        if op == '//':
            self.fail(node, 'floor division of numbers')
        if lty == 's' and rty == 's':
            return '(%s %s %s)' % (lt, op, rt), 's'
        if lty == 'list' and rty == 's':
            return self.map1('(x__ %s %s)' % (op, rt), lt), 'list'
        if lty == 's' and rty == 'list':
            return self.map1('(%s %s x__)' % (lt, op), rt), 'list'
        if lty == 'list' and rty == 'list':
            return '(Np.zip2 (fun x__ y__ => (x__ %s y__)) %s %s)' % (op, lt, rt), 'list'
        self.fail(node, 'arithmetic between %s and %s' % (lty, rty))

    def power(self, base, k, node):
        txt, ty = base
        if is_lit(ty):
            txt, ty = self.co(base, 's', node), 's'
        if ty == 's':
            if simple(txt):
                return '(' + ' * '.join([txt] * k) + ')', 's'
            return '(let b__ := %s; %s)' % (txt, ' * '.join(['b__'] * k)), 's'
        if ty == 'list':
            return self.map1('(' + ' * '.join(['x__'] * k) + ')', txt), 'list'
        self.fail(node, 'power of a %s' % (ty,))

    def compare(self, op, L, R, node):
        (lt, lty), (rt, rty) = L, R
        if is_lit(lty) and not is_lit(rty):
            want = 'nat' if rty in ('nat', 'natlist') else 's'
            lt, lty = self.co(L, want, node), want
        if is_lit(rty) and not is_lit(lty):
            want = 'nat' if lty in ('nat', 'natlist') else 's'
            rt, rty = self.co(R, want, node), want
        if is_lit(lty) and is_lit(rty):
            lt, lty, rt, rty = str(lty[1]), 'nat', str(rty[1]), 'nat'

        def rel(a, b):
            if op is ast.Lt:
                return 'decide (%s < %s)' % (a, b)
            if op is ast.LtE:
                return 'decide (%s ≤ %s)' % (a, b)
            if op is ast.Gt:
                return 'decide (%s < %s)' % (b, a)
            if op is ast.GtE:
                return 'decide (%s ≤ %s)' % (b, a)
            if op is ast.Eq and lty in ('nat', 'natlist') and rty in ('nat', 'natlist'):
                return 'decide (%s = %s)' % (a, b)
            if op is ast.NotEq and lty in ('nat', 'natlist') and rty in ('nat', 'natlist'):
                return '(!decide (%s = %s))' % (a, b)
            self.fail(node, 'unsupported comparison')
        scal = ('s', 'nat')
        if lty in scal and rty == lty:
            return rel(lt, rt), 'bool'
        pairs = {('list', 's'), ('natlist', 'nat')}
        if (lty, rty) in pairs:
            return self.map1(rel('x__', rt), lt), 'mask'
        if (rty, lty) in pairs:
            return self.map1(rel(lt, 'x__'), rt), 'mask'
        if lty == rty and lty in ('list', 'natlist'):
            return '(Np.zip2 (fun x__ y__ => %s) %s %s)' % (rel('x__', 'y__'), lt, rt), 'mask'
        self.fail(node, 'comparison between %s and %s' % (lty, rty))

    def attr_read(self, node, env):
        t = ast.unparse(node)
        if t in env:
            return self.attr_lean(t), env[t]
        if t in self.known and self.known[t].get('prop'):
            return self.call_known(t, [], node, env)
        if t in self.attrs:
            nm, k = self.attrs[t]
            self.add_param(nm, self.lean_ty(k))
            return nm, k
        self.fail(node, 'undeclared attribute')

    def local_attr(self, nm, env):
        for key in env:
            if key.startswith('self.') and self.attr_lean(key) == nm:
                return key
        return None

    def call_known(self, name, argnodes, node, env, keywords=()):
        tgt = self.known[name]
        kinds = tgt['arg_kinds']
        if self.in_try and tgt.get('raises'):
            self.fail(node, 'call of a function that may raise inside a try block')
        if len(argnodes) > len(kinds):
            self.fail(node, 'call of %s with more arguments than its definition' % name)
        if keywords:
            argnodes = list(argnodes) + [None] * (len(kinds) - len(argnodes))
            for k in keywords:
                if k.arg not in tgt['arg_names'] or argnodes[tgt['arg_names'].index(k.arg)] is not None:
                    self.fail(node, 'keyword argument %s does not match the definition of %s' % (k.arg, name))
                argnodes[tgt['arg_names'].index(k.arg)] = k.value
        args = []
        for i, k in enumerate(kinds):
            if k == 'skip':
                continue
            if i >= len(argnodes) or argnodes[i] is None:
                if k != 'none':
                    self.fail(node, 'call of %s leaves parameter %d at its default (declared %s)' % (name, i, k))
                continue
            if k == 'none':
                if self.tx(argnodes[i], env)[1] != 'none':
                    self.fail(node, 'call of %s passes a value where the translation assumes None' % name)
                continue
            args.append(self.co(self.tx(argnodes[i], env), k, argnodes[i]))
        for nm, ty in tgt['extra_params']:
            key = self.local_attr(nm, env)
            if key is None:
                self.add_param(nm, ty)
            elif self.lean_ty(env[key]) != ty:
                self.fail(node, 'attribute %s has type %s here, %s expects %s' % (key, env[key], name, ty))
            args.append(nm)
        txt = '(%s %s)' % (tgt['lean'], ' '.join(args)) if args else tgt['lean']
        return txt, tgt.get('ret', 's')

    def ext_key(self, full, node):
        """an external is declared per calling form: 'np.histogram' (positional only), 'np.histogram(weights)' (the
        keyword arguments used, sorted; their values follow the positional ones in the declared `args`)"""
        if node.keywords and all(k.arg for k in node.keywords):
            return '%s(%s)' % (full, ','.join(sorted(k.arg for k in node.keywords)))
        return full

    def call_external(self, full, node, env):
        d = self.vext[self.ext_key(full, node)]
        argnodes = list(node.args) + [k.value for k in sorted(node.keywords, key=lambda k: k.arg)]
        if len(argnodes) != len(d['args']):
            self.fail(node, 'external arity')
        star = lambda a: isinstance(a, str) and a.endswith('*')
        base = lambda a: a[:-1] if star(a) else a
        tys = [base(a) for a in d['args'] if a != 'skip']
        self.add_param(d['lean'], ' → '.join(self.lean_ty(t) if ' ' not in self.lean_ty(t) else '(%s)' % self.lean_ty(t)
                                               for t in tys + [d['ret']]))
        args = []
        mapped = None
        for a, k in zip(argnodes, d['args']):
            if k == 'skip':
                continue
            res = self.tx(a, env)
            if star(k) and res[1] == OF_ELEM.get(base(k)):
                if mapped is not None:
                    self.fail(node, 'external mapped over two arrays')
                mapped = res[0]
                args.append('x__')
            else:
                args.append(self.co(res, base(k), a))
        call = '(%s %s)' % (d['lean'], ' '.join(args))
        if mapped is not None:
            if d['ret'] not in OF_ELEM:
                self.fail(node, 'mapped external must return an element')
            return self.map1(call, mapped), OF_ELEM[d['ret']]
        return call, d['ret']

    def elementwise(self, body_of, arg, node):
        """apply a scalar function text (built by body_of(x)) to a scalar or element-wise to an array"""
        txt, ty = arg
        if is_lit(ty):
            txt, ty = self.co(arg, 's', node), 's'
        if ty == 's':
            return body_of(txt), 's'
        if ty == 'list':
            return self.map1(body_of('x__'), txt), 'list'
        self.fail(node, 'element-wise function of a %s' % (ty,))

    def binary_elementwise(self, fn, A, B, node):
        (at, aty), (bt, bty) = A, B
        if is_lit(aty):
            at, aty = self.co(A, 's', node), 's'
        if is_lit(bty):
            bt, bty = self.co(B, 's', node), 's'
        if aty == 's' and bty == 's':
            return '(%s %s %s)' % (fn, at, bt), 's'
        if aty == 's' and bty == 'list':
            return self.map1('(%s %s x__)' % (fn, at), bt), 'list'
        if aty == 'list' and bty == 's':
            return self.map1('(%s x__ %s)' % (fn, bt), at), 'list'
        if aty == 'list' and bty == 'list':
            return '(Np.zip2 (fun x__ y__ => (%s x__ y__)) %s %s)' % (fn, at, bt), 'list'
        self.fail(node, '%s of %s and %s' % (fn, aty, bty))

    def kw(self, node, allowed):
        d = {}
        for k in node.keywords:
            if k.arg not in allowed:
                self.fail(node, 'unsupported keyword argument %s' % k.arg)
            d[k.arg] = k.value
        return d

    def length(self, txt):
        return '%s.length' % txt if simple(txt) else '(List.length %s)' % txt

    def call(self, node, env):
        full = ast.unparse(node.func)
        short = full
        for pre in ('np.', 'numpy.', 'math.'):
            if full.startswith(pre):
                short = full[len(pre):]
        isnp = short != full
        if self.ext_key(full, node) in self.vext:
            return self.call_external(full, node, env)
        if full in self.known and not self.known[full].get('prop'):
            return self.call_known(full, node.args, node, env, node.keywords)
        A = node.args
        if isinstance(node.func, ast.Name) and is_fn(env.get(full)) and not node.keywords:
            fty = env[full]                               # a local that holds a function returned by an external
            if len(A) != len(fty[1]):
                self.fail(node, 'call of a function value with the wrong number of arguments')
            return '(%s %s)' % (self.var(full), ' '.join(self.co(self.tx(a, env), t, a) for a, t in zip(A, fty[1]))), fty[2]
        if full == 'slice' and len(A) == 1 and not node.keywords and isinstance(A[0], ast.Constant) and A[0].value is None:
            return '()', 'fullslice'                      # `slice(None)`: only as a value that is not used as an index here
        if isinstance(node.func, ast.Attribute) and node.func.attr in self.spec.get('lift_methods', ()):
            # a method that only re-arranges the lifted axes (`.reshape(-1, ng)` of a k-table column): the 1-D row the
            # model describes is unchanged
            return self.tx(node.func.value, env)
        if full == 'len' and len(A) == 1 and not node.keywords:
            if isinstance(A[0], ast.Attribute) and A[0].attr == 'shape' and self.tx(A[0].value, env)[1] == 'llist':
                n = self.lifted_ndim(node)                # one row of an N-D array: the declared number of axes
                return str(n), ('lit', n)
            if isinstance(A[0], ast.Attribute) and A[0].attr == 'shape':
                n = len(self.shape(A[0], env))
                return str(n), ('lit', n)
            txt, ty = self.tx(A[0], env)
            if ty in LISTY:
                return self.length(txt), 'nat'
            self.fail(node, 'len of a %s' % (ty,))
        if full == 'hasattr':
            r = self.static(node, env)
            if r is None:
                self.fail(node, 'hasattr that is not decided by the declared kinds')
            return ('true' if r else 'false'), 'bool'
        if full in ('min', 'max') and len(A) == 2 and not node.keywords:
            L, R = self.tx(A[0], env), self.tx(A[1], env)
            natty = lambda t: t == 'nat' or is_lit(t)
            if natty(L[1]) and natty(R[1]):
                return '(%s %s %s)' % (full, self.co(L, 'nat', node), self.co(R, 'nat', node)), 'nat'
            a, b = self.co(L, 's', node), self.co(R, 's', node)
            if full == 'max':
                return '(let a__ := %s; let b__ := %s; if a__ < b__ then b__ else a__)' % (a, b), 's'
            return '(let a__ := %s; let b__ := %s; if b__ < a__ then b__ else a__)' % (a, b), 's'
        if short in ('abs', 'fabs') and len(A) == 1 and not node.keywords:
            self.literals.add(0)
            return self.elementwise(
                lambda x: '(if %s < (0 : α) then (-%s) else %s)' % (x, x, x) if simple(x) else
                '(let a__ := %s; if a__ < (0 : α) then (-a__) else a__)' % x, self.tx(A[0], env), node)
        if short in MATH_FUNCS and len(A) == 1 and not node.keywords:
            return self.elementwise(lambda x: '(%s %s)' % (MATH_FUNCS[short], x), self.tx(A[0], env), node)
        if isnp and short == 'diff' and len(A) == 1 and not node.keywords:
            return '(Np.diff %s)' % self.co(self.tx(A[0], env), 'list', node), 'list'
        if isnp and short == 'sum' and len(A) == 1:
            kw = self.kw(node, ('axis',))
            if 'axis' in kw and ast.unparse(kw['axis']) not in ('-1', '0'):
                self.fail(node, 'sum over another axis than the last')
            self.literals.add(0)
            return '(Np.sum %s)' % self.co(self.tx(A[0], env), 'list', node), 's'
        if isnp and short in ('minimum', 'maximum') and len(A) == 2 and not node.keywords:
            return self.binary_elementwise('Np.' + short, self.tx(A[0], env), self.tx(A[1], env), node)
        if isnp and short == 'searchsorted' and len(A) == 2:
            return self.searchsorted(self.tx(A[0], env), A[1], node, env)
        if isnp and short == 'concatenate' and len(A) == 1 and not node.keywords and isinstance(A[0], (ast.List, ast.Tuple)):
            parts = [self.co(self.tx(e, env), 'list', e) for e in A[0].elts]
            if not parts:
                self.fail(node, 'empty concatenate')
            return '(' + ' ++ '.join(parts) + ')', 'list'
        if isnp and short == 'vstack' and len(A) == 1 and not node.keywords and isinstance(A[0], (ast.List, ast.Tuple)) \
                and A[0].elts:
            # np.vstack of 1-D arrays: the 2-D array whose rows they are (numpy raises unless the lengths agree)
            return '[' + ', '.join(self.co(self.tx(e, env), 'list', e) for e in A[0].elts) + ']', 'rows'
        if isnp and short == 'zeros' and len(A) + len(node.keywords) == 1:
            kw = self.kw(node, ('shape',))
            dims = self.shape(A[0] if A else kw['shape'], env)
            if len(dims) != 1:
                self.fail(node, 'np.zeros of a shape that is not 1-D here')
            self.literals.add(0)
            return '(List.replicate %s (0 : α))' % dims[0], 'list'
        if isnp and short in ('zeros_like', 'ones_like') and len(A) == 1 and not node.keywords:
            v = 0 if short == 'zeros_like' else 1
            self.literals.add(v)
            return '(List.map (fun _ => (%d : α)) %s)' % (v, self.co(self.tx(A[0], env), 'list', node)), 'list'
        if isnp and short == 'argsort' and len(A) == 1 and not node.keywords:
            self.literals.add(0)
            return '(Np.argsort (0 : α) %s)' % self.co(self.tx(A[0], env), 'list', node), 'natlist'
        if isnp and short == 'where' and len(A) == 1 and not node.keywords:
            return '(Np.where_ %s)' % self.co(self.tx(A[0], env), 'mask', node), ('tuple', ('natlist',))
        if isnp and short == 'array_equal' and len(A) == 2 and not node.keywords:
            return '(Np.arrayEqual %s %s)' % (self.co(self.tx(A[0], env), 'list', node),
                                              self.co(self.tx(A[1], env), 'list', node)), 'bool'
        if isnp and short == 'arange' and len(A) == 2 and not node.keywords:
            lo, hi = (self.co(self.tx(a, env), 'nat', a) for a in A)
            return "(List.range' %s (%s - %s))" % (lo, hi, lo), 'natlist'
        if isnp and short == 'column_stack' and len(A) == 1 and not node.keywords:
            # np.column_stack of 1-D arrays v_1 … v_B (each indexed by the lifted leading axis): the 2-D array with
            # [r, b] = v_b[r]; the row the model describes is the list of the B values
            ct, cty = self.tx(A[0], env)
            if cty != 'lcols' or self.lifted_ndim(node) != 2:
                self.fail(node, 'np.column_stack of something else than 1-D columns over the lifted axis')
            return ct, 'llist'
        if isinstance(node.func, ast.Attribute) and node.func.attr == 'mean' and not A:
            bt, bty = self.tx(node.func.value, env)
            kw = self.kw(node, ('axis',))
            self.literals.add(0)
            self.literals.add(1)
            if bty == 'llist' and 'axis' in kw:
                at, aty = self.tx(kw['axis'], env)
                if not (is_lit(aty) and aty[1] == self.lifted_ndim(node) - 1):
                    self.fail(node, 'mean along another axis than the last one')
                return '(Np.mean %s)' % bt, 'ls'           # one value per index of the lifted leading axes
            if bty == 'list' and not kw:
                return '(Np.mean %s)' % bt, 's'
            self.fail(node, 'unsupported mean')
        # methods of an array value
        if isinstance(node.func, ast.Attribute):
            m = node.func.attr
            if m in ('argsort', 'min', 'max', 'searchsorted', 'take', 'copy', 'sum'):
                base = self.tx(node.func.value, env)
                bt, bty = base
                if m == 'argsort' and not A and bty == 'list':
                    kw = self.kw(node, ('axis',))
                    if 'axis' in kw and ast.unparse(kw['axis']) not in ('0', '-1'):
                        self.fail(node, 'argsort along another axis')
                    self.literals.add(0)
                    return '(Np.argsort (0 : α) %s)' % bt, 'natlist'
                if m in ('min', 'max') and not A and not node.keywords and bty == 'list':
                    self.literals.add(0)
                    return '(Np.a%s (0 : α) %s)' % (m, bt), 's'
                if m == 'searchsorted' and len(A) == 1:
                    return self.searchsorted(base, A[0], node, env)
                if m == 'take' and len(A) == 1 and not node.keywords and bty in LISTY:
                    idx = self.co(self.tx(A[0], env), 'natlist', node)
                    return '(Np.take %s %s %s)' % (self.default(bty, node), bt, idx), bty
                if m == 'copy' and not A and not node.keywords and bty in LISTY:
                    return bt, bty
                if m == 'sum' and not A and not node.keywords and bty == 'list':
                    self.literals.add(0)
                    return '(Np.sum %s)' % bt, 's'
        self.fail(node, 'unsupported call')

    def searchsorted(self, base, vnode, node, env):
        kw = self.kw(node, ('side',))
        side = 'left'
        if 'side' in kw:
            if not (isinstance(kw['side'], ast.Constant) and kw['side'].value in ('left', 'right')):
                self.fail(node, 'searchsorted side')
            side = kw['side'].value
        arr = self.co(base, 'list', node)
        v = self.co(self.tx(vnode, env), 's', vnode)
        return '(Np.searchsorted%s %s %s)' % (side.capitalize(), arr, v), 'nat'

    def tx(self, node, env):
        """typed translation of an expression: (lean text, type)"""
        if isinstance(node, ast.Constant):
            v = node.value
            if v is None:
                return '()', 'none'
            if isinstance(v, bool):
                return ('true' if v else 'false'), 'bool'
            if isinstance(v, int) and 0 <= v < 10 ** 9:
                return str(v), ('lit', v)
            if isinstance(v, float) and v >= 0 and v < 1e9 and float(v) == int(v):
                self.literals.add(int(v))
                return '(%d : α)' % int(v), 's'
            if isinstance(v, float) and v > 0:
                nm = const_name(v)
                self.float_consts[nm] = float(v)
                self.add_param(nm, 'α')
                return nm, 's'
            self.fail(node, 'unsupported literal')
        if isinstance(node, ast.Name):
            k = self.kind_of_name(node.id, env)
            if k is None:
                self.fail(node, 'unknown name (declare it in params/consts)')
            if k in ('none', 'fullslice'):
                return '()', k
            if is_lit(k):
                return str(k[1]), k
            if k == 'skip':
                self.fail(node, 'a skipped parameter is used')
            return self.var(node.id), k
        if isinstance(node, ast.Attribute):
            if node.attr == 'shape':
                self.fail(node, 'a shape used as a value')
            if node.attr == 'T' and not (isinstance(node.value, ast.Name) and node.value.id == 'self'):
                bt, bty = self.tx(node.value, env)
                if bty != 'rows':
                    self.fail(node, 'transpose of a %s' % (bty,))
                self.literals.add(0)
                return '(Np.transpose (0 : α) %s)' % bt, 'rows'
            return self.attr_read(node, env)
        if isinstance(node, ast.UnaryOp):
            if isinstance(node.op, ast.UAdd):
                return self.tx(node.operand, env)
            if isinstance(node.op, ast.USub):
                return self.elementwise(lambda x: '(-%s)' % x, self.tx(node.operand, env), node)
            if isinstance(node.op, ast.Not):
                r = self.static(node, env)
                if r is not None:
                    return ('true' if r else 'false'), 'bool'
                return '(!%s)' % self.co(self.tx(node.operand, env), 'bool', node), 'bool'
            if isinstance(node.op, ast.Invert):
                return self.map1('(!x__)', self.co(self.tx(node.operand, env), 'mask', node)), 'mask'
        if isinstance(node, ast.BinOp):
            if isinstance(node.op, ast.Pow):
                r = node.right
                if isinstance(r, ast.Constant) and isinstance(r.value, (int, float)) and float(r.value) == int(r.value) \
                        and 2 <= int(r.value) <= 6:
                    return self.power(self.tx(node.left, env), int(r.value), node)
                if isinstance(node.left, ast.Constant) and node.left.value in (10, 10.0):
                    return self.elementwise(lambda x: '(pow10 %s)' % x, self.tx(node.right, env), node)
                self.fail(node, 'unsupported power')
            if isinstance(node.op, (ast.BitAnd, ast.BitOr)):
                op = '&&' if isinstance(node.op, ast.BitAnd) else '||'
                L, R = self.tx(node.left, env), self.tx(node.right, env)
                if L[1] == 'mask' and R[1] == 'mask':
                    return '(Np.zip2 (fun x__ y__ => (x__ %s y__)) %s %s)' % (op, L[0], R[0]), 'mask'
                if L[1] == 'bool' and R[1] == 'bool':
                    return '(%s %s %s)' % (L[0], op, R[0]), 'bool'
                self.fail(node, 'bitwise operator on %s and %s' % (L[1], R[1]))
            ops = {ast.Add: '+', ast.Sub: '-', ast.Mult: '*', ast.Div: '/', ast.FloorDiv: '//'}
            if type(node.op) not in ops:
                self.fail(node, 'unsupported operator')
            return self.arith(ops[type(node.op)], self.tx(node.left, env), self.tx(node.right, env), node)
        if isinstance(node, ast.ListComp):
            # [E for i in range(lo, hi)] (one generator over a range, no condition): the list of the values of E
            g = node.generators[0] if len(node.generators) == 1 else None
            if g is None or g.ifs or g.is_async or not isinstance(g.target, ast.Name) \
                    or not (isinstance(g.iter, ast.Call) and ast.unparse(g.iter.func) == 'range' and not g.iter.keywords
                            and len(g.iter.args) in (1, 2)):
                self.fail(node, 'unsupported list comprehension')
            ra = g.iter.args
            lo = '0' if len(ra) == 1 else self.co(self.tx(ra[0], env), 'nat', node)
            hi = self.co(self.tx(ra[-1], env), 'nat', node)
            env2 = dict(env)
            env2[g.target.id] = 'nat'
            et, ety = self.tx(node.elt, env2)
            out = {'s': 'list', 'ls': 'lcols', 'nat': 'natlist'}.get(ety)
            if out is None:
                self.fail(node, 'list comprehension of %s' % (ety,))
            return "(List.map (fun %s => %s) (List.range' %s (%s - %s)))" % (self.var(g.target.id), et, lo, hi, lo), out
        if isinstance(node, ast.Compare):
            r = self.static(node, env)
            if r is not None:
                return ('true' if r else 'false'), 'bool'
            if len(node.ops) != 1:
                self.fail(node, 'chained comparison')
            return self.compare(type(node.ops[0]), self.tx(node.left, env), self.tx(node.comparators[0], env), node)
        if isinstance(node, ast.BoolOp):
            r = self.static(node, env)
            if r is not None:
                return ('true' if r else 'false'), 'bool'
            vals = [v for v in node.values if self.static(v, env) is None]   # the others are neutral
            parts = [self.co(self.tx(v, env), 'bool', v) for v in vals]
            if len(parts) == 1:
                return parts[0], 'bool'
            return '(' + (' && ' if isinstance(node.op, ast.And) else ' || ').join(parts) + ')', 'bool'
        if isinstance(node, ast.IfExp):
            r = self.static(node.test, env)
            if r is not None:
                return self.tx(node.body if r else node.orelse, env)
            c = self.co(self.tx(node.test, env), 'bool', node)
            B, O = self.tx(node.body, env), self.tx(node.orelse, env)
            ty = O[1] if is_lit(B[1]) else B[1]
            if is_lit(ty):
                ty = 's'
            return '(if %s then %s else %s)' % (c, self.co(B, ty, node), self.co(O, ty, node)), ty
        if isinstance(node, ast.List):
            if not node.elts:
                self.fail(node, 'empty list literal')
            return '[' + ', '.join(self.co(self.tx(e, env), 's', e) for e in node.elts) + ']', 'list'
        if isinstance(node, ast.Tuple):
            rs = [self.tx(e, env) for e in node.elts]
            rs = [(self.co(r, 'nat'), 'nat') if is_lit(r[1]) else r for r in rs]
            return '(' + ', '.join(r[0] for r in rs) + ')', ('tuple', tuple(r[1] for r in rs))
        if isinstance(node, ast.Subscript):
            return self.sub(node, env)
        if isinstance(node, ast.Call):
            return self.call(node, env)
        self.fail(node, 'unsupported expression')

    # compatibility with the scalar translator's entry points
    def expr(self, node, env):
        return self.co(self.tx(node, env), 's', node)

    def cond(self, node, env):
        return self.co(self.tx(node, env), 'bool', node)

    def nat(self, node, env):
        return self.co(self.tx(node, env), 'nat', node)

    # ------------------------------------------------------------------ subscripts
    @staticmethod
    def neg_const(node):
        if isinstance(node, ast.UnaryOp) and isinstance(node.op, ast.USub) and isinstance(node.operand, ast.Constant) \
                and isinstance(node.operand.value, int) and node.operand.value >= 1:
            return node.operand.value
        return None

    def with_base(self, bt, build):
        """build(text of the base) where the base text is used more than once"""
        if simple(bt):
            return build(bt)
        return '(let a__ := %s; %s)' % (bt, build('a__'))

    def index_of(self, node, bt, env):
        """index expression into the array whose text is bt: Nat text (negative literals count from the end)"""
        k = self.neg_const(node)
        if k is not None:
            return '(%s.length - %d)' % (bt, k)
        return self.co(self.tx(node, env), 'nat', node)

    @staticmethod
    def strip_ellipsis(idx):
        idxs = list(idx.elts) if isinstance(idx, ast.Tuple) else [idx]
        return [i for i in idxs if not (isinstance(i, ast.Constant) and i.value is Ellipsis)]

    def sub(self, node, env):
        base = node.value
        if isinstance(base, ast.Attribute) and base.attr == 'shape':
            dims = self.shape(base, env)
            i = node.slice
            if isinstance(i, ast.Constant) and isinstance(i.value, int) and 0 <= i.value < len(dims):
                return dims[i.value], 'nat'
            self.fail(node, 'unsupported shape subscript')
        bt, bty = self.tx(base, env)
        if is_h5(bty):
            i = node.slice
            if isinstance(i, ast.Constant) and isinstance(i.value, str):
                return bt, ('h5', bty[1], bty[2] + (i.value,))          # a group / dataset of the open file
            self.fail(node, 'an HDF5 object may only be indexed by a string literal, or read whole (`x = d[:]`) as the '
                            'right-hand side of an assignment')
        idxs = self.strip_ellipsis(node.slice)
        if is_tuple(bty):
            if len(idxs) != 1:
                self.fail(node, 'tuple subscript')
            i = idxs[0]
            n = len(bty[1])
            k = self.neg_const(i)
            pos = n - k if k is not None else (i.value if isinstance(i, ast.Constant) and isinstance(i.value, int) else None)
            if pos is None or not 0 <= pos < n:
                self.fail(node, 'tuple subscript must be a literal in range')
            return self.proj(bt, pos, n), bty[1][pos]
        if bty == 'rows':
            if len(idxs) == 2 and isinstance(idxs[0], ast.Slice) and not (idxs[0].lower or idxs[0].upper or idxs[0].step) \
                    and isinstance(idxs[1], ast.Constant) and isinstance(idxs[1].value, int) and idxs[1].value >= 0:
                self.literals.add(0)
                return '(List.map (fun r__ => r__.getD %d (0 : α)) %s)' % (idxs[1].value, bt), 'list'
            if len(idxs) == 1 and not isinstance(idxs[0], ast.Slice):
                it, ity = self.tx(idxs[0], env)
                if ity == 'natlist':
                    return '(Np.take [] %s %s)' % (bt, it), 'rows'
            self.fail(node, 'unsupported subscript of a 2-D array')
        if bty == 'llist':
            # one row of an N-D array (leading axes lifted): only `a[..., mask]`, a selection along the last axis
            raw = list(node.slice.elts) if isinstance(node.slice, ast.Tuple) else [node.slice]
            if len(raw) == 2 and isinstance(raw[0], ast.Constant) and raw[0].value is Ellipsis:
                it, ity = self.tx(raw[1], env)
                if ity == 'mask':
                    return '(Np.compress %s %s)' % (bt, it), 'llist'
            self.fail(node, 'unsupported subscript of an array with lifted leading axes')
        if bty not in ('list', 'natlist', 'mask'):
            self.fail(node, 'subscript of a %s' % (bty,))
        if len(idxs) != 1:
            self.fail(node, 'subscript does not match a 1-D array')
        i = idxs[0]
        if isinstance(i, ast.Slice):
            if i.step is not None:
                if ast.unparse(i.step) == '-1' and i.lower is None and i.upper is None:
                    return '(List.reverse %s)' % bt, bty
                self.fail(node, 'unsupported slice step')
            if i.lower is None and i.upper is None:
                return bt, bty
            if i.lower is None:
                return self.with_base(bt, lambda b: '(List.take %s %s)' % (self.index_of(i.upper, b, env), b)), bty
            if i.upper is None:
                return self.with_base(bt, lambda b: '(List.drop %s %s)' % (self.index_of(i.lower, b, env), b)), bty
            return self.with_base(bt, lambda b: '(Np.slice %s %s %s)' % (b, self.index_of(i.lower, b, env),
                                                                       self.index_of(i.upper, b, env))), bty
        if self.neg_const(i) is None:
            it, ity = self.tx(i, env)
            if ity == 'natlist':
                return '(Np.take %s %s %s)' % (self.default(bty, node), bt, it), bty
            if ity == 'mask':
                return '(Np.compress %s %s)' % (bt, it), bty
        d = self.default(bty, node)
        return self.with_base(bt, lambda b: '(%s.getD %s %s)' % (b, self.index_of(i, b, env), d)), ELEM[bty]

    @staticmethod
    def proj(txt, pos, n):
        if n == 1:
            return txt
        path = txt + '.2' * pos
        return path + ('.1' if pos < n - 1 else '')

    # ------------------------------------------------------------------ statements
    def target_key(self, t):
        if isinstance(t, ast.Name):
            return t.id
        if isinstance(t, ast.Attribute) and isinstance(t.value, ast.Name) and t.value.id == 'self':
            return ast.unparse(t)
        if isinstance(t, ast.Subscript):
            return self.target_key(t.value)
        return None

    def vassigned(self, stmts, env=None):
        """keys (names, 'self.x') assigned by the statements; with `env`, branches that are statically dead under the
        declared kinds are left out (the loop / if translation checks afterwards that nothing else was assigned)"""
        out = []

        def add(k):
            if k is not None and k not in out:
                out.append(k)

        def tgt(t):
            if isinstance(t, ast.Tuple):
                for e in t.elts:
                    tgt(e)
            else:
                add(self.target_key(t))
        for s in stmts:
            if isinstance(s, ast.Assign):
                for t in s.targets:
                    tgt(t)
            elif isinstance(s, ast.AugAssign):
                tgt(s.target)
            elif isinstance(s, ast.For):
                tgt(s.target)
                for k in self.vassigned(s.body, env):
                    add(k)
            elif isinstance(s, ast.If):
                r = None
                if env is not None:
                    try:
                        snap = self.snapshot()
                        r = self.static(s.test, env)
                        self.restore(snap)
                    except Untranslatable:
                        r = None
                for k in (self.vassigned(s.body, env) if r is not False else []) + \
                        (self.vassigned(s.orelse, env) if r is not True else []):
                    add(k)
            elif isinstance(s, ast.Expr) and isinstance(s.value, ast.Call):
                f = self.stmt_call_name(s.value)
                if f in self.known and self.known[f].get('state'):
                    for k in self.known[f]['state']:
                        add(k)
        return out

    def key_name(self, key):
        return self.attr_lean(key) if key.startswith('self.') else self.var(key)

    def pack(self, names, env, want=None, rec=None):
        """tuple of the current values of `names` (coerced to the types `want`); records the types in rec"""
        txts = []
        tys = []
        for i, n in enumerate(names):
            ty = env[n]
            tys.append(ty)
            res = (str(ty[1]) if is_lit(ty) else ('()' if ty in ('none', 'fullslice') else self.key_name(n)), ty)
            txts.append(self.co(res, want[i]) if want else res[0])
        if rec is not None:
            rec.append(tys)
        return txts[0] if len(txts) == 1 else '(' + ', '.join(txts) + ')'

    def unpack_keys(self, names, tys, src, ind, env):
        out = ''
        if len(names) == 1:
            out = '%slet %s := %s\n' % (ind, self.key_name(names[0]), src)
        else:
            out = '%slet st__ := %s\n' % (ind, src)
            for i, n in enumerate(names):
                out += '%slet %s := %s\n' % (ind, self.key_name(n), self.proj('st__', i, len(names)))
        for n, t in zip(names, tys):
            env[n] = t
            self.gen[n] = self.gen.get(n, 0) + 1
        return out

    def check_carried(self, before, names, env, node):
        """safety net of the dead-branch pruning in `vassigned`: no variable that exists outside the loop / conditional
        may have been bound inside it unless it is carried"""
        for k in env:
            if k not in names and self.gen.get(k, 0) != before.get(k, 0):
                self.fail(node, 'variable %s is assigned here but was not recognised as carried' % k)

    @staticmethod
    def merge_types(recs, node_fail):
        """common types of the exits of a block: literals adopt the type of the other exits (or Nat)"""
        tys = []
        for col in zip(*recs):
            conc = [t for t in col if not is_lit(t)]
            if not conc:
                tys.append('nat')
                continue
            if any(t != conc[0] for t in conc):
                node_fail('a variable has different types on different paths: %s' % (col,))
            tys.append(conc[0])
        return tys

    def snapshot(self):
        return (list(self.extra_params), set(self.literals), dict(self.float_consts), self.ret, dict(self.gen))

    def restore(self, snap):
        self.extra_params, self.literals, self.float_consts, self.ret = list(snap[0]), set(snap[1]), dict(snap[2]), snap[3]
        self.gen = dict(snap[4])

    def jumps(self, stmts):
        """does every path through the statements end in return / raise / continue"""
        if not stmts:
            return False
        last = stmts[-1]
        if isinstance(last, (ast.Return, ast.Raise, ast.Continue)):
            return True
        if isinstance(last, ast.If) and last.orelse:
            return self.jumps(last.body) and self.jumps(last.orelse)
        return False

    def bind(self, target, txt, ty, env, ind, node):
        """let-bind a loop / unpacking target to a typed value"""
        if isinstance(target, ast.Tuple):
            if not is_tuple(ty) or len(ty[1]) != len(target.elts):
                self.fail(node, 'unpacking does not match the value')
            out = ''
            if not simple(txt):
                out += '%slet t__ := %s\n' % (ind, txt)
                txt = 't__'
            for i, e in enumerate(target.elts):
                out += self.bind(e, self.proj(txt, i, len(ty[1])), ty[1][i], env, ind, node)
            return out
        key = self.target_key(target)
        if key is None or isinstance(target, ast.Subscript):
            self.fail(node, 'unsupported assignment target')
        self.gen[key] = self.gen.get(key, 0) + 1
        if is_lit(ty):
            env[key] = ty
            return ''
        if ty in ('none', 'fullslice'):
            env[key] = ty
            return ''
        env[key] = ty
        return '%slet %s := %s\n' % (ind, self.key_name(key), txt)

    def store(self, t, value, op, env, ind):
        if not isinstance(t.value, ast.Name) or env.get(t.value.id) != 'list':
            self.fail(t, 'store into something else than a local 1-D array')
        a = self.var(t.value.id)
        self.gen[t.value.id] = self.gen.get(t.value.id, 0) + 1
        idxs = self.strip_ellipsis(t.slice)
        if len(idxs) != 1:
            self.fail(t, 'store does not match a 1-D array')
        i = idxs[0]
        self.literals.add(0)
        if isinstance(i, ast.Slice):
            if op:
                self.fail(t, 'augmented slice store')
            v = self.co(self.tx(value, env), 'list', t)
            if i.step is None:
                lo = self.index_of(i.lower, a, env) if i.lower is not None else '0'
                hi = self.index_of(i.upper, a, env) if i.upper is not None else '%s.length' % a
                return '%slet %s := (Np.setSlice %s %s %s %s)\n' % (ind, a, a, lo, hi, v)
            if isinstance(i.step, ast.Constant) and isinstance(i.step.value, int) and i.step.value >= 1 \
                    and i.upper is None:
                lo = self.index_of(i.lower, a, env) if i.lower is not None else '0'
                return '%slet %s := (Np.setStride %s %s %d %s)\n' % (ind, a, a, lo, i.step.value, v)
            self.fail(t, 'unsupported slice store')
        ix = self.index_of(i, a, env)
        e = self.co(self.tx(value, env), 's', t)
        if op:
            e = '((%s.getD %s (0 : α)) %s %s)' % (a, ix, op, e)
        return '%slet %s := (List.set %s %s %s)\n' % (ind, a, a, ix, e)

    def stmt_call_name(self, call):
        """the `known` key of a call statement: `super().__init__` resolves (opt-in `resolve_super`) to the `__init__` of
        the single base class of the method's class, registered under the class name"""
        f = ast.unparse(call.func)
        if f == 'super().__init__' and self.spec.get('resolve_super'):
            if not self.bases or len(self.bases) != 1:
                self.fail(call, 'super().__init__ in a class that does not have exactly one base')
            if self.bases[0] not in self.known or not self.known[self.bases[0]].get('state'):
                self.fail(call, 'super().__init__: the __init__ of %s is not translated' % self.bases[0])
            return self.bases[0]
        return f

    def h5_read(self, node, env):
        """`d[:]` / `d[...]` on a dataset of an open HDF5 file -> (parameter name, kind), else None"""
        if not isinstance(node, ast.Subscript):
            return None
        i = node.slice
        whole = (isinstance(i, ast.Slice) and i.lower is None and i.upper is None and i.step is None) or \
            (isinstance(i, ast.Constant) and i.value is Ellipsis)
        if not whole:
            return None
        snap = self.snapshot()
        try:
            _, ty = self.tx(node.value, env)
        except Untranslatable:
            self.restore(snap)
            return None
        if not is_h5(ty):
            self.restore(snap)
            return None
        res = self.resources[ty[1]]
        path = '/'.join(ty[2])
        if path not in res.get('datasets', {}):
            self.fail(node, 'read of an undeclared dataset %r' % path)
        kind = res['datasets'][path]
        nm = lname(re.sub(r'\W', '_', res['lean'] + '_' + '_'.join(ty[2])))
        self.add_param(nm, 'Option (%s)' % self.lean_ty(kind))
        return nm, kind

    def cont_text(self, rest, ind, tail, ctx):
        """the continuation of a nested statement list (`with` / `try` body): a `tail` that translates `rest`"""
        def k(e):
            if not rest and tail is None:
                raise Untranslatable('%s: a path does not end in return' % self.spec['func'])
            return self.block(rest, e, ind, tail, ctx).strip(' ').rstrip('\n') if rest else tail(e)
        return k

    def block(self, stmts, env, ind, tail, ctx=None):
        """statements -> text of a Lean term.  `tail(env)`: the value when the block falls through (None: must jump);
        ctx['cont'](env): the value of `continue`.  `env` is the caller's copy and is updated in place."""
        ctx = ctx or {}
        out = ''
        for i, s in enumerate(stmts):
            rest = stmts[i + 1:]
            if isinstance(s, ast.Expr) and isinstance(s.value, ast.Constant) and isinstance(s.value.value, str):
                continue
            if isinstance(s, (ast.Pass, ast.Import, ast.ImportFrom)):
                continue
            if isinstance(s, ast.With) and self.resources:
                # `with <resource>(…) as f:` — f is the open read-only file in the body and gone after it
                if len(s.items) != 1 or not isinstance(s.items[0].context_expr, ast.Call) \
                        or not isinstance(s.items[0].optional_vars, ast.Name) or ctx.get('cont'):
                    self.fail(s, 'unsupported with statement')
                c = s.items[0].context_expr
                key = ast.unparse(c.func)
                if key not in self.resources or c.keywords or len(c.args) != len(self.resources[key]['args']):
                    self.fail(s, 'with: undeclared resource / arguments')
                for a, k in zip(c.args, self.resources[key]['args']):
                    if isinstance(k, tuple) and k[0] == 'const':
                        if not (isinstance(a, ast.Constant) and a.value == k[1] and type(a.value) is type(k[1])):
                            self.fail(s, 'with: argument is not the declared constant %r' % (k[1],))
                    elif self.tx(a, env)[1] != k:
                        self.fail(s, 'with: argument is not a %s' % (k,))
                f = s.items[0].optional_vars.id
                env[f] = ('h5', key, ())
                self.gen[f] = self.gen.get(f, 0) + 1

                def after(e, f=f, rest=rest):
                    e.pop(f, None)
                    return self.cont_text(rest, ind, tail, ctx)(e)
                return out + self.block(s.body, env, ind, after, ctx)
            if isinstance(s, ast.Try) and self.resources:
                # try: <assignments, some of them dataset reads>  except KeyError: <… raise / return>
                h = s.handlers[0] if len(s.handlers) == 1 else None
                if h is None or s.orelse or s.finalbody or not isinstance(h.type, ast.Name) or h.type.id != 'KeyError' \
                        or not self.jumps(h.body) or isinstance(h.body[-1], ast.Continue) or ctx.get('cont') \
                        or not all(isinstance(b, ast.Assign) for b in s.body):
                    self.fail(s, 'unsupported try statement')
                outer = ctx

                def handler(e, h=h, outer=outer):
                    was, self.in_try = self.in_try, outer.get('keyerror') is not None
                    try:
                        txt = self.block(h.body, dict(e), ind + '    ', None, outer).strip(' ').rstrip('\n')
                    finally:
                        self.in_try = was
                    return '(\n%s    %s\n%s  )' % (ind, txt, ind) if '\n' in txt else txt
                was, self.in_try = self.in_try, True
                try:
                    def after_try(e, was=was, rest=rest):
                        self.in_try = was
                        return self.cont_text(rest, ind, tail, ctx)(e)
                    return out + self.block(s.body, env, ind, after_try, dict(ctx, keyerror=handler))
                finally:
                    self.in_try = was
            if isinstance(s, ast.Assign) and len(s.targets) == 1 and isinstance(s.targets[0], ast.Name) and self.resources:
                rd = self.h5_read(s.value, env)
                if rd is not None:
                    # the read of a whole dataset: `none` = no such object in the file = KeyError
                    if ctx.get('cont'):
                        self.fail(s, 'dataset read inside a loop')
                    if ctx.get('keyerror'):
                        failtxt = ctx['keyerror'](env)
                    elif self.raise_value is not None:
                        for n in re.findall(r'\((\d+) : α\)', self.raise_value):
                            self.literals.add(int(n))
                        failtxt = self.raise_value
                    else:
                        self.fail(s, 'dataset read outside a try (no total value declared for the KeyError)')
                    head = '%smatch %s with\n%s| none => %s\n%s| some v__ =>\n' % (ind, rd[0], ind, failtxt, ind)
                    head += self.bind(s.targets[0], 'v__', rd[1], env, ind, s)
                    return out + head + self.block(rest, env, ind, tail, ctx)
            if isinstance(s, ast.Expr) and isinstance(s.value, ast.Call):
                f = self.stmt_call_name(s.value)
                if f in self.known and self.known[f].get('state'):
                    txt, ty = self.call_known(f, s.value.args, s, env)
                    keys = self.known[f]['state']
                    tys = list(ty[1]) if is_tuple(ty) else [ty]
                    out += self.unpack_keys(keys, tys, txt, ind, env)
                    continue
                if re.search(self.ignore_calls, ast.unparse(s.value)):
                    continue
            if isinstance(s, ast.Raise):
                if self.raise_value is None:
                    self.fail(s, 'raise (no total value declared for it)')
                for n in re.findall(r'\((\d+) : α\)', self.raise_value):
                    self.literals.add(int(n))
                return out + ind + self.raise_value + '\n'
            if isinstance(s, ast.Continue):
                if not ctx.get('cont'):
                    self.fail(s, 'continue outside a translated loop')
                return out + ind + ctx['cont'](env) + '\n'
            if isinstance(s, ast.Return):
                if ctx.get('cont'):
                    self.fail(s, 'return inside a loop')
                if s.value is None:
                    if not self.state:
                        self.fail(s, 'bare return')
                    return out + ind + self.state_value(env) + '\n'
                if self.state:
                    self.fail(s, 'a state method that returns a value')
                res = self.tx(s.value, env)
                if is_lit(res[1]):
                    res = (self.co(res, 's', s), 's')
                if self.ret is not None and self.ret != res[1]:
                    self.fail(s, 'return values of different types (%s, %s)' % (self.ret, res[1]))
                self.ret = res[1]
                return out + ind + res[0] + '\n'
            if isinstance(s, ast.Assign):
                if len(s.targets) != 1:
                    self.fail(s, 'multiple assignment targets')
                t = s.targets[0]
                if isinstance(t, ast.Subscript):
                    out += self.store(t, s.value, None, env, ind)
                    continue
                txt, ty = self.tx(s.value, env)
                out += self.bind(t, txt, ty, env, ind, s)
                continue
            if isinstance(s, ast.AugAssign):
                ops = {ast.Add: '+', ast.Sub: '-', ast.Mult: '*', ast.Div: '/'}
                if type(s.op) not in ops:
                    self.fail(s, 'unsupported augmented assignment')
                t = s.target
                if isinstance(t, ast.Subscript):
                    out += self.store(t, s.value, ops[type(s.op)], env, ind)
                    continue
                txt, ty = self.arith(ops[type(s.op)], self.tx(t, env), self.tx(s.value, env), s)
                out += self.bind(t, txt, ty, env, ind, s)
                continue
            if isinstance(s, ast.For):
                out += self.loop(s, env, ind)
                continue
            if isinstance(s, ast.If):
                r = self.static(s.test, env)
                if r is not None:
                    # partial evaluation: the test is decided by the declared kinds
                    return out + self.block(list(s.body if r else s.orelse) + rest, env, ind, tail, ctx)
                c = self.cond(s.test, env)
                if self.jumps(s.body):
                    body = self.block(s.body, dict(env), ind + '  ', None, ctx)
                    other = self.block(list(s.orelse) + rest, env, ind + '  ', tail, ctx)
                    return out + '%sif %s then\n%s%selse\n%s' % (ind, c, body, ind, other)
                # variables that exist before the conditional are carried through it; the others are local to their
                # branch (a later use of one is an unknown name: Untranslatable)
                both = [n for n in self.vassigned(s.body, env) if n in self.vassigned(s.orelse, env)]
                names = [n for n in self.vassigned([s], env) if n in env or n in both]   # (both: definitely assigned)
                if not names:
                    self.fail(s, 'conditional without effect on the variables in scope')
                snap = self.snapshot()
                recs = []
                probe = lambda e: self.pack(names, e, None, recs)
                self.block(s.body, dict(env), ind + '    ', probe, ctx)
                self.block(s.orelse, dict(env), ind + '    ', probe, ctx)
                self.restore(snap)
                tys = self.merge_types(recs, lambda why: self.fail(s, why))
                before = dict(self.gen)
                outer = set(env)

                def final(e):
                    self.check_carried(before, names, {k: 0 for k in e if k in outer}, s)
                    return self.pack(names, e, tys)
                body = self.block(s.body, dict(env), ind + '    ', final, ctx)
                other = self.block(s.orelse, dict(env), ind + '    ', final, ctx)
                src = '(if %s then\n%s%s  else\n%s%s  )' % (c, body, ind, other, ind)
                out += self.unpack_keys(names, tys, src, ind, env)
                continue
            self.fail(s, 'unsupported statement')
        if tail is None:
            raise Untranslatable('%s: a path does not end in return' % self.spec['func'])
        return out + ind + tail(env) + '\n'

    def state_value(self, env):
        for k in self.state:
            if k not in env:
                raise Untranslatable('%s: state attribute %s is not assigned on every path' % (self.spec['func'], k))
        rec = []
        txt = self.pack(self.state, env, None, rec)
        tys = [('nat' if is_lit(t) else t) for t in rec[0]]
        ret = ('tuple', tuple(tys)) if len(tys) > 1 else tys[0]
        if self.ret is not None and self.ret != ret:
            raise Untranslatable('%s: state of different types on different paths' % self.spec['func'])
        self.ret = ret
        return self.pack(self.state, env, tys)

    def iterator(self, node, env):
        """(lean text of the list iterated over, python-side element type, lean element type text, enumerate?)"""
        if isinstance(node, ast.Call) and not node.keywords:
            f = ast.unparse(node.func)
            if f in ('range', 'numba.prange', 'prange'):
                a = node.args
                if len(a) == 1:
                    lo, cnt = '0', self.nat(a[0], env)
                elif len(a) == 2:
                    lo = self.nat(a[0], env)
                    cnt = '(%s - %s)' % (self.nat(a[1], env), lo)
                else:
                    self.fail(node, 'range with a step')
                return "(List.range' %s %s)" % (lo, cnt), 'nat'
            if f == 'zip' and len(node.args) >= 2:
                parts = [self.iterator(a, env) for a in node.args]
                txt = parts[-1][0]
                for p in reversed(parts[:-1]):
                    txt = '(List.zip %s %s)' % (p[0], txt)
                return txt, ('tuple', tuple(p[1] for p in parts))
        txt, ty = self.tx(node, env)
        if ty in ELEM:
            return txt, ELEM[ty]
        self.fail(node, 'unsupported loop iterator')

    def loop(self, s, env, ind):
        if s.orelse:
            self.fail(s, 'for/else')
        it = s.iter
        enum = isinstance(it, ast.Call) and ast.unparse(it.func) == 'enumerate' and len(it.args) == 1 and not it.keywords
        if enum:
            if not (isinstance(s.target, ast.Tuple) and len(s.target.elts) == 2):
                self.fail(s, 'enumerate must be unpacked into (index, value)')
            ltxt, ety = self.iterator(it.args[0], env)
            ltxt = '(List.zipIdx %s)' % ltxt
            lean_ety = '(%s × Nat)' % self.lean_ty(ety)
        else:
            ltxt, ety = self.iterator(it, env)
            lean_ety = self.lean_ty(ety)
        loopvars = self.vassigned([ast.Assign(targets=[s.target], value=None)])
        names = [n for n in self.vassigned(s.body, env) if n in env and n not in loopvars]
        outer = set(env)
        if not names:
            self.fail(s, 'loop without a carried variable')

        def body_text(state_tys, want):
            env2 = dict(env)
            txt = ''
            bind_ind = ind + '    '
            if state_tys is not None:
                if len(names) > 1:
                    for i, n in enumerate(names):
                        txt += '%slet %s := %s\n' % (bind_ind, self.key_name(n), self.proj('st__', i, len(names)))
                for n, t in zip(names, state_tys):
                    env2[n] = t
            if enum:
                txt += self.bind(s.target.elts[0], 'it__.2', 'nat', env2, bind_ind, s)
                txt += self.bind(s.target.elts[1], 'it__.1', ety, env2, bind_ind, s)
            else:
                txt += self.bind(s.target, 'it__', ety, env2, bind_ind, s)
            recs = []
            before = dict(self.gen)

            def ex(e):
                self.check_carried(before, names, {k: 0 for k in e if k in outer and k not in loopvars}, s)
                return self.pack(names, e, want, recs)
            txt += self.block(s.body, env2, bind_ind, ex, {'cont': ex})
            return txt, recs
        # pass 1: the types of the carried variables at the exits of the body (literals are resolved by them)
        snap = self.snapshot()
        _, recs = body_text(None, None)
        self.restore(snap)
        init_tys = [env[n] for n in names]
        tys = self.merge_types(recs + [init_tys], lambda why: self.fail(s, why))
        snap = self.snapshot()
        _, recs = body_text(tys, None)          # pass 2: check that the resolved types are stable
        self.restore(snap)
        if self.merge_types(recs + [tys], lambda why: self.fail(s, why)) != tys:
            self.fail(s, 'carried variables change type in the loop')
        body, _ = body_text(tys, tys)
        stvar = 'st__' if len(names) > 1 else self.key_name(names[0])
        sty = self.lean_ty(('tuple', tuple(tys)))
        init = self.pack(names, env, tys)
        src = '(List.foldl (fun (%s : %s) (it__ : %s) =>\n%s%s  ) %s %s)' % (stvar, sty, lean_ety, body, ind, init, ltxt)
        return self.unpack_keys(names, tys, src, ind, env)

    # ------------------------------------------------------------------ whole function
    def translate(self):
        node = self.node
        if node.args.vararg or node.args.kwarg or node.args.kwonlyargs:
            self.fail(node, 'unsupported signature')
        env = {}
        params = []
        self.arg_kinds = []
        self.arg_names = []
        for a in node.args.args:
            if a.arg == 'self':
                continue
            self.arg_names.append(a.arg)
            k = self.kinds.get(a.arg)
            if k is None:
                raise Untranslatable('%s: parameter %s has no declared kind (signature changed?)'
                                     % (self.spec['func'], a.arg))
            self.arg_kinds.append(k)
            if k == 'skip':
                continue
            env[a.arg] = k
            if k != 'none':
                params.append('(%s : %s)' % (self.var(a.arg), self.lean_ty(k)))
        declared = [p for p in self.kinds if p not in [a.arg for a in node.args.args]]
        if declared:
            raise Untranslatable('%s: declared parameter(s) %s no longer in the signature' % (self.spec['func'], declared))
        tail = (lambda e: self.state_value(e)) if self.state else None
        body = self.block(node.body, env, '  ', tail)
        if self.ret is None:
            raise Untranslatable('%s: no return value' % self.spec['func'])
        self.extra_params.sort()
        extra = ''.join(' (%s : %s)' % (n, t) for n, t in self.extra_params)
        head = 'def %s %s%s : %s :=\n' % (self.spec.get('lean', self.spec['func']), ' '.join(params), extra,
                                           self.lean_ty(self.ret))
        self.known_extra = dict(ret=self.ret, state=list(self.state), prop=bool(self.spec.get('prop')),
                                raises=self.raise_value is not None)
        return head + body
