import TaurexModel.DriverCore
import TaurexModel.Ops.C09

def main : IO Unit := Taurex.driverMain Taurex.Ops.C09.ops
