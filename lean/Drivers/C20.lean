import TaurexModel.DriverCore
import TaurexModel.Ops.C20

def main : IO Unit := Taurex.driverMain Taurex.Ops.C20.ops
