import TaurexModel.DriverCore
import TaurexModel.Ops.C08

def main : IO Unit := Taurex.driverMain Taurex.Ops.C08.ops
