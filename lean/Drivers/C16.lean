import TaurexModel.DriverCore
import TaurexModel.Ops.C16

def main : IO Unit := Taurex.driverMain Taurex.Ops.C16.ops
