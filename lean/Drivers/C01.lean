import TaurexModel.DriverCore
import TaurexModel.Ops.C01

def main : IO Unit := Taurex.driverMain Taurex.Ops.C01.ops
