import TaurexModel.DriverCore
import TaurexModel.Ops.C06

def main : IO Unit := Taurex.driverMain Taurex.Ops.C06.ops
