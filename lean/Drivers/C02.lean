import TaurexModel.DriverCore
import TaurexModel.Ops.C02

def main : IO Unit := Taurex.driverMain Taurex.Ops.C02.ops
