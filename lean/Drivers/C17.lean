import TaurexModel.DriverCore
import TaurexModel.Ops.C17

def main : IO Unit := Taurex.driverMain Taurex.Ops.C17.ops
