import TaurexModel.DriverCore
import TaurexModel.Ops.C18

def main : IO Unit := Taurex.driverMain Taurex.Ops.C18.ops
