import TaurexModel.DriverCore
import TaurexModel.Ops.C04

def main : IO Unit := Taurex.driverMain Taurex.Ops.C04.ops
