import TaurexModel.DriverCore
import TaurexModel.Ops.C12

def main : IO Unit := Taurex.driverMain Taurex.Ops.C12.ops
