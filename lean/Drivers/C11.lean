import TaurexModel.DriverCore
import TaurexModel.Ops.C11

def main : IO Unit := Taurex.driverMain Taurex.Ops.C11.ops
