import TaurexModel.DriverCore
import TaurexModel.Ops.C10

def main : IO Unit := Taurex.driverMain Taurex.Ops.C10.ops
