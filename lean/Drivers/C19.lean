import TaurexModel.DriverCore
import TaurexModel.Ops.C19

def main : IO Unit := Taurex.driverMain Taurex.Ops.C19.ops
