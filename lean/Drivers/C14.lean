import TaurexModel.DriverCore
import TaurexModel.Ops.C14

def main : IO Unit := Taurex.driverMain Taurex.Ops.C14.ops
