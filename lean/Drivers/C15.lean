import TaurexModel.DriverCore
import TaurexModel.Ops.C15

def main : IO Unit := Taurex.driverMain Taurex.Ops.C15.ops
