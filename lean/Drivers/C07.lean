import TaurexModel.DriverCore
import TaurexModel.Ops.C07

def main : IO Unit := Taurex.driverMain Taurex.Ops.C07.ops
