import TaurexModel.DriverCore
import TaurexModel.Ops.C05

def main : IO Unit := Taurex.driverMain Taurex.Ops.C05.ops
