import TaurexModel.DriverCore
import TaurexModel.Ops.C13

def main : IO Unit := Taurex.driverMain Taurex.Ops.C13.ops
