import TaurexModel.DriverCore
import TaurexModel.Ops.C03

def main : IO Unit := Taurex.driverMain Taurex.Ops.C03.ops
