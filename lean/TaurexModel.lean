import TaurexModel.Num
import TaurexModel.Proto
import TaurexModel.Interp
import TaurexModel.Ops
