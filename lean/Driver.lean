import TaurexModel

open Taurex

def handle (line : String) : String :=
  match (line.trimAscii.toString.splitOn " ").filter (· ≠ "") with
  | [] => "err empty"
  | op :: args =>
    match Ops.all.lookup op with
    | none => "err unknown-op " ++ op
    | some h =>
      match h args with
      | some r => "ok " ++ r
      | none => "err bad-args " ++ op

partial def loop (hin hout : IO.FS.Stream) : IO Unit := do
  let line ← hin.getLine
  if line.isEmpty then return ()
  hout.putStrLn (handle line)
  hout.flush
  loop hin hout

def main : IO Unit := do
  loop (← IO.getStdin) (← IO.getStdout)
