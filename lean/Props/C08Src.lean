/-
  C08 — source tie.  `TaurexModel/Gen/SrcC08.lean` is regenerated on every run by `harness/translate.py` from the source
  text of taurex/core/priors.py.  The theorems below state, for EVERY carrier (no algebra is used: both sides unfold to
  the same term), that each regenerated method is the hand-written model function of `TaurexModel/Priors.lean` that the C08
  theorems are about and that `driver_c08` executes.  A source change that alters one of these methods makes the
  corresponding theorem fail to check.

  How the pieces are instantiated (what the calling code passes):
  * attributes the methods read (`self._low_bounds`, `self._scale`, `self._loc`, `self._prior_mode`) are parameters of the
    translation; the theorems instantiate them with what the constructor stored — for `Uniform`/`LogUniform` literally the
    triple returned by the translated `set_bounds`;
  * `scipy.stats.uniform.ppf(q, loc=, scale=)` and `scipy.stats.norm.ppf(q, loc=, scale=)` are externals (function
    parameters `uniform_ppf q loc scale`, `norm_ppf q loc scale`), instantiated with the model's `uniformPpf`, `normPpf`
    (documented behaviour of scipy, validated numerically by harness/c08.py on every run);
  * the float literals `0.1`, `0.9` of `Gaussian.boundaries` are the parameters `c0p1`, `c0p9`, instantiated with the
    carrier's literals `0.1`, `0.9`;
  * `PriorMode.LINEAR` / `PriorMode.LOG` are encoded as 0 / 1 (`modeCode`).
-/
import TaurexModel.Gen.SrcC08
import TaurexModel.Priors
set_option linter.unusedSectionVars false

namespace Taurex.C08Src
open Taurex.Priors

section
variable {α : Type} [Add α] [Sub α] [Mul α] [Div α] [Neg α] [LT α] [LE α]
  [DecidableLT α] [DecidableLE α] [Taurex.Transc α] [OfNat α 0]

/-- the code's `PriorMode` member, as the translator encodes it -/
def modeCode : PriorMode → Nat
  | .linear => 0
  | .log => 1

/-- the model's `scipy.stats.uniform.ppf`, in scipy's argument order `(q, loc, scale)` -/
def uPpf : α → α → α → α := fun q loc scale => uniformPpf loc scale q

/-- the model's `scipy.stats.norm.ppf`, in scipy's argument order `(q, loc, scale)` -/
def nPpf (ppf : α → α) : α → α → α → α := fun q loc scale => normPpf ppf loc scale q

/-- `Prior.prior(value)` is `Prior.back` -/
theorem src_prior_back (p : Prior α) (x : α) :
    Gen.SrcC08.Prior_prior x (modeCode p.mode) = p.back x := by
  cases p <;> rfl

/-- `Uniform.set_bounds([b0, b1])` stores `(_low_bounds, _up_bounds, _scale) = (pyMin, pyMax, pyMax - pyMin)` … -/
theorem src_set_bounds (b0 b1 : α) :
    Gen.SrcC08.Uniform_set_bounds b0 b1 = (pyMin b0 b1, pyMax b0 b1, pyMax b0 b1 - pyMin b0 b1) := rfl

/-- … i.e. exactly the attributes of the model's `mkUniform` / `mkLogUniform` objects -/
theorem src_set_bounds_uniform (b0 b1 : α) :
    mkUniform b0 b1 = .uniform (Gen.SrcC08.Uniform_set_bounds b0 b1).1 (Gen.SrcC08.Uniform_set_bounds b0 b1).2.1 ∧
    mkLogUniform b0 b1 = .logUniform (Gen.SrcC08.Uniform_set_bounds b0 b1).1 (Gen.SrcC08.Uniform_set_bounds b0 b1).2.1 :=
  ⟨rfl, rfl⟩

/-- `Uniform.sample(u)` on the attributes `set_bounds` left behind is `Prior.sample` of `mkUniform` -/
theorem src_uniform_sample (ppf : α → α) (b0 b1 u : α) :
    Gen.SrcC08.Uniform_sample u (low_bounds := (Gen.SrcC08.Uniform_set_bounds b0 b1).1)
        (scale := (Gen.SrcC08.Uniform_set_bounds b0 b1).2.2) (uniform_ppf := uPpf)
      = (mkUniform b0 b1).sample ppf u := rfl

/-- `LogUniform` inherits `sample` from `Uniform` -/
theorem src_loguniform_sample (ppf : α → α) (b0 b1 u : α) :
    Gen.SrcC08.Uniform_sample u (low_bounds := (Gen.SrcC08.Uniform_set_bounds b0 b1).1)
        (scale := (Gen.SrcC08.Uniform_set_bounds b0 b1).2.2) (uniform_ppf := uPpf)
      = (mkLogUniform b0 b1).sample ppf u := rfl

/-- `Uniform.boundaries()` (inherited by `LogUniform`) -/
theorem src_uniform_boundaries [OfScientific α] (ppf : α → α) (b0 b1 : α) :
    Gen.SrcC08.Uniform_boundaries (low_bounds := (Gen.SrcC08.Uniform_set_bounds b0 b1).1)
        (up_bounds := (Gen.SrcC08.Uniform_set_bounds b0 b1).2.1)
      = (mkUniform b0 b1).boundaries ppf ∧
    Gen.SrcC08.Uniform_boundaries (low_bounds := (Gen.SrcC08.Uniform_set_bounds b0 b1).1)
        (up_bounds := (Gen.SrcC08.Uniform_set_bounds b0 b1).2.1)
      = (mkLogUniform b0 b1).boundaries ppf := ⟨rfl, rfl⟩

/-- `Gaussian.sample(u)` (inherited by `LogGaussian`) with `_loc = mean`, `_scale = std` -/
theorem src_gaussian_sample (ppf : α → α) (mean std u : α) :
    Gen.SrcC08.Gaussian_sample u (loc := mean) (scale := std) (norm_ppf := nPpf ppf)
      = (mkGaussian mean std).sample ppf u ∧
    Gen.SrcC08.Gaussian_sample u (loc := mean) (scale := std) (norm_ppf := nPpf ppf)
      = (Prior.logGaussian mean std).sample ppf u := ⟨rfl, rfl⟩

/-- `Gaussian.boundaries()` = `(sample(0.1), sample(0.9))` (inherited by `LogGaussian`) -/
theorem src_gaussian_boundaries [OfScientific α] (ppf : α → α) (mean std : α) :
    Gen.SrcC08.Gaussian_boundaries (c0p1 := 0.1) (c0p9 := 0.9) (loc := mean) (scale := std) (norm_ppf := nPpf ppf)
      = (mkGaussian mean std).boundaries ppf ∧
    Gen.SrcC08.Gaussian_boundaries (c0p1 := 0.1) (c0p9 := 0.9) (loc := mean) (scale := std) (norm_ppf := nPpf ppf)
      = (Prior.logGaussian mean std).boundaries ppf := ⟨rfl, rfl⟩

/-! ## constructors (`__init__`), translated with the methods they call (`super().__init__`, `set_bounds`)

  The result of a translated constructor is the tuple of the attributes it leaves behind:
  `(_prior_mode, _low_bounds, _up_bounds, _scale)` resp. `(_prior_mode, _loc, _scale)`.  `math.log10` raises `ValueError`
  for a non-positive argument; the translation's `log10` is total, the model's constructors return `none` there: the
  theorems about `lin_bounds` / `lin_mean` / `lin_std` are stated for the arguments on which the model constructs an object. -/

/-- `Uniform(bounds=[b0, b1])` is `mkUniform b0 b1`, mode LINEAR -/
theorem src_uniform_init (b0 b1 : α) :
    Gen.SrcC08.Uniform_init b0 b1
      = (modeCode (mkUniform b0 b1).mode, pyMin b0 b1, pyMax b0 b1, pyMax b0 b1 - pyMin b0 b1) := rfl

/-- `LogUniform(bounds=[b0, b1])` (no `lin_bounds`) is `mkLogUniform b0 b1`, mode LOG -/
theorem src_loguniform_init (b0 b1 : α) :
    Gen.SrcC08.LogUniform_init b0 b1 none
      = (modeCode (mkLogUniform b0 b1).mode, pyMin b0 b1, pyMax b0 b1, pyMax b0 b1 - pyMin b0 b1) := rfl

/-- `LogUniform(bounds=…, lin_bounds=[l0, l1])`: whenever the model's `mkLogUniformLin` constructs an object (both bounds
    positive), the attributes are that object's — whatever `bounds` was given -/
theorem src_loguniform_init_lin (b0 b1 l0 l1 : α) (p : Prior α) (h : mkLogUniformLin l0 l1 = some p) :
    ∃ lo up, p = .logUniform lo up ∧
      Gen.SrcC08.LogUniform_init b0 b1 (some (l0, l1)) = (modeCode p.mode, lo, up, up - lo) := by
  unfold mkLogUniformLin log10? at h
  by_cases h0 : (0 : α) < l0 <;> by_cases h1 : (0 : α) < l1 <;> simp [h0, h1] at h
  subst h
  exact ⟨_, _, rfl, rfl⟩

/-- `Gaussian(mean, std)` is `mkGaussian mean std`, mode LINEAR -/
theorem src_gaussian_init (mean std : α) :
    Gen.SrcC08.Gaussian_init mean std = (modeCode (mkGaussian mean std).mode, mean, std) ∧
    mkGaussian mean std = .gaussian mean std := ⟨rfl, rfl⟩

/-- `LogGaussian(mean, std, lin_mean, lin_std)`: whenever the model's `mkLogGaussian` constructs an object, the attributes
    are that object's, mode LOG -/
theorem src_loggaussian_init (mean std : α) (lm ls : Option α) (p : Prior α) (h : mkLogGaussian mean std lm ls = some p) :
    ∃ loc sc, p = .logGaussian loc sc ∧
      Gen.SrcC08.LogGaussian_init mean std lm ls = (modeCode p.mode, loc, sc) := by
  unfold mkLogGaussian log10? at h
  cases lm with
  | none =>
    cases ls with
    | none =>
      simp at h; subst h; exact ⟨_, _, rfl, rfl⟩
    | some s =>
      by_cases hs : (0 : α) < s <;> simp [hs] at h
      subst h; exact ⟨_, _, rfl, rfl⟩
  | some m =>
    cases ls with
    | none =>
      by_cases hm : (0 : α) < m <;> simp [hm] at h
      subst h; exact ⟨_, _, rfl, rfl⟩
    | some s =>
      by_cases hm : (0 : α) < m <;> by_cases hs : (0 : α) < s <;> simp [hm, hs] at h
      subst h; exact ⟨_, _, rfl, rfl⟩

end

end Taurex.C08Src
