/-
  C13 — the property theorems restated about the REGENERATED source.  `Props/C13Src.lean` proves that the definitions
  translated on every run from `taurex/util/util.py:clip_native_to_wngrid` (with `compute_bin_edges`),
  `taurex/opacity/opacity.py:Opacity.opacity` and `taurex/opacity/ktables/ktable.py:KTable.opacity` compute the model's
  `clipNative` and `opacityOnGrid`; `Props/C13.lean` proves the property about those.  The corollaries below compose the
  two: statements about the text of the code as it is now, over ℝ.

  Source expressions (instantiated exactly as the tie theorems instantiate them):
  * `srcClip native wngrid` — the regenerated `clip_native_to_wngrid(native, wngrid)`, the float literal `1.25` = `5/4`;
  * `srcOpacity nativeWn vals req` — the regenerated `Opacity.opacity(T, P, wngrid=req)` with `compute_opacity(T, P, idx)` =
    the native values `vals` at the indices `idx` and `np.interp` = `npInterp`;
  * `srcKtOpacity nativeWn vals req` — the regenerated `KTable.opacity`, one g-point column, scipy's `interp1d` (clamped
    ends) = `npInterp` mapped over the request.
  Guards of the ties that stay visible (`src_opacity_on_grid_real`): one value per native point, strictly increasing
  non-empty native grid, non-empty request.

  Not restated (no tie in `Props/C13Src.lean`):
  * `column_independent_trans`, `column_within_cutoff`, `column_within_clamp_emission`: statements about the forward models
    of C01 / C02 (`Taurex.Transmission`, `Taurex.Emission`), whose ties are `Props/C01Src.lean`, `Props/C02Src.lean`;
  * `bin_clip_eq_partial`, `bin_clip_eq`, `bin_clip_eq_uniform`, `bin_clip_eq_uniform_condition`, `bin_clip_eq_condition`,
    `bin_clip_eq_condition_ratio`: statements about `fluxBinVal` / `nativeBins` on an abstract clip interval (C05's model
    of `FluxBinner`, tied in `Props/C05Src.lean`); they involve no function of this property's source.  Their corollaries
    for the code's clip (`bin_clip_eq_property`, `…_ratio`, `bin_clip_eq_uniform_property`) are restated with the regenerated
    `clip_native_to_wngrid` naming the centres of the restricted run;
  * `clip_rows_eq_clipNativePinned`, `bin_clip_eq_pinned`, `bin_clip_condition_sharp`: about the pre-fix clip
    (`clipNativePinned`, margin `W`), which is not the source any more.
-/
import Props.C13
import Props.C13Src
set_option linter.unusedSectionVars false

namespace Taurex.C13SrcProps
open Taurex.Binning Taurex.Grid Taurex.Gen Taurex.C13L Taurex.C13 Taurex.C13Src

/-! ### the instantiated source expressions -/

/-- the regenerated `clip_native_to_wngrid(native, wngrid)` -/
noncomputable def srcClip (native wngrid : List ℝ) : List ℝ :=
  SrcC13.clip_native_to_wngrid native wngrid (c1p25 := 5 / 4)

/-- the regenerated `Opacity.opacity(T, P, wngrid=req)` on a molecule with native grid `nativeWn` and values `vals` -/
noncomputable def srcOpacity (nativeWn vals req : List ℝ) : List ℝ :=
  SrcC13.opacity_on_grid req (fun idx => Np.take 0 vals idx) (fun x xp fp => NpInterp.npInterp xp fp x) nativeWn

/-- the regenerated `KTable.opacity(T, P, wngrid=req)`, one g-point column -/
noncomputable def srcKtOpacity (nativeWn vals req : List ℝ) : List ℝ :=
  SrcC13.ktable_opacity_on_grid req (fun idx => Np.take 0 vals idx)
    (fun xp fp _ _ _ _ _ r => r.map (NpInterp.npInterp xp fp)) nativeWn

theorem srcClip_eq (native wngrid : List ℝ) : srcClip native wngrid = clipNative native wngrid :=
  src_clip_native native wngrid

theorem srcOpacity_eq (nativeWn vals req : List ℝ) (hlen : vals.length = nativeWn.length)
    (hs : nativeWn.Pairwise (· < ·)) (hne : nativeWn ≠ []) (hreq : req ≠ []) :
    srcOpacity nativeWn vals req = opacityOnGrid nativeWn vals req :=
  src_opacity_on_grid_real nativeWn vals req hlen hs hne hreq

theorem srcKtOpacity_eq (nativeWn vals req : List ℝ) (hlen : vals.length = nativeWn.length)
    (hs : nativeWn.Pairwise (· < ·)) (hne : nativeWn ≠ []) (hreq : req ≠ []) :
    srcKtOpacity nativeWn vals req = opacityOnGrid nativeWn vals req :=
  src_ktable_opacity_on_grid_real nativeWn vals req hlen hs hne hreq

/-! ### the clip of the native grid -/

/-- the clipped grid is an ordered sub-list of the native grid, about the regenerated `clip_native_to_wngrid` -/
theorem src_clip_sub (native wngrid : List ℝ) : (srcClip native wngrid).Sublist native := by
  rw [srcClip_eq]; exact clip_sub native wngrid

/-- exactly the native points within the request range widened by the margin survive the regenerated clip -/
theorem src_clip_mem_iff (native wngrid : List ℝ) (x : ℝ) :
    x ∈ srcClip native wngrid ↔
      x ∈ native ∧ minL wngrid - clipMargin wngrid ≤ x ∧ x ≤ maxL wngrid + clipMargin wngrid := by
  rw [srcClip_eq]; exact clip_mem_iff native wngrid x

/-- every native point inside the requested range is kept by the regenerated clip: the margin is never negative -/
theorem src_clip_keeps_requested (native wngrid : List ℝ) (x : ℝ) (hx : x ∈ native)
    (hlo : minL wngrid ≤ x) (hhi : x ≤ maxL wngrid) : x ∈ srcClip native wngrid := by
  rw [srcClip_eq]; exact clip_keeps_requested native wngrid x hx hlo hhi

/-- clipping twice with the same request is clipping once (the restricted run is stable), regenerated clip -/
theorem src_clip_idem (native wngrid : List ℝ) :
    srcClip (srcClip native wngrid) wngrid = srcClip native wngrid := by
  rw [srcClip_eq native wngrid, srcClip_eq]; exact clip_idem native wngrid

/-! ### opacities on a requested grid -/

/-- **own_grid_identity**: when the native points inside the requested range are the request itself, the regenerated
    `Opacity.opacity` and `KTable.opacity` return the opacities of those points unchanged (no interpolation) -/
theorem src_own_grid_identity (nativeWn vals req : List ℝ) (hlen : vals.length = nativeWn.length)
    (hs : nativeWn.Pairwise (· < ·)) (hne : nativeWn ≠ []) (hreq : req ≠ [])
    (h : ((nativeWn.zip vals).filter (fun p => inRange req p.1)).map (·.1) = req) :
    srcOpacity nativeWn vals req = ((nativeWn.zip vals).filter (fun p => inRange req p.1)).map (·.2) ∧
    srcKtOpacity nativeWn vals req = ((nativeWn.zip vals).filter (fun p => inRange req p.1)).map (·.2) := by
  rw [srcOpacity_eq nativeWn vals req hlen hs hne hreq, srcKtOpacity_eq nativeWn vals req hlen hs hne hreq]
  exact ⟨own_grid_identity nativeWn vals req h, own_grid_identity nativeWn vals req h⟩

/-- **other_grid_between**: on any other request every opacity the regenerated `Opacity.opacity` / `KTable.opacity`
    returns lies between the smallest and largest of the native values (request overlapping the native grid) -/
theorem src_other_grid_between (nativeWn vals req : List ℝ) (lo hi : ℝ) (hlen : vals.length = nativeWn.length)
    (hs : nativeWn.Pairwise (· < ·)) (hne' : nativeWn ≠ []) (hreq : req ≠ [])
    (hv : ∀ v ∈ vals, lo ≤ v ∧ v ≤ hi)
    (hne : 0 < ((nativeWn.drop (Interp.searchRight nativeWn (minL req) - 1)).take
      (min (Interp.searchLeft nativeWn (maxL req)) (nativeWn.length - 1) + 1 -
        (Interp.searchRight nativeWn (minL req) - 1))).length) :
    (∀ y ∈ srcOpacity nativeWn vals req, lo ≤ y ∧ y ≤ hi) ∧ (∀ y ∈ srcKtOpacity nativeWn vals req, lo ≤ y ∧ y ≤ hi) := by
  rw [srcOpacity_eq nativeWn vals req hlen hs hne' hreq, srcKtOpacity_eq nativeWn vals req hlen hs hne' hreq]
  have h := other_grid_between nativeWn vals req lo hi hlen.symm (hs.imp le_of_lt) hv hne
  exact ⟨h, h⟩

/-! ### binning the restricted run -/

/-- the rows whose centre survives the code's clip have the centres the regenerated `clip_native_to_wngrid` returns -/
theorem src_clip_rows (full : List (Row ℝ)) (obs : List ℝ) :
    (full.filter (fun r => inClip obs r.c)).map Row.c = srcClip (full.map Row.c) obs := by
  rw [srcClip_eq]; exact clip_rows_eq_clipNative full obs

/-- **bin_clip_eq — the property's statement, for the code as it is**: the restricted run holds the native rows whose
    centres the regenerated `clip_native_to_wngrid(native, obs)` returns; with every native spacing `≤ W/2` (`W` the
    widest mid-point bin of the observation), ordered mid-point bins (native and kept grid), an observation bin `[a, b]`
    reaching at most `W/2` beyond the outermost requested centres and overlapping the data, binning the restricted run
    equals binning the full run -/
theorem src_bin_clip_eq_property (val : Row ℝ → ℝ) (full : List (Row ℝ)) (obs : List ℝ) (a b : ℝ)
    (hg : (full.map Row.c).Pairwise (· < ·))
    (hokF : MidpointSpacingOK (full.map Row.c))
    (hokC : MidpointSpacingOK (srcClip (full.map Row.c) obs))
    (hsp : ∀ j, j + 1 < (full.map Row.c).length → spacing (full.map Row.c) j ≤ widestBin obs / 2)
    (hab : a < b) (ha : minL obs - widestBin obs / 2 ≤ a) (hb : b ≤ maxL obs + widestBin obs / 2)
    (hkept : 2 ≤ (srcClip (full.map Row.c) obs).length)
    (hposF : 0 < sumL ((nativeBins false full).map (overlap a b))) :
    (full.filter (fun r => inClip obs r.c)).map Row.c = srcClip (full.map Row.c) obs ∧
    fluxBinVal val (nativeBins false full) a b =
      fluxBinVal val (nativeBins false (full.filter (fun r => inClip obs r.c))) a b := by
  rw [srcClip_eq] at hokC hkept ⊢
  exact ⟨clip_rows_eq_clipNative full obs, bin_clip_eq_property val full obs a b hg hokF hokC hsp hab ha hb hkept hposF⟩

/-- the same with the hereditary spacing condition `RatioOK` (linear, logarithmic and constant-R native grids with step
    ratio `≤ 4`) instead of the two `MidpointSpacingOK` -/
theorem src_bin_clip_eq_property_ratio (val : Row ℝ → ℝ) (full : List (Row ℝ)) (obs : List ℝ) (a b : ℝ)
    (hg : (full.map Row.c).Pairwise (· < ·)) (hr : RatioOK (full.map Row.c))
    (hsp : ∀ j, j + 1 < (full.map Row.c).length → spacing (full.map Row.c) j ≤ widestBin obs / 2)
    (hab : a < b) (ha : minL obs - widestBin obs / 2 ≤ a) (hb : b ≤ maxL obs + widestBin obs / 2)
    (hkept : 2 ≤ (srcClip (full.map Row.c) obs).length)
    (hposF : 0 < sumL ((nativeBins false full).map (overlap a b))) :
    (full.filter (fun r => inClip obs r.c)).map Row.c = srcClip (full.map Row.c) obs ∧
    fluxBinVal val (nativeBins false full) a b =
      fluxBinVal val (nativeBins false (full.filter (fun r => inClip obs r.c))) a b := by
  rw [srcClip_eq] at hkept ⊢
  exact ⟨clip_rows_eq_clipNative full obs, bin_clip_eq_property_ratio val full obs a b hg hr hsp hab ha hb hkept hposF⟩

/-- **bin_clip_eq on a uniform native grid, for the regenerated clip**: constant native spacing `d ≤ 3/2·W` -/
theorem src_bin_clip_eq_uniform_property (val : Row ℝ → ℝ) (full : List (Row ℝ)) (obs : List ℝ) (d a b : ℝ)
    (hd0 : 0 < d) (hd : ∀ j, j + 1 < (full.map Row.c).length → spacing (full.map Row.c) j = d)
    (hdW : d ≤ 3 / 2 * widestBin obs) (hab : a < b)
    (ha : minL obs - widestBin obs / 2 ≤ a) (hb : b ≤ maxL obs + widestBin obs / 2)
    (hkept : 2 ≤ (srcClip (full.map Row.c) obs).length)
    (hposF : 0 < sumL ((nativeBins false full).map (overlap a b)))
    (hposC : 0 < sumL ((nativeBins false (full.filter (fun r => inClip obs r.c))).map (overlap a b))) :
    (full.filter (fun r => inClip obs r.c)).map Row.c = srcClip (full.map Row.c) obs ∧
    fluxBinVal val (nativeBins false full) a b =
      fluxBinVal val (nativeBins false (full.filter (fun r => inClip obs r.c))) a b := by
  rw [srcClip_eq] at hkept ⊢
  exact ⟨clip_rows_eq_clipNative full obs,
    bin_clip_eq_uniform_property val full obs d a b hd0 hd hdW hab ha hb hkept hposF hposC⟩

end Taurex.C13SrcProps
