/-
  C04 — the property theorems restated about the REGENERATED source.  `Props/C04Src.lean` proves that the definition
  translated on every run from `InterpolatingOpacity.interp_bilinear_grid` (with `find_closest_pair`, the four kernels, the
  two one-axis helpers) equals the model's `bilinearGrid`; `Props/C04.lean` proves the property about `bilinearGrid`.
  The corollaries below compose the two: they are statements about the text of the code as it is now, at the real carrier.
  `srcValue mode tg pg tab t p` is the value `interp_bilinear_grid(T, log10 P, *find_closest_index(T, log10 P))` computes
  for one wavenumber: the indices are `find_closest_pair`'s, `pressureBounds`/`temperatureBounds` the first and last node.
-/
import Props.C04
import Props.C04Src
set_option linter.unusedSectionVars false

namespace Taurex.C04SrcProps
open Taurex.Interp Taurex.C04 Taurex.C04Src Taurex.C04L

/-- what the regenerated `interp_bilinear_grid` returns, called as `compute_opacity` calls it -/
noncomputable def srcValue (mode : Mode) (tg pg : List ℝ) (tab : List (List ℝ)) (t p : ℝ) : ℝ :=
  Gen.SrcC04.interp_bilinear_grid t p
    (Gen.SrcC04.find_closest_pair tg.length (searchLeft tg t)).1 (Gen.SrcC04.find_closest_pair tg.length (searchLeft tg t)).2
    (Gen.SrcC04.find_closest_pair pg.length (searchLeft pg p)).1 (Gen.SrcC04.find_closest_pair pg.length (searchLeft pg p)).2
    (mode := modeCode mode) (nP := pg.length) (nT := tg.length)
    (pMaxB := pg.getD (pg.length - 1) 0) (pMinB := pg.getD 0 0) (pg := fun i => pg.getD i 0) (pressureMax := 0)
    (tMaxB := tg.getD (tg.length - 1) 0) (tMinB := tg.getD 0 0) (temperatureMax := 0)
    (tg := fun i => tg.getD i 0) (xsec := fun i j => at2 tab i j)

theorem srcValue_eq (mode : Mode) (tg pg : List ℝ) (tab : List (List ℝ)) (t p : ℝ) :
    srcValue mode tg pg tab t p = bilinearGrid mode tg pg tab t p := by
  unfold srcValue
  rw [src_find_closest_pair, src_find_closest_pair]
  exact src_bilinear_grid mode tg pg tab t p 0 0

/-- never extrapolated (linear mode), about the regenerated source -/
theorem src_between_nodes_linear (tg pg : List ℝ) (tab : List (List ℝ)) (t p : ℝ)
    (hT : Sorted tg) (hP : Sorted pg) (hnT : 2 ≤ tg.length) (hnP : 2 ≤ pg.length)
    (hnb : ¬ (t < tg.getD 0 0 ∧ p < pg.getD 0 0)) :
    nodeMin tab (bracketIdx pg p) (bracketIdx tg t) ≤ srcValue .linear tg pg tab t p ∧
    srcValue .linear tg pg tab t p ≤ nodeMax tab (bracketIdx pg p) (bracketIdx tg t) := by
  rw [srcValue_eq]; exact between_nodes_linear tg pg tab t p hT hP hnT hnP hnb

/-- documented zero below both minima, about the regenerated source -/
theorem src_both_min_zero (mode : Mode) (tg pg : List ℝ) (tab : List (List ℝ)) (t p : ℝ)
    (hT : Sorted tg) (hP : Sorted pg) (hnT : 2 ≤ tg.length) (hnP : 2 ≤ pg.length)
    (ht : t < tg.getD 0 0) (hp : p < pg.getD 0 0) : srcValue mode tg pg tab t p = 0 := by
  rw [srcValue_eq]; exact both_min_zero mode tg pg tab t p hT hP hnT hnP ht hp

/-- never negative in linear mode for a non-negative table, about the regenerated source -/
theorem src_nonneg_linear (tg pg : List ℝ) (tab : List (List ℝ)) (t p : ℝ)
    (hT : Sorted tg) (hP : Sorted pg) (hnT : 2 ≤ tg.length) (hnP : 2 ≤ pg.length)
    (h0 : ∀ i j, 0 ≤ at2 tab i j) : 0 ≤ srcValue .linear tg pg tab t p := by
  rw [srcValue_eq]; exact nonneg_linear tg pg tab t p hT hP hnT hnP h0

/-- never extrapolated (exp mode, positive table), about the regenerated source -/
theorem src_between_nodes_exp (tg pg : List ℝ) (tab : List (List ℝ)) (t p : ℝ)
    (hT : Sorted tg) (hP : Sorted pg) (hnT : 2 ≤ tg.length) (hnP : 2 ≤ pg.length)
    (hpos : TabPos tab) (hTpos : 0 < tg.getD 0 0)
    (hnb : ¬ (t < tg.getD 0 0 ∧ p < pg.getD 0 0)) :
    nodeMin tab (bracketIdx pg p) (bracketIdx tg t) ≤ srcValue .exp tg pg tab t p ∧
    srcValue .exp tg pg tab t p ≤ nodeMax tab (bracketIdx pg p) (bracketIdx tg t) := by
  rw [srcValue_eq]; exact between_nodes_exp tg pg tab t p hT hP hnT hnP hpos hTpos hnb

end Taurex.C04SrcProps
