/-
  C14 — source tie.  `TaurexModel/Gen/SrcC14.lean` is regenerated on every run by `harness/translate.py` (dialect `py`,
  harness/translate_py.py) from the source text of taurex/cia/hitrancia.py, taurex/cia/picklecia.py, taurex/util/util.py
  (`find_closest_pair`) and taurex/util/math.py (`interp_lin_only`).  The theorems state that each regenerated definition is
  the hand-written model function of `TaurexModel/Loaders.lean` / `Interp.lean` that `driver_c14` executes and the C14 theorems
  are about.  Generic in the carrier `α`.

  Reading of the Python values: a 1-D numpy array is the list of its elements, a 2-D table the list of its rows,
  `HitranCiaGrid.Tsigma` a list of pairs (temperature, row).  List subscripts are TOTALISED as in the model (`getD`): the code
  only subscripts with indices that `searchsorted` / `find_closest_pair` produced for the same grid.  What Python raises on an
  empty grid (`min([])`, `a.max()` of an empty array: `ValueError`) is kept: the theorems carry the hypothesis `≠ []`.
  `hlt : ¬ b < a ↔ a ≤ b` (any linear order; `Float` without NaN) relates Python's sort, which compares with `<`, to the
  model's merge sort by `≤`.
-/
import Proofs.C14SrcLemmas
set_option linter.unusedSectionVars false

namespace Taurex.C14Src
open Taurex.Loaders Taurex.Interp Taurex.Gen

section
variable {α : Type} [Add α] [Sub α] [Mul α] [Div α] [Neg α] [LT α] [LE α] [DecidableLT α] [DecidableLE α]
  [Taurex.Transc α] [OfNat α 0]

/-- `interp_lin_only` (the numba kernel the module binds to that name), on one element, is `interpLin` -/
theorem src_interp_lin_only (x11 x12 p pmin pmax : α) :
    Gen.SrcC14.interp_lin_only x11 x12 p pmin pmax = interpLin x11 x12 p pmin pmax := rfl

/-- `find_closest_pair(arr, value)` with `arr.searchsorted(value)` = number of elements `< value` is `findClosestPair` -/
theorem src_find_closest_pair (arr : List α) (v : α) :
    Gen.SrcC14.find_closest_pair arr v = findClosestPair arr v := by
  simp [Gen.SrcC14.find_closest_pair, findClosestPair, Py.searchsortedLeft, searchLeft]

/-- `HitranCiaGrid.add_temperature(T, sigma)` appends the pair (the `ts ++ [e]` of `upsert` and `fillOne`) -/
theorem src_add_temperature (ts : List (α × List α)) (t : α) (sigma : List α) :
    Gen.SrcC14.Grid_add_temperature t sigma ts = ts ++ [(t, sigma)] := rfl

/-- the properties `temperature` / `sigma` -/
theorem src_temperature (ts : List (α × List α)) : Gen.SrcC14.Grid_temperature ts = ts.map (·.1) := rfl

theorem src_sigma (ts : List (α × List α)) : Gen.SrcC14.Grid_sigma ts = ts.map (·.2) := rfl

/-- `HitranCiaGrid.find_closest_temperature_index(t)`: `(searchRight temps t - 1, searchRight temps t - 1 + 1)`, the indices
    `fillOne` uses -/
theorem src_grid_find_closest (ts : List (α × List α)) (t : α) :
    Gen.SrcC14.Grid_find_closest_temperature_index t ts
      = (searchRight (ts.map (·.1)) t - 1, searchRight (ts.map (·.1)) t - 1 + 1) := rfl

/-- `HitranCiaGrid.interp_linear_grid(T, i, j)`: the row `fillOne` inserts -/
theorem src_grid_interp (ts : List (α × List α)) (t : α) (i j : Nat) :
    Gen.SrcC14.Grid_interp_linear_grid t i j ts
      = List.zipWith (fun u v => interpLin u v t (ts.getD i (0, [])).1 (ts.getD j (0, [])).1)
          (ts.getD i (0, [])).2 (ts.getD j (0, [])).2 := by
  simp only [Gen.SrcC14.Grid_interp_linear_grid, src_temperature, src_sigma, getD_map_fst, getD_map_snd]
  rfl

/-- `HitranCiaGrid.sortTempSigma()` is `sortTs` -/
theorem src_sortTempSigma (hlt : ∀ a b : α, ¬ b < a ↔ a ≤ b) (ts : List (α × List α)) :
    Gen.SrcC14.Grid_sortTempSigma ts = sortTs ts :=
  sortOn_eq_sortTs hlt ts

/-- **`HitranCiaGrid.fill_temperature(temperatures)` is `fillTemperature`**: `min` / `max` of the grid's own temperatures are
    taken once; every master temperature that is missing gets a zero row (outside the range) or the row interpolated
    linearly between its neighbours, and the list is re-sorted after each insertion -/
theorem src_fill_temperature (hlt : ∀ a b : α, ¬ b < a ↔ a ≤ b) (wn : List α) (ts : List (α × List α)) (temps : List α)
    (hne : ts ≠ []) :
    Gen.SrcC14.Grid_fill_temperature temps ts wn = (fillTemperature wn ts temps, Except.ok ()) := by
  have hne' : ts.map (·.1) ≠ [] := by simpa using hne
  unfold Gen.SrcC14.Grid_fill_temperature
  simp only [src_temperature, minE_eq _ hne', maxE_eq _ hne', Py.caseE_ok, fillTemperature]
  congr 1
  congr 1
  funext st t
  simp only [fillOne, any_eq_memv, src_add_temperature, src_sortTempSigma hlt, src_grid_find_closest, src_grid_interp]
  by_cases hm : memv t (st.map (·.1)) = true
  · simp [hm]
  · simp only [hm, Bool.false_eq_true, if_false]
    by_cases ho : (decide (t < lmin (ts.map (·.1))) || decide (lmax (ts.map (·.1)) < t)) = true
    · simp [ho]
    · simp [ho]

/-- **`PickleCIA.compute_cia(T)` is `ciaCompute`** (clamp outside the temperature grid, else linear in T between the rows
    `find_closest_pair` selects) -/
theorem src_pickle_compute_cia (c : CTab α) (T : α) (hne : c.t ≠ []) :
    Gen.SrcC14.PickleCIA_compute_cia T c.t c.x = Except.ok (ciaCompute c T) := by
  simp only [Gen.SrcC14.PickleCIA_compute_cia, Gen.SrcC14.PickleCIA_interp_linear_grid,
    Gen.SrcC14.PickleCIA_find_closest_temperature_index, Gen.SrcC14.PickleCIA_temperatureGrid, maxE_eq _ hne,
    minE_eq _ hne, Py.caseE_ok, src_find_closest_pair, ciaCompute, getD_zero_eq_headD]
  by_cases h1 : lmax c.t < T
  · simp [h1]
  · by_cases h2 : T < lmin c.t
    · simp [h1, h2]
    · simp only [h1, h2, decide_false, Bool.false_eq_true, if_false]
      rfl

/-- **`HitranCIA.compute_cia(T)` is `ciaCompute`** on the unified grids -/
theorem src_hitran_compute_cia (c : CTab α) (T : α) (hne : c.t ≠ []) :
    Gen.SrcC14.HitranCIA_compute_cia T c.t c.x = Except.ok (ciaCompute c T) := by
  simp only [Gen.SrcC14.HitranCIA_compute_cia, Gen.SrcC14.HitranCIA_interp_linear_grid,
    Gen.SrcC14.HitranCIA_find_closest_temperature_index, Gen.SrcC14.HitranCIA_temperatureGrid, maxE_eq _ hne,
    minE_eq _ hne, Py.caseE_ok, src_find_closest_pair, ciaCompute, getD_zero_eq_headD]
  by_cases h1 : lmax c.t < T
  · simp [h1]
  · by_cases h2 : T < lmin c.t
    · simp [h1, h2]
    · simp only [h1, h2, decide_false, Bool.false_eq_true, if_false]
      rfl

end

/-! ### the opacity cache (taurex/cache/opacitycache.py) against `TaurexModel/CacheSM.lean`

  Layout (`Proofs/C14SrcLemmas.lean`): `opacity_dict` is the model's `dict`; the GlobalCache cells `xsec_path`,
  `xsec_interpolation`, `xsec_in_memory` are `path`, `interp`, `memMode`; the world `(log, nextId)` is what constructor calls
  change.  Instantiation of what the translated text leaves open: classes `K := Fmt`, `c.discover() := discoverM fs` (the files
  of that class under the configured path, with the GlobalCache settings as constructor arguments), `c(*args) := constructM`,
  `op.moleculeName := o.mol`, `os.path.isdir := isdirM fs`, `klass_list` = the classes in priority order. -/

section
open Taurex.CacheSM

/-- `OpacityCache.add_opacity(opacity, molecule_filter)` is `addOpacity` (a filter list `[f]` is the model's `some f`) -/
theorem src_add_opacity (s : CSt) (o : Obj) (filter : Option String) :
    Gen.SrcC14.OpacityCache_add_opacity o (filter.map (fun f => [f])) (fun o => o.mol) s.dict
      = (addOpacity s o filter).dict := by
  unfold Gen.SrcC14.OpacityCache_add_opacity addOpacity
  rw [hasKey_eq_dhas]
  cases hk : Py.dhas s.dict o.mol with
  | true => simp
  | false =>
    cases filter with
    | none => simp [dset_new_obj _ _ _ hk]
    | some f =>
      by_cases hf : o.mol = f
      · simp [Py.lhas, hf, dset_new_obj _ _ _ (hf ▸ hk)]
      · simp [Py.lhas, hf]

/-- `add_opacity` touches nothing but the dict -/
theorem src_add_opacity_frame (s : CSt) (o : Obj) (filter : Option String) :
    addOpacity s o filter = { s with dict := (addOpacity s o filter).dict } := by
  unfold addOpacity
  split
  · rfl
  · cases filter with
    | none => rfl
    | some f => by_cases hf : (o.mol == f) = true <;> simp [hf]

/-- **`OpacityCache.load_opacity_from_path(path, molecule_filter=[m])` is `loadFrom fs m`**: the double loop over the classes
    in priority order and over what each class discovers constructs an object for every discovered file that advertises `m`
    while `m` is not yet cached, and adds it under the name the OBJECT reports.  `hord`: the model's file list is the
    concatenation of the classes' discoveries in visiting order. -/
theorem src_load_opacity_from_path (fs : List Dir) (klasses : List Fmt) (s : CSt) (m : String) (p : Option Nat)
    (hord : klasses.flatMap (fun c => (curFiles fs s).filter (fun e => decide (e.fmt = c))) = curFiles fs s) :
    Gen.SrcC14.OpacityCache_load_opacity_from_path p [m] constructM (discoverM fs) klasses (fun o => o.mol)
        s.dict (worldOf s) s.interp s.memMode s.path = encS (loadFrom fs m s) := by
  unfold Gen.SrcC14.OpacityCache_load_opacity_from_path loadFrom
  rw [← hord]
  simp only [Prod.eta]
  show List.foldl _ (encS s) klasses = _
  rw [outer_loop fs m s _ ?hF klasses s ⟨rfl, rfl, rfl⟩]
  case hF =>
    intro s' c hs
    simp only [discoverM_eq]
    show List.foldl _ (encS s') _ = _
    rw [inner_loop m s _ ?hG _ s' hs]
    case hG =>
      intro s'' e hs'
      obtain ⟨_, hi, hm⟩ := hs'
      simp only [encS, argsOf, worldOf, loadStep, constructM, hasKey_eq_dhas, interpOr, Py.lhas, List.any_cons,
        List.any_nil, Bool.or_false, hi, hm]
      by_cases hd : e.disc = m
      · subst hd
        cases hk : Py.dhas s''.dict e.disc with
        | true => simp
        | false =>
          simp only [decide_true, Bool.not_false, Bool.and_self, if_true, beq_self_eq_true, Option.elim_some]
          have h2 := src_add_opacity { s'' with nextId := s''.nextId + 1, log := s''.log ++ [(e.disc, e.fileId)] }
            { id := s''.nextId, mol := e.obj, mode := s.interp.getD 0,
              inMem := if e.fmt = Fmt.hdf then some (memOrTrue s.memMode) else none, src := some e.fileId } (some e.disc)
          simp only [Option.map_some, hi, hm] at h2
          have hl := congrArg CSt.log (src_add_opacity_frame
            { s'' with nextId := s''.nextId + 1, log := s''.log ++ [(e.disc, e.fileId)] }
            { id := s''.nextId, mol := e.obj, mode := s.interp.getD 0,
              inMem := if e.fmt = Fmt.hdf then some (memOrTrue s.memMode) else none, src := some e.fileId } (some e.disc))
          have hn := congrArg CSt.nextId (src_add_opacity_frame
            { s'' with nextId := s''.nextId + 1, log := s''.log ++ [(e.disc, e.fileId)] }
            { id := s''.nextId, mol := e.obj, mode := s.interp.getD 0,
              inMem := if e.fmt = Fmt.hdf then some (memOrTrue s.memMode) else none, src := some e.fileId } (some e.disc))
          simp only [hi, hm] at hl hn
          by_cases hk2 : Py.dhas s''.dict e.obj = true
          · simp [hk2]
          · simp only [hk2, Bool.not_false, if_true]
            refine Prod.ext ?_ (Prod.ext ?_ ?_)
            · exact h2
            · exact hl.symm
            · exact hn.symm
      · have : (e.disc == m) = false := by simpa using hd
        simp [hd, this]

/-- `load_opacity(molecule_filter=[m])` as `__getitem__` calls it (no objects, no path given): the path is read from the
    GlobalCache and `load_opacity_from_path` does the work -/
theorem src_load_opacity (fs : List Dir) (klasses : List Fmt) (s : CSt) (m : String)
    (hord : klasses.flatMap (fun c => (curFiles fs s).filter (fun e => decide (e.fmt = c))) = curFiles fs s) :
    Gen.SrcC14.OpacityCache_load_opacity [m] constructM (discoverM fs) klasses (fun o => o.mol)
        s.dict (worldOf s) s.interp s.memMode s.path = encS (loadFrom fs m s) := by
  unfold Gen.SrcC14.OpacityCache_load_opacity
  simp only [src_load_opacity_from_path fs klasses s m s.path hord]

/-- how a response of the model reads as the outcome of `__getitem__` -/
def respE : Resp → Except Py.Err Obj
  | .served o => .ok o
  | _ => .error .exception

/-- **`OpacityCache()[m]` is `step fs s (.get m)`**: a cached molecule is served as it is; otherwise the configured path is
    searched once, and the object now cached under `m` is served, or `Exception('Opacity could not be loaded')` is raised;
    dict and world afterwards are the model's -/
theorem src_getitem (fs : List Dir) (klasses : List Fmt) (s : CSt) (m : String)
    (hord : klasses.flatMap (fun c => (curFiles fs s).filter (fun e => decide (e.fmt = c))) = curFiles fs s) :
    Gen.SrcC14.OpacityCache_getitem m constructM (discoverM fs) klasses (fun o => o.mol)
        s.dict (worldOf s) s.interp s.memMode s.path
      = (encS (step fs s (.get m)).1, respE (step fs s (.get m)).2) := by
  unfold Gen.SrcC14.OpacityCache_getitem
  simp only [step, lookup_eq_dget, dhas_eq_isSome, Py.dgetE]
  cases h1 : Py.dget s.dict m with
  | some o => simp [encS, respE]
  | none =>
    simp only [Option.isSome_none, Bool.false_eq_true, if_false, src_load_opacity fs klasses s m hord, encS]
    cases h2 : Py.dget (loadFrom fs m s).dict m with
    | some o => simp [respE]
    | none => simp [respE]

/-- loading touches the dict and the world only: the GlobalCache settings stay -/
theorem src_get_frame (fs : List Dir) (s : CSt) (m : String) : Same (step fs s (.get m)).1 s := by
  simp only [step]
  cases lookup s.dict m with
  | some o => exact ⟨rfl, rfl, rfl⟩
  | none =>
    simp only []
    cases lookup (loadFrom fs m s).dict m <;> exact foldl_loadStep_same m _ s s ⟨rfl, rfl, rfl⟩

/-- `OpacityCache.clear_cache()` is `step fs s .clear` -/
theorem src_clear_cache (fs : List Dir) (s : CSt) :
    (Gen.SrcC14.OpacityCache_clear_cache : List (String × Obj)) = (step fs s .clear).1.dict ∧
    (step fs s .clear).1 = { s with dict := (step fs s .clear).1.dict } := ⟨rfl, rfl⟩

/-- **`OpacityCache.set_interpolation(mode)` is `step fs s (.setInterp k)`**: the setting is stored in the GlobalCache and the
    cache is emptied — and so is the k-table cache (`kd`, `kp`: its dict and remembered path), which takes its mode from the
    same setting -/
theorem src_set_interpolation (fs : List Dir) (s : CSt) (k : Nat) (kd : List (String × Obj)) (kp kpath : Option Nat) :
    Gen.SrcC14.OpacityCache_set_interpolation k kd kp kpath s.dict
      = ((step fs s (.setInterp k)).1.interp, (step fs s (.setInterp k)).1.dict, [], kpath) ∧
    (step fs s (.setInterp k)).1 = { s with interp := (step fs s (.setInterp k)).1.interp,
                                            dict := (step fs s (.setInterp k)).1.dict } := ⟨rfl, rfl⟩

/-- `OpacityCache.set_memory_mode(b)` is `step fs s (.setMem b)` -/
theorem src_set_memory_mode (fs : List Dir) (s : CSt) (b : Bool) :
    Gen.SrcC14.OpacityCache_set_memory_mode b s.dict
      = ((step fs s (.setMem b)).1.memMode, (step fs s (.setMem b)).1.dict) ∧
    (step fs s (.setMem b)).1 = { s with memMode := (step fs s (.setMem b)).1.memMode,
                                         dict := (step fs s (.setMem b)).1.dict } := ⟨rfl, rfl⟩

/-- `OpacityCache.set_opacity_path(p)` is `step fs s (.setPath p)`: the path is stored even when it is not a directory, and
    then `NotADirectoryError` is raised -/
theorem src_set_opacity_path (fs : List Dir) (s : CSt) (p : Nat) :
    Gen.SrcC14.OpacityCache_set_opacity_path p (isdirM fs) (worldOf s)
      = ((step fs s (.setPath p)).1.path,
         match (step fs s (.setPath p)).2 with
         | .done => Except.ok ()
         | _ => Except.error (Py.Err.other "NotADirectoryError")) ∧
    (step fs s (.setPath p)).1 = { s with path := (step fs s (.setPath p)).1.path } := by
  unfold Gen.SrcC14.OpacityCache_set_opacity_path
  rcases h : fs[p]? with _ | d
  · simp [step, isdirM, h]
  · cases hd : d.isDir <;> simp [step, isdirM, h, hd]

/-- `add_opacity(opacity)` as a user calls it is `step fs s (.add m k)` for the object the model gives the next identity -/
theorem src_add (fs : List Dir) (s : CSt) (m : String) (k : Nat) :
    Gen.SrcC14.OpacityCache_add_opacity { id := s.nextId, mol := m, mode := k, inMem := none, src := none } none
        (fun o => o.mol) s.dict = (step fs s (.add m k)).1.dict := by
  have := src_add_opacity { s with nextId := s.nextId + 1 } { id := s.nextId, mol := m, mode := k, inMem := none, src := none } none
  simpa [step] using this

end

/-! ### the readers: container contents -> loaded table

  `start_at` / `stop_at` in the specs select the assignments that turn what the container library delivered (the declared
  cells `self._spec_dict[...]`) into the loaded axes and table; the theorems state that these are the decoders of
  `TaurexModel/Loaders.lean`.  `allocate_as_shared` (a copy into shared memory) is instantiated with the identity;
  `u.Unit(name).to(u.Pa)` / `u.Unit(name, format='cds').to(u.Pa)` with the model's tables `unitDirect` / `unitCds`
  (`ValueError` for a name the parser does not know). -/

section
variable {α : Type} [Add α] [Sub α] [Mul α] [Div α] [Neg α] [LT α] [LE α] [DecidableLT α] [DecidableLE α]
  [OfNat α 0] [OfNat α 1] [OfNat α 10] [OfNat α 100] [OfNat α 760] [OfNat α 1000] [OfNat α 10000]
  [OfNat α 100000] [OfNat α 101325] [OfNat α 1000000] [OfNat α 1000000000] [OfNat α 10000000000]
  [OfNat α 133322387415] [Taurex.Transc α]

/-- `none` of the model read as `ValueError` -/
def optE {β : Type} : Option β → Except Py.Err β
  | some v => .ok v
  | none => .error .valueError

/-- the unit conversion both HDF5 readers end up with (`try … except …: format="cds"`) is `unitFactor true` -/
theorem unit_try_except (name : String) (caught : Py.Err → Bool) (hc : caught .valueError = true) :
    Py.caseE (optE (unitDirect (α := α) name)) (fun e => if caught e then optE (unitCds name) else Except.error e)
      (fun v => Except.ok v) = optE (unitFactor true name) := by
  unfold unitFactor
  cases unitDirect (α := α) name with
  | some f => rfl
  | none => simp [optE, hc]

theorem unit_bare_except (name : String) :
    Py.caseE (optE (unitDirect (α := α) name)) (fun _ => optE (unitCds name)) (fun v => Except.ok v)
      = optE (unitFactor true name) := by
  unfold unitFactor
  cases unitDirect (α := α) name with
  | some f => rfl
  | none => simp [optE]

/-- `PickleOpacity._load_pickle_file`: `decPickle` (pressures bar -> Pa, everything else as stored) -/
theorem src_pickle_opacity_load (f : PickleX α) :
    Gen.SrcC14.PickleOpacity_load id f.p f.t f.wno f.xsecarr
      = ((decPickle f).wn, (decPickle f).t, (decPickle f).p, (decPickle f).x) := rfl

/-- `HDF5Opacity._load_hdf_file`: `decHdf` — `bin_edges` is the wavenumber grid, pressures times the factor of the declared
    unit; when the unit converts under neither parser the reader raises (`ValueError`) with the pressure and cross-section
    attributes not yet assigned (`p0`, `x0`: their previous values) -/
theorem src_hdf5_opacity_load (f : HdfX α) (mem : Bool) (p0 : List α) (x0 : List (List (List α))) :
    Gen.SrcC14.HDF5Opacity_load id f.binEdges f.p f.units f.t f.xsecarr mem p0
        (fun n => optE (unitDirect n)) (fun n => optE (unitCds n)) x0
      = match decHdf f with
        | some tab => ((tab.wn, tab.t, tab.p, tab.x), Except.ok ())
        | none => ((f.binEdges, f.t, p0, x0), Except.error Py.Err.valueError) := by
  unfold Gen.SrcC14.HDF5Opacity_load decHdf
  simp only []
  rw [unit_try_except f.units _ (by simp)]
  cases unitFactor (α := α) true f.units with
  | none => rfl
  | some c => cases mem <;> rfl

/-- `PickleKTable._load_pickle_file`: `decPickleK` -/
theorem src_pickle_ktable_load (f : PickleK α) :
    Gen.SrcC14.PickleKTable_load f.binCenters f.kcoeff f.ngauss f.p f.t f.weights
      = ((decPickleK f).wn, f.ngauss, (decPickleK f).t, (decPickleK f).p, (decPickleK f).k, (decPickleK f).weights) := rfl

/-- `HDF5KTable._load_pickle_file`: `decHdfK` (bare `except:` — every parse failure falls back to the CDS parser) -/
theorem src_hdf5_ktable_load (f : HdfK α) (mem : Bool) (p0 w0 : List α) (x0 : List (List (List (List α)))) :
    Gen.SrcC14.HDF5KTable_load f.binCenters f.kcoeff f.ngauss f.p f.units f.t f.weights mem p0
        (fun n => optE (unitDirect n)) (fun n => optE (unitCds n)) w0 x0
      = match decHdfK f with
        | some tab => ((tab.wn, f.ngauss, tab.t, tab.p, tab.k, tab.weights), Except.ok ())
        | none => ((f.binCenters, f.ngauss, f.t, p0, x0, w0), Except.error Py.Err.valueError) := by
  unfold Gen.SrcC14.HDF5KTable_load decHdfK
  simp only []
  rw [unit_bare_except f.units]
  cases unitFactor (α := α) true f.units with
  | none => rfl
  | some c => cases mem <;> rfl

/-- `PickleCIA._load_pickle_file`: `decPickleC` -/
theorem src_pickle_cia_load (f : PickleC α) :
    Gen.SrcC14.PickleCIA_load f.t f.wno f.xsecarr = ((decPickleC f).wn, (decPickleC f).t, (decPickleC f).x) := rfl

end

/-! ### HitranCIA: the grid objects of `_wn_dict`

  `_wn_dict` maps `hashwn(start, end)` to a `HitranCiaGrid`; an object is read as the record `(wn, Tsigma)` of its attributes,
  the dict as the model's list of grids in insertion order (`hk` = the hash of a grid's key: any function). -/

section
variable {α : Type} [Add α] [Sub α] [Mul α] [Div α] [Neg α] [LT α] [LE α] [DecidableLT α] [DecidableLE α]
  [Taurex.Transc α] [OfNat α 0] [OfNat α 1] [OfNat α 10] [OfNat α 100] [OfNat α 760] [OfNat α 1000] [OfNat α 10000]
  [OfNat α 100000] [OfNat α 101325] [OfNat α 1000000] [OfNat α 1000000000] [OfNat α 10000000000]
  [OfNat α 133322387415]

/-- `HitranCIA._wn_dict` for the model's grids -/
def gdict (hk : α × α → String) (grids : List (HGrid α)) : List (String × (List α × List (α × List α))) :=
  grids.map (fun g => (hk g.key, (g.wn, g.ts)))

/-- **`HitranCIA.fill_gaps(temperature)` is `fillGaps`**: every grid object is sorted and filled up to the master temperature
    grid, in place; no exception as long as every grid has at least one temperature -/
theorem src_fill_gaps (hlt : ∀ a b : α, ¬ b < a ↔ a ≤ b) (hk : α × α → String) (temps : List α) (grids : List (HGrid α))
    (hne : ∀ g ∈ grids, g.ts ≠ []) :
    Gen.SrcC14.HitranCIA_fill_gaps temps (gdict hk grids) = (gdict hk (fillGaps temps grids), Except.ok ()) := by
  unfold Gen.SrcC14.HitranCIA_fill_gaps
  simp only []
  rw [forE_inplace ("", ([], [])) (fun (o : List α × List (α × List α)) => o.2 ≠ [])
    (fun o => (o.1, fillTemperature o.1 (sortTs o.2) temps)) _ ?hF (gdict hk grids) ?hP]
  case hP =>
    intro kv hkv
    simp only [gdict, List.mem_map] at hkv
    obtain ⟨g, hg, rfl⟩ := hkv
    exact hne g hg
  case hF =>
    intro st i hP
    have hs : sortTs (st.getD i ("", ([], []))).2.2 ≠ [] := by
      intro h
      apply hP
      have := congrArg List.length h
      simp only [sortTs, List.length_mergeSort, List.length_nil] at this
      exact List.eq_nil_of_length_eq_zero this
    simp only [src_sortTempSigma hlt, src_fill_temperature hlt _ _ temps hs, Py.caseE_ok]
  simp [gdict, fillGaps, List.map_map, Function.comp_def]

/-- **`HitranCIA.compute_final_grid()` is `finalGrid`**: the wavenumber grids of all range objects are joined and sorted; for
    every temperature of the master grid the rows of all ranges are joined and put into the same order.  `np.argsort` is the
    model's `argsort` (an ASSUMPTION of the model: the sorting permutation of pairwise distinct keys). -/
theorem src_compute_final_grid (hk : α × α → String) (temps : List α) (grids : List (HGrid α)) :
    Gen.SrcC14.HitranCIA_compute_final_grid argsort temps (gdict hk grids)
      = ((finalGrid temps grids).wn, (finalGrid temps grids).x) := by
  have hv : Py.values (gdict hk grids) = grids.map (fun g => (g.wn, g.ts)) := by
    simp [Py.values, gdict, List.map_map, Function.comp_def]
  unfold Gen.SrcC14.HitranCIA_compute_final_grid finalGrid
  simp only [hv]
  rw [foldl_append_map (fun (w : List α × List (α × List α)) => w.1) _ (fun _ _ => rfl)]
  rw [foldl_append_map (fun (p : Nat × α) =>
        List.map (fun i => (List.flatten (List.foldl (fun (acc : List (List α)) (w : List α × List (α × List α)) =>
            acc ++ [((w.2).getD p.1 ((0 : α), [])).2]) [] (grids.map (fun g => (g.wn, g.ts))))).getD i (0 : α))
          (argsort (List.flatten ([] ++ (grids.map (fun g => (g.wn, g.ts))).map (fun w => w.1)))))
      _ (fun _ _ => rfl)]
  have hrow : ∀ idx : Nat, List.foldl (fun (acc : List (List α)) (w : List α × List (α × List α)) =>
        acc ++ [((w.2).getD idx ((0 : α), [])).2]) [] (grids.map (fun g => (g.wn, g.ts)))
      = grids.map (fun g => (g.ts.getD idx (0, [])).2) := by
    intro idx
    rw [foldl_append_map (fun (w : List α × List (α × List α)) => ((w.2).getD idx ((0 : α), [])).2) _ (fun _ _ => rfl)]
    simp [List.map_map, Function.comp_def]
  simp only [hrow, List.nil_append, List.map_map, Function.comp_def, List.flatMap_def, gather, Py.enumerate]
  refine Prod.ext rfl ?_
  simp only []
  have hz : ∀ (g : Nat → List α) (l : List α),
      List.map (fun (p : Nat × α) => g p.1) ((List.range l.length).zip l) = (List.range l.length).map g := by
    intro g l
    have : List.map (fun (p : Nat × α) => g p.1) ((List.range l.length).zip l)
        = List.map g (List.map Prod.fst ((List.range l.length).zip l)) := by simp [List.map_map, Function.comp_def]
    rw [this, List.map_fst_zip (by simp)]
  exact hz (fun idx => List.map (fun i => (List.map (fun g => (g.ts.getD idx (0, [])).snd) grids).flatten.getD i 0)
    (argsort (List.map (fun x => x.wn) grids).flatten)) temps

/-- `temp_list.sort()` is the model's merge sort by `≤` (same remark as for `sortTempSigma`) -/
theorem sort_eq_mergeSort (hlt : ∀ a b : α, ¬ b < a ↔ a ≤ b) (l : List α) :
    Py.sortOn (fun a b => decide (a < b)) (fun (e : α) => e) l = l.mergeSort (fun a b => decide (a ≤ b)) := by
  unfold Py.sortOn
  congr 1
  funext a b
  by_cases h : b < a
  · have : ¬ a ≤ b := fun h' => ((hlt a b).2 h') h
    simp [h, this]
  · have : a ≤ b := (hlt a b).1 h
    simp [h, this]

/-- **the end of `HitranCIA.load_hitran_file`** (after the reading loop has collected the temperatures `tl` and the range
    objects `grids`): sort the temperatures, fill the gaps of every range, unify — `decHitran` after `hLoad`.
    `t0 w0 x0`: the previous values of the attributes (overwritten). -/
theorem src_load_hitran_tail (hlt : ∀ a b : α, ¬ b < a ↔ a ≤ b) (hk : α × α → String) (tl : List α)
    (grids : List (HGrid α)) (hne : ∀ g ∈ grids, g.ts ≠ []) (t0 w0 : List α) (x0 : List (List α)) :
    Gen.SrcC14.HitranCIA_load_tail tl argsort t0 w0 (gdict hk grids) x0
      = ((tl.mergeSort (fun a b => decide (a ≤ b)),
          gdict hk (fillGaps (tl.mergeSort (fun a b => decide (a ≤ b))) grids),
          (finalGrid (tl.mergeSort (fun a b => decide (a ≤ b)))
            (fillGaps (tl.mergeSort (fun a b => decide (a ≤ b))) grids)).wn,
          (finalGrid (tl.mergeSort (fun a b => decide (a ≤ b)))
            (fillGaps (tl.mergeSort (fun a b => decide (a ≤ b))) grids)).x), Except.ok ()) := by
  unfold Gen.SrcC14.HitranCIA_load_tail
  simp only [sort_eq_mergeSort hlt, src_fill_gaps hlt hk _ grids hne, Py.caseE_ok, src_compute_final_grid]

/-- the loaded CIA table is `decHitran` of the file's blocks, given that the reading loop leaves what `hLoad` computes -/
theorem src_load_hitran_decHitran (hlt : ∀ a b : α, ¬ b < a ↔ a ≤ b) (hk : α × α → String) (blocks : List (HBlock α))
    (hne : ∀ g ∈ (hLoad blocks).2, g.ts ≠ []) (t0 w0 : List α) (x0 : List (List α)) :
    let r := Gen.SrcC14.HitranCIA_load_tail (hLoad blocks).1 argsort t0 w0 (gdict hk (hLoad blocks).2) x0
    r.2 = Except.ok () ∧ r.1.2.2.1 = (decHitran blocks).wn ∧ r.1.1 = (decHitran blocks).t ∧ r.1.2.2.2 = (decHitran blocks).x := by
  intro r
  have hr : r = _ := src_load_hitran_tail hlt hk (hLoad blocks).1 (hLoad blocks).2 hne t0 w0 x0
  rw [hr]
  simp [decHitran, finalGrid]

end

/-! ### molecule names (TaurexModel/Sanitize.lean)

  `pathlib.Path(x).stem := stemS` (the model's `stem` on the characters), `sanitize_molecule_string := sanitizeStr` (the model's
  scanner for the regular expression; the regular expression itself is not translated).  File names are strings; the model
  works on their characters. -/

section
open Taurex.Sanitize

/-- `clean_molecule_name()` (identical in PickleOpacity, PickleKTable, HDF5KTable): keep what precedes the first `_` -/
theorem src_clean_molecule_name (nm : String) :
    Gen.SrcC14.PickleOpacity_clean_molecule_name nm = String.ofList (firstPart '_' nm.toList) ∧
    Gen.SrcC14.PickleKTable_clean_molecule_name nm = String.ofList (firstPart '_' nm.toList) ∧
    Gen.SrcC14.HDF5KTable_clean_molecule_name nm = String.ofList (firstPart '_' nm.toList) :=
  ⟨split1_head '_' nm, split1_head '_' nm, split1_head '_' nm⟩

/-- PickleOpacity: the name `_load_pickle_file` derives from the file name, then `clean_molecule_name`, is `objName .pickleXsec`;
    what `discover()` advertises for the file is `discName .pickleXsec` -/
theorem src_pickle_opacity_names (fname : String) (stored : List Char) :
    Gen.SrcC14.PickleOpacity_clean_molecule_name (Gen.SrcC14.PickleOpacity_name fname stemS sanitizeStr)
      = String.ofList (objName .pickleXsec fname.toList stored) ∧
    Gen.SrcC14.PickleOpacity_name fname stemS sanitizeStr = String.ofList (discName .pickleXsec fname.toList) := by
  have h : Gen.SrcC14.PickleOpacity_name fname stemS sanitizeStr = String.ofList (discName .pickleXsec fname.toList) := by
    simp only [Gen.SrcC14.PickleOpacity_name, split1_head]
    simp [stemS, sanitizeStr, discName]
  refine ⟨?_, h⟩
  rw [(src_clean_molecule_name _).1, h]
  simp [objName, discName]

/-- the loop of a `discover()` that appends `(name f, [f, interp])` for every file -/
theorem discover_loop (name : String → String) (interp : String)
    (F : List (String × List String) → String → List (String × List String))
    (hF : ∀ acc f, F acc f = acc ++ [(name f, [f, interp])]) (files : List String) :
    List.foldl F [] files = files.map (fun f => (name f, [f, interp])) := by
  simpa using foldl_append_map (fun f => (name f, [f, interp])) F hF files []

/-- `GlobalCache()['xsec_interpolation'] or 'linear'` -/
def interpOrLinear (x : Option String) : String := Option.elim x "linear" (fun v => if decide (v = "") then "linear" else v)

/-- **`PickleOpacity.discover()`** (after the glob): every `*.pickle` file is advertised under `discName .pickleXsec` with the
    constructor arguments `[file, interpolation mode]` -/
theorem src_pickle_opacity_discover (files : List String) (interp : Option String) :
    Gen.SrcC14.PickleOpacity_discover files stemS sanitizeStr interp
      = files.map (fun f => (String.ofList (discName .pickleXsec f.toList), [f, interpOrLinear interp])) := by
  unfold Gen.SrcC14.PickleOpacity_discover
  simp only []
  rw [discover_loop (fun f => String.ofList (discName .pickleXsec f.toList)) (interpOrLinear interp) _ ?hF]
  case hF =>
    intro acc f
    simp only [split1_head]
    simp [stemS, sanitizeStr, discName, interpOrLinear]

/-- ExoTransmitOpacity: `stem[4:]` sanitised, both for the object and for the discovery -/
theorem src_exo_names (fname : String) (stored : List Char) :
    Gen.SrcC14.ExoTransmit_name fname stemS sanitizeStr = String.ofList (objName .exo fname.toList stored) ∧
    Gen.SrcC14.ExoTransmit_name fname stemS sanitizeStr = String.ofList (discName .exo fname.toList) := by
  constructor <;> simp [Gen.SrcC14.ExoTransmit_name, Py.strDrop, stemS, sanitizeStr, objName, discName]

theorem src_exo_discover (files : List String) (interp : Option String) :
    Gen.SrcC14.ExoTransmit_discover files stemS sanitizeStr interp
      = files.map (fun f => (String.ofList (discName .exo f.toList), [f, interpOrLinear interp])) := by
  unfold Gen.SrcC14.ExoTransmit_discover
  simp only []
  rw [discover_loop (fun f => String.ofList (discName .exo f.toList)) (interpOrLinear interp) _ ?hF]
  case hF =>
    intro acc f
    simp [Py.strDrop, stemS, sanitizeStr, discName, interpOrLinear]

/-- HDF5KTable: the name set in `__init__` (first part of the stem before `_`, sanitised), cleaned, is `objName .hdfK` -/
theorem src_hdf5_ktable_names (fname : String) (stored : List Char) :
    Gen.SrcC14.HDF5KTable_clean_molecule_name (Gen.SrcC14.HDF5KTable_name fname stemS sanitizeStr)
      = String.ofList (objName .hdfK fname.toList stored) ∧
    Gen.SrcC14.HDF5KTable_name fname stemS sanitizeStr = String.ofList (discName .hdfK fname.toList) := by
  have h : Gen.SrcC14.HDF5KTable_name fname stemS sanitizeStr = String.ofList (discName .hdfK fname.toList) := by
    simp only [Gen.SrcC14.HDF5KTable_name, split1_head]
    simp [stemS, sanitizeStr, discName]
  refine ⟨?_, h⟩
  rw [(src_clean_molecule_name _).2.2, h]
  simp [objName, discName]

theorem src_hdf5_ktable_discover (files : List String) (interp : Option String) :
    Gen.SrcC14.HDF5KTable_discover files stemS sanitizeStr interp
      = files.map (fun f => (String.ofList (discName .hdfK f.toList), [f, interpOrLinear interp])) := by
  unfold Gen.SrcC14.HDF5KTable_discover
  simp only []
  rw [discover_loop (fun f => String.ofList (discName .hdfK f.toList)) (interpOrLinear interp) _ ?hF]
  case hF =>
    intro acc f
    simp only [split1_head]
    simp [stemS, sanitizeStr, discName, interpOrLinear]

/-- PickleKTable: the object is named by what the file stores under `name`, cleaned (`objName .pickleK`); the discovery
    advertises the sanitised first dotted part of the stem (`discName .pickleK`) -/
theorem src_pickle_ktable_names (fname stored : String) :
    Gen.SrcC14.PickleKTable_clean_molecule_name (Gen.SrcC14.PickleKTable_name stored)
      = String.ofList (objName .pickleK fname.toList stored.toList) := by
  rw [(src_clean_molecule_name _).2.1]
  simp [Gen.SrcC14.PickleKTable_name, objName]

theorem src_pickle_ktable_discover (files : List String) (interp : Option String) :
    Gen.SrcC14.PickleKTable_discover files stemS sanitizeStr interp
      = files.map (fun f => (String.ofList (discName .pickleK f.toList), [f, interpOrLinear interp])) := by
  unfold Gen.SrcC14.PickleKTable_discover
  simp only []
  rw [discover_loop (fun f => String.ofList (discName .pickleK f.toList)) (interpOrLinear interp) _ ?hF]
  case hF =>
    intro acc f
    simp only [split1_head]
    simp [stemS, sanitizeStr, discName, interpOrLinear]

end

end Taurex.C14Src
