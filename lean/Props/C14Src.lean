/-
  C14 — source tie.  `TaurexModel/Gen/SrcC14.lean` is regenerated on every run by `harness/translate.py` (dialect `py`,
  harness/translate_py.py) from the source text of taurex/cia/hitrancia.py, taurex/cia/picklecia.py, taurex/util/util.py
  (`find_closest_pair`), taurex/util/math.py (`interp_lin_only`), the three caches (taurex/cache/opacitycache.py,
  ktablecache.py, ciaacache.py), the file readers and name handling of the opacity / k-table classes and the Exo-Transmit
  text parser (taurex/opacity/exotransmit.py).  The theorems state that each regenerated definition is
  the hand-written model function of `TaurexModel/Loaders.lean` / `Interp.lean` that `driver_c14` executes and the C14 theorems
  are about.  Generic in the carrier `α`.

  Reading of the Python values: a 1-D numpy array is the list of its elements, a 2-D table the list of its rows,
  `HitranCiaGrid.Tsigma` a list of pairs (temperature, row).  List subscripts are TOTALISED as in the model (`getD`): the code
  only subscripts with indices that `searchsorted` / `find_closest_pair` produced for the same grid.  What Python raises on an
  empty grid (`min([])`, `a.max()` of an empty array: `ValueError`) is kept: the theorems carry the hypothesis `≠ []`.
  `hlt : ¬ b < a ↔ a ≤ b` (any linear order; `Float` without NaN) relates Python's sort, which compares with `<`, to the
  model's merge sort by `≤`.
-/
import Proofs.C14SrcLemmas
import Proofs.C14SrcCaches
import Proofs.C14SrcExo
import Proofs.C14SrcHitran
set_option linter.unusedSectionVars false

namespace Taurex.C14Src
open Taurex.Loaders Taurex.Interp Taurex.Gen

section
variable {α : Type} [Add α] [Sub α] [Mul α] [Div α] [Neg α] [LT α] [LE α] [DecidableLT α] [DecidableLE α]
  [Taurex.Transc α] [OfNat α 0]

/-- `interp_lin_only` (the numba kernel the module binds to that name), on one element, is `interpLin` -/
theorem src_interp_lin_only (x11 x12 p pmin pmax : α) :
    Gen.SrcC14.interp_lin_only x11 x12 p pmin pmax = interpLin x11 x12 p pmin pmax := rfl

/-- `find_closest_pair(arr, value)` with `arr.searchsorted(value)` = number of elements `< value` is `findClosestPair` -/
theorem src_find_closest_pair (arr : List α) (v : α) :
    Gen.SrcC14.find_closest_pair arr v = findClosestPair arr v := by
  simp [Gen.SrcC14.find_closest_pair, findClosestPair, Py.searchsortedLeft, searchLeft]

/-- `HitranCiaGrid.add_temperature(T, sigma)` appends the pair (the `ts ++ [e]` of `upsert` and `fillOne`) -/
theorem src_add_temperature (ts : List (α × List α)) (t : α) (sigma : List α) :
    Gen.SrcC14.Grid_add_temperature t sigma ts = ts ++ [(t, sigma)] := rfl

/-- the properties `temperature` / `sigma` -/
theorem src_temperature (ts : List (α × List α)) : Gen.SrcC14.Grid_temperature ts = ts.map (·.1) := rfl

theorem src_sigma (ts : List (α × List α)) : Gen.SrcC14.Grid_sigma ts = ts.map (·.2) := rfl

/-- `HitranCiaGrid.find_closest_temperature_index(t)`: `(searchRight temps t - 1, searchRight temps t - 1 + 1)`, the indices
    `fillOne` uses -/
theorem src_grid_find_closest (ts : List (α × List α)) (t : α) :
    Gen.SrcC14.Grid_find_closest_temperature_index t ts
      = (searchRight (ts.map (·.1)) t - 1, searchRight (ts.map (·.1)) t - 1 + 1) := rfl

/-- `HitranCiaGrid.interp_linear_grid(T, i, j)`: the row `fillOne` inserts -/
theorem src_grid_interp (ts : List (α × List α)) (t : α) (i j : Nat) :
    Gen.SrcC14.Grid_interp_linear_grid t i j ts
      = List.zipWith (fun u v => interpLin u v t (ts.getD i (0, [])).1 (ts.getD j (0, [])).1)
          (ts.getD i (0, [])).2 (ts.getD j (0, [])).2 := by
  simp only [Gen.SrcC14.Grid_interp_linear_grid, src_temperature, src_sigma, getD_map_fst, getD_map_snd]
  rfl

/-- `HitranCiaGrid.sortTempSigma()` is `sortTs` -/
theorem src_sortTempSigma (hlt : ∀ a b : α, ¬ b < a ↔ a ≤ b) (ts : List (α × List α)) :
    Gen.SrcC14.Grid_sortTempSigma ts = sortTs ts :=
  sortOn_eq_sortTs hlt ts

/-- **`HitranCiaGrid.fill_temperature(temperatures)` is `fillTemperature`**: `min` / `max` of the grid's own temperatures are
    taken once; every master temperature that is missing gets a zero row (outside the range) or the row interpolated
    linearly between its neighbours, and the list is re-sorted after each insertion -/
theorem src_fill_temperature (hlt : ∀ a b : α, ¬ b < a ↔ a ≤ b) (wn : List α) (ts : List (α × List α)) (temps : List α)
    (hne : ts ≠ []) :
    Gen.SrcC14.Grid_fill_temperature temps ts wn = (fillTemperature wn ts temps, Except.ok ()) := by
  have hne' : ts.map (·.1) ≠ [] := by simpa using hne
  unfold Gen.SrcC14.Grid_fill_temperature
  simp only [src_temperature, minE_eq _ hne', maxE_eq _ hne', Py.caseE_ok, fillTemperature]
  congr 1
  congr 1
  funext st t
  simp only [fillOne, any_eq_memv, src_add_temperature, src_sortTempSigma hlt, src_grid_find_closest, src_grid_interp]
  by_cases hm : memv t (st.map (·.1)) = true
  · simp [hm]
  · simp only [hm, Bool.false_eq_true, if_false]
    by_cases ho : (decide (t < lmin (ts.map (·.1))) || decide (lmax (ts.map (·.1)) < t)) = true
    · simp [ho]
    · simp [ho]

/-- **`PickleCIA.compute_cia(T)` is `ciaCompute`** (clamp outside the temperature grid, else linear in T between the rows
    `find_closest_pair` selects) -/
theorem src_pickle_compute_cia (c : CTab α) (T : α) (hne : c.t ≠ []) :
    Gen.SrcC14.PickleCIA_compute_cia T c.t c.x = Except.ok (ciaCompute c T) := by
  simp only [Gen.SrcC14.PickleCIA_compute_cia, Gen.SrcC14.PickleCIA_interp_linear_grid,
    Gen.SrcC14.PickleCIA_find_closest_temperature_index, Gen.SrcC14.PickleCIA_temperatureGrid, maxE_eq _ hne,
    minE_eq _ hne, Py.caseE_ok, src_find_closest_pair, ciaCompute, getD_zero_eq_headD]
  by_cases h1 : lmax c.t < T
  · simp [h1]
  · by_cases h2 : T < lmin c.t
    · simp [h1, h2]
    · simp only [h1, h2, decide_false, Bool.false_eq_true, if_false]
      rfl

/-- **`HitranCIA.compute_cia(T)` is `ciaCompute`** on the unified grids -/
theorem src_hitran_compute_cia (c : CTab α) (T : α) (hne : c.t ≠ []) :
    Gen.SrcC14.HitranCIA_compute_cia T c.t c.x = Except.ok (ciaCompute c T) := by
  simp only [Gen.SrcC14.HitranCIA_compute_cia, Gen.SrcC14.HitranCIA_interp_linear_grid,
    Gen.SrcC14.HitranCIA_find_closest_temperature_index, Gen.SrcC14.HitranCIA_temperatureGrid, maxE_eq _ hne,
    minE_eq _ hne, Py.caseE_ok, src_find_closest_pair, ciaCompute, getD_zero_eq_headD]
  by_cases h1 : lmax c.t < T
  · simp [h1]
  · by_cases h2 : T < lmin c.t
    · simp [h1, h2]
    · simp only [h1, h2, decide_false, Bool.false_eq_true, if_false]
      rfl

end

/-! ### the opacity cache (taurex/cache/opacitycache.py) against `TaurexModel/CacheSM.lean`

  Layout (`Proofs/C14SrcLemmas.lean`): `opacity_dict` is the model's `dict`; the GlobalCache cells `xsec_path`,
  `xsec_interpolation`, `xsec_in_memory` are `path`, `interp`, `memMode`; the world `(log, nextId)` is what constructor calls
  change.  Instantiation of what the translated text leaves open: classes `K := Fmt`, `c.discover() := discoverM fs` (the files
  of that class under the configured path, with the GlobalCache settings as constructor arguments), `c(*args) := constructM`,
  `op.moleculeName := o.mol`, `os.path.isdir := isdirM fs`, `klass_list` = the classes in priority order. -/

section
open Taurex.CacheSM

/-- `OpacityCache.add_opacity(opacity, molecule_filter)` is `addOpacity` (a filter list `[f]` is the model's `some f`) -/
theorem src_add_opacity (s : CSt) (o : Obj) (filter : Option String) :
    Gen.SrcC14.OpacityCache_add_opacity o (filter.map (fun f => [f])) (fun o => o.mol) s.dict
      = (addOpacity s o filter).dict := by
  unfold Gen.SrcC14.OpacityCache_add_opacity addOpacity
  rw [hasKey_eq_dhas]
  cases hk : Py.dhas s.dict o.mol with
  | true => simp
  | false =>
    cases filter with
    | none => simp [dset_new_obj _ _ _ hk]
    | some f =>
      by_cases hf : o.mol = f
      · simp [Py.lhas, hf, dset_new_obj _ _ _ (hf ▸ hk)]
      · simp [Py.lhas, hf]

/-- `add_opacity` touches nothing but the dict -/
theorem src_add_opacity_frame (s : CSt) (o : Obj) (filter : Option String) :
    addOpacity s o filter = { s with dict := (addOpacity s o filter).dict } := by
  unfold addOpacity
  split
  · rfl
  · cases filter with
    | none => rfl
    | some f => by_cases hf : (o.mol == f) = true <;> simp [hf]

/-- **`OpacityCache.load_opacity_from_path(path, molecule_filter=[m])` is `loadFrom fs m`**: the double loop over the classes
    in priority order and over what each class discovers constructs an object for every discovered file that advertises `m`
    while `m` is not yet cached, and adds it under the name the OBJECT reports.  `hord`: the model's file list is the
    concatenation of the classes' discoveries in visiting order. -/
theorem src_load_opacity_from_path (fs : List Dir) (klasses : List Fmt) (s : CSt) (m : String) (p : Option Nat)
    (hord : klasses.flatMap (fun c => (curFiles fs s).filter (fun e => decide (e.fmt = c))) = curFiles fs s) :
    Gen.SrcC14.OpacityCache_load_opacity_from_path p [m] constructM (discoverM fs) klasses (fun o => o.mol)
        s.dict (worldOf s) s.interp s.memMode s.path = encS (loadFrom fs m s) := by
  unfold Gen.SrcC14.OpacityCache_load_opacity_from_path loadFrom
  rw [← hord]
  simp only [Prod.eta]
  show List.foldl _ (encS s) klasses = _
  rw [outer_loop fs m s _ ?hF klasses s ⟨rfl, rfl, rfl⟩]
  case hF =>
    intro s' c hs
    simp only [discoverM_eq]
    show List.foldl _ (encS s') _ = _
    rw [inner_loop m s _ ?hG _ s' hs]
    case hG =>
      intro s'' e hs'
      obtain ⟨_, hi, hm⟩ := hs'
      simp only [encS, argsOf, worldOf, loadStep, constructM, hasKey_eq_dhas, interpOr, Py.lhas, List.any_cons,
        List.any_nil, Bool.or_false, hi, hm]
      by_cases hd : e.disc = m
      · subst hd
        cases hk : Py.dhas s''.dict e.disc with
        | true => simp
        | false =>
          simp only [decide_true, Bool.not_false, Bool.and_self, if_true, beq_self_eq_true, Option.elim_some]
          have h2 := src_add_opacity { s'' with nextId := s''.nextId + 1, log := s''.log ++ [(e.disc, e.fileId)] }
            { id := s''.nextId, mol := e.obj, mode := s.interp.getD 0,
              inMem := if e.fmt = Fmt.hdf then some (memOrTrue s.memMode) else none, src := some e.fileId } (some e.disc)
          simp only [Option.map_some, hi, hm] at h2
          have hl := congrArg CSt.log (src_add_opacity_frame
            { s'' with nextId := s''.nextId + 1, log := s''.log ++ [(e.disc, e.fileId)] }
            { id := s''.nextId, mol := e.obj, mode := s.interp.getD 0,
              inMem := if e.fmt = Fmt.hdf then some (memOrTrue s.memMode) else none, src := some e.fileId } (some e.disc))
          have hn := congrArg CSt.nextId (src_add_opacity_frame
            { s'' with nextId := s''.nextId + 1, log := s''.log ++ [(e.disc, e.fileId)] }
            { id := s''.nextId, mol := e.obj, mode := s.interp.getD 0,
              inMem := if e.fmt = Fmt.hdf then some (memOrTrue s.memMode) else none, src := some e.fileId } (some e.disc))
          simp only [hi, hm] at hl hn
          by_cases hk2 : Py.dhas s''.dict e.obj = true
          · simp [hk2]
          · simp only [hk2, Bool.not_false, if_true]
            refine Prod.ext ?_ (Prod.ext ?_ ?_)
            · exact h2
            · exact hl.symm
            · exact hn.symm
      · have : (e.disc == m) = false := by simpa using hd
        simp [hd, this]

/-- `load_opacity(molecule_filter=[m])` as `__getitem__` calls it (no objects, no path given): the path is read from the
    GlobalCache and `load_opacity_from_path` does the work -/
theorem src_load_opacity (fs : List Dir) (klasses : List Fmt) (s : CSt) (m : String)
    (hord : klasses.flatMap (fun c => (curFiles fs s).filter (fun e => decide (e.fmt = c))) = curFiles fs s) :
    Gen.SrcC14.OpacityCache_load_opacity [m] constructM (discoverM fs) klasses (fun o => o.mol)
        s.dict (worldOf s) s.interp s.memMode s.path = encS (loadFrom fs m s) := by
  unfold Gen.SrcC14.OpacityCache_load_opacity
  simp only [src_load_opacity_from_path fs klasses s m s.path hord]

/-- how a response of the model reads as the outcome of `__getitem__` -/
def respE : Resp → Except Py.Err Obj
  | .served o => .ok o
  | _ => .error .exception

/-- **`OpacityCache()[m]` is `step fs s (.get m)`**: a cached molecule is served as it is; otherwise the configured path is
    searched once, and the object now cached under `m` is served, or `Exception('Opacity could not be loaded')` is raised;
    dict and world afterwards are the model's -/
theorem src_getitem (fs : List Dir) (klasses : List Fmt) (s : CSt) (m : String)
    (hord : klasses.flatMap (fun c => (curFiles fs s).filter (fun e => decide (e.fmt = c))) = curFiles fs s) :
    Gen.SrcC14.OpacityCache_getitem m constructM (discoverM fs) klasses (fun o => o.mol)
        s.dict (worldOf s) s.interp s.memMode s.path
      = (encS (step fs s (.get m)).1, respE (step fs s (.get m)).2) := by
  unfold Gen.SrcC14.OpacityCache_getitem
  simp only [step, lookup_eq_dget, dhas_eq_isSome, Py.dgetE]
  cases h1 : Py.dget s.dict m with
  | some o => simp [encS, respE]
  | none =>
    simp only [Option.isSome_none, Bool.false_eq_true, if_false, src_load_opacity fs klasses s m hord, encS]
    cases h2 : Py.dget (loadFrom fs m s).dict m with
    | some o => simp [respE]
    | none => simp [respE]

/-- loading touches the dict and the world only: the GlobalCache settings stay -/
theorem src_get_frame (fs : List Dir) (s : CSt) (m : String) : Same (step fs s (.get m)).1 s := by
  simp only [step]
  cases lookup s.dict m with
  | some o => exact ⟨rfl, rfl, rfl⟩
  | none =>
    simp only []
    cases lookup (loadFrom fs m s).dict m <;> exact foldl_loadStep_same m _ s s ⟨rfl, rfl, rfl⟩

/-- `OpacityCache.clear_cache()` is `step fs s .clear` -/
theorem src_clear_cache (fs : List Dir) (s : CSt) :
    (Gen.SrcC14.OpacityCache_clear_cache : List (String × Obj)) = (step fs s .clear).1.dict ∧
    (step fs s .clear).1 = { s with dict := (step fs s .clear).1.dict } := ⟨rfl, rfl⟩

/-- **`OpacityCache.set_interpolation(mode)` is `step fs s (.setInterp k)`**: the setting is stored in the GlobalCache and the
    cache is emptied — and so is the k-table cache (`kd`, `kp`: its dict and remembered path), which takes its mode from the
    same setting -/
theorem src_set_interpolation (fs : List Dir) (s : CSt) (k : Nat) (kd : List (String × Obj)) (kp kpath : Option Nat) :
    Gen.SrcC14.OpacityCache_set_interpolation k kd kp kpath s.dict
      = ((step fs s (.setInterp k)).1.interp, (step fs s (.setInterp k)).1.dict, [], kpath) ∧
    (step fs s (.setInterp k)).1 = { s with interp := (step fs s (.setInterp k)).1.interp,
                                            dict := (step fs s (.setInterp k)).1.dict } := ⟨rfl, rfl⟩

/-- `OpacityCache.set_memory_mode(b)` is `step fs s (.setMem b)` -/
theorem src_set_memory_mode (fs : List Dir) (s : CSt) (b : Bool) :
    Gen.SrcC14.OpacityCache_set_memory_mode b s.dict
      = ((step fs s (.setMem b)).1.memMode, (step fs s (.setMem b)).1.dict) ∧
    (step fs s (.setMem b)).1 = { s with memMode := (step fs s (.setMem b)).1.memMode,
                                         dict := (step fs s (.setMem b)).1.dict } := ⟨rfl, rfl⟩

/-- `OpacityCache.set_opacity_path(p)` is `step fs s (.setPath p)`: the path is stored even when it is not a directory, and
    then `NotADirectoryError` is raised -/
theorem src_set_opacity_path (fs : List Dir) (s : CSt) (p : Nat) :
    Gen.SrcC14.OpacityCache_set_opacity_path p (isdirM fs) (worldOf s)
      = ((step fs s (.setPath p)).1.path,
         match (step fs s (.setPath p)).2 with
         | .done => Except.ok ()
         | _ => Except.error (Py.Err.other "NotADirectoryError")) ∧
    (step fs s (.setPath p)).1 = { s with path := (step fs s (.setPath p)).1.path } := by
  unfold Gen.SrcC14.OpacityCache_set_opacity_path
  rcases h : fs[p]? with _ | d
  · simp [step, isdirM, h]
  · cases hd : d.isDir <;> simp [step, isdirM, h, hd]

/-- `add_opacity(opacity)` as a user calls it is `step fs s (.add m k)` for the object the model gives the next identity -/
theorem src_add (fs : List Dir) (s : CSt) (m : String) (k : Nat) :
    Gen.SrcC14.OpacityCache_add_opacity { id := s.nextId, mol := m, mode := k, inMem := none, src := none } none
        (fun o => o.mol) s.dict = (step fs s (.add m k)).1.dict := by
  have := src_add_opacity { s with nextId := s.nextId + 1 } { id := s.nextId, mol := m, mode := k, inMem := none, src := none } none
  simpa [step] using this

end


/-! ### the k-table cache (taurex/cache/ktablecache.py) against `CacheSM.stepK`

  Same layout as above with `opacity_dict := KTableCache().opacity_dict`, `path := GlobalCache()['ktable_path']`;
  `c.discover() := discoverK fs` (the files of the class under that path with the interpolation setting; it does not raise). -/

section
open Taurex.CacheSM

/-- what a k-table class discovers under the settings of `s` -/
theorem discoverK_eq (fs : List Dir) (w : World) (s : CSt) (c : Fmt) :
    discoverK fs w s.path s.interp c
      = .ok (((curFiles fs s).filter (fun e => decide (e.fmt = c))).map (argsOf s)) := by
  unfold discoverK discoverM
  show Except.ok (List.map _ (List.filter _ (curFiles fs s))) = _
  congr 1
  apply List.map_congr_left
  intro e _
  simp [argsOf, memOrTrue_eq]

/-- `KTableCache.add_opacity(opacity, molecule_filter)` is `addOpacity` -/
theorem src_k_add_opacity (s : CSt) (o : Obj) (filter : Option String) :
    Gen.SrcC14.KTableCache_add_opacity o (filter.map (fun f => [f])) (fun o => o.mol) s.dict
      = (addOpacity s o filter).dict := src_add_opacity s o filter

/-- **`KTableCache.load_opacity_from_path(path, molecule_filter=[m])` is `loadFromK fs m`**: as for the cross-section cache,
    but EVERY discovered file that advertises `m` is constructed (the loop has no `mol not in self.opacity_dict` test); the
    `try: c.discover() except NotImplementedError: continue` of the loop is part of the translated text (`discoverK` does not
    raise).  `path` (`self._opacity_path`) is not used by the function: the classes read `GlobalCache()['ktable_path']`. -/
theorem src_k_load_opacity_from_path (fs : List Dir) (klasses : List Fmt) (s : CSt) (m : String) (p : Option Nat)
    (hord : klasses.flatMap (fun c => (curFiles fs s).filter (fun e => decide (e.fmt = c))) = curFiles fs s) :
    Gen.SrcC14.KTableCache_load_opacity_from_path p [m] constructM (discoverK fs) klasses s.path (fun o => o.mol)
        s.dict (worldOf s) s.interp = (encS (loadFromK fs m s), Except.ok ()) := by
  unfold Gen.SrcC14.KTableCache_load_opacity_from_path loadFromK
  rw [← hord, foldl_flatMap]
  simp only [Prod.eta]
  generalize hR : Py.forE klasses _ _ = R
  have key : R = (encS (klasses.foldl (fun t c =>
      ((curFiles fs s).filter (fun e => decide (e.fmt = c))).foldl (loadStepK m) t) s), none) := by
    rw [← hR]
    refine forE_sim encS _ (fun t => Same t s) _ (fun t c h => foldl_loadStepK_same m _ t s h)
      (fun s' c hs => ?_) klasses s ⟨rfl, rfl, rfl⟩
    simp only [encS, discoverK_eq fs _ s c, Py.caseE_ok]
    show (List.foldl _ (encS s') _, none) = _
    rw [inner_loopK m s _ ?hG _ s' hs]
    case hG =>
      intro s'' e hs'
      obtain ⟨_, hi, hm⟩ := hs'
      simp only [encS, argsOf, worldOf, loadStepK, constructM, hasKey_eq_dhas, interpOr, Py.lhas, List.any_cons,
        List.any_nil, Bool.or_false, hi, hm]
      by_cases hd : e.disc = m
      · subst hd
        simp only [decide_true, if_true, beq_self_eq_true, Option.elim_some]
        have h2 := src_k_add_opacity { s'' with nextId := s''.nextId + 1, log := s''.log ++ [(e.disc, e.fileId)] }
          { id := s''.nextId, mol := e.obj, mode := s.interp.getD 0,
            inMem := if e.fmt = Fmt.hdf then some (memOrTrue s.memMode) else none, src := some e.fileId } (some e.disc)
        simp only [Option.map_some, hi, hm] at h2
        have hl := congrArg CSt.log (src_add_opacity_frame
          { s'' with nextId := s''.nextId + 1, log := s''.log ++ [(e.disc, e.fileId)] }
          { id := s''.nextId, mol := e.obj, mode := s.interp.getD 0,
            inMem := if e.fmt = Fmt.hdf then some (memOrTrue s.memMode) else none, src := some e.fileId } (some e.disc))
        have hn := congrArg CSt.nextId (src_add_opacity_frame
          { s'' with nextId := s''.nextId + 1, log := s''.log ++ [(e.disc, e.fileId)] }
          { id := s''.nextId, mol := e.obj, mode := s.interp.getD 0,
            inMem := if e.fmt = Fmt.hdf then some (memOrTrue s.memMode) else none, src := some e.fileId } (some e.disc))
        simp only [hi, hm] at hl hn
        by_cases hk2 : Py.dhas s''.dict e.obj = true
        · simp [hk2]
        · simp only [hk2, Bool.not_false, if_true]
          refine Prod.ext ?_ (Prod.ext ?_ ?_)
          · exact h2
          · exact hl.symm
          · exact hn.symm
      · have : (e.disc == m) = false := by simpa using hd
        simp [hd, this]
    rfl
  rw [key]
  rfl

/-- `KTableCache.load_opacity(molecule_filter=[m])` as `__getitem__` calls it -/
theorem src_k_load_opacity (fs : List Dir) (klasses : List Fmt) (s : CSt) (m : String) (pa : Option Nat)
    (hord : klasses.flatMap (fun c => (curFiles fs s).filter (fun e => decide (e.fmt = c))) = curFiles fs s) :
    Gen.SrcC14.KTableCache_load_opacity [m] constructM (discoverK fs) klasses s.path (fun o => o.mol)
        s.dict pa (worldOf s) s.interp = (encS (loadFromK fs m s), Except.ok ()) := by
  unfold Gen.SrcC14.KTableCache_load_opacity
  simp only [src_k_load_opacity_from_path fs klasses s m pa hord, Py.caseE_ok]

/-- **`KTableCache()[m]` is `stepK fs s (.get m)`** -/
theorem src_k_getitem (fs : List Dir) (klasses : List Fmt) (s : CSt) (m : String) (pa : Option Nat)
    (hord : klasses.flatMap (fun c => (curFiles fs s).filter (fun e => decide (e.fmt = c))) = curFiles fs s) :
    Gen.SrcC14.KTableCache_getitem m constructM (discoverK fs) klasses s.path (fun o => o.mol)
        s.dict pa (worldOf s) s.interp
      = (encS (stepK fs s (.get m)).1, respE (stepK fs s (.get m)).2) := by
  unfold Gen.SrcC14.KTableCache_getitem
  simp only [stepK, lookup_eq_dget, dhas_eq_isSome, Py.dgetE]
  cases h1 : Py.dget s.dict m with
  | some o => simp [encS, respE]
  | none =>
    simp only [Option.isSome_none, Bool.false_eq_true, if_false, src_k_load_opacity fs klasses s m pa hord, encS,
      Py.caseE_ok]
    cases h2 : Py.dget (loadFromK fs m s).dict m with
    | some o => simp [respE]
    | none => simp [respE]

/-- `KTableCache.set_ktable_path(p)` is `stepK fs s (.setPath p)` (the path is stored, then `NotADirectoryError`) -/
theorem src_set_ktable_path (fs : List Dir) (s : CSt) (p : Nat) :
    Gen.SrcC14.KTableCache_set_ktable_path p (isdirM fs) (worldOf s)
      = ((stepK fs s (.setPath p)).1.path,
         match (stepK fs s (.setPath p)).2 with
         | .done => Except.ok ()
         | _ => Except.error (Py.Err.other "NotADirectoryError")) ∧
    (stepK fs s (.setPath p)).1 = { s with path := (stepK fs s (.setPath p)).1.path } :=
  src_set_opacity_path fs s p

/-- `KTableCache.clear_cache()` is `stepK fs s .clear`; `_opacity_path` is re-read from the GlobalCache -/
theorem src_k_clear_cache (fs : List Dir) (s : CSt) :
    (Gen.SrcC14.KTableCache_clear_cache s.path : List (String × Obj) × Option Nat)
      = ((stepK fs s .clear).1.dict, s.path) ∧
    (stepK fs s .clear).1 = { s with dict := (stepK fs s .clear).1.dict } := ⟨rfl, rfl⟩

/-- `KTableCache.add_opacity(opacity)` as a user calls it is `stepK fs s (.add m k)` -/
theorem src_k_add (fs : List Dir) (s : CSt) (m : String) (k : Nat) :
    Gen.SrcC14.KTableCache_add_opacity { id := s.nextId, mol := m, mode := k, inMem := none, src := none } none
        (fun o => o.mol) s.dict = (stepK fs s (.add m k)).1.dict := src_add fs s m k


end

/-! ### the CIA cache (taurex/cache/ciaacache.py) against `CiaSM` of TaurexModel/CacheSM.lean

  Layout (`Proofs/C14SrcCaches.lean`): `cia_dict` is the model's `dict`, `_cia_path` its `path`, the world `(log, nextId)`.
  Instantiation of what the translated text leaves open: `isinstance(p, str) := isStr`, `isinstance(p, (list,)) := isList`,
  iterating a list of paths `:= pathItems`, `os.path.join := Prod.mk`, `glob := globC fs` (the `*.db` / `*.cia` files of a
  directory in glob order), `Path(f).stem := stem` — any function with `hdisc`: the stem up to the first `_` is the pair name
  the model records for the file —, `PickleCIA(f, name) := constructP`, `HitranCIA(f) := constructH`, `cia.pairName := o.pair`. -/

section
open Taurex.CiaSM

/-- `CIACache.add_cia(cia)` is `addCia` -/
theorem src_cia_add_cia (s : St) (o : CObj) :
    Gen.SrcC14.CIACache_add_cia o s.dict (fun o => o.pair) = ((addCia s o).1.dict, excB (addCia s o).2) := by
  unfold Gen.SrcC14.CIACache_add_cia addCia
  rw [chasKey_eq_dhas]
  cases hk : Py.dhas s.dict o.pair with
  | true => simp [excB]
  | false => simp [excB, dset_new _ _ _ hk]

/-- the filter of `add_cia(cia, pair_filter)` has no effect: the object is stored either way -/
theorem src_cia_add_filter_ignored (d : List (String × CObj)) (o : CObj) (f : List String) :
    Gen.SrcC14.CIACache_add_cia_filtered o f d (fun o => o.pair) = Gen.SrcC14.CIACache_add_cia o d (fun o => o.pair) := by
  unfold Gen.SrcC14.CIACache_add_cia_filtered Gen.SrcC14.CIACache_add_cia
  cases hk : Py.dhas d o.pair with
  | true => simp
  | false =>
    by_cases hf : Py.lhas f o.pair = true
    · simp [hf, dset_dset]
    · simp [hf]


section
variable (fs : List CDir) (stem : CFile → String) (hdisc : ∀ e, (Py.split1 '_' (stem e)).getD 0 "" = e.disc)
include hdisc

/-- **`CIACache.load_cia_from_path(path, pair_filter=[m])` is `loadDir fs m`**: the `*.db` files of the directory, then its
    `*.cia` files; every file whose stem up to the first `_` is `m` — unless `m` is cached by then (fix d5856f4: the first
    container found is the one served) — is constructed and handed to `add_cia`, whose exception (a `.cia` file whose headers
    name another, cached pair) ends the function with the cache as it is then -/
theorem src_cia_load_from_path (s : St) (m : String) (p : Nat) :
    Gen.SrcC14.CIACache_load_cia_from_path (CPath.single p) (some [m]) () () s.dict constructH constructP (globC fs)
        (fun o => o.pair) Prod.mk stem (s.log, s.nextId)
      = (encC (loadDir fs m s p).1, excB (loadDir fs m s p).2) := by
  unfold Gen.SrcC14.CIACache_load_cia_from_path loadDir loadDirWith
  simp only [Option.elim_some, Prod.eta]
  generalize hR : Py.forE (globC fs (s.log, s.nextId) (CPath.single p, "*.db")) _ _ = R
  have key : R = (encC (forB (loadStep m) s (dirFiles fs p .db)).1,
      if (forB (loadStep m) s (dirFiles fs p .db)).2 then some Py.Err.exception else none) := by
    rw [← hR]
    refine forE_simB encC (loadStep m) Py.Err.exception _ (dirFiles fs p .db) (fun t e he => ?_) s
    have hfmt : e.fmt = .db := by simpa [dirFiles] using (List.mem_filter.1 he).2
    simp only [hdisc, encC, Py.lhas, List.any_cons, List.any_nil, Bool.or_false, loadStep, constructP]
    by_cases hd : e.disc = m
    · subst hd
      have ho : objPair e = e.disc := by simp [objPair, hfmt]
      have ha := src_cia_add_cia { t with nextId := t.nextId + 1, log := t.log ++ [(e.disc, e.fileId)] }
        { id := t.nextId, pair := e.disc, src := some e.fileId }
      have hf := addCia_frame { t with nextId := t.nextId + 1, log := t.log ++ [(e.disc, e.fileId)] }
        { id := t.nextId, pair := e.disc, src := some e.fileId }
      simp only [] at ha
      cases hkc : Py.dhas t.dict e.disc with
      | true => simp [chasKey_eq_dhas, hkc]
      | false =>
        simp only [decide_true, Bool.not_true, Bool.false_eq_true, if_false, beq_self_eq_true, if_true, ho, ha,
          chasKey_eq_dhas, hkc, Bool.not_false, Bool.and_self]
        rw [hf]
        cases (addCia { t with nextId := t.nextId + 1, log := t.log ++ [(e.disc, e.fileId)] }
          { id := t.nextId, pair := e.disc, src := some e.fileId }).2 <;> simp [excB]
    · have : (e.disc == m) = false := by simpa using hd
      simp [hd, this]
  rw [key]
  rcases h1 : forB (loadStep m) s (dirFiles fs p .db) with ⟨s1, b1⟩
  cases b1 with
  | true => simp [encC, excB]
  | false =>
    simp only [Bool.false_eq_true, if_false, Py.caseO_none, encC]
    generalize hR2 : Py.forE (globC fs (s1.log, s1.nextId) (CPath.single p, "*.cia")) _ _ = R2
    have key2 : R2 = (encC (forB (loadStep m) s1 (dirFiles fs p .cia)).1,
        if (forB (loadStep m) s1 (dirFiles fs p .cia)).2 then some Py.Err.exception else none) := by
      rw [← hR2]
      refine forE_simB encC (loadStep m) Py.Err.exception _ (dirFiles fs p .cia) (fun t e he => ?_) s1
      have hfmt : e.fmt = .cia := by simpa [dirFiles] using (List.mem_filter.1 he).2
      simp only [hdisc, encC, Py.lhas, List.any_cons, List.any_nil, Bool.or_false, loadStep, constructH]
      by_cases hd : e.disc = m
      · subst hd
        have ho : objPair e = e.obj := by simp [objPair, hfmt]
        have ha := src_cia_add_cia { t with nextId := t.nextId + 1, log := t.log ++ [(e.disc, e.fileId)] }
          { id := t.nextId, pair := e.obj, src := some e.fileId }
        have hf := addCia_frame { t with nextId := t.nextId + 1, log := t.log ++ [(e.disc, e.fileId)] }
          { id := t.nextId, pair := e.obj, src := some e.fileId }
        simp only [] at ha
        cases hkc : Py.dhas t.dict e.disc with
        | true => simp [chasKey_eq_dhas, hkc]
        | false =>
          simp only [decide_true, Bool.not_true, Bool.false_eq_true, if_false, beq_self_eq_true, if_true, ho, ha,
            chasKey_eq_dhas, hkc, Bool.not_false, Bool.and_self]
          rw [hf]
          cases (addCia { t with nextId := t.nextId + 1, log := t.log ++ [(e.disc, e.fileId)] }
            { id := t.nextId, pair := e.obj, src := some e.fileId }).2 <;> simp [excB]
      · have : (e.disc == m) = false := by simpa using hd
        simp [hd, this]
    rw [key2]
    rcases h2 : forB (loadStep m) s1 (dirFiles fs p .cia) with ⟨s2, b2⟩
    cases b2 <;> simp [encC, excB]

/-- **`CIACache.load_cia(pair_filter=[m])` is `loadCia fs m`**: nothing without a path; one directory; or the directories of
    a list in order, stopping at the first exception -/
theorem src_cia_load_cia (s : St) (m : String) :
    Gen.SrcC14.CIACache_load_cia (some [m]) () () s.dict s.path constructH constructP (globC fs) isList isStr
        (fun o => o.pair) pathItems Prod.mk stem (s.log, s.nextId)
      = (encC (loadCia fs m s).1, excB (loadCia fs m s).2) := by
  unfold Gen.SrcC14.CIACache_load_cia loadCia loadCiaWith
  cases hp : s.path with
  | none => simp [encC, excB]
  | some q =>
    cases q with
    | single p =>
      simp only [Option.elim_some, isStr, if_true, src_cia_load_from_path fs stem hdisc s m p, encC, loadDir]
      rcases loadDirWith loadStep fs m s p with ⟨s1, b1⟩
      cases b1 <;> simp [excB]
    | many ps =>
      simp only [Option.elim_some, isStr, isList, Bool.false_eq_true, if_false, if_true, pathItems, Prod.eta]
      generalize hR : Py.forE (ps.map CPath.single) _ _ = R
      have key : R = (encC (forB (loadDirWith loadStep fs m) s ps).1,
          if (forB (loadDirWith loadStep fs m) s ps).2 then some Py.Err.exception else none) := by
        rw [← hR]
        have hb : forB (loadDirWith loadStep fs m) s ps = forB (fun t (q : CPath) => match q with
            | .single p => loadDirWith loadStep fs m t p
            | .many _ => (t, false)) s (ps.map CPath.single) := by rw [forB_map]
        rw [hb]
        refine forE_simB encC _ Py.Err.exception _ (ps.map CPath.single) (fun t q hq => ?_) s
        obtain ⟨p, _, rfl⟩ := List.mem_map.1 hq
        have h := src_cia_load_from_path fs stem hdisc t m p
        simp only [encC, loadDir] at h ⊢
        simp only [h]
        cases (loadDirWith loadStep fs m t p).2 <;> simp [excB]
      rw [key]
      rcases forB (loadDirWith loadStep fs m) s ps with ⟨s1, b1⟩
      cases b1 <;> simp [encC, excB]

/-- **`CIACache()[m]` is `CiaSM.step fs s (.get m)`**: a cached pair is served as it is; otherwise the path is searched; an
    exception of `add_cia` (a second object of a cached name) leaves `__getitem__`; else the object now cached under `m` is
    served or `Exception('cia could notn be loaded')` raised -/
theorem src_cia_getitem (s : St) (m : String) :
    Gen.SrcC14.CIACache_getitem m () () s.dict s.path constructH constructP (globC fs) isList isStr
        (fun o => o.pair) pathItems Prod.mk stem (s.log, s.nextId)
      = (encC (step fs s (.get m)).1, respC (step fs s (.get m)).2) := by
  unfold Gen.SrcC14.CIACache_getitem
  simp only [step, stepWith, clookup_eq_dget, dhas_eq_isSome', Py.dgetE]
  cases h1 : Py.dget s.dict m with
  | some o => simp [encC, respC]
  | none =>
    simp only [Option.isSome_none, Bool.false_eq_true, if_false, src_cia_load_cia fs stem hdisc s m, encC, loadCia]
    rcases loadCiaWith loadStep fs m s with ⟨s1, b1⟩
    cases b1 with
    | true => simp [excB, respC]
    | false =>
      simp only [excB, Bool.false_eq_true, if_false, Py.caseE_ok]
      cases h2 : Py.dget s1.dict m with
      | some o => simp [respC]
      | none => simp [respC]

end

/-- `CIACache.set_cia_path(p)` is `CiaSM.step fs s (.setPath p)`: the path is stored, nothing else happens -/
theorem src_cia_set_path (fs : List CDir) (s : St) (p : CPath) :
    Gen.SrcC14.CIACache_set_cia_path p = (step fs s (.setPath p)).1.path ∧
    (step fs s (.setPath p)).1 = { s with path := (step fs s (.setPath p)).1.path } := ⟨rfl, rfl⟩

/-- `add_cia(cia)` as a user calls it is `CiaSM.step fs s (.add m)` for the object the model gives the next identity -/
theorem src_cia_add (fs : List CDir) (s : St) (m : String) :
    Gen.SrcC14.CIACache_add_cia { id := s.nextId, pair := m, src := none } s.dict (fun o => o.pair)
      = ((step fs s (.add m)).1.dict, match (step fs s (.add m)).2 with
          | .dup => Except.error Py.Err.exception
          | _ => Except.ok ()) := by
  have h := src_cia_add_cia { s with nextId := s.nextId + 1 } { id := s.nextId, pair := m, src := none }
  simp only [] at h
  rw [h]
  simp only [step, stepWith]
  rcases addCia { s with nextId := s.nextId + 1 } { id := s.nextId, pair := m, src := none } with ⟨s', b⟩
  cases b <;> simp [excB]

end

/-! ### the Exo-Transmit text reader (taurex/opacity/exotransmit.py:_load_exo_transmit after `f.readlines()`)

  `lines` are the text lines; `parse` stands for `np.array([float(l) for l in line.split()])`; `E` for `np.empty` (any array
  of the requested shape: `hE`); `argsort` is the model's; the literals `1e-6`, `1e-60` are `1/1000000` and `tiny`.  The file is
  well-formed: the lines after the two header lines are, block by block (`B`), a one-number wavelength line followed by one
  row `P xsec(T₀) …` per pressure of the header (`hbody`, `hrows`); both header lines hold at least one number (the reader
  takes `min()` / `max()` of them: `ValueError` otherwise).  Then the attributes the reader assigns are the fields of
  `decExo tiny` of the parsed file. -/

section
variable {α : Type} [Add α] [Mul α] [Div α] [OfNat α 0] [OfNat α 10000] [Sub α] [Neg α] [LT α] [LE α] [DecidableLT α]
  [DecidableLE α] [OfNat α 1] [OfNat α 10] [OfNat α 100] [OfNat α 760] [OfNat α 1000]
  [OfNat α 100000] [OfNat α 101325] [OfNat α 1000000] [OfNat α 1000000000] [OfNat α 10000000000]
  [OfNat α 133322387415]

/-- **`ExoTransmitOpacity._load_exo_transmit` (after `readlines`) is `decExo`** for a well-formed file -/
theorem src_exo_load (parse : String → List α) (E : Nat × Nat × Nat → List (List (List α)))
    (hE : ∀ a b c, ∃ g, E (a, b, c) = tab3 a b c g)
    (tiny : α) (l0 l1 : String) (body : List String) (B : List (α × List (List α)))
    (hbody : body.map parse = B.flatMap (fun b => [b.1] :: b.2))
    (hrows : ∀ b ∈ B, b.2.length = (parse l1).length ∧ ∀ r ∈ b.2, r.length = (parse l0).length + 1)
    (hT : parse l0 ≠ []) (hP : parse l1 ≠ [])
    (mxp mxt mnp mnt : α) (p0 t0 w0 : List α) (x0 : List (List (List α))) :
    Gen.SrcC14.ExoTransmit_load (l0 :: l1 :: body) (c1em06 := 1 / 1000000) (c1em60 := tiny) mxp mxt mnp mnt
        argsort E parse p0 t0 w0 x0
      = (((decExo tiny ⟨parse l0, parse l1, body.map parse⟩).t, (decExo tiny ⟨parse l0, parse l1, body.map parse⟩).p,
          (decExo tiny ⟨parse l0, parse l1, body.map parse⟩).wn, (decExo tiny ⟨parse l0, parse l1, body.map parse⟩).x,
          lmin ((parse l1).map (fun v => v * 100000)), lmax ((parse l1).map (fun v => v * 100000)),
          lmin (parse l0), lmax (parse l0)), Except.ok ()) := by
  have hP' : (parse l1).map (fun v => v * (100000 : α)) ≠ [] := by simpa using hP
  have hnT : 1 ≤ (parse l0).length := by
    cases h : parse l0 with
    | nil => exact absurd h hT
    | cons a t => simp
  have hne1 : ∀ b ∈ B, ∀ r ∈ b.2, r.length ≠ 1 := by
    intro b hb r hr
    have := (hrows b hb).2 r hr
    omega
  unfold Gen.SrcC14.ExoTransmit_load
  simp only [List.getD_cons_zero, List.getD_cons_succ, List.drop_succ_cons, List.drop_zero, minE_eq _ hP', maxE_eq _ hP',
    minE_eq _ hT, maxE_eq _ hT, Py.caseE_ok, Gen.SrcC14.ExoTransmit_pressureGrid, Gen.SrcC14.ExoTransmit_temperatureGrid,
    Gen.SrcC14.ExoTransmit_wavenumberGrid]
  rw [foldl_via (wnStep (1 / 1000000)) parse _ ?h1 [] body]
  case h1 => intro st it; simp [wnStep]
  rw [foldl_via (xsStep tiny) parse _ ?h2 _ body]
  case h2 => intro st it; simp [xsStep]
  rw [hbody, wn_blocks _ B hne1]
  simp only [List.nil_append, List.length_map, argsort_length]
  obtain ⟨g, hg⟩ := hE (parse l1).length (parse l0).length B.length
  have h0 : ((-1 : Int), (0 : Int), E ((parse l1).length, (parse l0).length, B.length))
      = (((0 : Nat) : Int) - 1, (0 : Int), tab3 (parse l1).length (parse l0).length B.length g) := by
    rw [hg]; rfl
  obtain ⟨pc', hloop⟩ := blocks_loop tiny (parse l1).length (parse l0).length B.length hnT B 0 g 0 (by omega) hrows
  rw [h0, hloop]
  unfold decExo
  simp only [exoGroup_blocks' B hne1, exoWn, gather]
  refine Prod.ext (Prod.ext rfl (Prod.ext rfl (Prod.ext rfl (Prod.ext ?_ rfl)))) rfl
  simp only [Py.takeLast3, tab3, List.map_map]
  apply List.map_congr_left
  intro i _
  simp only [Function.comp, List.map_map]
  apply List.map_congr_left
  intro j _
  simp only [Function.comp, List.map_map]
  apply List.map_congr_left
  intro k hk
  have hk' : k < B.length := by
    have := argsort_lt _ k hk
    simpa using this
  simp only [Function.comp]
  rw [getD_map_range _ _ k hk']
  have c : (0 ≤ k ∧ k < 0 + B.length) := ⟨by omega, by omega⟩
  rw [if_pos c, Nat.sub_zero]

end

/-! ### the readers: container contents -> loaded table

  `start_at` / `stop_at` in the specs select the assignments that turn what the container library delivered (the declared
  cells `self._spec_dict[...]`) into the loaded axes and table; the theorems state that these are the decoders of
  `TaurexModel/Loaders.lean`.  `allocate_as_shared` (a copy into shared memory) is instantiated with the identity;
  `u.Unit(name).to(u.Pa)` / `u.Unit(name, format='cds').to(u.Pa)` with the model's tables `unitDirect` / `unitCds`
  (`ValueError` for a name the parser does not know). -/

section
variable {α : Type} [Add α] [Sub α] [Mul α] [Div α] [Neg α] [LT α] [LE α] [DecidableLT α] [DecidableLE α]
  [OfNat α 0] [OfNat α 1] [OfNat α 10] [OfNat α 100] [OfNat α 760] [OfNat α 1000] [OfNat α 10000]
  [OfNat α 100000] [OfNat α 101325] [OfNat α 1000000] [OfNat α 1000000000] [OfNat α 10000000000]
  [OfNat α 133322387415] [Taurex.Transc α]

/-- `none` of the model read as `ValueError` -/
def optE {β : Type} : Option β → Except Py.Err β
  | some v => .ok v
  | none => .error .valueError

/-- the unit conversion both HDF5 readers end up with (`try … except …: format="cds"`) is `unitFactor true` -/
theorem unit_try_except (name : String) (caught : Py.Err → Bool) (hc : caught .valueError = true) :
    Py.caseE (optE (unitDirect (α := α) name)) (fun e => if caught e then optE (unitCds name) else Except.error e)
      (fun v => Except.ok v) = optE (unitFactor true name) := by
  unfold unitFactor
  cases unitDirect (α := α) name with
  | some f => rfl
  | none => simp [optE, hc]

theorem unit_bare_except (name : String) :
    Py.caseE (optE (unitDirect (α := α) name)) (fun _ => optE (unitCds name)) (fun v => Except.ok v)
      = optE (unitFactor true name) := by
  unfold unitFactor
  cases unitDirect (α := α) name with
  | some f => rfl
  | none => simp [optE]

/-- `PickleOpacity._load_pickle_file`: `decPickle` (pressures bar -> Pa, everything else as stored) -/
theorem src_pickle_opacity_load (f : PickleX α) :
    Gen.SrcC14.PickleOpacity_load id f.p f.t f.wno f.xsecarr
      = ((decPickle f).wn, (decPickle f).t, (decPickle f).p, (decPickle f).x) := rfl

/-- `HDF5Opacity._load_hdf_file`: `decHdf` — `bin_edges` is the wavenumber grid, pressures times the factor of the declared
    unit; when the unit converts under neither parser the reader raises (`ValueError`) with the pressure and cross-section
    attributes not yet assigned (`p0`, `x0`: their previous values) -/
theorem src_hdf5_opacity_load (f : HdfX α) (mem : Bool) (p0 : List α) (x0 : List (List (List α))) :
    Gen.SrcC14.HDF5Opacity_load id f.binEdges f.p f.units f.t f.xsecarr mem p0
        (fun n => optE (unitDirect n)) (fun n => optE (unitCds n)) x0
      = match decHdf f with
        | some tab => ((tab.wn, tab.t, tab.p, tab.x), Except.ok ())
        | none => ((f.binEdges, f.t, p0, x0), Except.error Py.Err.valueError) := by
  unfold Gen.SrcC14.HDF5Opacity_load decHdf
  simp only []
  rw [unit_try_except f.units _ (by simp)]
  cases unitFactor (α := α) true f.units with
  | none => rfl
  | some c => cases mem <;> rfl

/-- `PickleKTable._load_pickle_file`: `decPickleK` -/
theorem src_pickle_ktable_load (f : PickleK α) :
    Gen.SrcC14.PickleKTable_load f.binCenters f.kcoeff f.ngauss f.p f.t f.weights
      = ((decPickleK f).wn, f.ngauss, (decPickleK f).t, (decPickleK f).p, (decPickleK f).k, (decPickleK f).weights) := rfl

/-- `HDF5KTable._load_pickle_file`: `decHdfK` (bare `except:` — every parse failure falls back to the CDS parser) -/
theorem src_hdf5_ktable_load (f : HdfK α) (mem : Bool) (p0 w0 : List α) (x0 : List (List (List (List α)))) :
    Gen.SrcC14.HDF5KTable_load f.binCenters f.kcoeff f.ngauss f.p f.units f.t f.weights mem p0
        (fun n => optE (unitDirect n)) (fun n => optE (unitCds n)) w0 x0
      = match decHdfK f with
        | some tab => ((tab.wn, f.ngauss, tab.t, tab.p, tab.k, tab.weights), Except.ok ())
        | none => ((f.binCenters, f.ngauss, f.t, p0, x0, w0), Except.error Py.Err.valueError) := by
  unfold Gen.SrcC14.HDF5KTable_load decHdfK
  simp only []
  rw [unit_bare_except f.units]
  cases unitFactor (α := α) true f.units with
  | none => rfl
  | some c => cases mem <;> rfl

/-- `PickleCIA._load_pickle_file`: `decPickleC` -/
theorem src_pickle_cia_load (f : PickleC α) :
    Gen.SrcC14.PickleCIA_load f.t f.wno f.xsecarr = ((decPickleC f).wn, (decPickleC f).t, (decPickleC f).x) := rfl

end

/-! ### HitranCIA: the grid objects of `_wn_dict`

  `_wn_dict` maps `hashwn(start, end)` to a `HitranCiaGrid`; an object is read as the record `(wn, Tsigma)` of its attributes,
  the dict as the model's list of grids in insertion order (`hk` = the hash of a grid's key: any function). -/

section
variable {α : Type} [Add α] [Sub α] [Mul α] [Div α] [Neg α] [LT α] [LE α] [DecidableLT α] [DecidableLE α]
  [Taurex.Transc α] [OfNat α 0] [OfNat α 1] [OfNat α 10] [OfNat α 100] [OfNat α 760] [OfNat α 1000] [OfNat α 10000]
  [OfNat α 100000] [OfNat α 101325] [OfNat α 1000000] [OfNat α 1000000000] [OfNat α 10000000000]
  [OfNat α 133322387415]

/-- **`HitranCIA.fill_gaps(temperature)` is `fillGaps`**: every grid object is sorted and filled up to the master temperature
    grid, in place; no exception as long as every grid has at least one temperature -/
theorem src_fill_gaps (hlt : ∀ a b : α, ¬ b < a ↔ a ≤ b) (hk : α × α → String) (temps : List α) (grids : List (HGrid α))
    (hne : ∀ g ∈ grids, g.ts ≠ []) :
    Gen.SrcC14.HitranCIA_fill_gaps temps (gdict hk grids) = (gdict hk (fillGaps temps grids), Except.ok ()) := by
  unfold Gen.SrcC14.HitranCIA_fill_gaps
  simp only []
  rw [forE_inplace ("", ([], [])) (fun (o : List α × List (α × List α)) => o.2 ≠ [])
    (fun o => (o.1, fillTemperature o.1 (sortTs o.2) temps)) _ ?hF (gdict hk grids) ?hP]
  case hP =>
    intro kv hkv
    simp only [gdict, List.mem_map] at hkv
    obtain ⟨g, hg, rfl⟩ := hkv
    exact hne g hg
  case hF =>
    intro st i hP
    have hs : sortTs (st.getD i ("", ([], []))).2.2 ≠ [] := by
      intro h
      apply hP
      have := congrArg List.length h
      simp only [sortTs, List.length_mergeSort, List.length_nil] at this
      exact List.eq_nil_of_length_eq_zero this
    simp only [src_sortTempSigma hlt, src_fill_temperature hlt _ _ temps hs, Py.caseE_ok]
  simp [gdict, fillGaps, List.map_map, Function.comp_def]

/-- **`HitranCIA.compute_final_grid()` is `finalGrid`**: the wavenumber grids of all range objects are joined and sorted; for
    every temperature of the master grid the rows of all ranges are joined and put into the same order.  `np.argsort` is the
    model's `argsort` (an ASSUMPTION of the model: the sorting permutation of pairwise distinct keys). -/
theorem src_compute_final_grid (hk : α × α → String) (temps : List α) (grids : List (HGrid α)) :
    Gen.SrcC14.HitranCIA_compute_final_grid argsort temps (gdict hk grids)
      = ((finalGrid temps grids).wn, (finalGrid temps grids).x) := by
  have hv : Py.values (gdict hk grids) = grids.map (fun g => (g.wn, g.ts)) := by
    simp [Py.values, gdict, List.map_map, Function.comp_def]
  unfold Gen.SrcC14.HitranCIA_compute_final_grid finalGrid
  simp only [hv]
  rw [foldl_append_map (fun (w : List α × List (α × List α)) => w.1) _ (fun _ _ => rfl)]
  rw [foldl_append_map (fun (p : Nat × α) =>
        List.map (fun i => (List.flatten (List.foldl (fun (acc : List (List α)) (w : List α × List (α × List α)) =>
            acc ++ [((w.2).getD p.1 ((0 : α), [])).2]) [] (grids.map (fun g => (g.wn, g.ts))))).getD i (0 : α))
          (argsort (List.flatten ([] ++ (grids.map (fun g => (g.wn, g.ts))).map (fun w => w.1)))))
      _ (fun _ _ => rfl)]
  have hrow : ∀ idx : Nat, List.foldl (fun (acc : List (List α)) (w : List α × List (α × List α)) =>
        acc ++ [((w.2).getD idx ((0 : α), [])).2]) [] (grids.map (fun g => (g.wn, g.ts)))
      = grids.map (fun g => (g.ts.getD idx (0, [])).2) := by
    intro idx
    rw [foldl_append_map (fun (w : List α × List (α × List α)) => ((w.2).getD idx ((0 : α), [])).2) _ (fun _ _ => rfl)]
    simp [List.map_map, Function.comp_def]
  simp only [hrow, List.nil_append, List.map_map, Function.comp_def, List.flatMap_def, gather, Py.enumerate]
  refine Prod.ext rfl ?_
  simp only []
  have hz : ∀ (g : Nat → List α) (l : List α),
      List.map (fun (p : Nat × α) => g p.1) ((List.range l.length).zip l) = (List.range l.length).map g := by
    intro g l
    have : List.map (fun (p : Nat × α) => g p.1) ((List.range l.length).zip l)
        = List.map g (List.map Prod.fst ((List.range l.length).zip l)) := by simp [List.map_map, Function.comp_def]
    rw [this, List.map_fst_zip (by simp)]
  exact hz (fun idx => List.map (fun i => (List.map (fun g => (g.ts.getD idx (0, [])).snd) grids).flatten.getD i 0)
    (argsort (List.map (fun x => x.wn) grids).flatten)) temps

/-- `temp_list.sort()` is the model's merge sort by `≤` (same remark as for `sortTempSigma`) -/
theorem sort_eq_mergeSort (hlt : ∀ a b : α, ¬ b < a ↔ a ≤ b) (l : List α) :
    Py.sortOn (fun a b => decide (a < b)) (fun (e : α) => e) l = l.mergeSort (fun a b => decide (a ≤ b)) := by
  unfold Py.sortOn
  congr 1
  funext a b
  by_cases h : b < a
  · have : ¬ a ≤ b := fun h' => ((hlt a b).2 h') h
    simp [h, this]
  · have : a ≤ b := (hlt a b).1 h
    simp [h, this]

/-- **the end of `HitranCIA.load_hitran_file`** (after the reading loop has collected the temperatures `tl` and the range
    objects `grids`): sort the temperatures, fill the gaps of every range, unify — `decHitran` after `hLoad`.
    `t0 w0 x0`: the previous values of the attributes (overwritten). -/
theorem src_load_hitran_tail (hlt : ∀ a b : α, ¬ b < a ↔ a ≤ b) (hk : α × α → String) (tl : List α)
    (grids : List (HGrid α)) (hne : ∀ g ∈ grids, g.ts ≠ []) (t0 w0 : List α) (x0 : List (List α)) :
    Gen.SrcC14.HitranCIA_load_tail tl argsort t0 w0 (gdict hk grids) x0
      = ((tl.mergeSort (fun a b => decide (a ≤ b)),
          gdict hk (fillGaps (tl.mergeSort (fun a b => decide (a ≤ b))) grids),
          (finalGrid (tl.mergeSort (fun a b => decide (a ≤ b)))
            (fillGaps (tl.mergeSort (fun a b => decide (a ≤ b))) grids)).wn,
          (finalGrid (tl.mergeSort (fun a b => decide (a ≤ b)))
            (fillGaps (tl.mergeSort (fun a b => decide (a ≤ b))) grids)).x), Except.ok ()) := by
  unfold Gen.SrcC14.HitranCIA_load_tail
  simp only [sort_eq_mergeSort hlt, src_fill_gaps hlt hk _ grids hne, Py.caseE_ok, src_compute_final_grid]

/-- the loaded CIA table is `decHitran` of the file's blocks, given that the reading loop leaves what `hLoad` computes -/
theorem src_load_hitran_decHitran (hlt : ∀ a b : α, ¬ b < a ↔ a ≤ b) (hk : α × α → String) (blocks : List (HBlock α))
    (hne : ∀ g ∈ (hLoad blocks).2, g.ts ≠ []) (t0 w0 : List α) (x0 : List (List α)) :
    let r := Gen.SrcC14.HitranCIA_load_tail (hLoad blocks).1 argsort t0 w0 (gdict hk (hLoad blocks).2) x0
    r.2 = Except.ok () ∧ r.1.2.2.1 = (decHitran blocks).wn ∧ r.1.1 = (decHitran blocks).t ∧ r.1.2.2.2 = (decHitran blocks).x := by
  intro r
  have hr : r = _ := src_load_hitran_tail hlt hk (hLoad blocks).1 (hLoad blocks).2 hne t0 w0 x0
  rw [hr]
  simp [decHitran, finalGrid]

/-- `HitranCIA.read_header(f)` on a file that starts with the header line of the block `b`: the line is consumed, its tokens
    1–5 are the header fields, token 0 becomes `_pair_name` -/
theorem src_read_header (tx : HText α) (blocks : List (HBlock α)) (hok : tx.Ok blocks) (b : HBlock α) (hb : b ∈ blocks)
    (rest : List String) (pn : String) :
    Gen.SrcC14.HitranCIA_read_header (tx.hdr b :: rest) pn tx.splitWs tx.toFloat tx.toInt
      = ((rest, (tx.splitWs (tx.hdr b)).getD 0 ""),
         Except.ok (b.wn0, b.wn1, b.pts.length, b.temp, tx.toFloat ((tx.splitWs (tx.hdr b)).getD 5 ""))) := by
  obtain ⟨⟨hne, h1, h2, h3, h4⟩, _⟩ := hok b hb
  unfold Gen.SrcC14.HitranCIA_read_header
  simp only [List.headD_cons, List.tail_cons, Bool.false_or, decide_eq_true_eq, hne, if_false, h1, h2, h3, h4]

/-- `read_header` at the end of the file raises `EndOfHitranCIAException` -/
theorem src_read_header_eof (tx : HText α) (pn : String) :
    Gen.SrcC14.HitranCIA_read_header ([] : List String) pn tx.splitWs tx.toFloat tx.toInt
      = (([], pn), Except.error (Py.Err.other "EndOfHitranCIAException")) := by
  unfold Gen.SrcC14.HitranCIA_read_header
  simp

/-- **the WHOLE of `HitranCIA.load_hitran_file` is `decHitran`**, reading loop included.  The open file is the list of its lines
    (`tx.lines blocks`: per block its header line and one line per data point; `tx.Ok`: the tokens of these lines parse back to
    the numbers — `line.split()`, `float`, `int` are `tx.splitWs`, `tx.toFloat`, `tx.toInt`); `hashwn := hk` separates the
    `(start, end)` headers of the file as the model's comparison does (`HashOk`); `HitranCiaGrid(a, b)` makes an empty grid
    object; `1e-10 := 1/10000000000`; `np.argsort := argsort`; `fuel` = one pass per block and the pass that finds the end of
    the file.  Then `while True` reads the blocks one by one (`read_header`, the loop over the data lines with the clipping of
    negative values, the look-up / creation of the range object in `_wn_dict` — which IS the dict's element —,
    `add_temperature`, the overwritten wavenumber grid) exactly as the fold `hLoad` does, and the rest of the function (sort,
    `fill_gaps`, `compute_final_grid`) gives the temperature grid, wavenumber grid and table of `decHitran blocks`. -/
theorem src_load_hitran_file (hlt : ∀ a b : α, ¬ b < a ↔ a ≤ b) (tx : HText α) (hk : α × α → String)
    (blocks : List (HBlock α)) (hok : tx.Ok blocks) (hh : HashOk hk blocks)
    (pn0 : String) (t0 w0 : List α) (x0 : List (List α)) :
    ∃ pn, Gen.SrcC14.HitranCIA_load_hitran_file (c1em10 := 1 / 10000000000) (tx.lines blocks) (blocks.length + 1) (fun a b => hk (a, b))
        (fun _ _ => ([], [])) argsort pn0 tx.splitWs t0 tx.toFloat tx.toInt w0 [] x0
      = ((pn, (decHitran blocks).t,
          gdict hk (fillGaps ((hLoad blocks).1.mergeSort (fun a b => decide (a ≤ b))) (hLoad blocks).2),
          (decHitran blocks).wn, (decHitran blocks).x), Except.ok ()) := by
  unfold Gen.SrcC14.HitranCIA_load_hitran_file
  simp only [Prod.eta]
  generalize hR : Py.whileE (blocks.length + 1) _ _ = R
  obtain ⟨pn, hw⟩ : ∃ pn, R = (([], pn, (hLoad blocks).1, gdict hk (hLoad blocks).2), none) := by
    rw [← hR]
    refine while_blocks tx hk blocks hh _ ?hEnd ?hPass blocks (fun b hb => hb) pn0 [] [] ⟨by simp, by simp⟩
    case hEnd =>
      intro pn tl d
      simp only [src_read_header_eof, Py.caseE_error]
      simp
    case hPass =>
      intro b hb rest pn tl grids hg
      refine ⟨(tx.splitWs (tx.hdr b)).getD 0 "", ?_⟩
      simp only [src_read_header tx blocks hok b hb, Py.caseE_ok]
      rw [data_loop tx _ ?hF b.pts (List.range b.pts.length) rest [] [] (by simp) (hok b hb).2]
      case hF => intro st i; simp [dataStep]
      simp only [List.nil_append, src_add_temperature, dset_dset_same]
      have hm : (if (!(tl.any fun y__ => decide (b.temp ≤ y__) && decide (y__ ≤ b.temp))) = true then tl ++ [b.temp] else tl)
          = (hStepG (tl, grids) b).1 := by
        show (if (!memv b.temp tl) = true then tl ++ [b.temp] else tl) = (if memv b.temp tl then tl else tl ++ [b.temp])
        cases memv b.temp tl <;> rfl
      rw [hm]
      simp only [hStepG, upsert_hash hk blocks hh grids hg b hb, dhas_gdict]
      by_cases ha : grids.any (fun g => decide (hk g.key = hk (b.wn0, b.wn1))) = true
      · obtain ⟨g0, hg0, hk0⟩ := List.any_eq_true.1 ha
        have hk0' : hk g0.key = hk (b.wn0, b.wn1) := by simpa using hk0
        obtain ⟨hget, hset⟩ := gdict_hit hk (hk (b.wn0, b.wn1)) grids hg.1 g0 hg0 hk0'
        simp only [ha, Bool.not_true, Bool.false_eq_true, if_false, if_true, Py.dgetE, hget, Py.caseE_ok, hset]
        have hmap : grids.map (fun g => if hk g.key = hk (b.wn0, b.wn1) then
              { g with wn := b.pts.map (·.1), ts := g0.ts ++ [(b.temp, b.pts.map (fun q => clipSigma q.2))] } else g)
            = grids.map (fun g => if hk g.key = hk (b.wn0, b.wn1) then
              { g with wn := b.pts.map (·.1), ts := g.ts ++ [(b.temp, b.pts.map (fun q => clipSigma q.2))] } else g) := by
          apply List.map_congr_left
          intro g hgm
          by_cases hgk : hk g.key = hk (b.wn0, b.wn1)
          · have : g = g0 := nodup_map_inj (fun g : HGrid α => hk g.key) grids hg.1 g hgm g0 hg0 (hgk.trans hk0'.symm)
            subst this
            rfl
          · simp [hgk]
        rw [hmap]
      · have hf : Py.dhas (gdict hk grids) (hk (b.wn0, b.wn1)) = false := by
          rw [dhas_gdict]; simpa using ha
        simp only [ha, Bool.not_false, if_true, Bool.false_eq_true, if_false, dset_new' _ _ _ hf, Py.dgetE,
          dget_append_new _ _ _ hf, Py.caseE_ok, dset_append_new _ _ _ _ hf, List.nil_append]
        simp [gdict]
  rw [hw]
  refine ⟨pn, ?_⟩
  simp only [Py.caseO_none, sort_eq_mergeSort hlt, src_fill_gaps hlt hk _ _ (hLoad_ts_ne' blocks), Py.caseE_ok,
    src_compute_final_grid]
  simp [decHitran, finalGrid]

end

/-! ### molecule names (TaurexModel/Sanitize.lean)

  `pathlib.Path(x).stem := stemS` (the model's `stem` on the characters), `sanitize_molecule_string := sanitizeStr` (the model's
  scanner for the regular expression; the regular expression itself is not translated).  File names are strings; the model
  works on their characters. -/

section
open Taurex.Sanitize

/-- `clean_molecule_name()` (identical in PickleOpacity, PickleKTable, HDF5KTable): keep what precedes the first `_` -/
theorem src_clean_molecule_name (nm : String) :
    Gen.SrcC14.PickleOpacity_clean_molecule_name nm = String.ofList (firstPart '_' nm.toList) ∧
    Gen.SrcC14.PickleKTable_clean_molecule_name nm = String.ofList (firstPart '_' nm.toList) ∧
    Gen.SrcC14.HDF5KTable_clean_molecule_name nm = String.ofList (firstPart '_' nm.toList) :=
  ⟨split1_head '_' nm, split1_head '_' nm, split1_head '_' nm⟩

/-- PickleOpacity: the name `_load_pickle_file` derives from the file name, then `clean_molecule_name`, is `objName .pickleXsec`;
    what `discover()` advertises for the file is `discName .pickleXsec` -/
theorem src_pickle_opacity_names (fname : String) (stored : List Char) :
    Gen.SrcC14.PickleOpacity_clean_molecule_name (Gen.SrcC14.PickleOpacity_name fname stemS sanitizeStr)
      = String.ofList (objName .pickleXsec fname.toList stored) ∧
    Gen.SrcC14.PickleOpacity_name fname stemS sanitizeStr = String.ofList (discName .pickleXsec fname.toList) := by
  have h : Gen.SrcC14.PickleOpacity_name fname stemS sanitizeStr = String.ofList (discName .pickleXsec fname.toList) := by
    simp only [Gen.SrcC14.PickleOpacity_name, split1_head]
    simp [stemS, sanitizeStr, discName]
  refine ⟨?_, h⟩
  rw [(src_clean_molecule_name _).1, h]
  simp [objName, discName]

/-- the loop of a `discover()` that appends `(name f, [f, interp])` for every file -/
theorem discover_loop (name : String → String) (interp : String)
    (F : List (String × List String) → String → List (String × List String))
    (hF : ∀ acc f, F acc f = acc ++ [(name f, [f, interp])]) (files : List String) :
    List.foldl F [] files = files.map (fun f => (name f, [f, interp])) := by
  simpa using foldl_append_map (fun f => (name f, [f, interp])) F hF files []

/-- `GlobalCache()['xsec_interpolation'] or 'linear'` -/
def interpOrLinear (x : Option String) : String := Option.elim x "linear" (fun v => if decide (v = "") then "linear" else v)

/-- **`PickleOpacity.discover()`** (after the glob): every `*.pickle` file is advertised under `discName .pickleXsec` with the
    constructor arguments `[file, interpolation mode]` -/
theorem src_pickle_opacity_discover (files : List String) (interp : Option String) :
    Gen.SrcC14.PickleOpacity_discover files stemS sanitizeStr interp
      = files.map (fun f => (String.ofList (discName .pickleXsec f.toList), [f, interpOrLinear interp])) := by
  unfold Gen.SrcC14.PickleOpacity_discover
  simp only []
  rw [discover_loop (fun f => String.ofList (discName .pickleXsec f.toList)) (interpOrLinear interp) _ ?hF]
  case hF =>
    intro acc f
    simp only [split1_head]
    simp [stemS, sanitizeStr, discName, interpOrLinear]

/-- ExoTransmitOpacity: `stem[4:]` sanitised, both for the object and for the discovery -/
theorem src_exo_names (fname : String) (stored : List Char) :
    Gen.SrcC14.ExoTransmit_name fname stemS sanitizeStr = String.ofList (objName .exo fname.toList stored) ∧
    Gen.SrcC14.ExoTransmit_name fname stemS sanitizeStr = String.ofList (discName .exo fname.toList) := by
  constructor <;> simp [Gen.SrcC14.ExoTransmit_name, Py.strDrop, stemS, sanitizeStr, objName, discName]

theorem src_exo_discover (files : List String) (interp : Option String) :
    Gen.SrcC14.ExoTransmit_discover files stemS sanitizeStr interp
      = files.map (fun f => (String.ofList (discName .exo f.toList), [f, interpOrLinear interp])) := by
  unfold Gen.SrcC14.ExoTransmit_discover
  simp only []
  rw [discover_loop (fun f => String.ofList (discName .exo f.toList)) (interpOrLinear interp) _ ?hF]
  case hF =>
    intro acc f
    simp [Py.strDrop, stemS, sanitizeStr, discName, interpOrLinear]

/-- HDF5KTable: the name set in `__init__` (first part of the stem before `_`, sanitised), cleaned, is `objName .hdfK` -/
theorem src_hdf5_ktable_names (fname : String) (stored : List Char) :
    Gen.SrcC14.HDF5KTable_clean_molecule_name (Gen.SrcC14.HDF5KTable_name fname stemS sanitizeStr)
      = String.ofList (objName .hdfK fname.toList stored) ∧
    Gen.SrcC14.HDF5KTable_name fname stemS sanitizeStr = String.ofList (discName .hdfK fname.toList) := by
  have h : Gen.SrcC14.HDF5KTable_name fname stemS sanitizeStr = String.ofList (discName .hdfK fname.toList) := by
    simp only [Gen.SrcC14.HDF5KTable_name, split1_head]
    simp [stemS, sanitizeStr, discName]
  refine ⟨?_, h⟩
  rw [(src_clean_molecule_name _).2.2, h]
  simp [objName, discName]

theorem src_hdf5_ktable_discover (files : List String) (interp : Option String) :
    Gen.SrcC14.HDF5KTable_discover files stemS sanitizeStr interp
      = files.map (fun f => (String.ofList (discName .hdfK f.toList), [f, interpOrLinear interp])) := by
  unfold Gen.SrcC14.HDF5KTable_discover
  simp only []
  rw [discover_loop (fun f => String.ofList (discName .hdfK f.toList)) (interpOrLinear interp) _ ?hF]
  case hF =>
    intro acc f
    simp only [split1_head]
    simp [stemS, sanitizeStr, discName, interpOrLinear]

/-- PickleKTable: the object is named by what the file stores under `name`, cleaned (`objName .pickleK`); the discovery
    advertises the sanitised first dotted part of the stem (`discName .pickleK`) -/
theorem src_pickle_ktable_names (fname stored : String) :
    Gen.SrcC14.PickleKTable_clean_molecule_name (Gen.SrcC14.PickleKTable_name stored)
      = String.ofList (objName .pickleK fname.toList stored.toList) := by
  rw [(src_clean_molecule_name _).2.1]
  simp [Gen.SrcC14.PickleKTable_name, objName]

theorem src_pickle_ktable_discover (files : List String) (interp : Option String) :
    Gen.SrcC14.PickleKTable_discover files stemS sanitizeStr interp
      = files.map (fun f => (String.ofList (discName .pickleK f.toList), [f, interpOrLinear interp])) := by
  unfold Gen.SrcC14.PickleKTable_discover
  simp only []
  rw [discover_loop (fun f => String.ofList (discName .pickleK f.toList)) (interpOrLinear interp) _ ?hF]
  case hF =>
    intro acc f
    simp only [split1_head]
    simp [stemS, sanitizeStr, discName, interpOrLinear]

end

end Taurex.C14Src
