/-
  C07 — retrieval set-up depends only on current settings; updates touch only fitted parameters.

  The theorems are about `Taurex.OptimizerSM.step` / `run` / `compile` / `updateModel` / `fitNames` / `fitValues`,
  the same definitions `driver_c07` executes against `taurex.optimizer.optimizer.Optimizer` (harness/c07.py).
  Names `ν` are any type with decidable equality; values `α` any carrier with the operations the code uses
  (the structural theorems need no real analysis); `writeback_id` is over ℝ.

  `WF s` : parameter names are unique across the model and observation tables (Python dict keys within a table;
  the harness keeps the two tables disjoint — with a shared name the observation parameter silently inherits the
  model parameter's default prior, which is outside what the property describes).
-/
import Proofs.C07Real
import Proofs.C07Fitting
import Proofs.C07FittingOrder
import Proofs.FittableTable

namespace Taurex.C07
open Taurex.Priors Taurex.OptimizerSM Taurex.FittingSection

section
variable {ν α : Type} [DecidableEq ν] [LT α] [DecidableLT α] [OfNat α 0] [Mul α] [Transc α]

/-- **History freedom.**  After *any* operation sequence from *any* well-formed state, a final `compile_params`
    leaves exactly the view (`fitting_parameters` snapshots in order, `fitting_priors`, `derived_parameters`) and the
    outcome (ok / ValueError) that the specification `implied` computes from the current settings alone
    (tables, derived flags, user-set priors): nothing of an earlier compilation survives. -/
theorem compile_history_free (init : St ν α) (hwf : WF init) (ops : List (Op ν α)) :
    (view (run init (ops ++ [.compile])), (step (run init ops) .compile).2) = implied (settings (run init ops)) := by
  rw [run_append]
  simp only [run]
  exact compile_eq_implied (run init ops) (WF_run init ops hwf)

/-- what `implied` says about names and order: the fitted parameters, model table first, then the observation's,
    each in table order -/
theorem implied_names_order (σ : Settings ν α) (hok : (implied σ).2 = .ok) :
    (implied σ).1.entries.map (·.name) =
      (σ.model.filter (·.fit)).map (·.name) ++ (σ.obs.filter (·.fit)).map (·.name) := by
  have key : ∀ (o : Owner) (ps : List (Param ν α)) (rows : List (Entry ν α × Prior α)),
      impliedRows σ.userPriors o ps = some rows →
      (rows.map (·.1)).map (·.name) = (ps.filter (·.fit)).map (·.name) := by
    intro o ps
    induction ps with
    | nil => intro rows h; simp [impliedRows] at h; subst h; rfl
    | cons p ps ih =>
      intro rows h
      unfold impliedRows at h
      by_cases hf : p.fit = true
      · simp only [hf, if_true] at h
        cases hr : impliedRow σ.userPriors o p with
        | none => simp [hr] at h
        | some r =>
          cases hi : impliedRows σ.userPriors o ps with
          | none => simp [hr, hi] at h
          | some rs =>
            simp only [hr, hi, Option.some.injEq] at h
            subst h
            have hn : r.1.name = p.name := by
              unfold impliedRow at hr
              cases hg : tget σ.userPriors p.name with
              | some pr => simp [hg] at hr; rw [← hr]; rfl
              | none =>
                simp only [hg] at hr
                cases hd : defaultPrior p.mode p.b0 p.b1 with
                | none => simp [hd] at hr
                | some pr => simp [hd] at hr; rw [← hr]; rfl
            simp [List.filter_cons, hf, hn, ih rs hi]
      · simp only [hf] at h
        simp [List.filter_cons, hf, ih rows h]
  unfold implied at hok ⊢
  cases hm : impliedRows σ.userPriors Owner.model σ.model with
  | none => simp [hm] at hok
  | some rm =>
    simp only [hm] at hok ⊢
    cases ho : impliedRows σ.userPriors Owner.obs σ.obs with
    | none => simp [ho] at hok
    | some ro =>
      simp only [ho, List.map_append]
      rw [key _ _ rm hm, key _ _ ro ho]

/-- **Consistent spaces (names).**  Right after a successful compilation the reported name of every row carries the
    `log_` prefix exactly when the prior *of that row* is a log-space prior — the same prior whose space
    `fit_values` / `fit_boundaries` report in and whose `prior()` `update_model` applies. -/
theorem spaces_consistent_names (s : St ν α) (hwf : WF s) (hok : (step s .compile).2 = .ok) :
    fitNames (step s .compile).1 = some (impliedNames (view (step s .compile).1)) :=
  fitNames_after_compile s hwf hok

/-- **Frame condition of `update_model`.**  A successful update leaves every mode, fit flag and bound of both tables,
    the derived flags, both prior tables and the compiled view untouched, and every parameter that is not a compiled
    row keeps its value. -/
theorem update_frame (s : St ν α) (v : List α) (hok : (step s (.updateModel v)).2 = .ok) :
    frame (step s (.updateModel v)).1 = frame s ∧
    ∀ (o : Owner) (n : ν), (∀ e ∈ s.compiled, ¬ (e.owner = o ∧ e.name = n)) →
      getValue (step s (.updateModel v)).1 o n = getValue s o n := by
  simp only [step, updateModel] at hok ⊢
  split
  · rename_i h; simp [h] at hok
  · exact ⟨frame_applyUpdate _ _ _ _, fun o n h => getValue_applyUpdate_untouched o n _ _ _ _ h⟩

/-- **`update_model` sets exactly the fitted parameters.**  In any state reached from a well-formed one that
    satisfies the compiled-view invariant (in particular from a fresh optimizer), a vector of the right length sets
    the parameter of row `i` to `prior_i(v_i)` (`v_i` or `10 ** v_i`). -/
theorem update_sets_fitted (init : St ν α) (hwf : WF init) (hinv : Inv init) (ops : List (Op ν α)) (v : List α)
    (hlen : v.length = (run init ops).compiled.length) :
    let s := run init ops
    (step s (.updateModel v)).2 = .ok ∧
    ∀ epx ∈ s.compiled.zip (s.compiledPriors.zip v),
      getValue (step s (.updateModel v)).1 epx.1.owner epx.1.name = some (epx.2.1.back epx.2.2) := by
  intro s
  obtain ⟨_, hk, hex⟩ := Inv_run ops init hwf hinv
  simp only [step, updateModel]
  have : ¬ v.length ≠ s.compiled.length := by simpa using hlen
  simp only [this, if_false, true_and]
  exact getValue_applyUpdate_set s.compiled s s.compiledPriors v hk hex

/-- a vector of the wrong length is a `ValueError` and changes nothing -/
theorem update_len_error (s : St ν α) (v : List α) (h : v.length ≠ s.compiled.length) :
    step s (.updateModel v) = (s, .valueError) := by
  simp [step, updateModel, h]

/-- **Unknown names are errors.**  Every operation that names a parameter found in neither table (for the derived
    operations: in neither derived table) returns an error and leaves the state as it was. -/
theorem unknown_is_error (s : St ν α) (n : ν) (hm : n ∉ names s.model) (ho : n ∉ names s.obs)
    (hdm : n ∉ s.dmodel.map (·.name)) (hdo : n ∉ s.dobs.map (·.name)) (m : String) (a b : α) (p : Prior α) :
    step s (.enableFit n) = (s, .keyError) ∧ step s (.disableFit n) = (s, .keyError) ∧
    step s (.setMode n m) = (s, .keyError) ∧ step s (.setBoundary n a b) = (s, .keyError) ∧
    step s (.setFactorBoundary n a b) = (s, .keyError) ∧ step s (.setPrior n p) = (s, .valueError) ∧
    step s (.enableDerived n) = (s, .keyError) ∧ step s (.disableDerived n) = (s, .keyError) := by
  have h1 : hasName s.model n = false := (hasName_false_iff _ _).2 hm
  have h2 : hasName s.obs n = false := (hasName_false_iff _ _).2 ho
  have h3 : hasDerived s.dmodel n = false := by
    cases h : hasDerived s.dmodel n
    · rfl
    · exact absurd ((hasDerived_iff _ _).1 h) hdm
  have h4 : hasDerived s.dobs n = false := by
    cases h : hasDerived s.dobs n
    · rfl
    · exact absurd ((hasDerived_iff _ _).1 h) hdo
  simp [step, withParam, withDerived, ownerOf, table, h1, h2, h3, h4]

/-- the compiled-view invariant holds along every history of a fresh optimizer: rows and priors pair up, rows are
    distinct and refer to existing parameters (so `update_model`'s zip never truncates) -/
theorem compiled_invariant (model obs : List (Param ν α)) (dm dob : List (Derived ν))
    (hwf : WF (initSt model obs dm dob)) (ops : List (Op ν α)) : Inv (run (initSt model obs dm dob) ops) :=
  Inv_run ops _ hwf (by simp [Inv, initSt, keys])

/-- `fit_names` never raises along any history of a fresh optimizer: every compiled row finds a prior under its
    name in `_fit_priors` -/
theorem fit_names_total (model obs : List (Param ν α)) (dm dob : List (Derived ν))
    (hwf : WF (initSt model obs dm dob)) (ops : List (Op ν α)) :
    (fitNames (run (initSt model obs dm dob) ops)).isSome = true :=
  fitNamesAux_isSome _ _ (Covered_run ops _ hwf (by intro e he; simp [initSt] at he))

end

section
variable {ν : Type} [DecidableEq ν]

/-- **Write-back identity** (over ℝ).  If `fit_values` can be reported at all (every log-space row has a positive
    value), writing the reported vector back with `update_model` succeeds and changes nothing: values are reported in
    the space the update transforms from (`10 ^ log10 v = v`). -/
theorem writeback_id (init : St ν ℝ) (hwf : WF init) (hinv : Inv init) (ops : List (Op ν ℝ)) (v : List ℝ)
    (hv : fitValues (run init ops) = some v) :
    step (run init ops) (.updateModel v) = (run init ops, .ok) := by
  have hw := WF_run init ops hwf
  obtain ⟨hl, _, _⟩ := Inv_run ops init hwf hinv
  have hlen := fitValuesAux_length _ _ _ v hl hv
  simp only [step, updateModel]
  have : ¬ v.length ≠ (run init ops).compiled.length := by simpa using hlen
  simp only [this, if_false]
  rw [applyUpdate_writeback _ hw _ _ v hv]

end

/-! ### `[Fitting]` / `[Derive]` sections of an input file (`ParameterParser.setup_optimizer`) -/

section
variable {α : Type} [LT α] [DecidableLT α] [OfNat α 0] [Mul α] [Transc α]

/-- **The set-up an input file asks for.**  If `setup_optimizer` runs through on a fresh optimizer (names unique across
    the tables, derived names of model and observation disjoint), then the following `compile_params` leaves exactly
    what `implied` computes from the settings the two sections *describe* (`sectionSettings`): every mentioned
    parameter with the fit flag as written (False when no `:fit` line exists), the bounds as written — else the
    written factors times the current value, else the declared bounds —, the mode as written, the written prior as its
    user prior; every derived parameter with the compute flag as written; everything not mentioned at its declared
    default.  `create_prior` is the arbitrary parameter `mkPrior`. -/
theorem fitting_section_implied (mkPrior : OptVal α → Option (Prior α)) (model obs : List (Param String α))
    (dm dob : List (Derived String)) (fitting derive : List (String × OptVal α))
    (hwf : WF (initSt model obs dm dob)) (hdd : DisjD (initSt model obs dm dob : St String α))
    (hok : (setupOptimizer mkPrior (initSt model obs dm dob) fitting derive).2.1 = .ok) :
    ∃ grp dl, parseFitting mkPrior fitting [] = .ok grp ∧ splitAll derive = some dl ∧
      (view (step (setupOptimizer mkPrior (initSt model obs dm dob) fitting derive).1 .compile).1,
       (step (setupOptimizer mkPrior (initSt model obs dm dob) fitting derive).1 .compile).2) =
        implied (sectionSettings (initSt model obs dm dob) grp (deriveRecs dl [])) := by
  obtain ⟨grp, dl, hp, hsd, hset, hw'⟩ :=
    setup_ok_settings mkPrior (initSt model obs dm dob) hwf hdd rfl fitting derive hok
  refine ⟨grp, dl, hp, hsd, ?_⟩
  rw [← hset]
  exact compile_eq_implied _ hw'

/-- **Unknown names and malformed keys in a section are errors.**  On any well-formed state:
    a `[Fitting]` key that is not `name:option` raises before a single optimizer call is made (state unchanged);
    a `[Fitting]` line naming a parameter found in neither table makes `setup_optimizer` raise;
    a `[Derive]` key that is not `name:option` makes it raise;
    a `[Derive]` line `name:compute` naming an unknown derived parameter makes it raise.
    (Not errors in the code, and therefore not here: an unknown *option* after the colon — e.g. `T:fitt`, `mu:computed` —
    is stored and ignored, and the line still counts as a mention of the parameter.) -/
theorem fitting_unknown_is_error (mkPrior : OptVal α → Option (Prior α)) (s : St String α) (hw : WF s) (hd : DisjD s)
    (fitting derive : List (String × OptVal α)) :
    ((∃ kv ∈ fitting, splitKey kv.1 = none) →
      (setupOptimizer mkPrior s fitting derive).2.1 ≠ .ok ∧ (setupOptimizer mkPrior s fitting derive).1 = s ∧
      (setupOptimizer mkPrior s fitting derive).2.2 = []) ∧
    ((∃ kv ∈ fitting, ∃ a b, splitKey kv.1 = some (a, b) ∧ ¬ Known s a) →
      (setupOptimizer mkPrior s fitting derive).2.1 ≠ .ok) ∧
    ((∃ kv ∈ derive, splitKey kv.1 = none) → (setupOptimizer mkPrior s fitting derive).2.1 ≠ .ok) ∧
    ((∃ kv ∈ derive, ∃ a, splitKey kv.1 = some (a, "compute") ∧ ¬ KnownD s a) →
      (setupOptimizer mkPrior s fitting derive).2.1 ≠ .ok) :=
  setup_errors mkPrior s hw hd fitting derive

/-- **The order of the `[Fitting]` lines is irrelevant.**  Two sections whose lines (split at the colon) are
    permutations of each other, with keys `name:option` unique as ConfigObj guarantees, are both refused by
    `generate_fitting_parameters` with the same error, or describe settings with the same `implied` set-up — which by
    `fitting_section_implied` is what `setup_optimizer` + `compile_params` produce.  (The `[Derive]` records `drecs` are
    held fixed here; their order-independence is checked on the real code by the harness only.) -/
theorem fitting_order_free (mkPrior : OptVal α → Option (Prior α)) (s0 : St String α)
    (ents ents' : List (String × OptVal α)) (ls ls' : List (Line α))
    (hs : splitAll ents = some ls) (hs' : splitAll ents' = some ls') (hperm : ls.Perm ls')
    (hnd : (ls.map lkey).Nodup) (drecs : List (String × Option (OptVal α))) :
    match parseFitting mkPrior ents [], parseFitting mkPrior ents' [] with
    | .ok grp, .ok grp' => implied (sectionSettings s0 grp drecs) = implied (sectionSettings s0 grp' drecs)
    | .error e, .error e' => e = e'
    | _, _ => False :=
  sectionSettings_perm mkPrior s0 ents ents' ls ls' hs hs' hperm hnd drecs

end

/-! ### the table the optimizer reads is the one the object declares (`Fittable`, `ForwardModel.fittingParameters`) -/

section
variable {α : Type} [OfNat α 0] [OfNat α 1]

/-- **The optimizer's table is the declared one.**  For an object whose declarations (decorator or `add_fittable_param`,
    also those made in a subclass constructor after `ForwardModel.__init__` returned) and `modify_bounds` calls all
    succeed, the table holds exactly the declared names in declaration order, and each parameter is found under its name
    with its declared mode and fit flag and with the bounds of the LAST `modify_bounds` naming it (its declared bounds when
    there is none): these are the "current settings" every operation of the optimizer starts from. -/
theorem declared_table_live (decls : List (FittableTable.Decl α)) (hist : List (String × α × α))
    (t : List (FittableTable.Entry α)) (h : FittableTable.declaredTable decls hist = some t) :
    t.map (·.name) = decls.map (·.name) ∧
    ∀ d ∈ decls, FittableTable.lookup t d.name = some
      { name := d.name, mode := d.entry.mode, fit := d.entry.fit,
        b0 := (FittableTable.lastBounds d.name hist (d.entry.b0, d.entry.b1)).1,
        b1 := (FittableTable.lastBounds d.name hist (d.entry.b0, d.entry.b1)).2 } :=
  FittableTable.declaredTable_spec decls hist t h

omit [OfNat α 0] [OfNat α 1] in
/-- `modify_bounds` has an exact frame: every entry keeps its place, name, mode and fit flag; the named parameter gets
    the new bounds and every other parameter is found unchanged; naming an undeclared parameter is an error. -/
theorem modify_bounds_frame (t : List (FittableTable.Entry α)) (n : String) (b0 b1 : α) :
    (∀ t', FittableTable.modifyBounds t n b0 b1 = some t' →
      t'.map (fun e => (e.name, e.mode, e.fit)) = t.map (fun e => (e.name, e.mode, e.fit)) ∧
      (∀ e, FittableTable.lookup t n = some e → FittableTable.lookup t' n = some { e with b0 := b0, b1 := b1 }) ∧
      (∀ m, m ≠ n → FittableTable.lookup t' m = FittableTable.lookup t m)) ∧
    (FittableTable.lookup t n = none → FittableTable.modifyBounds t n b0 b1 = none) := by
  constructor
  · intro t' h
    refine ⟨FittableTable.modifyBounds_frame t t' n b0 b1 h, ?_, ?_⟩
    · intro e he
      rw [FittableTable.lookup_modifyBounds t t' n n b0 b1 h, he]
      simp
    · intro m hm
      rw [FittableTable.lookup_modifyBounds t t' n m b0 b1 h]
      have : (n == m) = false := by simpa using (fun h : n = m => hm h.symm)
      cases FittableTable.lookup t m <;> simp [this]
  · intro hn
    have := FittableTable.modifyBounds_isSome t n b0 b1
    rw [hn] at this
    cases hm : FittableTable.modifyBounds t n b0 b1 with
    | none => rfl
    | some x => rw [hm] at this; simp at this

end

/-- non-vacuity: three declarations (one through the decorator without optional keywords, one added in the constructor),
    a boundary change of the first and one of the last -/
example : FittableTable.declaredTable (α := Rat)
    [⟨"T", none, none, none⟩, ⟨"H2O", some .log, some true, some (1/1000, 1/10)⟩, ⟨"coeff_0", some .linear, some false, some (0, 5)⟩]
    [("T", 300, 2000), ("coeff_0", 4, 1)] =
    some [⟨"T", .linear, false, 300, 2000⟩, ⟨"H2O", .log, true, 1/1000, 1/10⟩, ⟨"coeff_0", .linear, false, 4, 1⟩] := by
  decide +kernel

example : FittableTable.modifyBounds (α := Rat) [⟨"T", .linear, false, 300, 2000⟩] "nope" 1 2 = none := by decide +kernel

/-! ### non-vacuity: a state with two model parameters (one log), one observation parameter, one derived parameter -/

noncomputable def exInit : St String ℝ :=
  initSt [⟨"T", .linear, true, 100, 2000, 1500⟩, ⟨"H2O", .log, true, 1, 100, 10⟩]
         [⟨"Offset_1", .linear, false, -1, 1, 0⟩] [⟨"mu", true⟩] []

example : WF exInit := by
  simp [WF, exInit, initSt, names]

example : Inv exInit := by simp [Inv, exInit, initSt, keys]

/-- the specification is not trivially `ValueError`: both rows get priors, the second one in log space -/
example : (implied (settings exInit)).2 = .ok ∧ (implied (settings exInit)).1.entries.length = 2 ∧
    (implied (settings exInit)).1.priors.map Prior.mode = [.linear, .log] ∧
    (implied (settings exInit)).1.derived = ["mu"] := by
  simp [implied, settings, exInit, initSt, impliedRows, impliedRow, tget, defaultPrior, mkUniform, mkLogUniformLin,
    mkLogUniform, log10?, entryOf, derivedOf, Prior.mode]

/-- a history that changes a setting after a first compilation and enables the observation parameter -/
example : (run exInit [.compile, .setBoundary "T" 500 1000, .enableFit "Offset_1"]).compiled.length = 2 ∧
    ((run exInit [.compile, .setBoundary "T" 500 1000, .enableFit "Offset_1"]).model.map (·.b0)) = [500, 1] ∧
    ((run exInit [.compile, .setBoundary "T" 500 1000, .enableFit "Offset_1"]).obs.map (·.fit)) = [true] := by
  simp [run, step, compile, compileTable, exInit, initSt, tget, tset, defaultPrior, mkUniform, mkLogUniformLin, mkLogUniform,
    log10?, entryOf, derivedOf, withParam, ownerOf, hasName, table, setTable, modifyParam]

/-- an unknown name exists for `unknown_is_error` -/
example : "nope" ∉ names exInit.model ∧ "nope" ∉ names exInit.obs := by
  simp [exInit, initSt, names]

/-- `writeback_id` is not vacuous: the reported vector exists after a compilation of `exInit` -/
example : ∃ v, fitValues (run exInit [.compile]) = some v ∧ v.length = 2 := by
  refine ⟨[1500, Real.log 10 / Real.log 10], ?_, rfl⟩
  simp [run, step, compile, compileTable, exInit, initSt, tget, tset, defaultPrior, mkUniform, mkLogUniformLin, mkLogUniform,
    log10?, entryOf, derivedOf, fitValues, fitValuesAux, reportValue, getValue, table, Prior.mode]

/-! ### non-vacuity of the section theorems -/

noncomputable def exFitting : List (String × OptVal ℝ) :=
  [("T:fit", .bool true), ("T:bounds", .nums [500, 1000]), ("H2O:mode", .str "LINEAR"), ("Offset_1:fit", .str "yes"),
   ("Offset_1:factor", .nums [0.5, 2])]

noncomputable def exDerive : List (String × OptVal ℝ) := [("mu:compute", .bool false)]

example : DisjD exInit := by
  intro n hn; simp [exInit, initSt, dnames] at hn ⊢

/-- `setup_optimizer` runs through on this section (hypothesis `hok` of `fitting_section_implied`) -/
example : (setupOptimizer (fun _ => none) exInit exFitting exDerive).2.1 = .ok := by
  have k1 : splitKey "T:fit" = some ("T", "fit") := by decide +kernel
  have k2 : splitKey "T:bounds" = some ("T", "bounds") := by decide +kernel
  have k3 : splitKey "H2O:mode" = some ("H2O", "mode") := by decide +kernel
  have k4 : splitKey "Offset_1:fit" = some ("Offset_1", "fit") := by decide +kernel
  have k5 : splitKey "Offset_1:factor" = some ("Offset_1", "factor") := by decide +kernel
  have k6 : splitKey "mu:compute" = some ("mu", "compute") := by decide +kernel
  have c1 : classify "fit" = .fit := by decide +kernel
  have c2 : classify "bounds" = .bounds := by decide +kernel
  have c3 : classify "mode" = .mode := by decide +kernel
  have c4 : classify "factor" = .factor := by decide +kernel
  have m1 : parseMode "linear" = some FitMode.linear := by decide +kernel
  have m2 : "LINEAR".toLower = "linear" := by decide +kernel
  simp [setupOptimizer, exFitting, exDerive, exInit, initSt, parseFitting, k1, k2, k3, k4, k5, k6, setOpt, c1, c2, c3, c4,
    getRec, updRec, fittingOps, recOps, pairOpt, modeOpt, truthy, PairOpt.isBad, ModeOpt.isBad, fitOps, factorOps, boundsOps,
    modeOps, priorOps, runStop, step, withParam, ownerOf, hasName, table, setTable, modifyParam, m1, m2, splitAll, deriveRecs,
    updD, deriveOps, withDerived, hasDerived]

/-- keys that do not split, and unknown names, exist (hypotheses of `fitting_unknown_is_error`) -/
example : splitKey "Tfit" = none ∧ splitKey "T:fit:x" = none ∧ ¬ Known exInit "no_such_param" ∧ ¬ KnownD exInit "nope" := by
  refine ⟨by decide +kernel, by decide +kernel, ?_, ?_⟩ <;> simp [Known, KnownD, exInit, initSt, names, dnames]

/-- two different orders of the same lines with unique keys (hypotheses of `fitting_order_free`) -/
example : ∃ ls ls' : List (Line ℝ), splitAll exFitting = some ls ∧ splitAll exFitting.reverse = some ls' ∧ ls.Perm ls' ∧
    (ls.map lkey).Nodup ∧ ls ≠ ls' := by
  have k1 : splitKey "T:fit" = some ("T", "fit") := by decide +kernel
  have k2 : splitKey "T:bounds" = some ("T", "bounds") := by decide +kernel
  have k3 : splitKey "H2O:mode" = some ("H2O", "mode") := by decide +kernel
  have k4 : splitKey "Offset_1:fit" = some ("Offset_1", "fit") := by decide +kernel
  have k5 : splitKey "Offset_1:factor" = some ("Offset_1", "factor") := by decide +kernel
  refine ⟨_, _, by simp [exFitting, splitAll, k1, k2, k3, k4, k5]; rfl,
    by simp [exFitting, splitAll, k1, k2, k3, k4, k5]; rfl, ?_, ?_, ?_⟩
  · exact (List.reverse_perm _).symm
  · simp [lkey]
  · simp

/-! ### regression witness: the pre-fix prior cache (F11) is history dependent -/

/-- With the pinned `compile_params` (defaults cached in `_fit_priors`), the 3-operation history
    compile / set_boundary / compile ends with a stale prior: the view differs from what the settings imply.
    The same trace is `corpus/C07/stale_default_prior_after_set_boundary.json`, replayed on the real code on every run. -/
theorem stale_prior_witness_pinned :
    let init : St String ℝ := initSt [⟨"x", .linear, true, 0, 1, 0.5⟩] [] [] []
    let ops : List (Op String ℝ) := [.compile, .setBoundary "x" 2 3]
    view (runPinned init (ops ++ [.compile])) ≠ (implied (settings (runPinned init ops))).1 ∧
    view (run init (ops ++ [.compile])) = (implied (settings (run init ops))).1 := by
  intro init ops
  constructor
  · intro h
    have hp := congrArg View.priors h
    simp [init, ops, runPinned, stepPinned, compilePinned, step, compileTable, initSt, tget, tset, defaultPrior, mkUniform,
      entryOf, derivedOf, withParam, ownerOf, hasName, table, setTable, modifyParam, view, implied, settings,
      impliedRows, impliedRow, pyMin, pyMax] at hp
    norm_num at hp
  · have := compile_history_free init (by simp [WF, init, initSt, names]) ops
    exact congrArg Prod.fst this

end Taurex.C07
