/-
  C11 — source tie.  `TaurexModel/Gen/SrcC11.lean` is regenerated on every run by `harness/translate.py` (array idioms:
  `harness/translate_arr.py`) from the source text of taurex/data/planet.py, taurex/data/profiles/pressure/pressureprofile.py
  and taurex/model/simplemodel.py.  The theorems below state, for EVERY carrier (no algebra is used), that each regenerated
  definition computes what the hand-written model function of `TaurexModel/Structure.lean` computes — the functions the C11
  theorems are about and that `driver_c11` executes.  Arrays are functions `Nat → α` on the source side and lists on the
  model side; the statements are entry by entry on the valid index range.  A source change that alters one of these
  functions makes the corresponding theorem fail to check.
-/
import TaurexModel.Gen.SrcC11
import TaurexModel.Structure
import Proofs.C11Src
set_option linter.unusedSectionVars false

namespace Taurex.C11Src
open Taurex Taurex.Structure

section
variable {α : Type} [Add α] [Sub α] [Mul α] [Div α] [Neg α] [LT α] [LE α]
  [DecidableLT α] [DecidableLE α] [Taurex.Transc α] [OfNat α 0] [OfNat α 1] [OfNat α 2]

/-- `BasePlanet.gravity` (a property; `G` is the module constant, `fullMass` / `fullRadius` the planet's attributes) is
    `surfaceGravity` with `gm = G * M`.  Generic `rfl`. -/
theorem src_gravity (bigG mass r : α) :
    Gen.SrcC11.gravity bigG mass r = surfaceGravity (bigG * mass) r := rfl

/-- `BasePlanet.gravity_at_height(height)` is `gravityAt`.  Generic `rfl` (`x**2` is `x*x`). -/
theorem src_gravity_at_height (bigG mass r h : α) :
    Gen.SrcC11.gravity_at_height h bigG mass r = gravityAt (bigG * mass) r h := rfl

/-- the regenerated `calculate_scale_properties` IS a `foldl` over `range' 1 n` of a loop body `step` from an initial state
    `init` (both found by unification with the regenerated text: `rfl`), and that body satisfies the four point-wise
    equations that `Proofs/C11Src.fold_scale` needs: `deltaz[i]`, `z[i]`, `g[i]` and `H[i]` (the latter two only when
    `i < nlayers`) are written at index `i` from the entries at `i-1`, all other entries are kept. -/
theorem src_scale_loop_shape (kb bigG mass r unit : α) (T pl mu : Nat → α) (n : Nat) :
    ∃ (step : St α → Nat → St α) (init : St α),
      Gen.SrcC11.calculate_scale_properties T pl mu n (G := bigG) (KBOLTZ := kb) (fullMass := mass)
          (fullRadius := r) (unit := unit)
        = ((fun i => ((List.range' 1 n).foldl step init).2.1 i * unit),
           (fun i => ((List.range' 1 n).foldl step init).2.2.2 i * unit),
           (fun i => ((List.range' 1 n).foldl step init).2.2.1 i * unit),
           (fun i => ((List.range' 1 n).foldl step init).1 (i + 1) * unit)) ∧
      (∀ st i, (step st i).1 = fun j => if j = i then
        ((-1 : α) * st.2.2.2 (i - 1)) * log (pl i / pl (i - 1)) else st.1 j) ∧
      (∀ st i, (step st i).2.1 = fun j => if j = i then st.2.1 (i - 1) + (step st i).1 i else st.2.1 j) ∧
      (∀ st i, (step st i).2.2.1 = if i < n then
        (fun j => if j = i then gravityAt (bigG * mass) r ((step st i).2.1 i) else st.2.2.1 j) else st.2.2.1) ∧
      (∀ st i, (step st i).2.2.2 = if i < n then
        (fun j => if j = i then (kb * T i) / (mu i * (step st i).2.2.1 i) else st.2.2.2 j)
        else st.2.2.2) ∧
      init.2.1 0 = 0 ∧ init.2.2.1 0 = surfaceGravity (bigG * mass) r ∧
      init.2.2.2 0 = (kb * T 0) / (mu 0 * init.2.2.1 0) := by
  refine ⟨_, _, rfl, ?_, ?_, ?_, ?_, ?_, ?_, ?_⟩
  · intro st i; rfl
  · intro st i; rfl
  · intro st i
    by_cases h : i < n <;> simp only [h, decide_true, decide_false, if_true, if_false] <;> rfl
  · intro st i
    by_cases h : i < n <;> simp only [h, decide_true, decide_false, if_true, if_false] <;> rfl
  · rfl
  · rfl
  · rfl

/-- **the bottom-up hydrostatic loop** `BasePlanet.calculate_scale_properties(T, Pl, mu)`, called with arrays of `n`, `n+1`,
    `n` entries, returns entry by entry what the model `scaleProps` (structural recursion `scaleLoop`, the function the
    C11 theorems are about and `driver_c11` executes) returns, each multiplied by the unit factor
    `conversion_factor('m', length_units)` exactly as the code does (`z*factor`, …; the harness checks the factor is 1).
    Generic in the carrier: induction over the layers (`fold_scale`), no algebra. -/
theorem src_scale_properties (kb bigG mass r unit : α) (T pl mu : List α) (n : Nat)
    (hT : T.length = n) (hmu : mu.length = n) (hpl : pl.length = n + 1) :
    let res := Gen.SrcC11.calculate_scale_properties (fun i => T.getD i 0) (fun i => pl.getD i 0)
        (fun i => mu.getD i 0) n (G := bigG) (KBOLTZ := kb) (fullMass := mass) (fullRadius := r) (unit := unit)
    let m := scaleProps kb bigG mass r T pl mu
    (∀ i, i ≤ n → res.1 i = m.z.getD i 0 * unit) ∧ (∀ i, i < n → res.2.1 i = m.H.getD i 0 * unit) ∧
    (∀ i, i < n → res.2.2.1 i = m.g.getD i 0 * unit) ∧ (∀ i, i < n → res.2.2.2 i = m.dz.getD i 0 * unit) := by
  obtain ⟨step, init, heq, hdz, hz, hg, hH, hz0, hg0, hH0⟩ := src_scale_loop_shape kb bigG mass r unit
    (fun i => T.getD i 0) (fun i => pl.getD i 0) (fun i => mu.getD i 0) n
  obtain ⟨_, hV, hTop⟩ := fold_scale kb (bigG * mass) r T mu pl n hT hmu hpl step hdz hz hg hH n 0 init
    (by omega) (fun _ => hH0)
  simp only [Nat.zero_add, List.drop_zero, hz0, hg0] at hV hTop
  have hlen := scaleLoop_length kb (bigG * mass) r T mu pl 0 (surfaceGravity (bigG * mass) r) n hT hmu hpl
  intro res m
  have hres : res = _ := heq
  rw [hres]
  refine ⟨?_, ?_, ?_, ?_⟩
  · intro i hi
    show _ * unit = (List.map Layer.z _ ++ [_]).getD i 0 * unit
    by_cases h : i < n
    · rw [(hV i h).1]
      simp only [List.getD_eq_getElem?_getD]
      rw [List.getElem?_append_left (by simpa [hlen] using h)]
    · have : i = n := by omega
      subst this
      rw [hTop]
      simp only [List.getD_eq_getElem?_getD]
      rw [List.getElem?_append_right (by simp [hlen])]
      simp [hlen]
  · intro i hi
    show _ * unit = (List.map Layer.H _).getD i 0 * unit
    rw [(hV i hi).2.1]
  · intro i hi
    show _ * unit = (List.map Layer.g _).getD i 0 * unit
    rw [(hV i hi).2.2.1]
  · intro i hi
    show _ * unit = (List.map Layer.dz _).getD i 0 * unit
    rw [(hV i hi).2.2.2]

/-- `SimpleForwardModel.densityProfile` = `P/(KBOLTZ*T)` element-wise is `density`.  Generic. -/
theorem src_density (kb : α) (P T : List α) (i : Nat) (hP : i < P.length) (hT : i < T.length) :
    Gen.SrcC11.densityProfile kb (fun i => P.getD i 0) (fun i => T.getD i 0) i = (density kb P T).getD i 0 := by
  simp [Gen.SrcC11.densityProfile, density, List.getD_eq_getElem?_getD, List.getElem?_zipWith, hP, hT]

theorem logLevels_length (n : Nat) (pmin pmax : α) : (logLevels n pmin pmax).length = n + 1 := by
  simp [logLevels, linspace]

/-- `SimplePressureProfile.compute_pressure_profile`: with `np.logspace(a, b, m)` = `10**linspace` (the documented numpy
    behaviour the model assumes, ASSUMPTIONS of harness/c11.py) and `self.nLevels = nLayers + 1`, the stored
    `pressure_profile_levels` (the reversal `[::-1]`) and `pressure_profile` (`levels[:-1] * sqrt(levels[1:]/levels[:-1])`)
    are, entry by entry, `logLevels` and `layerPressures (logLevels …)`.  Generic. -/
theorem src_pressure_profile (n : Nat) (pmin pmax : α) :
    let res := Gen.SrcC11.compute_pressure_profile
        (logspace := fun a b m i => ((linspace (m - 1) a b).map pow10).getD i 0) (nLevels := n + 1)
        (pmax := pmax) (pmin := pmin)
    (∀ i, i ≤ n → res.1 i = (logLevels n pmin pmax).getD i 0) ∧
    (∀ i, i < n → res.2 i = (layerPressures (logLevels n pmin pmax)).getD i 0) := by
  intro res
  have hlv : ∀ i, i ≤ n → res.1 i = (logLevels n pmin pmax).getD i 0 := by
    intro i hi
    show ((linspace (n + 1 - 1) (log10 pmin) (log10 pmax)).map pow10).getD (n + 1 - 1 - i) 0 = _
    have hlen : ((linspace n (log10 pmin) (log10 pmax)).map pow10).length = n + 1 := by simp [linspace]
    simp only [logLevels, Nat.add_sub_cancel, List.getD_eq_getElem?_getD]
    rw [List.getElem?_reverse (by omega), hlen, Nat.add_sub_cancel]
  refine ⟨hlv, ?_⟩
  intro i hi
  show res.1 i * sqrt (res.1 (i + 1) / res.1 i) = _
  rw [hlv i (by omega), hlv (i + 1) (by omega)]
  have hl := logLevels_length n pmin pmax
  simp [layerPressures, List.getD_eq_getElem?_getD, hl, show i < n + 1 by omega, hi]

/-- **profile bookkeeping** `SimpleForwardModel._compute_altitude_gravity_scaleheight_profile(mu_profile)`: whether the
    molecular-weight profile is passed or taken from the chemistry (`mu_profile is None`), the five stored per-layer /
    per-level arrays (`altitude_profile = z[:-1]`, `scaleheight_profile`, `gravity_profile`, `altitude_boundaries`,
    `deltaz`) are the fields of `views (scaleProps …)`.  Generic (uses `src_scale_properties`). -/
theorem src_views (kb bigG mass r unit : α) (T pl mu : List α) (mo : Option (Nat → α)) (cm : Nat → α) (n : Nat)
    (hT : T.length = n) (hmu : mu.length = n) (hpl : pl.length = n + 1)
    (hmo : mo.getD cm = fun i => mu.getD i 0) :
    let res := Gen.SrcC11.compute_altitude_gravity_scaleheight_profile mo n (G := bigG) (KBOLTZ := kb)
        (chem_mu := cm) (fullMass := mass) (fullRadius := r) (levels := fun i => pl.getD i 0)
        (temperatureProfile := fun i => T.getD i 0) (unit := unit)
    let v := views (scaleProps kb bigG mass r T pl mu)
    (∀ i, i < n → res.1 i = v.altitudeProfile.getD i 0 * unit) ∧
    (∀ i, i < n → res.2.1 i = v.scaleheightProfile.getD i 0 * unit) ∧
    (∀ i, i < n → res.2.2.1 i = v.gravityProfile.getD i 0 * unit) ∧
    (∀ i, i ≤ n → res.2.2.2.1 i = v.altitudeBoundaries.getD i 0 * unit) ∧
    (∀ i, i < n → res.2.2.2.2 i = v.deltaz.getD i 0 * unit) := by
  obtain ⟨hz, hH, hg, hdz⟩ := src_scale_properties kb bigG mass r unit T pl mu n hT hmu hpl
  have hlen : (scaleProps kb bigG mass r T pl mu).z.length = n + 1 := by
    simp [scaleProps, scaleLoop_length kb (bigG * mass) r T mu pl 0 _ n hT hmu hpl]
  have halt : ∀ i, i < n → (views (scaleProps kb bigG mass r T pl mu)).altitudeProfile.getD i 0
      = (scaleProps kb bigG mass r T pl mu).z.getD i 0 := by
    intro i hi
    have h1 : i < (scaleProps kb bigG mass r T pl mu).z.length := by omega
    simp [views, List.getD_eq_getElem?_getD, hlen, hi, List.getElem?_eq_getElem h1]
  cases mo with
  | none =>
    simp only [Option.getD_none] at hmo
    subst hmo
    exact ⟨fun i hi => (hz i (by omega)).trans (by rw [halt i hi]), hH, hg, hz, hdz⟩
  | some v =>
    simp only [Option.getD_some] at hmo
    subst hmo
    exact ⟨fun i hi => (hz i (by omega)).trans (by rw [halt i hi]), hH, hg, hz, hdz⟩
/-- `ArrayPressureProfile.compute_pressure_profile` (levels from the given layer pressures: `10**np.append(logp - gradp/2,
    logp[-1] + gradp[-1]/2)`) for at least two layers is `arrayLevels`; `np.gradient` (an external; it raises for fewer than
    two entries, where the model says `none`) is `gradientAt` on the `n` entries (ASSUMPTIONS of harness/c11.py).  Generic. -/
theorem src_array_pressure_levels (P : List α) (h2 : 2 ≤ P.length) :
    arrayLevels P = some ((List.range (P.length + 1)).map
      (Gen.SrcC11.array_pressure_levels P.length
        (fun f m i => gradientAt ((List.range m).map f) i) (fun i => P.getD i 0))) := by
  unfold arrayLevels Gen.SrcC11.array_pressure_levels
  have hlt : ¬ P.length < 2 := by omega
  have hmap : (List.range P.length).map (fun i => log10 (P.getD i 0)) = P.map log10 := by
    apply List.ext_getElem
    · simp
    · intro i h1 h2
      have : i < P.length := by simpa using h1
      simp [List.getD_eq_getElem?_getD, this]
  simp only [List.length_map, hlt, if_false, hmap]
  congr 1
  rw [List.range_succ, List.map_append, List.map_append, List.map_map]
  congr 1
  · apply List.map_congr_left
    intro i hi
    have : i < P.length := List.mem_range.mp hi
    simp [this, List.getD_eq_getElem?_getD]
  · have hl : P.length - 1 < P.length := by omega
    simp [List.getD_eq_getElem?_getD, List.getElem?_eq_getElem hl]

/-- `SimplePressureProfile.compute_pressure_profile`, the relation between the two arrays it stores, for WHATEVER values
    `np.logspace` returns (the external `logspace` is arbitrary here): `pressure_profile` is `layerPressures` of
    `pressure_profile_levels` (`levels[:-1] * sqrt(levels[1:] / levels[:-1])`).  Generic. -/
theorem src_layers_of_levels (logspace : α → α → Nat → Nat → α) (m : Nat) (pmin pmax : α) :
    (List.range (m - 1)).map (Gen.SrcC11.compute_pressure_profile logspace m pmax pmin).2
      = layerPressures ((List.range m).map (Gen.SrcC11.compute_pressure_profile logspace m pmax pmin).1) := by
  unfold Gen.SrcC11.compute_pressure_profile layerPressures
  simp only
  apply List.ext_getElem
  · simp [List.length_zipWith]
  · intro i h1 h2
    have hi : i < m - 1 := by simpa using h1
    simp [List.getElem_zipWith, List.getElem_tail]

end

/-! ### the dictionary of stored profiles -/

/-- a value of the regenerated dictionary as a value of the model's -/
def toProf {α : Type} : Gen.Np.PyVal α → ProfVal α
  | .arr l => .arr l
  | .arr2 rows => .arr2 rows
  | .none => .none

/-- **`SimpleForwardModel.generate_profiles`** (`output.generate_profile_dict(self)`: `out = {}`, one `out[key] = …` per
    profile, the condensate table under `if model.chemistry.hasCondensates`; then `prof['mu_profile'] = …`) builds the model's
    `profileDict`: the same keys in the same insertion order with the same values.  The model object's attributes are
    instantiated with what the model takes: the stored views `v` for scale height / altitude / gravity, `hasCondensates` =
    "there is a condensate table".  Generic in the element type, core only. -/
theorem src_generate_profiles {α : Type} (v : Views α) (temp press dens mu : List α)
    (act inact cond : Option (List (List α))) :
    (Gen.SrcC11.generate_profiles act v.altitudeProfile (cond.getD []) dens v.gravityProfile cond.isSome inact mu press
        v.scaleheightProfile temp).map (fun e => (e.1, toProf e.2))
      = profileDict v temp press dens mu act inact cond := by
  unfold Gen.SrcC11.generate_profiles Gen.SrcC11.generate_profile_dict profileDict
  cases act <;> cases inact <;> cases cond <;>
    simp [Gen.Np.dictSet, toProf, ProfVal.ofTable, Option.elim]

end Taurex.C11Src
