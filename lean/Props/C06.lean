/-
  C06 — every sampler is handed the Gaussian log-likelihood of the binned model.
  Theorems about `TaurexModel/Likelihood.lean` (the definitions `driver_c06` executes), real carrier.
  The forward model + binner is a parameter `fm` of the callback (it is real code in the correspondence check);
  `InvalidModelException` is a constructor (`ModelOut.invalid`) of its result type.
  `chiSq obs σ m = Σ_i ((obs_i - m_i)/σ_i)²` and `logNorm σ = Σ_i log(σ_i √(2π))` are defined in
  `Proofs/C06Lemmas.lean`.  Guards: one error bar and one model value per observed bin, at least one bin,
  error bars positive (the quantifier's "error bars"; `log` and `/` are total on ℝ but stand for the float
  operations only there).
-/
import Proofs.C06Lemmas
import TaurexModel.Chemistry

namespace Taurex.C06
open Taurex.Likelihood

/-- For a valid, finite binned model the likelihood is `-Σ log(σ√2π) - χ²/2` (also when `χ² = 0`). -/
theorem loglike_gaussian (obs sig m : List ℝ) (hs : sig.length = obs.length) (hm : m.length = obs.length)
    (hne : obs ≠ []) (_hpos : ∀ s ∈ sig, 0 < s) :
    loglike Real.pi obs sig (.ok (m.map some)) = .fin (-(logNorm sig) - chiSq obs sig m / 2) :=
  loglike_ok_some obs sig m hs hm hne

/-- `chiSq` / `logNorm` are the sums of the statement -/
example (d s m : ℝ) (ds ss ms : List ℝ) :
    chiSq (d :: ds) (s :: ss) (m :: ms) = ((d - m) / s) ^ 2 + chiSq ds ss ms ∧
    logNorm (s :: ss) = Real.log (s * Real.sqrt (2 * Real.pi)) + logNorm ss := by
  simp [chiSq, sqList, logNorm]

example : ∃ obs sig m : List ℝ, sig.length = obs.length ∧ m.length = obs.length ∧ obs ≠ [] ∧
    (∀ s ∈ sig, 0 < s) ∧ chiSq obs sig m = 5 :=
  ⟨[1, 2], [1, 2], [2, 6], rfl, rfl, by simp, by norm_num, by norm_num [chiSq, sqList]⟩

/-- The callback at a point `θ` of the sampled space: the forward model is evaluated at exactly the prior-transformed
    values `prior_i(θ_i)` (in parameter order) and the result is the Gaussian log-likelihood of its binned output. -/
theorem callback_gaussian (priors : List (Prior ℝ)) (fm : List ℝ → ModelOut ℝ) (obs sig m theta : List ℝ)
    (hlen : theta.length = priors.length)
    (hfm : fm (List.zipWith (fun p v => p.prior v) priors theta) = .ok (m.map some))
    (hs : sig.length = obs.length) (hm : m.length = obs.length) (hne : obs ≠ []) (hpos : ∀ s ∈ sig, 0 < s) :
    loglikeCallback Real.pi priors fm obs sig theta = some (.fin (-(logNorm sig) - chiSq obs sig m / 2)) := by
  unfold loglikeCallback updateModel
  rw [if_pos hlen]
  simp only [hfm]
  rw [loglike_gaussian obs sig m hs hm hne hpos]

/-- A perfect fit (observation equal to the binned model) has the maximal likelihood `-Σ log(σ√2π)`. -/
theorem exact_fit (obs sig : List ℝ) (hs : sig.length = obs.length) (hne : obs ≠ []) (hpos : ∀ s ∈ sig, 0 < s) :
    loglike Real.pi obs sig (.ok (obs.map some)) = .fin (-(logNorm sig)) := by
  rw [loglike_gaussian obs sig obs hs rfl hne hpos, chiSq_self]
  simp

/-- The likelihood of any valid finite model is bounded by the normalisation term. -/
theorem loglike_le_norm (obs sig m : List ℝ) (hs : sig.length = obs.length) (hm : m.length = obs.length)
    (hne : obs ≠ []) (hpos : ∀ s ∈ sig, 0 < s) :
    ∃ v, loglike Real.pi obs sig (.ok (m.map some)) = .fin v ∧ v ≤ -(logNorm sig) := by
  refine ⟨_, loglike_gaussian obs sig m hs hm hne hpos, ?_⟩
  have := chiSq_nonneg obs sig m
  linarith

/-- An `InvalidModelException` anywhere in model evaluation gives NaN — never a finite likelihood — and no exception
    leaves the callback: for a vector of the right length the callback always returns a value. -/
theorem invalid_not_finite (priors : List (Prior ℝ)) (fm : List ℝ → ModelOut ℝ) (obs sig theta : List ℝ)
    (hlen : theta.length = priors.length) :
    (∃ v, loglikeCallback Real.pi priors fm obs sig theta = some v) ∧
    (fm (List.zipWith (fun p v => p.prior v) priors theta) = .invalid →
      loglikeCallback Real.pi priors fm obs sig theta = some .nan) := by
  unfold loglikeCallback updateModel
  rw [if_pos hlen]
  refine ⟨⟨_, rfl⟩, ?_⟩
  intro h
  simp only [h]
  rfl

example : loglike Real.pi [1, 2] [1, 1] (ModelOut.invalid : ModelOut ℝ) = .nan := rfl

/-- **Mixing ratios above unity anywhere in the atmosphere.**  For a forward model that builds its atmosphere with the
    free chemistry — it raises whenever the mixture rule `Chemistry.mixProfile` (the model of
    `TaurexChemistry.initialize_chemistry`, property C10) rejects the gas profiles `traces p` its parameters describe —
    a parameter vector whose summed gas profiles exceed one in SOME layer (one is enough: a layer-dependent profile that
    is fine at the top and above unity in the deep layers) gets NaN, never a finite likelihood. -/
theorem mixture_above_unity_not_finite (priors : List (Prior ℝ)) (fm : List ℝ → ModelOut ℝ) (obs sig theta : List ℝ)
    (hlen : theta.length = priors.length) (nFill : Nat) (ratios : List ℝ) (traces : List ℝ → List (List ℝ)) (n : Nat)
    (hfm : ∀ p, (∃ rows, Chemistry.mixProfile nFill ratios (traces p) n = .ok rows) ∨ fm p = .invalid)
    (t : ℝ) (ht : t ∈ Chemistry.totalMix (traces (List.zipWith (fun p v => p.prior v) priors theta)) n) (h1 : 1 < t) :
    loglikeCallback Real.pi priors fm obs sig theta = some .nan := by
  apply (invalid_not_finite priors fm obs sig theta hlen).2
  rcases hfm (List.zipWith (fun p v => p.prior v) priors theta) with ⟨rows, hok⟩ | hinv
  · exfalso
    unfold Chemistry.mixProfile at hok
    split at hok
    · cases hok
    · have hany : (Chemistry.totalMix (traces (List.zipWith (fun p v => p.prior v) priors theta)) n).any
          (fun t => decide (1 < t)) = true := List.any_eq_true.2 ⟨t, ht, by simpa using h1⟩
      simp only [hany, if_true] at hok
      cases hok
  · exact hinv

/-- not vacuous: CH4 = 0.6 in both layers, H2O = 0.7 in the deep layer and 1e-6 at the top: the total exceeds one in the
    deep layer only, and the mixture rule rejects it -/
example : Chemistry.totalMix (α := Rat) [[6/10, 6/10], [7/10, 1/1000000]] 2 = [13/10, 600001/1000000] ∧
    (match Chemistry.mixProfile (α := Rat) 2 [17/100] [[6/10, 6/10], [7/10, 1/1000000]] 2 with
      | .invalid => true | _ => false) = true := by
  constructor <;> decide +kernel

/-- NaN bins of the model are skipped by the sum (`np.nansum`); a model that is NaN in every bin gives NaN. -/
theorem nan_bins (obs sig : List ℝ) (m : List (Option ℝ)) :
    (chisq obs sig (.ok m) = .nan ∨
      chisq obs sig (.ok m) = .fin (((residuals obs sig m).filterMap id).sum)) ∧
    chisq obs sig (.ok (List.replicate obs.length none)) = .nan := by
  constructor
  · unfold chisq
    by_cases h : (residuals obs sig m).all Option.isNone = true
    · left; simp [h]
    · right; simp [h, nansum_eq]
  · unfold chisq
    have : ∀ (o s : List ℝ) (n : Nat), (residuals o s (List.replicate n none)).all Option.isNone = true := by
      intro o
      induction o with
      | nil => intro s n; cases s <;> cases n <;> simp [residuals]
      | cons d ds ih =>
        intro s n
        cases s with
        | nil => cases n <;> simp [residuals]
        | cons s0 ss =>
          cases n with
          | zero => simp [residuals]
          | succ k => simp [residuals, List.replicate, residSq, ih]
    simp [this]

example : chisq (α := Rat) [1, 2, 3] [1, 1, 1] (.ok [some 0, none, some 1]) = .fin 5 := by decide +kernel

/-- The prior callback and `update_model` use the same index: entry `i` of the transformed cube is
    `prior_i.sample(u_i)`, parameter `i` is written with `prior_i.prior(θ_i)`, and therefore the sampler's
    `loglike(prior(u))` evaluates the forward model with parameter `i` equal to `prior_i.prior(prior_i.sample(u_i))`. -/
theorem transform_order (priors : List (Prior ℝ)) (cube : List ℝ) (hlen : cube.length = priors.length) :
    (∀ (i : Nat) (h : i < priors.length),
      (priorTransform priors cube)[i]? = some ((priors[i]).sample (cube[i]'(hlen ▸ h)))) ∧
    (∀ (i : Nat) (h : i < priors.length),
      (updateModel priors cube).map (fun l => l[i]?) = some (some ((priors[i]).prior (cube[i]'(hlen ▸ h))))) ∧
    updateModel priors (priorTransform priors cube) =
      some (List.zipWith (fun p u => p.prior (p.sample u)) priors cube) := by
  refine ⟨?_, ?_, ?_⟩
  · intro i h
    simp [priorTransform, h, hlen ▸ h]
  · intro i h
    unfold updateModel
    rw [if_pos hlen]
    simp [h, hlen ▸ h]
  · unfold updateModel priorTransform
    rw [if_pos (by simp [hlen])]
    congr 1
    clear hlen
    induction priors generalizing cube with
    | nil => simp
    | cons p ps ih =>
      cases cube with
      | nil => simp
      | cons u us => simp [ih]

/-- The whole statement for a point `u` of the unit cube: what the sampler computes, `loglike(prior(u))`, is the
    Gaussian log-likelihood of the binned forward model evaluated with parameter `i` set to
    `prior_i.prior(prior_i.sample(u_i))`. -/
theorem cube_gaussian (priors : List (Prior ℝ)) (fm : List ℝ → ModelOut ℝ) (obs sig m cube : List ℝ)
    (hlen : cube.length = priors.length)
    (hfm : fm (List.zipWith (fun p u => p.prior (p.sample u)) priors cube) = .ok (m.map some))
    (hs : sig.length = obs.length) (hm : m.length = obs.length) (hne : obs ≠ []) (hpos : ∀ s ∈ sig, 0 < s) :
    cubeLoglike Real.pi priors fm obs sig cube = some (.fin (-(logNorm sig) - chiSq obs sig m / 2)) := by
  have h3 := (transform_order priors cube hlen).2.2
  unfold cubeLoglike loglikeCallback
  rw [h3]
  simp only [hfm]
  rw [loglike_gaussian obs sig m hs hm hne hpos]

/-- a concrete instance: two parameters (one linear on [0, 2], one log on [1, 100]), the forward model `p ↦ [p₀, p₁]`,
    cube point (1/2, 1/2) ↦ parameters (1, 10) -/
example : List.zipWith (fun (p : Prior ℝ) u => p.prior (p.sample u)) [uniform 0 2, logUniform 0 2] [1 / 2, 1 / 2]
    = [1, 10] := by
  simp only [uniform, logUniform, pyMin, pyMax, Prior.prior, List.zipWith_cons_cons, List.zipWith_nil_right, pow10_real]
  norm_num

/-- the order matters: exchanging two priors of different supports changes the transformed point
    (so `transform_order` is not vacuous for symmetric-looking cases) -/
theorem perm_sensitive :
    priorTransform [uniform (0 : ℝ) 1, uniform 10 20] [1 / 2, 1 / 4] ≠
    priorTransform [uniform (10 : ℝ) 20, uniform 0 1] [1 / 2, 1 / 4] := by
  simp only [priorTransform, uniform, pyMin, pyMax, List.zipWith_cons_cons, List.zipWith_nil_right]
  norm_num

/-- the default prior of a parameter in `log` mode samples `log10` of the bounds uniformly and writes `10**v` -/
example : (defaultPrior (α := ℝ) true 1 100).isLog = true ∧ (defaultPrior (α := ℝ) false 1 100).isLog = false := by
  simp [defaultPrior, logUniformLin, logUniform, uniform]

/-- Fault sequences: the value returned for the `k`-th vector of any sequence is the callback of that vector alone —
    an invalid vector earlier in the sequence cannot change a later evaluation. -/
theorem fault_sequence (priors : List (Prior ℝ)) (fm : List ℝ → ModelOut ℝ) (obs sig : List ℝ)
    (thetas : List (List ℝ)) (k : Nat) :
    (runSequence Real.pi priors fm obs sig thetas)[k]? =
      (thetas[k]?).map (loglikeCallback Real.pi priors fm obs sig) := by
  simp [runSequence]

end Taurex.C06
