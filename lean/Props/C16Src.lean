/-
  C16 — source tie.  `TaurexModel/Gen/SrcC16.lean` is regenerated on every run by the `dyn` dialect of the source translator
  (`harness/translate_dyn.py`) from the source text of taurex/util/util.py (the recursive writer), taurex/output/hdf5.py
  (the HDF5 group methods), taurex/binning/{binner,fluxbinner,simplebinner,nativebinner}.py (the spectrum dictionaries) and
  taurex/util/hdf5.py (the loader).  The regenerated definitions are dynamically typed Python (values `Dyn.Val`, exceptions
  `Dyn.Exc`, primitives of `TaurexModel/Gen/DynPrelude.lean`), polymorphic in the monad and in one oracle `ext` for what the
  code asks of numpy, h5py and the other objects.  The theorems below instantiate the oracle with the model's description
  of those objects (`Proofs/C16SrcSpectrum.lean`, `Proofs/C16SrcStore.lean`, `Proofs/C16SrcLoad.lean`, `Proofs/C16SrcHdf5.lean`; for every behaviour
  the model leaves open)
  and state that each regenerated function computes the hand-written function of `TaurexModel/Output.lean` that the C16
  theorems are about and `driver_c16` executes.  A source change that alters one of these functions makes the
  corresponding theorem fail.
-/
import Proofs.C16SrcSpectrum
import Proofs.C16SrcStore
import Proofs.C16SrcLoad
import Proofs.C16SrcHdf5
set_option linter.unusedSectionVars false
set_option linter.unusedVariables false
set_option linter.unusedSimpArgs false

namespace Taurex.C16Src
open Taurex.Gen Taurex.Gen.Dyn
open Taurex.Output (Entry wlOfWn wnwidthToWlwidth computeBinEdges baseOutput spectrumOutput BinnerKind Value Node Arr
  ArrData Err OfInt toNdList stack stringList stringNode storeThing storeSeq storeEntries subKey isStr load loadKwargs
  scalarOf cellWidth utf8Size sCell writeArray)

/-! ## spectrum dictionaries -/

section spectrum
variable {α : Type} [Add α] [Sub α] [Mul α] [Div α] [Neg α] [LT α] [DecidableLT α]
  [OfNat α 0] [OfNat α 2] [OfNat α 10000] [BEq α] [FloatLike α]

/-- **`Binner.generate_spectrum_output(model_output, output_size)`** is `Output.baseOutput`: the six native / binned
    entries in this order, `binned_tau` only for `output_size > OutputSize.lighter`, `native_tau` only if moreover
    `output_size > OutputSize.light`; `bd` / `bdTau` are what `self.bindown(wngrid, ·)[1]` returns (every binner). -/
theorem src_binner_gso (w : GWorld α) (grid width wn flux : List α) (tau : List (List α)) (n : Nat) :
    SrcC16.binner_gso w.ext (.obj (.binner grid width)) (modelOutput wn flux tau) (.obj (.size n))
      = .ok (embOut (baseOutput w.bd w.bdTau n wn flux tau)) := by
  unfold SrcC16.binner_gso
  simp [modelOutput, Dyn.unpack4, Dyn.unpack, Dyn.iter, Dyn.setItem, Dyn.Val.hashable, Dyn.dictSet, Dyn.truediv,
    GWorld.ext, Dyn.callMethod, Dyn.getItem, Dyn.indexOf, Dyn.normIndex, Dyn.call, Dyn.getAttr, Dyn.compare, Dyn.truthy,
    Dyn.Val.beq, baseOutput, embOut, embEntry]
  by_cases h1 : 1 < n <;> by_cases h3 : 3 < n <;> simp [h1, h3, Output.sizeLighter, Output.sizeLight]

/-- **`FluxBinner.generate_spectrum_output`**: the base dictionary plus the binner's own grid
    (`self._wngrid`, `self._wngrid_width`) — `Output.spectrumOutput .flux` -/
theorem src_fluxbinner_gso (w : GWorld α) (grid width wn flux : List α) (tau : List (List α)) (n : Nat) :
    SrcC16.fluxbinner_gso w.ext (.obj (.binner grid width)) (modelOutput wn flux tau) (.obj (.size n))
      = .ok (embOut (spectrumOutput .flux grid width w.bd w.bdTau n wn flux tau)) := by
  unfold SrcC16.fluxbinner_gso
  simp only [src_binner_gso, g_bind_ok]
  by_cases h1 : 1 < n <;> by_cases h3 : 3 < n <;>
    simp [embOut, Dyn.getAttr, GWorld.ext, Dyn.setItem, Dyn.Val.hashable, Dyn.truediv, Dyn.call, spectrumOutput,
      baseOutput, h1, h3, Output.sizeLighter, Output.sizeLight, Dyn.dictSet, Dyn.Val.beq, embEntry]

/-- **`SimpleBinner.generate_spectrum_output`** (`self._wngrid`, `self._wn_width`) — `Output.spectrumOutput .simple` -/
theorem src_simplebinner_gso (w : GWorld α) (grid width wn flux : List α) (tau : List (List α)) (n : Nat) :
    SrcC16.simplebinner_gso w.ext (.obj (.binner grid width)) (modelOutput wn flux tau) (.obj (.size n))
      = .ok (embOut (spectrumOutput .simple grid width w.bd w.bdTau n wn flux tau)) := by
  unfold SrcC16.simplebinner_gso
  simp only [src_binner_gso, g_bind_ok]
  by_cases h1 : 1 < n <;> by_cases h3 : 3 < n <;>
    simp [embOut, Dyn.getAttr, GWorld.ext, Dyn.setItem, Dyn.Val.hashable, Dyn.truediv, Dyn.call, spectrumOutput,
      baseOutput, h1, h3, Output.sizeLighter, Output.sizeLight, Dyn.dictSet, Dyn.Val.beq, embEntry]

/-- **`NativeBinner.generate_spectrum_output`**: its own dictionary (native grid, wavelength grid, spectrum; `native_tau`
    only for `output_size > OutputSize.light`) — `Output.spectrumOutput .native` -/
theorem src_nativebinner_gso (w : GWorld α) (grid width wn flux : List α) (tau : List (List α)) (n : Nat) :
    SrcC16.nativebinner_gso w.ext (modelOutput wn flux tau) (.obj (.size n))
      = .ok (embOut (spectrumOutput .native grid width w.bd w.bdTau n wn flux tau)) := by
  unfold SrcC16.nativebinner_gso
  by_cases h3 : 3 < n <;>
    simp [modelOutput, Dyn.unpack4, Dyn.unpack, Dyn.iter, Dyn.setItem, Dyn.Val.hashable, Dyn.dictSet, Dyn.truediv,
      GWorld.ext, Dyn.getAttr, Dyn.compare, Dyn.truthy, Dyn.Val.beq, spectrumOutput, embOut, embEntry, h3,
      Output.sizeLight, Dyn.indexOf]

end spectrum

/-! ## the recursive writer -/

section store
variable {α : Type} [OfInt α] [FloatLike α]

/-- **`store_thing(output, key, item)`** is `Output.storeThing`.  For every value `v` of the model's domain, every group
    (path `p`), every state `s` of the file and every fuel above the nesting depth of `v`: if the model stores `v` as the
    entries `es`, the regenerated writer returns `None` and has created exactly those entries, in that order, in that group
    (`flat p es` appended to the log: scalars by `write_scalar`, arrays by `write_array`, strings by `write_string`, a list
    / tuple with a string by `write_string_array`, a numeric list by `write_array(np.array(·))`, any other list as
    `key0, key1, …`, a dictionary as a new group filled recursively); if the model refuses `v`, the writer raises — a
    `TypeError` / `ValueError` for an unsupported type, an `AttributeError` for a string list with a non-string. -/
theorem store_thing_spec (w : SWorld α) (hw : SWorldOK w) :
    ∀ (fuel : Nat) (v : Value α), depth v < fuel → ∀ (p : List String) (key : String) (s : Log α),
      Outcome p s (storeThing key v) (Dyn.Val.none : SV α)
        (SrcC16.store_thing w.ext fuel (.obj (.group p)) (.str key) (embV w.enc v) s)
  | 0, v, h, _, _, _ => absurd h (Nat.not_lt_zero _)
  | fuel + 1, v, h, p, key, s => by
    have IH := store_thing_spec w hw fuel
    cases v with
    | int i =>
      unfold SrcC16.store_thing
      simp [OutcomeR, storeThing, embV, eff_bind, Dyn.getAttr, SWorld.ext, Dyn.Val.isTy, Dyn.callMethod, logEntry, flat,
        flatNode]
    | float x =>
      unfold SrcC16.store_thing
      simp [OutcomeR, storeThing, embV, eff_bind, Dyn.getAttr, SWorld.ext, Dyn.Val.isTy, Dyn.callMethod, logEntry, flat,
        flatNode]
    | bool b =>
      unfold SrcC16.store_thing
      simp [OutcomeR, storeThing, embV, eff_bind, Dyn.getAttr, SWorld.ext, Dyn.Val.isTy, Dyn.callMethod, logEntry, flat,
        flatNode]
    | array a =>
      unfold SrcC16.store_thing
      simp [OutcomeR, storeThing, embV, eff_bind, Dyn.getAttr, SWorld.ext, Dyn.Val.isTy, Dyn.callMethod, logEntry, flat,
        flatNode, Dyn.isinstObj]
    | str t =>
      unfold SrcC16.store_thing
      simp [OutcomeR, storeThing, embV, eff_bind, Dyn.getAttr, SWorld.ext, Dyn.Val.isTy, Dyn.callMethod, logEntry, flat,
        flatNode, Dyn.isinstObj, hw.1]
    | unsupported =>
      unfold SrcC16.store_thing
      simp [OutcomeR, storeThing, embV, eff_bind, Dyn.getAttr, SWorld.ext, Dyn.Val.isTy, Dyn.callMethod, logEntry, flat,
        flatNode, Dyn.isinstObj, errOK]
    | list l =>
      unfold SrcC16.store_thing
      simp only [embV, eff_bind, eff_ite, ext_np, Dyn.getAttr, ext_np_int64, ext_np_float64, ext_np_ndarray, isTy_list,
        Dyn.isinstObj, isinst_list, Bool.or_self, Bool.false_eq_true, reduceCtorEq, beq_self_eq_true,
        (by decide : (Ty.float == Ty.list) = false), (by decide : (Ty.int == Ty.list) = false),
        (by decide : (Ty.str == Ty.list) = false), (by decide : (Ty.tuple == Ty.list) = false),
        if_false, Bool.or_false, Bool.true_or, Bool.false_or, if_true, eff_pure, Dyn.iter, mapM_isStr, contains_true]
      have hd : depthL l < fuel := by simp only [depth] at h; omega
      have hun := unL_embL w.enc w.dec hw.1 l
      rw [storeThing_list]
      by_cases hany : l.any isStr = true
      · simp only [hany, if_true, Dyn.callMethod, ext_write_string_array, hun]
        cases stringList l with
        | none => exact ⟨_, s, rfl, rfl⟩
        | some strs => simp [OutcomeR, flat, flatNode, stringNode]
      · simp only [hany, Bool.false_eq_true, if_false, eff_try, eff_bind, ext_np, Dyn.callMethod, ext_np_array, hun]
        cases hnd : (toNdList l).bind stack with
        | some a => simp [OutcomeR, ext_write_array, flat, flatNode]
        | none =>
          have hcatch : w.npErr.isaAny [Exc.TypeError, Exc.ValueError] = true := by
            rcases hw.2 with h' | h' <;> simp [h', Exc.isaAny, Exc.isa, Exc.base]
          simp only [hcatch, if_true, eff_bind, Dyn.enumerate_, Dyn.iter, eff_pure]
          have hloop := forM_seq w (SrcC16.store_thing w.ext fuel) p key fuel (fun v hv k s => IH v hv p k s)
            (fun _ t => do
              let __x ← Dyn.unpack2 w.ext t
              let t__20 ← Dyn.m_format w.ext ["", "", ""] [Dyn.Val.str key, __x.fst]
              let _ ← SrcC16.store_thing w.ext fuel (Dyn.Val.obj (SObj.group p)) t__20 __x.snd
              pure ())
            (fun i x s => by
              simp [eff_bind, Dyn.unpack2, Dyn.unpack, Dyn.iter, format_key])
            l 0 s hd
          cases hm : storeSeq key 0 l with
          | error e =>
            obtain ⟨e', s', hr, he⟩ := outcome_err hm hloop
            refine ⟨e', s', ?_, he⟩
            simp only [hr]
          | ok es =>
            have hr := outcome_ok hm hloop
            simp only [OutcomeR, hr]
    | tuple l =>
      unfold SrcC16.store_thing
      simp only [embV, eff_bind, eff_ite, ext_np, Dyn.getAttr, ext_np_int64, ext_np_float64, ext_np_ndarray, isTy_tuple,
        Dyn.isinstObj, isinst_tuple, Bool.or_self, Bool.false_eq_true, reduceCtorEq, beq_self_eq_true,
        (by decide : (Ty.float == Ty.tuple) = false), (by decide : (Ty.int == Ty.tuple) = false),
        (by decide : (Ty.str == Ty.tuple) = false), (by decide : (Ty.list == Ty.tuple) = false),
        if_false, Bool.or_false, Bool.true_or, Bool.false_or, if_true, eff_pure, Dyn.iter, mapM_isStr, contains_true]
      have hd : depthL l < fuel := by simp only [depth] at h; omega
      have hun := unL_embL w.enc w.dec hw.1 l
      rw [storeThing_tuple, storeThing_list]
      by_cases hany : l.any isStr = true
      · simp only [hany, if_true, Dyn.callMethod, ext_write_string_array, hun]
        cases stringList l with
        | none => exact ⟨_, s, rfl, rfl⟩
        | some strs => simp [OutcomeR, flat, flatNode, stringNode]
      · simp only [hany, Bool.false_eq_true, if_false, eff_try, eff_bind, ext_np, Dyn.callMethod, ext_np_array, hun]
        cases hnd : (toNdList l).bind stack with
        | some a => simp [OutcomeR, ext_write_array, flat, flatNode]
        | none =>
          have hcatch : w.npErr.isaAny [Exc.TypeError, Exc.ValueError] = true := by
            rcases hw.2 with h' | h' <;> simp [h', Exc.isaAny, Exc.isa, Exc.base]
          simp only [hcatch, if_true, eff_bind, Dyn.enumerate_, Dyn.iter, eff_pure]
          have hloop := forM_seq w (SrcC16.store_thing w.ext fuel) p key fuel (fun v hv k s => IH v hv p k s)
            (fun _ t => do
              let __x ← Dyn.unpack2 w.ext t
              let t__20 ← Dyn.m_format w.ext ["", "", ""] [Dyn.Val.str key, __x.fst]
              let _ ← SrcC16.store_thing w.ext fuel (Dyn.Val.obj (SObj.group p)) t__20 __x.snd
              pure ())
            (fun i x s => by
              simp [eff_bind, Dyn.unpack2, Dyn.unpack, Dyn.iter, format_key])
            l 0 s hd
          cases hm : storeSeq key 0 l with
          | error e =>
            obtain ⟨e', s', hr, he⟩ := outcome_err hm hloop
            refine ⟨e', s', ?_, he⟩
            simp only [hr]
          | ok es =>
            have hr := outcome_ok hm hloop
            simp only [OutcomeR, hr]
    | dict d =>
      unfold SrcC16.store_thing
      have hd : depthD d < fuel := by simp only [depth] at h; omega
      simp only [embV, eff_bind, eff_ite, ext_np, Dyn.getAttr, ext_np_int64, ext_np_float64, ext_np_ndarray, isTy_dict,
        Dyn.isinstObj, isinst_dict, Bool.or_self, Bool.false_eq_true, reduceCtorEq, beq_self_eq_true,
        (by decide : (Ty.float == Ty.dict) = false), (by decide : (Ty.int == Ty.dict) = false),
        (by decide : (Ty.str == Ty.dict) = false), (by decide : (Ty.tuple == Ty.dict) = false),
        (by decide : (Ty.list == Ty.dict) = false),
        if_false, Bool.or_false, Bool.true_or, Bool.false_or, if_true, eff_pure, Dyn.callMethod, ext_create_group]
      rw [storeThing_dict]
      have hrs := recursively_save_spec w (fun c0 c1 c2 => SrcC16.store_thing w.ext fuel c0 c1 c2) (p ++ [key]) fuel
        (fun v hv k s => IH v hv (p ++ [key]) k s) d (s ++ [(p, key, Node.group [])]) hd
      cases hm : storeEntries d with
      | error e =>
        obtain ⟨e', s', hr, he⟩ := outcome_err hm hrs
        refine ⟨e', s', ?_, errOK_of_errOK' he⟩
        simp only [hr]
      | ok ch =>
        have hr := outcome_ok hm hrs
        simp only [OutcomeR, hr, flat, flatNode, List.append_assoc, List.cons_append, List.nil_append, List.append_nil]


/-- a model value that is stored successfully: what `store_thing` returns and leaves in the file -/
theorem src_store_thing_ok (w : SWorld α) (hw : SWorldOK w) (fuel : Nat) (v : Value α) (hf : depth v < fuel)
    (p : List String) (key : String) (s : Log α) (es : List (String × Node α)) (hm : storeThing key v = .ok es) :
    SrcC16.store_thing w.ext fuel (.obj (.group p)) (.str key) (embV w.enc v) s = (.ok .none, s ++ flat p es) :=
  outcome_ok hm (store_thing_spec w hw fuel v hf p key s)

/-- **`recursively_save_dict_contents_to_output(output, dic)`** (with the regenerated `store_thing` as its callee) is
    `Output.storeEntries`: the entries of all items in order; an unsupported value surfaces as `ValueError`. -/
theorem src_recursively_save (w : SWorld α) (hw : SWorldOK w) (fuel : Nat) (d : List (String × Value α))
    (hf : depthD d < fuel) (q : List String) (s : Log α) :
    OutcomeR errOK' q s (storeEntries d) (Dyn.Val.none : SV α)
      (SrcC16.recursively_save w.ext (fun a b c => SrcC16.store_thing w.ext fuel a b c) (.obj (.group q))
        (.dict (embD w.enc d)) s) :=
  recursively_save_spec w _ q fuel (fun v hv k s => store_thing_spec w hw fuel v hv q k s) d s hf

end store

/-! ## the HDF5 group methods -/

section hdf5
variable {α : Type} [FloatLike α]

/-- **`HDF5OutputGroup.write_array(name, array)`** is `Output.writeArray`: an ndarray becomes the dataset `name`, a list of
    ndarrays the datasets `name0, name1, …` (the method calling itself for every element) -/
theorem src_write_array (w : HWorld α) (fuel : Nat) (p : List String) (name : String) (v : Value α)
    (es : List (String × Node α)) (hm : writeArray name v = some es) (s : Log α) :
    SrcC16.write_array w.ext (fuel + 2) (.obj (.grp p)) (.str name) (embA v) .none s
      = (.ok .none, s ++ es.map (fun e => (p, e.1, e.2))) := by
  cases v with
  | array a =>
    simp only [writeArray, Option.some.injEq] at hm
    subst hm
    exact write_array_leaf w (fuel + 1) p name a s
  | list l =>
    simp only [writeArray] at hm
    unfold SrcC16.write_array
    simp only [embA, Dyn.Val.isTy, ↓reduceIte, eff_bind, Dyn.enumerate_, Dyn.iter, eff_pure]
    rw [forM_arrays w fuel p name _ (fun i x s => by
      simp [eff_bind, Dyn.unpack2, Dyn.unpack, Dyn.iter, hformat_key]) l 0 s es hm]
  | _ => simp [writeArray] at hm

/-- **`HDF5OutputGroup.write_string_array(name, strings)`** creates `Output.stringNode`: the cells are the UTF-8 encodings,
    the width is `max([64] + [len(cell) …])` = `Output.cellWidth`, the shape `(len(strings), 1)`, the type `S<width>` -/
theorem src_write_string_array (w : HWorld α) (hw : HWorldOK w) (p : List String) (name : String)
    (strs : List (List Nat)) (s : Log α) :
    SrcC16.write_string_array w.ext (.obj (.grp p)) (.str name) (.list (strs.map (fun c => .str (w.enc c)))) .none s
      = (.ok .none, s ++ [(p, name, stringNode strs)]) := by
  unfold SrcC16.write_string_array
  have henc : ∀ (l : List (List Nat)) (s : Log α),
      Dyn.mapM (m := SM α) (fun n => do
          let t ← Dyn.callMethodB w.ext n "encode" [(Dyn.Val.str "utf-8")] []
          pure t) (l.map (fun c => (Dyn.Val.str (w.enc c) : HV α))) s
        = (.ok (l.map (fun c => (Dyn.Val.obj (HObj.bytes c) : HV α))), s) := by
    intro l
    induction l with
    | nil => intro s; rfl
    | cons c t ih =>
      intro s
      have h1 : Dyn.callMethodB w.ext (Dyn.Val.str (w.enc c) : HV α) "encode" [(Dyn.Val.str "utf-8")] [] s
          = (.ok (.obj (.bytes c)), s) := by
        simp [Dyn.callMethodB, HWorld.ext, hw c]
      simp only [List.map_cons, Dyn.mapM, eff_bind, h1, eff_pure, ih]
  have hlen : ∀ (l : List (List Nat)) (s : Log α),
      Dyn.mapM (m := SM α) (fun n => do
          let t ← Dyn.len w.ext n
          pure t) (l.map (fun c => (Dyn.Val.obj (HObj.bytes c) : HV α))) s
        = (.ok (l.map (fun c => (Dyn.Val.int (utf8Size c : Nat) : HV α))), s) := by
    intro l
    induction l with
    | nil => intro s; rfl
    | cons c t ih =>
      intro s
      have h1 : Dyn.len w.ext (Dyn.Val.obj (HObj.bytes c) : HV α) s = (.ok (.int (utf8Size c : Nat)), s) := by
        simp [Dyn.len, HWorld.ext]
      simp only [List.map_cons, Dyn.mapM, eff_bind, h1, eff_pure, ih]
  have hmax := maxInts_fold (α := α) (strs.map utf8Size) 64
  simp only [List.map_cons, List.map_map, Function.comp_def] at hmax
  simp only [eff_bind, Dyn.iter, eff_pure, henc, hlen, Dyn.add]
  have hmx : Dyn.max_ w.ext (Dyn.Val.list ([Dyn.Val.int 64] ++ strs.map (fun c => (Dyn.Val.int (utf8Size c : Nat) : HV α)))) s
      = (.ok (.int ((cellWidth strs : Nat) : Int)), s) := by
    have hm' : maxInts ([(Dyn.Val.int 64 : HV α)] ++ strs.map (fun c => (Dyn.Val.int (utf8Size c : Nat) : HV α)))
        = some ((cellWidth strs : Nat) : Int) := by
      simpa [cellWidth] using hmax
    simp only [List.singleton_append] at hm' ⊢
    simp only [Dyn.max_, hm', eff_pure]
  have hfmt : Dyn.m_format w.ext ["S", ""] [(Dyn.Val.int ((cellWidth strs : Nat) : Int) : HV α)] s
      = (.ok (.str ("S" ++ toString (cellWidth strs))), s) := by
    simp [Dyn.m_format, Dyn.mapM, Dyn.str_, eff_bind, Dyn.formatParts, Dyn.intStr]
    rfl
  have hun : ∀ l : List (List Nat), (l.map (fun c => (Dyn.Val.obj (HObj.bytes c) : HV α))).mapM unBytes = some l := by
    intro l
    induction l with
    | nil => rfl
    | cons c t ih => simp only [List.map_cons, List.mapM_cons, unBytes, ih]; rfl
  have hcr : w.ext.method (.entry p) "create_dataset"
      [Dyn.Val.str name, Dyn.Val.tuple [Dyn.Val.int ((strs.map (fun c => (Dyn.Val.obj (HObj.bytes c) : HV α))).length : Nat),
        Dyn.Val.int 1], Dyn.Val.str ("S" ++ toString (cellWidth strs)),
        Dyn.Val.list (strs.map (fun c => (Dyn.Val.obj (HObj.bytes c) : HV α)))] [] s
      = (.ok (.obj .ds), s ++ [(p, name, stringNode strs)]) := by
    simp [HWorld.ext, hun strs]
  simp only [hmx, h_entry, Dyn.getAttr, Dyn.str_, eff_pure, Dyn.len, hfmt, Dyn.callMethod, hcr, Dyn.truthy,
    Bool.false_eq_true, if_false]


end hdf5

/-! ## the loader -/

section loader
variable {α : Type} [FloatLike α]

/-- **`decode_string_array(f)`** on an array of fixed-width byte strings: the list of its decoded cells —
    `Output.load (.sfix w rows)` -/
theorem src_decode_string_array (w : LWorld α) (wd : Nat) (rows : List (List Nat)) :
    SrcC16.decode_string_array w.ext (.obj (.sarr rows)) = .ok (embLV w.enc (load (.sfix wd rows))) := by
  unfold SrcC16.decode_string_array
  simp only [Dyn.iter, LWorld.ext, l_bind_ok, l_pure_ok, load, embLV, List.map_map]
  have : ∀ rs : List (List Nat), Dyn.mapM (m := LM) (fun s => do
        let t__3 ← Dyn.getItem w.ext s (Dyn.Val.int 0)
        let t__4 ← Dyn.callMethodB w.ext t__3 "decode" [(Dyn.Val.str "utf-8")] []
        pure t__4) (rs.map (fun r => (Dyn.Val.obj (LObj.srow r) : LV α)))
      = .ok (rs.map (fun r => Dyn.Val.str (w.enc r))) := by
    intro rs
    induction rs with
    | nil => rfl
    | cons r t ih =>
      simp only [List.map_cons, Dyn.mapM, ih, l_bind_ok, l_pure_ok]
      rfl
  simp only [LWorld.ext] at this
  rw [this]
  simp [Function.comp_def]

/-- **`get_klass_args(klass)`**: the names of the constructor parameters that have a default -/
theorem src_get_klass_args (w : LWorld α) (nm : List Nat) (kws : List String) :
    SrcC16.get_klass_args w.ext (.obj (.klass nm kws)) = .ok (.list (kws.map .str)) := by
  unfold SrcC16.get_klass_args
  by_cases he : kws = []
  · subst he; rfl
  · have hne : kws.isEmpty = false := by simp [he]
    simp [LWorld.ext, Dyn.getAttr, Dyn.callMethod, Dyn.getSlice, Dyn.unpack4, Dyn.unpack, Dyn.iter, hne, he, Dyn.Val.isNone,
      Dyn.len, Dyn.neg, Dyn.sliceBound]
    have hnames : (kws.map (fun s => (Dyn.Val.str s : LV α))) ≠ [] := by simpa using he
    have := slice_tail' (w.argsPre kws) (kws.map (fun s => (Dyn.Val.str s : LV α))) hnames
    simpa using this

/-- **`load_generic_profile_from_hdf5(loc, module, identifier)`** (no `profile_type`, no pre-made / replacement
    dictionary) is the model's reload: the class is the one `class_for_name` finds for the stored type string, and it is
    called with exactly `Output.loadKwargs` — for every constructor keyword, in the constructor's order, that is stored in
    the group: the stored entry read back and decoded as `Output.load` says (`decode_string_array` for fixed-width string
    arrays, `.decode()` for strings); keywords that are not stored are left to their defaults. -/
theorem src_load_generic_profile (w : LWorld α) (ch : List (String × Node α)) (typeKey : String) (nm : List Nat)
    (kws : List String) (module : LV α) (htype : ch.lookup typeKey = some (.vstr nm)) (hk : w.klassOf nm = some kws)
    (hn : kws.Nodup) (hds : ∀ kw ∈ kws, ∀ n, ch.lookup kw = some n → isGroup n = false) :
    SrcC16.load_generic_profile w.ext (.obj (.h5 ch)) module (.str typeKey) .none .none .none
      = w.call (.klass nm kws) [] (embKwL w.enc (loadKwargs ch kws)) := by
  unfold SrcC16.load_generic_profile
  have hget : ∀ k : String, Dyn.getItem w.ext (Dyn.Val.obj (LObj.h5 ch)) (Dyn.Val.str k)
      = match ch.lookup k with | some n => .ok (.obj (.node n)) | none => .error .KeyError := by
    intro k; simp only [Dyn.getItem, LWorld.ext]; rfl
  have hraw : ∀ n : Node α, Dyn.getItem w.ext (Dyn.Val.obj (LObj.node n)) (Dyn.Val.tuple []) = .ok (rawOf w.enc n) := by
    intro n; rfl
  have hcfn : w.ext.global "class_for_name" = .ok (.obj (.fn "class_for_name")) := rfl
  have hcall : Dyn.call w.ext (Dyn.Val.obj (LObj.fn "class_for_name")) [Dyn.Val.obj (LObj.bytes nm)] []
      = .ok (.obj (.klass nm kws)) := by
    simp only [Dyn.call, LWorld.ext, String.reduceEq, if_true, hk]
  have hkeys : Dyn.m_keys w.ext (Dyn.Val.obj (LObj.h5 ch)) = .ok (ch.map (fun e => (Dyn.Val.str e.1 : LV α))) := by
    simp only [Dyn.m_keys, Dyn.callMethod, LWorld.ext, if_true, l_bind_ok, Dyn.iter, l_pure_ok]
  simp only [Dyn.Val.isNone, if_true, hget, htype, l_bind_ok, hraw, rawOf, l_pure_ok, hkeys, hcfn, hcall,
    src_get_klass_args, Dyn.truthy, Bool.false_eq_true, if_false, Dyn.iter]
  have h0 : (Dyn.Val.dict [] : LV α) = encD w [] := rfl
  rw [h0, forM_load w ch kws _ ?hb kws [] hn (fun _ h => h) (by simp)]
  case hb =>
    intro acc kw hkw
    simp only [contains_keys]
    cases hl : ch.lookup kw with
    | none => simp
    | some n =>
      have hg := hds kw hkw n hl
      simp only [Option.isSome_some, if_true, l_bind_ok, hget, hl, hraw]
      have hnp : w.ext.global "np" = .ok (.obj .np) := rfl
      have hnd : Dyn.getAttr w.ext (Dyn.Val.obj (LObj.np : LObj α)) "ndarray" = .ok (.obj .npNdarray) := rfl
      have hby : Dyn.getAttr w.ext (Dyn.Val.obj (LObj.np : LObj α)) "bytes_" = .ok (.obj .npBytes) := rfl
      have hrepl : Dyn.contains w.ext (Dyn.Val.str kw) (encD w []) = .ok false := rfl
      simp only [hnp, hnd, hby, l_bind_ok, hrepl, Bool.false_eq_true, if_false]
      cases n with
      | group c => simp [isGroup] at hg
      | vstr t =>
        have hi : w.ext.isinst (Dyn.Val.obj (LObj.bytes t)) LObj.npNdarray = false := rfl
        have hd : Dyn.callMethodB w.ext (Dyn.Val.obj (LObj.bytes t : LObj α)) "decode" [] [] = .ok (.str (w.enc t)) := rfl
        simp only [rawOf, Dyn.isinstObj, hi, Bool.false_eq_true, if_false, l_pure_ok, l_bind_ok, hd, l_try_ok, load,
          embLV]
      | sfix wd rows =>
        have hdec := src_decode_string_array w wd rows
        have hfn : w.ext.global "decode_string_array" = .ok (.obj (.fn "decode_string_array")) := rfl
        simp only [rawOf, Dyn.isinstObj]
        have hi : w.ext.isinst (Dyn.Val.obj (LObj.sarr rows)) LObj.npNdarray = true := rfl
        have hdt : Dyn.getAttr w.ext (Dyn.Val.obj (LObj.sarr rows : LObj α)) "dtype" = .ok (.obj (.dtype true)) := rfl
        have hty : Dyn.getAttr w.ext (Dyn.Val.obj (LObj.dtype true : LObj α)) "type" = .ok (.obj .npBytes) := rfl
        have his : Dyn.is_ w.ext (Dyn.Val.obj (LObj.npBytes : LObj α)) (Dyn.Val.obj LObj.npBytes) = .ok true := rfl
        simp only [hi, if_true, hdt, hty, hnp, hby, his, l_bind_ok, l_pure_ok, hdec]
        have hm : Dyn.callMethodB w.ext (embLV w.enc (Value.list (rows.map Value.str) : Value α)) "decode" [] []
            = .error .AttributeError := rfl
        simp only [load, hm, l_try_err]
        simp [Exc.isaAny, Exc.isa, Exc.base, encD]
      | num a =>
        have hi : ∀ v : Value α, (∀ a', v ≠ .array a') → w.ext.isinst (embLV w.enc v) LObj.npNdarray = false := by
          intro v hv
          cases v <;> first | rfl | (exact absurd rfl (hv _))
        have hdecode : ∀ v : Value α, Dyn.callMethodB w.ext (embLV w.enc v) "decode" [] [] = .error .AttributeError := by
          intro v
          cases v <;> rfl
        simp only [rawOf, Dyn.isinstObj]
        have hload : (∃ a', load (Node.num a) = Value.array a') ∨ (∃ b, load (Node.num a) = Value.bool b) ∨
            (∃ i, load (Node.num a) = Value.int i) ∨ (∃ x, load (Node.num a) = Value.float x) := by
          simp only [load]
          cases a.shape with
          | cons _ _ => exact Or.inl ⟨_, rfl⟩
          | nil =>
            simp only []
            cases hsc : scalarOf a.data with
            | none => exact Or.inl ⟨_, rfl⟩
            | some v =>
              simp only [Option.getD_some]
              unfold scalarOf at hsc
              split at hsc <;> cases hsc
              · exact Or.inr (Or.inl ⟨_, rfl⟩)
              · exact Or.inr (Or.inr (Or.inl ⟨_, rfl⟩))
              · exact Or.inr (Or.inr (Or.inr ⟨_, rfl⟩))
        rcases hload with ⟨a', hv⟩ | ⟨b, hv⟩ | ⟨i, hv⟩ | ⟨x, hv⟩
        · have hi' : w.ext.isinst (Dyn.Val.obj (LObj.nd a')) LObj.npNdarray = true := rfl
          have hdt : Dyn.getAttr w.ext (Dyn.Val.obj (LObj.nd a' : LObj α)) "dtype" = .ok (.obj (.dtype false)) := rfl
          have hty : Dyn.getAttr w.ext (Dyn.Val.obj (LObj.dtype false : LObj α)) "type" = .ok (.obj .npOther) := rfl
          have his : Dyn.is_ w.ext (Dyn.Val.obj (LObj.npOther : LObj α)) (Dyn.Val.obj LObj.npBytes) = .ok false := rfl
          have hd := hdecode (.array a')
          simp only [embLV] at hd
          simp only [hv, embLV, hi', if_true, hdt, hty, hnp, hby, his, l_bind_ok, l_pure_ok, Bool.false_eq_true, if_false,
            hd, l_try_err]
          simp [Exc.isaAny, Exc.isa, Exc.base, encD, embLV]
        · simp only [hv, hi (Value.bool b) (by intro a' h'; cases h'), Bool.false_eq_true, if_false, l_pure_ok, l_bind_ok,
            hdecode, l_try_err]
          simp [Exc.isaAny, Exc.isa, Exc.base, encD]
        · simp only [hv, hi (Value.int i) (by intro a' h'; cases h'), Bool.false_eq_true, if_false, l_pure_ok, l_bind_ok,
            hdecode, l_try_err]
          simp [Exc.isaAny, Exc.isa, Exc.base, encD]
        · simp only [hv, hi (Value.float x) (by intro a' h'; cases h'), Bool.false_eq_true, if_false, l_pure_ok, l_bind_ok,
            hdecode, l_try_err]
          simp [Exc.isaAny, Exc.isa, Exc.base, encD]
  · simp only [List.nil_append, l_bind_ok, encD]
    have hss : ∀ c : List (String × Value α),
        (Dyn.starStar (Dyn.Val.dict (c.map (fun kv => ((Dyn.Val.str kv.1 : LV α), embLV w.enc kv.2)))) : LM _)
          = .ok (embKwL w.enc c) := by
      intro c
      simp only [Dyn.starStar, embKwL]
      induction c with
      | nil => rfl
      | cons kv t ih =>
        simp only [List.map_cons, Dyn.mapM, l_pure_ok, l_bind_ok] at ih ⊢
        rw [ih]; rfl
    simp only [hss, l_bind_ok, Dyn.call, l_bind_ok_right]
    rfl


end loader

end Taurex.C16Src
