/-
  C16 — source tie.  `TaurexModel/Gen/SrcC16.lean` is regenerated on every run by the `dyn` dialect of the source translator
  (`harness/translate_dyn.py`) from the source text of taurex/util/util.py (the recursive writer), taurex/output/hdf5.py
  (the HDF5 group methods), taurex/binning/{binner,fluxbinner,simplebinner,nativebinner}.py (the spectrum dictionaries),
  taurex/util/hdf5.py (the loaders: `load_generic_profile_from_hdf5`, the per-component loaders, `load_chemistry_from_hdf5`,
  `load_model_from_hdf5`, `taurex_hdf5_to_model`, `taurex_hdf5_to_observation`) and the component `write` methods of
  taurex/data/profiles/temperature/{tprofile,isothermal,guillot,npoint}.py, taurex/model/{model,simplemodel,transmission}.py,
  taurex/data/profiles/chemistry/{chemistry,taurexchemistry}.py, taurex/data/stellar/star.py, taurex/data/planet.py,
  taurex/data/profiles/pressure/pressureprofile.py, taurex/data/profiles/chemistry/gas/{gas,constantgas,twolayergas,
  twopointgas,powergas}.py, taurex/contributions/{contribution,cia,simpleclouds,flatmie}.py.  The regenerated definitions are dynamically typed Python (values `Dyn.Val`, exceptions
  `Dyn.Exc`, primitives of `TaurexModel/Gen/DynPrelude.lean`), polymorphic in the monad and in one oracle `ext` for what the
  code asks of numpy, h5py and the other objects.  The theorems below instantiate the oracle with the model's description
  of those objects (`Proofs/C16SrcSpectrum.lean`, `Proofs/C16SrcStore.lean`, `Proofs/C16SrcLoad.lean`, `Proofs/C16SrcHdf5.lean`,
  `Proofs/C16SrcWrite.lean`; for every behaviour
  the model leaves open)
  and state that each regenerated function computes the hand-written function of `TaurexModel/Output.lean` that the C16
  theorems are about and `driver_c16` executes.  A source change that alters one of these functions makes the
  corresponding theorem fail.
-/
import Proofs.C16SrcSpectrum
import Proofs.C16SrcStore
import Proofs.C16SrcLoad
import Proofs.C16SrcHdf5
import Proofs.C16SrcWrite
set_option linter.unusedSectionVars false
set_option linter.unusedVariables false
set_option linter.unusedSimpArgs false

namespace Taurex.C16Src
open Taurex.Gen Taurex.Gen.Dyn
open Taurex.Output (Entry wlOfWn wnwidthToWlwidth computeBinEdges baseOutput spectrumOutput BinnerKind Value Node Arr
  ArrData Err OfInt toNdList stack stringList stringNode storeThing storeSeq storeEntries subKey isStr load loadKwargs
  scalarOf cellWidth utf8Size sCell writeArray writeComponent)

/-! ## spectrum dictionaries -/

section spectrum
variable {α : Type} [Add α] [Sub α] [Mul α] [Div α] [Neg α] [LT α] [DecidableLT α]
  [OfNat α 0] [OfNat α 2] [OfNat α 10000] [BEq α] [FloatLike α]

/-- **`Binner.generate_spectrum_output(model_output, output_size)`** is `Output.baseOutput`: the six native / binned
    entries in this order, `binned_tau` only for `output_size > OutputSize.lighter`, `native_tau` only if moreover
    `output_size > OutputSize.light`; `bd` / `bdTau` are what `self.bindown(wngrid, ·)[1]` returns (every binner). -/
theorem src_binner_gso (w : GWorld α) (grid width wn flux : List α) (tau : List (List α)) (n : Nat) :
    SrcC16.binner_gso w.ext (.obj (.binner grid width)) (modelOutput wn flux tau) (.obj (.size n))
      = .ok (embOut (baseOutput w.bd w.bdTau n wn flux tau)) := by
  unfold SrcC16.binner_gso
  simp [modelOutput, Dyn.unpack4, Dyn.unpack, Dyn.iter, Dyn.setItem, Dyn.Val.hashable, Dyn.dictSet, Dyn.truediv,
    GWorld.ext, Dyn.callMethod, Dyn.getItem, Dyn.indexOf, Dyn.normIndex, Dyn.call, Dyn.getAttr, Dyn.compare, Dyn.truthy,
    Dyn.Val.beq, baseOutput, embOut, embEntry]
  by_cases h1 : 1 < n <;> by_cases h3 : 3 < n <;> simp [h1, h3, Output.sizeLighter, Output.sizeLight]

/-- **`FluxBinner.generate_spectrum_output`**: the base dictionary plus the binner's own grid
    (`self._wngrid`, `self._wngrid_width`) — `Output.spectrumOutput .flux` -/
theorem src_fluxbinner_gso (w : GWorld α) (grid width wn flux : List α) (tau : List (List α)) (n : Nat) :
    SrcC16.fluxbinner_gso w.ext (.obj (.binner grid width)) (modelOutput wn flux tau) (.obj (.size n))
      = .ok (embOut (spectrumOutput .flux grid width w.bd w.bdTau n wn flux tau)) := by
  unfold SrcC16.fluxbinner_gso
  simp only [src_binner_gso, g_bind_ok]
  by_cases h1 : 1 < n <;> by_cases h3 : 3 < n <;>
    simp [embOut, Dyn.getAttr, GWorld.ext, Dyn.setItem, Dyn.Val.hashable, Dyn.truediv, Dyn.call, spectrumOutput,
      baseOutput, h1, h3, Output.sizeLighter, Output.sizeLight, Dyn.dictSet, Dyn.Val.beq, embEntry]

/-- **`SimpleBinner.generate_spectrum_output`** (`self._wngrid`, `self._wn_width`) — `Output.spectrumOutput .simple` -/
theorem src_simplebinner_gso (w : GWorld α) (grid width wn flux : List α) (tau : List (List α)) (n : Nat) :
    SrcC16.simplebinner_gso w.ext (.obj (.binner grid width)) (modelOutput wn flux tau) (.obj (.size n))
      = .ok (embOut (spectrumOutput .simple grid width w.bd w.bdTau n wn flux tau)) := by
  unfold SrcC16.simplebinner_gso
  simp only [src_binner_gso, g_bind_ok]
  by_cases h1 : 1 < n <;> by_cases h3 : 3 < n <;>
    simp [embOut, Dyn.getAttr, GWorld.ext, Dyn.setItem, Dyn.Val.hashable, Dyn.truediv, Dyn.call, spectrumOutput,
      baseOutput, h1, h3, Output.sizeLighter, Output.sizeLight, Dyn.dictSet, Dyn.Val.beq, embEntry]

/-- **`NativeBinner.generate_spectrum_output`**: its own dictionary (native grid, wavelength grid, spectrum; `native_tau`
    only for `output_size > OutputSize.light`) — `Output.spectrumOutput .native` -/
theorem src_nativebinner_gso (w : GWorld α) (grid width wn flux : List α) (tau : List (List α)) (n : Nat) :
    SrcC16.nativebinner_gso w.ext (modelOutput wn flux tau) (.obj (.size n))
      = .ok (embOut (spectrumOutput .native grid width w.bd w.bdTau n wn flux tau)) := by
  unfold SrcC16.nativebinner_gso
  by_cases h3 : 3 < n <;>
    simp [modelOutput, Dyn.unpack4, Dyn.unpack, Dyn.iter, Dyn.setItem, Dyn.Val.hashable, Dyn.dictSet, Dyn.truediv,
      GWorld.ext, Dyn.getAttr, Dyn.compare, Dyn.truthy, Dyn.Val.beq, spectrumOutput, embOut, embEntry, h3,
      Output.sizeLight, Dyn.indexOf]

end spectrum

/-! ## the recursive writer -/

section store
variable {α : Type} [OfInt α] [FloatLike α]

/-- **`store_thing(output, key, item)`** is `Output.storeThing`.  For every value `v` of the model's domain, every group
    (path `p`), every state `s` of the file and every fuel above the nesting depth of `v`: if the model stores `v` as the
    entries `es`, the regenerated writer returns `None` and has created exactly those entries, in that order, in that group
    (`flat p es` appended to the log: scalars by `write_scalar`, arrays by `write_array`, strings by `write_string`, a list
    / tuple with a string by `write_string_array`, a numeric list by `write_array(np.array(·))`, any other list as
    `key0, key1, …`, a dictionary as a new group filled recursively); if the model refuses `v`, the writer raises — a
    `TypeError` / `ValueError` for an unsupported type, an `AttributeError` for a string list with a non-string. -/
theorem store_thing_spec (w : SWorld α) (hw : SWorldOK w) :
    ∀ (fuel : Nat) (v : Value α), depth v < fuel → ∀ (p : List String) (key : String) (s : Log α),
      Outcome p s (storeThing key v) (Dyn.Val.none : SV α)
        (SrcC16.store_thing w.ext fuel (.obj (.group p)) (.str key) (embV w.enc v) s)
  | 0, v, h, _, _, _ => absurd h (Nat.not_lt_zero _)
  | fuel + 1, v, h, p, key, s => by
    have IH := store_thing_spec w hw fuel
    cases v with
    | int i =>
      unfold SrcC16.store_thing
      simp [OutcomeR, storeThing, embV, eff_bind, Dyn.getAttr, SWorld.ext, Dyn.Val.isTy, Dyn.callMethod, logEntry, flat,
        flatNode]
    | float x =>
      unfold SrcC16.store_thing
      simp [OutcomeR, storeThing, embV, eff_bind, Dyn.getAttr, SWorld.ext, Dyn.Val.isTy, Dyn.callMethod, logEntry, flat,
        flatNode]
    | bool b =>
      unfold SrcC16.store_thing
      simp [OutcomeR, storeThing, embV, eff_bind, Dyn.getAttr, SWorld.ext, Dyn.Val.isTy, Dyn.callMethod, logEntry, flat,
        flatNode]
    | array a =>
      unfold SrcC16.store_thing
      simp [OutcomeR, storeThing, embV, eff_bind, Dyn.getAttr, SWorld.ext, Dyn.Val.isTy, Dyn.callMethod, logEntry, flat,
        flatNode, Dyn.isinstObj]
    | str t =>
      unfold SrcC16.store_thing
      simp [OutcomeR, storeThing, embV, eff_bind, Dyn.getAttr, SWorld.ext, Dyn.Val.isTy, Dyn.callMethod, logEntry, flat,
        flatNode, Dyn.isinstObj, hw.1]
    | unsupported =>
      unfold SrcC16.store_thing
      simp [OutcomeR, storeThing, embV, eff_bind, Dyn.getAttr, SWorld.ext, Dyn.Val.isTy, Dyn.callMethod, logEntry, flat,
        flatNode, Dyn.isinstObj, errOK]
    | list l =>
      unfold SrcC16.store_thing
      simp only [embV, eff_bind, eff_ite, ext_np, Dyn.getAttr, ext_np_int64, ext_np_float64, ext_np_ndarray, isTy_list,
        Dyn.isinstObj, isinst_list, Bool.or_self, Bool.false_eq_true, reduceCtorEq, beq_self_eq_true,
        (by decide : (Ty.float == Ty.list) = false), (by decide : (Ty.int == Ty.list) = false),
        (by decide : (Ty.str == Ty.list) = false), (by decide : (Ty.tuple == Ty.list) = false),
        if_false, Bool.or_false, Bool.true_or, Bool.false_or, if_true, eff_pure, Dyn.iter, mapM_isStr, contains_true]
      have hd : depthL l < fuel := by simp only [depth] at h; omega
      have hun := unL_embL w.enc w.dec hw.1 l
      rw [storeThing_list]
      by_cases hany : l.any isStr = true
      · simp only [hany, if_true, Dyn.callMethod, ext_write_string_array, hun]
        cases stringList l with
        | none => exact ⟨_, s, rfl, rfl⟩
        | some strs => simp [OutcomeR, flat, flatNode, stringNode]
      · simp only [hany, Bool.false_eq_true, if_false, eff_try, eff_bind, ext_np, Dyn.callMethod, ext_np_array, hun]
        cases hnd : (toNdList l).bind stack with
        | some a => simp [OutcomeR, ext_write_array, flat, flatNode]
        | none =>
          have hcatch : w.npErr.isaAny [Exc.TypeError, Exc.ValueError] = true := by
            rcases hw.2 with h' | h' <;> simp [h', Exc.isaAny, Exc.isa, Exc.base]
          simp only [hcatch, if_true, eff_bind, Dyn.enumerate_, Dyn.iter, eff_pure]
          have hloop := forM_seq w (SrcC16.store_thing w.ext fuel) p key fuel (fun v hv k s => IH v hv p k s)
            (fun _ t => do
              let __x ← Dyn.unpack2 w.ext t
              let t__20 ← Dyn.m_format w.ext ["", "", ""] [Dyn.Val.str key, __x.fst]
              let _ ← SrcC16.store_thing w.ext fuel (Dyn.Val.obj (SObj.group p)) t__20 __x.snd
              pure ())
            (fun i x s => by
              simp [eff_bind, Dyn.unpack2, Dyn.unpack, Dyn.iter, format_key])
            l 0 s hd
          cases hm : storeSeq key 0 l with
          | error e =>
            obtain ⟨e', s', hr, he⟩ := outcome_err hm hloop
            refine ⟨e', s', ?_, he⟩
            simp only [hr]
          | ok es =>
            have hr := outcome_ok hm hloop
            simp only [OutcomeR, hr]
    | tuple l =>
      unfold SrcC16.store_thing
      simp only [embV, eff_bind, eff_ite, ext_np, Dyn.getAttr, ext_np_int64, ext_np_float64, ext_np_ndarray, isTy_tuple,
        Dyn.isinstObj, isinst_tuple, Bool.or_self, Bool.false_eq_true, reduceCtorEq, beq_self_eq_true,
        (by decide : (Ty.float == Ty.tuple) = false), (by decide : (Ty.int == Ty.tuple) = false),
        (by decide : (Ty.str == Ty.tuple) = false), (by decide : (Ty.list == Ty.tuple) = false),
        if_false, Bool.or_false, Bool.true_or, Bool.false_or, if_true, eff_pure, Dyn.iter, mapM_isStr, contains_true]
      have hd : depthL l < fuel := by simp only [depth] at h; omega
      have hun := unL_embL w.enc w.dec hw.1 l
      rw [storeThing_tuple, storeThing_list]
      by_cases hany : l.any isStr = true
      · simp only [hany, if_true, Dyn.callMethod, ext_write_string_array, hun]
        cases stringList l with
        | none => exact ⟨_, s, rfl, rfl⟩
        | some strs => simp [OutcomeR, flat, flatNode, stringNode]
      · simp only [hany, Bool.false_eq_true, if_false, eff_try, eff_bind, ext_np, Dyn.callMethod, ext_np_array, hun]
        cases hnd : (toNdList l).bind stack with
        | some a => simp [OutcomeR, ext_write_array, flat, flatNode]
        | none =>
          have hcatch : w.npErr.isaAny [Exc.TypeError, Exc.ValueError] = true := by
            rcases hw.2 with h' | h' <;> simp [h', Exc.isaAny, Exc.isa, Exc.base]
          simp only [hcatch, if_true, eff_bind, Dyn.enumerate_, Dyn.iter, eff_pure]
          have hloop := forM_seq w (SrcC16.store_thing w.ext fuel) p key fuel (fun v hv k s => IH v hv p k s)
            (fun _ t => do
              let __x ← Dyn.unpack2 w.ext t
              let t__20 ← Dyn.m_format w.ext ["", "", ""] [Dyn.Val.str key, __x.fst]
              let _ ← SrcC16.store_thing w.ext fuel (Dyn.Val.obj (SObj.group p)) t__20 __x.snd
              pure ())
            (fun i x s => by
              simp [eff_bind, Dyn.unpack2, Dyn.unpack, Dyn.iter, format_key])
            l 0 s hd
          cases hm : storeSeq key 0 l with
          | error e =>
            obtain ⟨e', s', hr, he⟩ := outcome_err hm hloop
            refine ⟨e', s', ?_, he⟩
            simp only [hr]
          | ok es =>
            have hr := outcome_ok hm hloop
            simp only [OutcomeR, hr]
    | dict d =>
      unfold SrcC16.store_thing
      have hd : depthD d < fuel := by simp only [depth] at h; omega
      simp only [embV, eff_bind, eff_ite, ext_np, Dyn.getAttr, ext_np_int64, ext_np_float64, ext_np_ndarray, isTy_dict,
        Dyn.isinstObj, isinst_dict, Bool.or_self, Bool.false_eq_true, reduceCtorEq, beq_self_eq_true,
        (by decide : (Ty.float == Ty.dict) = false), (by decide : (Ty.int == Ty.dict) = false),
        (by decide : (Ty.str == Ty.dict) = false), (by decide : (Ty.tuple == Ty.dict) = false),
        (by decide : (Ty.list == Ty.dict) = false),
        if_false, Bool.or_false, Bool.true_or, Bool.false_or, if_true, eff_pure, Dyn.callMethod, ext_create_group]
      rw [storeThing_dict]
      have hrs := recursively_save_spec w (fun c0 c1 c2 => SrcC16.store_thing w.ext fuel c0 c1 c2) (p ++ [key]) fuel
        (fun v hv k s => IH v hv (p ++ [key]) k s) d (s ++ [(p, key, Node.group [])]) hd
      cases hm : storeEntries d with
      | error e =>
        obtain ⟨e', s', hr, he⟩ := outcome_err hm hrs
        refine ⟨e', s', ?_, errOK_of_errOK' he⟩
        simp only [hr]
      | ok ch =>
        have hr := outcome_ok hm hrs
        simp only [OutcomeR, hr, flat, flatNode, List.append_assoc, List.cons_append, List.nil_append, List.append_nil]


/-- a model value that is stored successfully: what `store_thing` returns and leaves in the file -/
theorem src_store_thing_ok (w : SWorld α) (hw : SWorldOK w) (fuel : Nat) (v : Value α) (hf : depth v < fuel)
    (p : List String) (key : String) (s : Log α) (es : List (String × Node α)) (hm : storeThing key v = .ok es) :
    SrcC16.store_thing w.ext fuel (.obj (.group p)) (.str key) (embV w.enc v) s = (.ok .none, s ++ flat p es) :=
  outcome_ok hm (store_thing_spec w hw fuel v hf p key s)

/-- **`recursively_save_dict_contents_to_output(output, dic)`** (with the regenerated `store_thing` as its callee) is
    `Output.storeEntries`: the entries of all items in order; an unsupported value surfaces as `ValueError`. -/
theorem src_recursively_save (w : SWorld α) (hw : SWorldOK w) (fuel : Nat) (d : List (String × Value α))
    (hf : depthD d < fuel) (q : List String) (s : Log α) :
    OutcomeR errOK' q s (storeEntries d) (Dyn.Val.none : SV α)
      (SrcC16.recursively_save w.ext (fun a b c => SrcC16.store_thing w.ext fuel a b c) (.obj (.group q))
        (.dict (embD w.enc d)) s) :=
  recursively_save_spec w _ q fuel (fun v hv k s => store_thing_spec w hw fuel v hv q k s) d s hf

end store

/-! ## the HDF5 group methods -/

section hdf5
variable {α : Type} [FloatLike α]

/-- **`HDF5OutputGroup.write_array(name, array)`** is `Output.writeArray`: an ndarray becomes the dataset `name`, a list of
    ndarrays the datasets `name0, name1, …` (the method calling itself for every element) -/
theorem src_write_array (w : HWorld α) (fuel : Nat) (p : List String) (name : String) (v : Value α)
    (es : List (String × Node α)) (hm : writeArray name v = some es) (s : Log α) :
    SrcC16.write_array w.ext (fuel + 2) (.obj (.grp p)) (.str name) (embA v) .none s
      = (.ok .none, s ++ es.map (fun e => (p, e.1, e.2))) := by
  cases v with
  | array a =>
    simp only [writeArray, Option.some.injEq] at hm
    subst hm
    exact write_array_leaf w (fuel + 1) p name a s
  | list l =>
    simp only [writeArray] at hm
    unfold SrcC16.write_array
    simp only [embA, Dyn.Val.isTy, ↓reduceIte, eff_bind, Dyn.enumerate_, Dyn.iter, eff_pure]
    rw [forM_arrays w fuel p name _ (fun i x s => by
      simp [eff_bind, Dyn.unpack2, Dyn.unpack, Dyn.iter, hformat_key]) l 0 s es hm]
  | _ => simp [writeArray] at hm

/-- **`HDF5OutputGroup.write_string_array(name, strings)`** creates `Output.stringNode`: the cells are the UTF-8 encodings,
    the width is `max([64] + [len(cell) …])` = `Output.cellWidth`, the shape `(len(strings), 1)`, the type `S<width>` -/
theorem src_write_string_array (w : HWorld α) (hw : HWorldOK w) (p : List String) (name : String)
    (strs : List (List Nat)) (s : Log α) :
    SrcC16.write_string_array w.ext (.obj (.grp p)) (.str name) (.list (strs.map (fun c => .str (w.enc c)))) .none s
      = (.ok .none, s ++ [(p, name, stringNode strs)]) := by
  unfold SrcC16.write_string_array
  have henc : ∀ (l : List (List Nat)) (s : Log α),
      Dyn.mapM (m := SM α) (fun n => do
          let t ← Dyn.callMethodB w.ext n "encode" [(Dyn.Val.str "utf-8")] []
          pure t) (l.map (fun c => (Dyn.Val.str (w.enc c) : HV α))) s
        = (.ok (l.map (fun c => (Dyn.Val.obj (HObj.bytes c) : HV α))), s) := by
    intro l
    induction l with
    | nil => intro s; rfl
    | cons c t ih =>
      intro s
      have h1 : Dyn.callMethodB w.ext (Dyn.Val.str (w.enc c) : HV α) "encode" [(Dyn.Val.str "utf-8")] [] s
          = (.ok (.obj (.bytes c)), s) := by
        simp [Dyn.callMethodB, HWorld.ext, hw c]
      simp only [List.map_cons, Dyn.mapM, eff_bind, h1, eff_pure, ih]
  have hlen : ∀ (l : List (List Nat)) (s : Log α),
      Dyn.mapM (m := SM α) (fun n => do
          let t ← Dyn.len w.ext n
          pure t) (l.map (fun c => (Dyn.Val.obj (HObj.bytes c) : HV α))) s
        = (.ok (l.map (fun c => (Dyn.Val.int (utf8Size c : Nat) : HV α))), s) := by
    intro l
    induction l with
    | nil => intro s; rfl
    | cons c t ih =>
      intro s
      have h1 : Dyn.len w.ext (Dyn.Val.obj (HObj.bytes c) : HV α) s = (.ok (.int (utf8Size c : Nat)), s) := by
        simp [Dyn.len, HWorld.ext]
      simp only [List.map_cons, Dyn.mapM, eff_bind, h1, eff_pure, ih]
  have hmax := maxInts_fold (α := α) (strs.map utf8Size) 64
  simp only [List.map_cons, List.map_map, Function.comp_def] at hmax
  simp only [eff_bind, Dyn.iter, eff_pure, henc, hlen, Dyn.add]
  have hmx : Dyn.max_ w.ext (Dyn.Val.list ([Dyn.Val.int 64] ++ strs.map (fun c => (Dyn.Val.int (utf8Size c : Nat) : HV α)))) s
      = (.ok (.int ((cellWidth strs : Nat) : Int)), s) := by
    have hm' : maxInts ([(Dyn.Val.int 64 : HV α)] ++ strs.map (fun c => (Dyn.Val.int (utf8Size c : Nat) : HV α)))
        = some ((cellWidth strs : Nat) : Int) := by
      simpa [cellWidth] using hmax
    simp only [List.singleton_append] at hm' ⊢
    simp only [Dyn.max_, hm', eff_pure]
  have hfmt : Dyn.m_format w.ext ["S", ""] [(Dyn.Val.int ((cellWidth strs : Nat) : Int) : HV α)] s
      = (.ok (.str ("S" ++ toString (cellWidth strs))), s) := by
    simp [Dyn.m_format, Dyn.mapM, Dyn.str_, eff_bind, Dyn.formatParts, Dyn.intStr]
    rfl
  have hun : ∀ l : List (List Nat), (l.map (fun c => (Dyn.Val.obj (HObj.bytes c) : HV α))).mapM unBytes = some l := by
    intro l
    induction l with
    | nil => rfl
    | cons c t ih => simp only [List.map_cons, List.mapM_cons, unBytes, ih]; rfl
  have hcr : w.ext.method (.entry p) "create_dataset"
      [Dyn.Val.str name, Dyn.Val.tuple [Dyn.Val.int ((strs.map (fun c => (Dyn.Val.obj (HObj.bytes c) : HV α))).length : Nat),
        Dyn.Val.int 1], Dyn.Val.str ("S" ++ toString (cellWidth strs)),
        Dyn.Val.list (strs.map (fun c => (Dyn.Val.obj (HObj.bytes c) : HV α)))] [] s
      = (.ok (.obj .ds), s ++ [(p, name, stringNode strs)]) := by
    simp [HWorld.ext, hun strs]
  simp only [hmx, h_entry, Dyn.getAttr, Dyn.str_, eff_pure, Dyn.len, hfmt, Dyn.callMethod, hcr, Dyn.truthy,
    Bool.false_eq_true, if_false]


end hdf5

/-! ## the component `write` methods -/

section write
variable {α : Type} [OfInt α] [FloatLike α]

/-- **`TemperatureProfile.write(output)`** creates the group `Temperature` and stores the class name under
    `temperature_type` -/
theorem src_tprofile_write (w : WWorld α) (hw : WWorldOK w) (c : List Nat) (attr : String → Option (Value α))
    (part : String → Option (SubComp α)) (q : List String) (s : Log α) :
    SrcC16.tprofile_write w.ext (.obj (.comp c attr part)) (.obj (.group q)) s
      = (.ok (.obj (.group (q ++ ["Temperature"]))),
         s ++ [(q, "Temperature", .group []), (q ++ ["Temperature"], "temperature_type", .vstr c)]) := by
  unfold SrcC16.tprofile_write
  simp only [eff_bind, Dyn.callMethod, w_create_group, Dyn.getAttr, w_class, w_name, w_write_string, hw c, eff_pure,
    List.append_assoc, List.cons_append, List.nil_append]

/-- **`Isothermal.write(output)`** stores exactly what the model's writer stores for
    `Output.writeComponent "temperature_type" <class> [("T", T)]` under `Temperature` (`T = self._iso_temp`) -/
theorem src_isothermal_write (w : WWorld α) (hw : WWorldOK w) (c : List Nat) (attr : String → Option (Value α))
    (part : String → Option (SubComp α)) (T : α) (hT : attr "_iso_temp" = some (.float T)) (q : List String) (s : Log α)
    (es : List (String × Node α))
    (hm : storeThing "Temperature" (writeComponent "temperature_type" c [("T", .float T)]) = .ok es) :
    SrcC16.isothermal_write w.ext (.obj (.comp c attr part)) (.obj (.group q)) s
      = (.ok (.obj (.group (q ++ ["Temperature"]))), s ++ flat q es) := by
  have he : es = [("Temperature", .group [("temperature_type", .vstr c), ("T", .num ⟨[], .floats [T]⟩)])] := by
    simp [writeComponent, storeThing, storeEntries] at hm
    exact hm.symm
  subst he
  unfold SrcC16.isothermal_write
  simp only [eff_bind, src_tprofile_write w hw, Dyn.getAttr, w_attr w c attr part "_iso_temp" _ (by decide) hT, embW,
    Dyn.callMethod, w_write_float, eff_pure, flat, flatNode, List.append_assoc, List.cons_append, List.nil_append,
    List.append_nil]

/-- **`Guillot2010.write(output)`**: the class name and the six parameters `T_irr, kappa_irr, kappa_v1, kappa_v2, alpha,
    T_int` (the attributes `T_irr, kappa_ir, kappa_v1, kappa_v2, alpha, T_int`) — what the model's writer stores for that
    `Output.writeComponent` -/
theorem src_guillot_write (w : WWorld α) (hw : WWorldOK w) (c : List Nat) (attr : String → Option (Value α))
    (part : String → Option (SubComp α)) (Tirr kir kv1 kv2 al Tint : α)
    (h1 : attr "T_irr" = some (.float Tirr)) (h2 : attr "kappa_ir" = some (.float kir))
    (h3 : attr "kappa_v1" = some (.float kv1)) (h4 : attr "kappa_v2" = some (.float kv2))
    (h5 : attr "alpha" = some (.float al)) (h6 : attr "T_int" = some (.float Tint))
    (q : List String) (s : Log α) (es : List (String × Node α))
    (hm : storeThing "Temperature" (writeComponent "temperature_type" c
      [("T_irr", .float Tirr), ("kappa_irr", .float kir), ("kappa_v1", .float kv1), ("kappa_v2", .float kv2),
       ("alpha", .float al), ("T_int", .float Tint)]) = .ok es) :
    SrcC16.guillot_write w.ext (.obj (.comp c attr part)) (.obj (.group q)) s
      = (.ok (.obj (.group (q ++ ["Temperature"]))), s ++ flat q es) := by
  have he : es = [("Temperature", .group [("temperature_type", .vstr c), ("T_irr", .num ⟨[], .floats [Tirr]⟩),
      ("kappa_irr", .num ⟨[], .floats [kir]⟩), ("kappa_v1", .num ⟨[], .floats [kv1]⟩),
      ("kappa_v2", .num ⟨[], .floats [kv2]⟩), ("alpha", .num ⟨[], .floats [al]⟩),
      ("T_int", .num ⟨[], .floats [Tint]⟩)])] := by
    simp [writeComponent, storeThing, storeEntries] at hm
    exact hm.symm
  subst he
  unfold SrcC16.guillot_write
  simp only [eff_bind, src_tprofile_write w hw, Dyn.getAttr,
    w_attr w c attr part "T_irr" _ (by decide) h1, w_attr w c attr part "kappa_ir" _ (by decide) h2,
    w_attr w c attr part "kappa_v1" _ (by decide) h3, w_attr w c attr part "kappa_v2" _ (by decide) h4,
    w_attr w c attr part "alpha" _ (by decide) h5, w_attr w c attr part "T_int" _ (by decide) h6, embW,
    Dyn.callMethod, w_write_float, eff_pure, flat, flatNode, List.append_assoc, List.cons_append, List.nil_append,
    List.append_nil]

/-- **`NPoint.write(output)`**: surface / top temperature, the temperature points as an array (`np.array` of the list),
    surface / top pressure (`-1` when the attribute is `None` or zero: `orMinus1`), the pressure points as an array, the
    smoothing window and the slope limit — what the model's writer stores for that `Output.writeComponent` -/
theorem src_npoint_write (w : WWorld α) (hw : WWorldOK w) (c : List Nat) (attr : String → Option (Value α))
    (part : String → Option (SubComp α)) (Ts Tt ls : α) (tp pp : List α) (ps pt : Value α) (sw : Int)
    (hps : ps = .unsupported ∨ ∃ x, ps = .float x) (hpt : pt = .unsupported ∨ ∃ x, pt = .float x)
    (h1 : attr "_T_surface" = some (.float Ts)) (h2 : attr "_T_top" = some (.float Tt))
    (h3 : attr "_t_points" = some (.list (tp.map .float))) (h4 : attr "_P_surface" = some ps)
    (h5 : attr "_P_top" = some pt) (h6 : attr "_p_points" = some (.list (pp.map .float)))
    (h7 : attr "_smooth_window" = some (.int sw)) (h8 : attr "_limit_slope" = some (.float ls))
    (q : List String) (s : Log α) (es : List (String × Node α))
    (hm : storeThing "Temperature" (writeComponent "temperature_type" c
      [("T_surface", .float Ts), ("T_top", .float Tt), ("temperature_points", .array (arrOf tp)),
       ("P_surface", orMinus1 ps), ("P_top", orMinus1 pt), ("pressure_points", .array (arrOf pp)),
       ("smoothing_window", .int sw), ("limit_slope", .float ls)]) = .ok es) :
    SrcC16.npoint_write w.ext (.obj (.comp c attr part)) (.obj (.group q)) s
      = (.ok (.obj (.group (q ++ ["Temperature"]))), s ++ flat q es) := by
  have hnp : ∀ s : Log α, w.ext.global "np" s = (.ok (.obj .np), s) := fun _ => rfl
  unfold SrcC16.npoint_write
  simp only [eff_bind, src_tprofile_write w hw, Dyn.getAttr,
    w_attr w c attr part "_T_surface" _ (by decide) h1, w_attr w c attr part "_T_top" _ (by decide) h2,
    w_attr w c attr part "_t_points" _ (by decide) h3, w_attr w c attr part "_P_surface" _ (by decide) h4,
    w_attr w c attr part "_P_top" _ (by decide) h5, w_attr w c attr part "_p_points" _ (by decide) h6,
    w_attr w c attr part "_smooth_window" _ (by decide) h7, w_attr w c attr part "_limit_slope" _ (by decide) h8,
    hnp, Dyn.callMethod, embW, np_array_floats w hw, w_write_float, w_write_array, w_write_int, eff_pure]
  rcases hps with rfl | ⟨x, rfl⟩ <;> rcases hpt with rfl | ⟨y, rfl⟩
  all_goals (
    simp only [orMinus1] at hm
    simp only [embW, Dyn.truthy, eff_pure, eff_bind, Bool.not_false, Bool.not_not, if_true])
  all_goals (try (by_cases hx : FloatLike.isZero x = true <;>
    simp only [hx, if_true, if_false, Bool.false_eq_true, Bool.not_true, Bool.not_false] at hm ⊢))
  all_goals (try (by_cases hy : FloatLike.isZero y = true <;>
    simp only [hy, if_true, if_false, Bool.false_eq_true, Bool.not_true, Bool.not_false] at hm ⊢))
  all_goals (
    simp [writeComponent, storeThing, storeEntries] at hm
    subst hm
    simp only [eff_bind, eff_pure, w_write_float, w_write_int, flat, flatNode, List.append_assoc, List.cons_append,
      List.nil_append, List.append_nil])

/-- `ForwardModel.write(output)`, as the log it leaves -/
theorem forwardmodel_write_log (w : WWorld α) (hw : WWorldOK w) (c : List Nat) (attr : String → Option (Value α))
    (part : String → Option (SubComp α)) (cs : List (String × Value α)) (ha : attr "contribution_list" = none)
    (hp : part "contribution_list" = some (.many cs)) (ces : List (String × Node α)) (hcs : storeEntries cs = .ok ces)
    (q : List String) (s : Log α) :
    SrcC16.forwardmodel_write w.ext (.obj (.comp c attr part)) (.obj (.group q)) s
      = (.ok (.obj (.group (q ++ ["ModelParameters"]))),
         s ++ flat q [("ModelParameters", .group [("model_type", .vstr c), ("Contributions", .group ces)])]) := by
  unfold SrcC16.forwardmodel_write
  simp only [eff_bind, Dyn.callMethod, w_create_group, Dyn.getAttr, w_class, w_name, w_write_string, hw c, eff_pure,
    w_part_many w c attr part "contribution_list" cs (by decide) ha hp, Dyn.iter]
  rw [forM_subs w (q ++ ["ModelParameters"] ++ ["Contributions"]) _ (fun k v s => by simp [eff_bind, Dyn.callMethod]) cs _ ces hcs]
  simp only [flat, flatNode, List.append_assoc, List.cons_append, List.nil_append, List.append_nil]

/-- **`ForwardModel.write(output)`** creates the group `ModelParameters` with the class name under `model_type` and the
    group `Contributions` holding what every contribution's own `write` stores, in list order -/
theorem src_forwardmodel_write (w : WWorld α) (hw : WWorldOK w) (c : List Nat) (attr : String → Option (Value α))
    (part : String → Option (SubComp α)) (cs : List (String × Value α)) (ha : attr "contribution_list" = none)
    (hp : part "contribution_list" = some (.many cs)) (q : List String) (s : Log α) (es : List (String × Node α))
    (hm : storeThing "ModelParameters" (writeComponent "model_type" c [("Contributions", .dict cs)]) = .ok es) :
    SrcC16.forwardmodel_write w.ext (.obj (.comp c attr part)) (.obj (.group q)) s
      = (.ok (.obj (.group (q ++ ["ModelParameters"]))), s ++ flat q es) := by
  obtain ⟨ch, hch, rfl⟩ := storeThing_dict_ok hm
  obtain ⟨a, b, ha1, hb1, rfl⟩ := storeEntries_cons_ok hch
  obtain ⟨a2, b2, ha2, hb2, rfl⟩ := storeEntries_cons_ok hb1
  obtain ⟨ces, hces, rfl⟩ := storeThing_dict_ok ha2
  simp only [storeThing, Except.ok.injEq] at ha1
  simp only [storeEntries, Except.ok.injEq] at hb2
  subst ha1 hb2
  exact forwardmodel_write_log w hw c attr part cs ha hp ces hces q s

/-- `SimpleForwardModel.write(output)`, as the log it leaves -/
theorem simplemodel_write_log (w : WWorld α) (hw : WWorldOK w) (c : List Nat) (attr : String → Option (Value α))
    (part : String → Option (SubComp α)) (cs : List (String × Value α)) (ha : attr "contribution_list" = none)
    (hp : part "contribution_list" = some (.many cs)) (chem temp press planet star : String × Value α)
    (hh : Held attr part chem temp press planet star) (ces : List (String × Node α)) (hcs : storeEntries cs = .ok ces)
    (subs : List (String × Node α)) (hsubs : storeEntries [chem, temp, press, planet, star] = .ok subs)
    (q : List String) (s : Log α) :
    SrcC16.simplemodel_write w.ext (.obj (.comp c attr part)) (.obj (.group q)) s
      = (.ok (.obj (.group (q ++ ["ModelParameters"]))),
         s ++ flat q [("ModelParameters", .group ([("model_type", .vstr c), ("Contributions", .group ces)] ++ subs))]) := by
  obtain ⟨e1, r1, h1, hr1, rfl⟩ := storeEntries_cons_ok hsubs
  obtain ⟨e2, r2, h2, hr2, rfl⟩ := storeEntries_cons_ok hr1
  obtain ⟨e3, r3, h3, hr3, rfl⟩ := storeEntries_cons_ok hr2
  obtain ⟨e4, r4, h4, hr4, rfl⟩ := storeEntries_cons_ok hr3
  obtain ⟨e5, r5, h5, hr5, rfl⟩ := storeEntries_cons_ok hr4
  simp only [storeEntries, Except.ok.injEq] at hr5
  subst hr5
  have hmodel : ∀ s : Log α, w.ext.method (.comp c attr part) "model" [] [] s = (.ok .none, s) := fun _ => rfl
  unfold SrcC16.simplemodel_write
  simp only [eff_bind, Dyn.callMethod, hmodel, forwardmodel_write_log w hw c attr part cs ha hp ces hcs, Dyn.getAttr,
    w_part_one w c attr part "_chemistry" _ _ (by decide) hh.a1 hh.p1,
    w_part_one w c attr part "_temperature_profile" _ _ (by decide) hh.a2 hh.p2,
    w_part_one w c attr part "pressure" _ _ (by decide) hh.a3 hh.p3,
    w_part_one w c attr part "_planet" _ _ (by decide) hh.a4 hh.p4,
    w_part_one w c attr part "_star" _ _ (by decide) hh.a5 hh.p5,
    w_sub_write w _ _ _ _ h1, w_sub_write w _ _ _ _ h2, w_sub_write w _ _ _ _ h3, w_sub_write w _ _ _ _ h4,
    w_sub_write w _ _ _ _ h5, eff_pure]
  simp only [flat, flatNode, flat_append, List.append_assoc, List.cons_append, List.nil_append, List.append_nil]

/-- **`SimpleForwardModel.write(output)`**: runs the model, then `ForwardModel.write`, then the `write` of the chemistry,
    the temperature profile, the pressure profile, the planet and the star into the group `ModelParameters` -/
theorem src_simplemodel_write (w : WWorld α) (hw : WWorldOK w) (c : List Nat) (attr : String → Option (Value α))
    (part : String → Option (SubComp α)) (cs : List (String × Value α)) (ha : attr "contribution_list" = none)
    (hp : part "contribution_list" = some (.many cs)) (chem temp press planet star : String × Value α)
    (hh : Held attr part chem temp press planet star) (q : List String) (s : Log α) (es : List (String × Node α))
    (hm : storeThing "ModelParameters" (modelValue c cs chem temp press planet star []) = .ok es) :
    SrcC16.simplemodel_write w.ext (.obj (.comp c attr part)) (.obj (.group q)) s
      = (.ok (.obj (.group (q ++ ["ModelParameters"]))), s ++ flat q es) := by
  obtain ⟨ces, subs, ex, hces, hsubs, hex, rfl⟩ := modelValue_ok hm
  simp only [storeEntries, Except.ok.injEq] at hex
  subst hex
  rw [simplemodel_write_log w hw c attr part cs ha hp chem temp press planet star hh ces hces subs hsubs q s]
  simp

/-- **`TransmissionModel.write(output)`**: `SimpleForwardModel.write` plus the flag `new_path_method` -/
theorem src_transmission_write (w : WWorld α) (hw : WWorldOK w) (c : List Nat) (attr : String → Option (Value α))
    (part : String → Option (SubComp α)) (cs : List (String × Value α)) (ha : attr "contribution_list" = none)
    (hp : part "contribution_list" = some (.many cs)) (chem temp press planet star : String × Value α)
    (hh : Held attr part chem temp press planet star) (b : Bool) (hb : attr "new_method" = some (.bool b))
    (q : List String) (s : Log α) (es : List (String × Node α))
    (hm : storeThing "ModelParameters"
      (modelValue c cs chem temp press planet star [("new_path_method", .bool b)]) = .ok es) :
    SrcC16.transmission_write w.ext (.obj (.comp c attr part)) (.obj (.group q)) s
      = (.ok (.obj (.group (q ++ ["ModelParameters"]))), s ++ flat q es) := by
  obtain ⟨ces, subs, ex, hces, hsubs, hex, rfl⟩ := modelValue_ok hm
  simp [storeEntries, storeThing] at hex
  subst hex
  unfold SrcC16.transmission_write
  simp only [eff_bind, simplemodel_write_log w hw c attr part cs ha hp chem temp press planet star hh ces hces subs hsubs,
    Dyn.getAttr, w_attr w c attr part "new_method" _ (by decide) hb, embW, Dyn.callMethod, w_write_bool, eff_pure]
  simp only [flat, flatNode, flat_append, List.append_assoc, List.cons_append, List.nil_append, List.append_nil]

/-- **`Chemistry.write(output)`** creates the group `Chemistry`: the class name under `chemistry_type`, the active and the
    inactive gas names as fixed-width string arrays (`Output.stringNode`), and the condensates if there are any -/
theorem src_chemistry_write (w : WWorld α) (hw : WWorldOK w) (c : List Nat) (attr : String → Option (Value α))
    (part : String → Option (SubComp α)) (act inact : List (List Nat)) (cond : Option (List (List Nat)))
    (hc : ChemAttrs attr act inact cond) (q : List String) (s : Log α) :
    SrcC16.chemistry_write w.ext (.obj (.comp c attr part)) (.obj (.group q)) s
      = (.ok (.obj (.group (q ++ ["Chemistry"]))), s ++ flat q [("Chemistry", .group (chemEntries c act inact cond))]) := by
  unfold SrcC16.chemistry_write
  simp only [eff_bind, Dyn.callMethod, w_create_group, Dyn.getAttr, w_class, w_name, w_write_string, hw c, eff_pure,
    w_attr w c attr part "activeGases" _ (by decide) hc.act, w_attr w c attr part "inactiveGases" _ (by decide) hc.inact,
    w_attr w c attr part "hasCondensates" _ (by decide) hc.has, embW, w_write_string_array w hw]
  cases cond with
  | none =>
    simp only [embW, Dyn.truthy, Option.isSome_none, eff_pure, Bool.false_eq_true, if_false, chemEntries, flat, flatNode,
      stringNode, List.append_assoc, List.cons_append, List.nil_append, List.append_nil]
  | some cd =>
    simp only [embW, Dyn.truthy, Option.isSome_some, eff_pure, if_true, eff_bind,
      w_attr w c attr part "condensates" _ (by decide) (hc.cond cd rfl), w_write_string_array w hw, chemEntries, flat,
      flatNode, stringNode, List.append_assoc, List.cons_append, List.nil_append, List.append_nil]

/-- **`TaurexChemistry.write(output)`**: `Chemistry.write`, then the fill ratios as an array (`np.array(self._fill_ratio)`;
    `self._fill_gases` is the list of names the constructor leaves), the fill gas names, and what every gas profile's own
    `write` stores -/
theorem src_taurexchemistry_write (w : WWorld α) (hw : WWorldOK w) (c : List Nat) (attr : String → Option (Value α))
    (part : String → Option (SubComp α)) (act inact : List (List Nat)) (cond : Option (List (List Nat)))
    (hc : ChemAttrs attr act inact cond) (fg : List (List Nat)) (fr : List α) (gs : List (String × Value α))
    (hfg : attr "_fill_gases" = some (.list (fg.map .str))) (hfr : attr "_fill_ratio" = some (.list (fr.map .float)))
    (hga : attr "_gases" = none) (hgs : part "_gases" = some (.many gs)) (ges : List (String × Node α))
    (hges : storeEntries gs = .ok ges) (q : List String) (s : Log α) :
    SrcC16.taurexchemistry_write w.ext (.obj (.comp c attr part)) (.obj (.group q)) s
      = (.ok (.obj (.group (q ++ ["Chemistry"]))),
         s ++ flat q [("Chemistry", .group (chemEntries c act inact cond ++
            [("ratio", .num (arrOf fr)), ("fill_gases", stringNode fg)] ++ ges))]) := by
  have hnp : ∀ s : Log α, w.ext.global "np" s = (.ok (.obj .np), s) := fun _ => rfl
  have hhas : ∀ s : Log α, w.ext.op "hasattr" [.list (embWL w.enc (fg.map .str)), .str "__len__"] s
      = (.ok (.bool true), s) := fun _ => rfl
  have hty : Dyn.Val.isTy .float (.list (embWL w.enc (fg.map .str)) : WV α) = false := rfl
  unfold SrcC16.taurexchemistry_write
  simp only [eff_bind, src_chemistry_write w hw c attr part act inact cond hc, Dyn.getAttr,
    w_attr w c attr part "_fill_gases" _ (by decide) hfg, w_attr w c attr part "_fill_ratio" _ (by decide) hfr,
    embW, hty, Bool.false_eq_true, if_false, hhas, Dyn.truthy, eff_pure, if_true, hnp, Dyn.callMethod, np_array_floats w hw,
    w_write_array, w_write_string_array w hw, w_part_many w c attr part "_gases" gs (by decide) hga hgs, Dyn.iter]
  rw [forM_subs w (q ++ ["Chemistry"]) _ (fun k v s => by simp [eff_bind, Dyn.callMethod]) gs _ ges hges]
  simp only [flat, flatNode, flat_append, stringNode, List.append_assoc, List.cons_append, List.nil_append, List.append_nil]

/-! ### star, planet, pressure profile, gas profiles, contributions -/

/-- **`Star.write(output)`** (`BlackbodyStar` inherits it) creates the group `Star`: the class name under `star_type`, the
    temperature, radius and mass in solar units (`self._radius/RSOL`, `self._mass/MSOL`: `w.div` of the attribute and the
    module constant), distance, K magnitude, metallicity, the radius in metres, the spectral emission density as an array
    and the mass in kg — what the model's writer stores for that `Output.writeComponent` -/
theorem src_star_write (w : WWorld α) (hw : WWorldOK w) (c : List Nat) (attr : String → Option (Value α))
    (part : String → Option (SubComp α)) (T D mK met R : Value α) (r m rsol msol : α) (sed : Arr α)
    (hT : Scalar T) (hD : Scalar D) (hmK : Scalar mK) (hmet : Scalar met) (hR : Scalar R)
    (h1 : attr "temperature" = some T) (h2 : attr "_radius" = some (.float r)) (h3 : attr "distance" = some D)
    (h4 : attr "_mass" = some (.float m)) (h5 : attr "magnitudeK" = some mK) (h6 : attr "_metallicity" = some met)
    (h7 : attr "radius" = some R) (h8 : attr "spectralEmissionDensity" = some (.array sed))
    (hc1 : w.consts "RSOL" = some rsol) (hc2 : w.consts "MSOL" = some msol)
    (hz1 : FloatLike.isZero rsol = false) (hz2 : FloatLike.isZero msol = false)
    (q : List String) (s : Log α) (es : List (String × Node α))
    (hm : storeThing "Star" (writeComponent "star_type" c
      [("temperature", T), ("radius", .float (w.div r rsol)), ("distance", D), ("mass", .float (w.div m msol)),
       ("magnitudeK", mK), ("metallicity", met), ("radius_m", R), ("SED", .array sed), ("mass_kg", .float m)]) = .ok es) :
    SrcC16.star_write w.ext (.obj (.comp c attr part)) (.obj (.group q)) s
      = (.ok (.obj (.group (q ++ ["Star"]))), s ++ flat q es) := by
  rw [store_component_leaves _ _ _ _ (leaves_cons (leaf_scalar hT) (leaves_cons (leaf_scalar (scalar_float _))
    (leaves_cons (leaf_scalar hD) (leaves_cons (leaf_scalar (scalar_float _)) (leaves_cons (leaf_scalar hmK)
    (leaves_cons (leaf_scalar hmet) (leaves_cons (leaf_scalar hR) (leaves_cons (leaf_array _)
    (leaves_cons (leaf_scalar (scalar_float _)) leaves_nil)))))))))] at hm
  obtain rfl := Except.ok.inj hm
  unfold SrcC16.star_write
  simp only [eff_bind, Dyn.callMethod, w_create_group, Dyn.getAttr, w_class, w_name, w_write_string, hw c, eff_pure,
    w_attr w c attr part "temperature" _ (by decide) h1, w_attr w c attr part "_radius" _ (by decide) h2,
    w_attr w c attr part "distance" _ (by decide) h3, w_attr w c attr part "_mass" _ (by decide) h4,
    w_attr w c attr part "magnitudeK" _ (by decide) h5, w_attr w c attr part "_metallicity" _ (by decide) h6,
    w_attr w c attr part "radius" _ (by decide) h7, w_attr w c attr part "spectralEmissionDensity" _ (by decide) h8,
    w_const w "RSOL" rsol (by decide) hc1, w_const w "MSOL" msol (by decide) hc2, embW, w_div w _ _ hz1, w_div w _ _ hz2,
    w_write_scalar w _ _ _ hT, w_write_scalar w _ _ _ hD, w_write_scalar w _ _ _ hmK, w_write_scalar w _ _ _ hmet,
    w_write_scalar w _ _ _ hR, w_write_float, w_write_array, flat, List.map,
    flatNode_leaf _ _ (leaf_scalar hT), flatNode_leaf _ _ (leaf_scalar hD), flatNode_leaf _ _ (leaf_scalar hmK),
    flatNode_leaf _ _ (leaf_scalar hmet), flatNode_leaf _ _ (leaf_scalar hR),
    leafNode_float, leafNode_array, flatNode, List.append_assoc, List.cons_append, List.nil_append, List.append_nil]

/-- **`BasePlanet.write(output)`** (`Planet` inherits it): the class name, mass / radius / distance in Jupiter masses /
    Jupiter radii / AU (`self._mass/MJUP`, …: `w.div` of the attribute and the module constant), the impact parameter, the
    orbital period, albedo, transit time, then mass, radius and surface gravity in SI units — what the model's writer
    stores for that `Output.writeComponent` under `Planet` -/
theorem src_planet_write (w : WWorld α) (hw : WWorldOK w) (c : List Nat) (attr : String → Option (Value α))
    (part : String → Option (SubComp α)) (imp per alb tt M R g : Value α) (pm pr pd mjup rjup au : α)
    (himp : Scalar imp) (hper : Scalar per) (halb : Scalar alb) (htt : Scalar tt) (hM : Scalar M) (hR : Scalar R)
    (hg : Scalar g)
    (h1 : attr "_mass" = some (.float pm)) (h2 : attr "_radius" = some (.float pr))
    (h3 : attr "_distance" = some (.float pd)) (h4 : attr "_impact" = some imp) (h5 : attr "orbitalPeriod" = some per)
    (h6 : attr "albedo" = some alb) (h7 : attr "transitTime" = some tt) (h8 : attr "mass" = some M)
    (h9 : attr "radius" = some R) (h10 : attr "gravity" = some g)
    (hc1 : w.consts "MJUP" = some mjup) (hc2 : w.consts "RJUP" = some rjup) (hc3 : w.consts "AU" = some au)
    (hz1 : FloatLike.isZero mjup = false) (hz2 : FloatLike.isZero rjup = false) (hz3 : FloatLike.isZero au = false)
    (q : List String) (s : Log α) (es : List (String × Node α))
    (hm : storeThing "Planet" (writeComponent "planet_type" c
      [("planet_mass", .float (w.div pm mjup)), ("planet_radius", .float (w.div pr rjup)),
       ("planet_distance", .float (w.div pd au)), ("impact_param", imp), ("orbital_period", per), ("albedo", alb),
       ("transit_time", tt), ("mass_kg", M), ("radius_m", R), ("surface_gravity", g)]) = .ok es) :
    SrcC16.planet_write w.ext (.obj (.comp c attr part)) (.obj (.group q)) s
      = (.ok (.obj (.group (q ++ ["Planet"]))), s ++ flat q es) := by
  rw [store_component_leaves _ _ _ _ (leaves_cons (leaf_scalar (scalar_float _)) (leaves_cons (leaf_scalar (scalar_float _))
    (leaves_cons (leaf_scalar (scalar_float _)) (leaves_cons (leaf_scalar himp) (leaves_cons (leaf_scalar hper)
    (leaves_cons (leaf_scalar halb) (leaves_cons (leaf_scalar htt) (leaves_cons (leaf_scalar hM)
    (leaves_cons (leaf_scalar hR) (leaves_cons (leaf_scalar hg) leaves_nil))))))))))] at hm
  obtain rfl := Except.ok.inj hm
  unfold SrcC16.planet_write
  simp only [eff_bind, Dyn.callMethod, w_create_group, Dyn.getAttr, w_class, w_name, w_write_string, hw c, eff_pure,
    w_attr w c attr part "_mass" _ (by decide) h1, w_attr w c attr part "_radius" _ (by decide) h2,
    w_attr w c attr part "_distance" _ (by decide) h3, w_attr w c attr part "_impact" _ (by decide) h4,
    w_attr w c attr part "orbitalPeriod" _ (by decide) h5, w_attr w c attr part "albedo" _ (by decide) h6,
    w_attr w c attr part "transitTime" _ (by decide) h7, w_attr w c attr part "mass" _ (by decide) h8,
    w_attr w c attr part "radius" _ (by decide) h9, w_attr w c attr part "gravity" _ (by decide) h10,
    w_const w "MJUP" mjup (by decide) hc1, w_const w "RJUP" rjup (by decide) hc2, w_const w "AU" au (by decide) hc3,
    embW, w_div w _ _ hz1, w_div w _ _ hz2, w_div w _ _ hz3,
    w_write_scalar w _ _ _ himp, w_write_scalar w _ _ _ hper, w_write_scalar w _ _ _ halb, w_write_scalar w _ _ _ htt,
    w_write_scalar w _ _ _ hM, w_write_scalar w _ _ _ hR, w_write_scalar w _ _ _ hg, w_write_float, flat, List.map,
    flatNode_leaf _ _ (leaf_scalar himp), flatNode_leaf _ _ (leaf_scalar hper), flatNode_leaf _ _ (leaf_scalar halb),
    flatNode_leaf _ _ (leaf_scalar htt), flatNode_leaf _ _ (leaf_scalar hM), flatNode_leaf _ _ (leaf_scalar hR),
    flatNode_leaf _ _ (leaf_scalar hg),
    leafNode_float, flatNode, List.append_assoc, List.cons_append, List.nil_append, List.append_nil]

/-- `PressureProfile.write(output)`, as the log it leaves -/
theorem pressure_write_log (w : WWorld α) (hw : WWorldOK w) (c : List Nat) (attr : String → Option (Value α))
    (part : String → Option (SubComp α)) (nl : Value α) (prof : Arr α) (hnl : Scalar nl)
    (h1 : attr "_nlayers" = some nl) (h2 : attr "profile" = some (.array prof)) (q : List String) (s : Log α) :
    SrcC16.pressure_write w.ext (.obj (.comp c attr part)) (.obj (.group q)) s
      = (.ok (.obj (.group (q ++ ["Pressure"]))),
         s ++ [(q, "Pressure", .group []), (q ++ ["Pressure"], "pressure_type", .vstr c),
               (q ++ ["Pressure"], "nlayers", leafNode nl), (q ++ ["Pressure"], "profile", .num prof)]) := by
  unfold SrcC16.pressure_write
  simp only [eff_bind, Dyn.callMethod, w_create_group, Dyn.getAttr, w_class, w_name, w_write_string, hw c, eff_pure,
    w_attr w c attr part "_nlayers" _ (by decide) h1, w_attr w c attr part "profile" _ (by decide) h2, embW,
    w_write_scalar w _ _ _ hnl, w_write_array, List.append_assoc, List.cons_append, List.nil_append]

/-- **`PressureProfile.write(output)`** creates the group `Pressure`: the class name under `pressure_type`, the number of
    layers and the pressure profile as an array -/
theorem src_pressure_write (w : WWorld α) (hw : WWorldOK w) (c : List Nat) (attr : String → Option (Value α))
    (part : String → Option (SubComp α)) (nl : Value α) (prof : Arr α) (hnl : Scalar nl)
    (h1 : attr "_nlayers" = some nl) (h2 : attr "profile" = some (.array prof)) (q : List String) (s : Log α)
    (es : List (String × Node α))
    (hm : storeThing "Pressure" (writeComponent "pressure_type" c [("nlayers", nl), ("profile", .array prof)]) = .ok es) :
    SrcC16.pressure_write w.ext (.obj (.comp c attr part)) (.obj (.group q)) s
      = (.ok (.obj (.group (q ++ ["Pressure"]))), s ++ flat q es) := by
  rw [store_component_leaves _ _ _ _ (leaves_cons (leaf_scalar hnl) (leaves_cons (leaf_array _) leaves_nil))] at hm
  obtain rfl := Except.ok.inj hm
  rw [pressure_write_log w hw c attr part nl prof hnl h1 h2]
  simp only [flat, List.map, flatNode_leaf _ _ (leaf_scalar hnl), leafNode_array, flatNode, List.append_assoc,
    List.cons_append, List.nil_append, List.append_nil]

/-- **`SimplePressureProfile.write(output)`**: `PressureProfile.write`, then the maximum and the minimum pressure under
    the constructor's names `atm_max_pressure`, `atm_min_pressure` -/
theorem src_simplepressure_write (w : WWorld α) (hw : WWorldOK w) (c : List Nat) (attr : String → Option (Value α))
    (part : String → Option (SubComp α)) (nl pmax pmin : Value α) (prof : Arr α) (hnl : Scalar nl) (hmax : Scalar pmax)
    (hmin : Scalar pmin) (h1 : attr "_nlayers" = some nl) (h2 : attr "profile" = some (.array prof))
    (h3 : attr "_atm_max_pressure" = some pmax) (h4 : attr "_atm_min_pressure" = some pmin)
    (q : List String) (s : Log α) (es : List (String × Node α))
    (hm : storeThing "Pressure" (writeComponent "pressure_type" c
      [("nlayers", nl), ("profile", .array prof), ("atm_max_pressure", pmax), ("atm_min_pressure", pmin)]) = .ok es) :
    SrcC16.simplepressure_write w.ext (.obj (.comp c attr part)) (.obj (.group q)) s
      = (.ok (.obj (.group (q ++ ["Pressure"]))), s ++ flat q es) := by
  rw [store_component_leaves _ _ _ _ (leaves_cons (leaf_scalar hnl) (leaves_cons (leaf_array _)
    (leaves_cons (leaf_scalar hmax) (leaves_cons (leaf_scalar hmin) leaves_nil))))] at hm
  obtain rfl := Except.ok.inj hm
  unfold SrcC16.simplepressure_write
  simp only [eff_bind, pressure_write_log w hw c attr part nl prof hnl h1 h2, Dyn.getAttr, Dyn.callMethod, eff_pure,
    w_attr w c attr part "_atm_max_pressure" _ (by decide) h3, w_attr w c attr part "_atm_min_pressure" _ (by decide) h4,
    w_write_scalar w _ _ _ hmax, w_write_scalar w _ _ _ hmin, flat, List.map, flatNode_leaf _ _ (leaf_scalar hnl),
    flatNode_leaf _ _ (leaf_scalar hmax), flatNode_leaf _ _ (leaf_scalar hmin), leafNode_array, flatNode,
    List.append_assoc, List.cons_append, List.nil_append, List.append_nil]

/-- `Gas.write(output)`, as the log it leaves: a group named like the molecule with the class name and the molecule name -/
theorem gas_write_log (w : WWorld α) (hw : WWorldOK w) (c : List Nat) (attr : String → Option (Value α))
    (part : String → Option (SubComp α)) (mol : List Nat) (h1 : attr "molecule" = some (.str mol))
    (h2 : attr "_molecule_name" = some (.str mol)) (q : List String) (s : Log α) :
    SrcC16.gas_write w.ext (.obj (.comp c attr part)) (.obj (.group q)) s
      = (.ok (.obj (.group (q ++ [w.enc mol]))),
         s ++ [(q, w.enc mol, .group []), (q ++ [w.enc mol], "gas_type", .vstr c),
               (q ++ [w.enc mol], "molecule_name", .vstr mol)]) := by
  unfold SrcC16.gas_write
  simp only [eff_bind, Dyn.callMethod, w_create_group, Dyn.getAttr, w_class, w_name, w_write_string, hw c, hw mol, eff_pure,
    w_attr w c attr part "molecule" _ (by decide) h1, w_attr w c attr part "_molecule_name" _ (by decide) h2, embW,
    List.append_assoc, List.cons_append, List.nil_append]

/-- **`Gas.write(output)`** creates a group named like the molecule (`self.molecule`, the property returning
    `self._molecule_name`) with the class name under `gas_type` and the molecule name -/
theorem src_gas_write (w : WWorld α) (hw : WWorldOK w) (c : List Nat) (attr : String → Option (Value α))
    (part : String → Option (SubComp α)) (mol : List Nat) (h1 : attr "molecule" = some (.str mol))
    (h2 : attr "_molecule_name" = some (.str mol)) (q : List String) (s : Log α) (es : List (String × Node α))
    (hm : storeThing (w.enc mol) (writeComponent "gas_type" c [("molecule_name", .str mol)]) = .ok es) :
    SrcC16.gas_write w.ext (.obj (.comp c attr part)) (.obj (.group q)) s
      = (.ok (.obj (.group (q ++ [w.enc mol]))), s ++ flat q es) := by
  rw [store_component_leaves _ _ _ _ (leaves_cons (leaf_str _) leaves_nil)] at hm
  obtain rfl := Except.ok.inj hm
  rw [gas_write_log w hw c attr part mol h1 h2]
  simp only [flat, List.map, leafNode_str, flatNode, List.append_assoc, List.cons_append, List.nil_append,
    List.append_nil]

/-- **`ConstantGas.write(output)`**: `Gas.write`, then the mixing ratio under the constructor's name `mix_ratio` -/
theorem src_constantgas_write (w : WWorld α) (hw : WWorldOK w) (c : List Nat) (attr : String → Option (Value α))
    (part : String → Option (SubComp α)) (mol : List Nat) (mr : Value α) (hmr : Scalar mr)
    (h1 : attr "molecule" = some (.str mol)) (h2 : attr "_molecule_name" = some (.str mol))
    (h3 : attr "_mix_ratio" = some mr) (q : List String) (s : Log α) (es : List (String × Node α))
    (hm : storeThing (w.enc mol) (writeComponent "gas_type" c [("molecule_name", .str mol), ("mix_ratio", mr)]) = .ok es) :
    SrcC16.constantgas_write w.ext (.obj (.comp c attr part)) (.obj (.group q)) s
      = (.ok (.obj (.group (q ++ [w.enc mol]))), s ++ flat q es) := by
  rw [store_component_leaves _ _ _ _ (leaves_cons (leaf_str _) (leaves_cons (leaf_scalar hmr) leaves_nil))] at hm
  obtain rfl := Except.ok.inj hm
  unfold SrcC16.constantgas_write
  simp only [eff_bind, gas_write_log w hw c attr part mol h1 h2, Dyn.getAttr, Dyn.callMethod, eff_pure,
    w_attr w c attr part "_mix_ratio" _ (by decide) h3, w_write_scalar w _ _ _ hmr, flat, List.map,
    flatNode_leaf _ _ (leaf_scalar hmr), leafNode_str, flatNode, List.append_assoc, List.cons_append, List.nil_append,
    List.append_nil]

/-- **`TwoLayerGas.write(output)`**: `Gas.write`, then top / surface mixing ratio, the boundary pressure and the
    smoothing window under the constructor's names -/
theorem src_twolayergas_write (w : WWorld α) (hw : WWorldOK w) (c : List Nat) (attr : String → Option (Value α))
    (part : String → Option (SubComp α)) (mol : List Nat) (top surf P sm : Value α) (htop : Scalar top)
    (hsurf : Scalar surf) (hP : Scalar P) (hsm : Scalar sm)
    (h1 : attr "molecule" = some (.str mol)) (h2 : attr "_molecule_name" = some (.str mol))
    (h3 : attr "mixRatioTop" = some top) (h4 : attr "mixRatioSurface" = some surf)
    (h5 : attr "mixRatioPressure" = some P) (h6 : attr "mixRatioSmoothing" = some sm)
    (q : List String) (s : Log α) (es : List (String × Node α))
    (hm : storeThing (w.enc mol) (writeComponent "gas_type" c [("molecule_name", .str mol), ("mix_ratio_top", top),
      ("mix_ratio_surface", surf), ("mix_ratio_P", P), ("mix_ratio_smoothing", sm)]) = .ok es) :
    SrcC16.twolayergas_write w.ext (.obj (.comp c attr part)) (.obj (.group q)) s
      = (.ok (.obj (.group (q ++ [w.enc mol]))), s ++ flat q es) := by
  rw [store_component_leaves _ _ _ _ (leaves_cons (leaf_str _) (leaves_cons (leaf_scalar htop)
    (leaves_cons (leaf_scalar hsurf) (leaves_cons (leaf_scalar hP) (leaves_cons (leaf_scalar hsm) leaves_nil)))))] at hm
  obtain rfl := Except.ok.inj hm
  unfold SrcC16.twolayergas_write
  simp only [eff_bind, gas_write_log w hw c attr part mol h1 h2, Dyn.getAttr, Dyn.callMethod, eff_pure,
    w_attr w c attr part "mixRatioTop" _ (by decide) h3, w_attr w c attr part "mixRatioSurface" _ (by decide) h4,
    w_attr w c attr part "mixRatioPressure" _ (by decide) h5, w_attr w c attr part "mixRatioSmoothing" _ (by decide) h6,
    w_write_scalar w _ _ _ htop, w_write_scalar w _ _ _ hsurf, w_write_scalar w _ _ _ hP, w_write_scalar w _ _ _ hsm,
    flat, List.map, flatNode_leaf _ _ (leaf_scalar htop), flatNode_leaf _ _ (leaf_scalar hsurf),
    flatNode_leaf _ _ (leaf_scalar hP), flatNode_leaf _ _ (leaf_scalar hsm), leafNode_str, flatNode,
    List.append_assoc, List.cons_append, List.nil_append, List.append_nil]

/-- **`TwoPointGas.write(output)`**: `Gas.write`, then top / surface mixing ratio -/
theorem src_twopointgas_write (w : WWorld α) (hw : WWorldOK w) (c : List Nat) (attr : String → Option (Value α))
    (part : String → Option (SubComp α)) (mol : List Nat) (top surf : Value α) (htop : Scalar top) (hsurf : Scalar surf)
    (h1 : attr "molecule" = some (.str mol)) (h2 : attr "_molecule_name" = some (.str mol))
    (h3 : attr "mixRatioTop" = some top) (h4 : attr "mixRatioSurface" = some surf)
    (q : List String) (s : Log α) (es : List (String × Node α))
    (hm : storeThing (w.enc mol) (writeComponent "gas_type" c [("molecule_name", .str mol), ("mix_ratio_top", top),
      ("mix_ratio_surface", surf)]) = .ok es) :
    SrcC16.twopointgas_write w.ext (.obj (.comp c attr part)) (.obj (.group q)) s
      = (.ok (.obj (.group (q ++ [w.enc mol]))), s ++ flat q es) := by
  rw [store_component_leaves _ _ _ _ (leaves_cons (leaf_str _) (leaves_cons (leaf_scalar htop)
    (leaves_cons (leaf_scalar hsurf) leaves_nil)))] at hm
  obtain rfl := Except.ok.inj hm
  unfold SrcC16.twopointgas_write
  simp only [eff_bind, gas_write_log w hw c attr part mol h1 h2, Dyn.getAttr, Dyn.callMethod, eff_pure,
    w_attr w c attr part "mixRatioTop" _ (by decide) h3, w_attr w c attr part "mixRatioSurface" _ (by decide) h4,
    w_write_scalar w _ _ _ htop, w_write_scalar w _ _ _ hsurf,
    flat, List.map, flatNode_leaf _ _ (leaf_scalar htop), flatNode_leaf _ _ (leaf_scalar hsurf), leafNode_str, flatNode,
    List.append_assoc, List.cons_append, List.nil_append, List.append_nil]

/-- **`PowerGas.write(output)`**: `Gas.write`, the profile type, then those of `alpha`, `mix_ratio_surface`, `beta`,
    `gamma` that are not `None` (`present`; a coefficient left to the automatic profile is `None`), in that order -/
theorem src_powergas_write (w : WWorld α) (hw : WWorldOK w) (c : List Nat) (attr : String → Option (Value α))
    (part : String → Option (SubComp α)) (mol pt : List Nat) (al surf be ga : Value α)
    (hal : al = .unsupported ∨ Scalar al) (hsurf : surf = .unsupported ∨ Scalar surf)
    (hbe : be = .unsupported ∨ Scalar be) (hga : ga = .unsupported ∨ Scalar ga)
    (h1 : attr "molecule" = some (.str mol)) (h2 : attr "_molecule_name" = some (.str mol))
    (h3 : attr "_profile_type" = some (.str pt)) (h4 : attr "alpha" = some al) (h5 : attr "mixRatioSurface" = some surf)
    (h6 : attr "beta" = some be) (h7 : attr "gamma" = some ga)
    (q : List String) (s : Log α) (es : List (String × Node α))
    (hm : storeThing (w.enc mol) (writeComponent "gas_type" c ([("molecule_name", .str mol), ("profile_type", .str pt)] ++
      present [("alpha", al), ("mix_ratio_surface", surf), ("beta", be), ("gamma", ga)])) = .ok es) :
    SrcC16.powergas_write w.ext (.obj (.comp c attr part)) (.obj (.group q)) s
      = (.ok (.obj (.group (q ++ [w.enc mol]))), s ++ flat q es) := by
  have hopt : ∀ e ∈ [("alpha", al), ("mix_ratio_surface", surf), ("beta", be), ("gamma", ga)],
      e.2 = Value.unsupported ∨ Scalar e.2 := by
    intro e he
    simp only [List.mem_cons, List.not_mem_nil, or_false] at he
    rcases he with rfl | rfl | rfl | rfl <;> assumption
  have hpl := present_leaves _ hopt
  rw [store_component_leaves _ _ _ _ (by
    intro e he
    rcases List.mem_append.1 he with he | he
    · simp only [List.mem_cons, List.not_mem_nil, or_false] at he
      rcases he with rfl | rfl <;> exact leaf_str _
    · exact leaf_scalar (hpl e he))] at hm
  obtain rfl := Except.ok.inj hm
  unfold SrcC16.powergas_write
  simp only [eff_bind, gas_write_log w hw c attr part mol h1 h2, Dyn.getAttr, Dyn.callMethod, eff_pure,
    w_attr w c attr part "_profile_type" _ (by decide) h3, w_attr w c attr part "alpha" _ (by decide) h4,
    w_attr w c attr part "mixRatioSurface" _ (by decide) h5, w_attr w c attr part "beta" _ (by decide) h6,
    w_attr w c attr part "gamma" _ (by decide) h7, embW, w_write_string, hw pt, Dyn.iter]
  have hf : ∀ (body : Unit → WV α → SM α Unit) (st : Log α),
      (∀ (k : String) (v : Value α) (s : Log α), body () (.tuple [.str k, embW w.enc v]) s
        = (if (!Dyn.Val.isNone (embW w.enc v)) = true then
            (w.ext.method (.group (q ++ [w.enc mol])) "write_scalar" [.str k, embW w.enc v] [] >>= fun _ => pure ()) s
           else (.ok (), s))) →
      Dyn.forM [(.tuple [.str "alpha", embW w.enc al] : WV α), .tuple [.str "mix_ratio_surface", embW w.enc surf],
        .tuple [.str "beta", embW w.enc be], .tuple [.str "gamma", embW w.enc ga]] () body st
        = (.ok (), st ++ (present [("alpha", al), ("mix_ratio_surface", surf), ("beta", be), ("gamma", ga)]).map
            (fun e => (q ++ [w.enc mol], e.1, leafNode e.2))) :=
    fun body st hb => forM_present w (q ++ [w.enc mol]) body hb _ st hopt
  rw [hf _ _ (fun k v s => by
    simp only [Dyn.unpack2, Dyn.unpack, Dyn.iter, eff_bind, eff_pure, List.length_cons, List.length_nil, if_true,
      Dyn.callMethod]
    by_cases hn : Dyn.Val.isNone (embW w.enc v) = true <;> simp [hn, eff_bind])]
  simp only [flat, flatNode, List.map_append, List.map, leafNode_str, flat_append, flat_leaves _ _ hpl,
    List.append_assoc, List.cons_append, List.nil_append, List.append_nil]

/-- `Contribution.write(output)`, as the log it leaves -/
theorem contribution_write_log (w : WWorld α) (c : List Nat) (attr : String → Option (Value α))
    (part : String → Option (SubComp α)) (q : List String) (s : Log α) :
    SrcC16.contribution_write w.ext (.obj (.comp c attr part)) (.obj (.group q)) s
      = (.ok (.obj (.group (q ++ [w.enc c]))), s ++ [(q, w.enc c, .group [])]) := by
  unfold SrcC16.contribution_write
  simp only [eff_bind, Dyn.callMethod, w_create_group, Dyn.getAttr, w_class, w_name, eff_pure]

/-- **`Contribution.write(output)`** (also `AbsorptionContribution` and `RayleighContribution`, which inherit it) creates
    an empty group named like the class: what the model's writer stores for the empty dictionary under that name -/
theorem src_contribution_write (w : WWorld α) (hw : WWorldOK w) (c : List Nat) (attr : String → Option (Value α))
    (part : String → Option (SubComp α)) (q : List String) (s : Log α) (es : List (String × Node α))
    (hm : storeThing (w.enc c) (.dict ([] : List (String × Value α))) = .ok es) :
    SrcC16.contribution_write w.ext (.obj (.comp c attr part)) (.obj (.group q)) s
      = (.ok (.obj (.group (q ++ [w.enc c]))), s ++ flat q es) := by
  rw [store_dict_leaves _ _ leaves_nil] at hm
  obtain rfl := Except.ok.inj hm
  rw [contribution_write_log]
  simp only [flat, flatNode, List.map, List.append_nil]

/-- **`SimpleCloudsContribution.write(output)`**: the group named like the class with the cloud-top pressure under the
    constructor's name `clouds_pressure` -/
theorem src_simpleclouds_write (w : WWorld α) (hw : WWorldOK w) (c : List Nat) (attr : String → Option (Value α))
    (part : String → Option (SubComp α)) (P : Value α) (hP : Scalar P) (h1 : attr "_cloud_pressure" = some P)
    (q : List String) (s : Log α) (es : List (String × Node α))
    (hm : storeThing (w.enc c) (.dict [("clouds_pressure", P)]) = .ok es) :
    SrcC16.simpleclouds_write w.ext (.obj (.comp c attr part)) (.obj (.group q)) s
      = (.ok (.obj (.group (q ++ [w.enc c]))), s ++ flat q es) := by
  rw [store_dict_leaves _ _ (leaves_cons (leaf_scalar hP) leaves_nil)] at hm
  obtain rfl := Except.ok.inj hm
  unfold SrcC16.simpleclouds_write
  simp only [eff_bind, contribution_write_log, Dyn.getAttr, Dyn.callMethod, eff_pure,
    w_attr w c attr part "_cloud_pressure" _ (by decide) h1, w_write_scalar w _ _ _ hP, flat, List.map,
    flatNode_leaf _ _ (leaf_scalar hP), flatNode, List.append_assoc, List.cons_append, List.nil_append, List.append_nil]

/-- **`FlatMieContribution.write(output)`**: mixing ratio, bottom and top pressure under the constructor's names -/
theorem src_flatmie_write (w : WWorld α) (hw : WWorldOK w) (c : List Nat) (attr : String → Option (Value α))
    (part : String → Option (SubComp α)) (mix bot top : Value α) (hmix : Scalar mix) (hbot : Scalar bot)
    (htop : Scalar top) (h1 : attr "_mie_mix" = some mix) (h2 : attr "_mie_bottom_pressure" = some bot)
    (h3 : attr "_mie_top_pressure" = some top) (q : List String) (s : Log α) (es : List (String × Node α))
    (hm : storeThing (w.enc c) (.dict [("flat_mix_ratio", mix), ("flat_bottomP", bot), ("flat_topP", top)]) = .ok es) :
    SrcC16.flatmie_write w.ext (.obj (.comp c attr part)) (.obj (.group q)) s
      = (.ok (.obj (.group (q ++ [w.enc c]))), s ++ flat q es) := by
  rw [store_dict_leaves _ _ (leaves_cons (leaf_scalar hmix) (leaves_cons (leaf_scalar hbot)
    (leaves_cons (leaf_scalar htop) leaves_nil)))] at hm
  obtain rfl := Except.ok.inj hm
  unfold SrcC16.flatmie_write
  simp only [eff_bind, contribution_write_log, Dyn.getAttr, Dyn.callMethod, eff_pure,
    w_attr w c attr part "_mie_mix" _ (by decide) h1, w_attr w c attr part "_mie_bottom_pressure" _ (by decide) h2,
    w_attr w c attr part "_mie_top_pressure" _ (by decide) h3, w_write_scalar w _ _ _ hmix, w_write_scalar w _ _ _ hbot,
    w_write_scalar w _ _ _ htop, flat, List.map, flatNode_leaf _ _ (leaf_scalar hmix),
    flatNode_leaf _ _ (leaf_scalar hbot), flatNode_leaf _ _ (leaf_scalar htop), flatNode, List.append_assoc,
    List.cons_append, List.nil_append, List.append_nil]

/-- **`CIAContribution.write(output)`**: the group named like the class; the pair names as a fixed-width string array
    (`Output.stringNode`) if there are any — what the model's writer stores for that dictionary -/
theorem src_cia_write (w : WWorld α) (hw : WWorldOK w) (c : List Nat) (attr : String → Option (Value α))
    (part : String → Option (SubComp α)) (pairs : List (List Nat)) (h1 : attr "ciaPairs" = some (.list (pairs.map .str)))
    (q : List String) (s : Log α) (es : List (String × Node α))
    (hm : storeThing (w.enc c)
      (.dict (if pairs = [] then [] else [("cia_pairs", Value.list (pairs.map .str))])) = .ok es) :
    SrcC16.cia_write w.ext (.obj (.comp c attr part)) (.obj (.group q)) s
      = (.ok (.obj (.group (q ++ [w.enc c]))), s ++ flat q es) := by
  unfold SrcC16.cia_write
  simp only [eff_bind, contribution_write_log, Dyn.getAttr, Dyn.callMethod, eff_pure,
    w_attr w c attr part "ciaPairs" _ (by decide) h1, embW, Dyn.len, embWL_length, List.length_map, Dyn.compare,
    Dyn.indexOf, Dyn.truthy]
  cases pairs with
  | nil =>
    simp only [if_true] at hm
    rw [store_dict_leaves _ _ leaves_nil] at hm
    obtain rfl := Except.ok.inj hm
    simp [eff_pure, flat, flatNode]
  | cons p ps =>
    have hne : (p :: ps = []) = False := by simp
    simp only [hne, if_false] at hm
    obtain ⟨ch, hch, rfl⟩ := storeThing_dict_ok hm
    have hany : (List.map Value.str (p :: ps) : List (Value α)).any Output.isStr = true := by simp [Output.isStr]
    simp only [storeEntries, storeThing, hany, if_true, stringList_strs] at hch
    obtain rfl := Except.ok.inj hch
    rw [if_pos (by simp)]
    simp only [eff_bind, eff_pure, Dyn.getAttr, Dyn.callMethod, w_attr w c attr part "ciaPairs" _ (by decide) h1, embW,
      w_write_string_array w hw, flat, flatNode, stringNode, List.append_assoc, List.cons_append, List.nil_append,
      List.append_nil]

end write

/-! ## the loader -/

section loader
variable {α : Type} [FloatLike α]

/-- **`decode_string_array(f)`** on an array of fixed-width byte strings: the list of its decoded cells —
    `Output.load (.sfix w rows)` -/
theorem src_decode_string_array (w : LWorld α) (wd : Nat) (rows : List (List Nat)) :
    SrcC16.decode_string_array w.ext (.obj (.sarr rows)) = pure (embLV w.enc (load (.sfix wd rows))) := by
  unfold SrcC16.decode_string_array
  simp only [Dyn.iter, LWorld.ext, l_bind_ok, load, embLV, List.map_map]
  have : ∀ rs : List (List Nat), Dyn.mapM (m := LM α) (fun s => do
        let t__3 ← Dyn.getItem w.ext s (Dyn.Val.int 0)
        let t__4 ← Dyn.callMethodB w.ext t__3 "decode" [(Dyn.Val.str "utf-8")] []
        pure t__4) (rs.map (fun r => (Dyn.Val.obj (LObj.srow r) : LV α)))
      = pure (rs.map (fun r => Dyn.Val.str (w.enc r))) := by
    intro rs
    induction rs with
    | nil => rfl
    | cons r t ih =>
      simp only [List.map_cons, Dyn.mapM, ih, l_bind_ok]
      rfl
  simp only [LWorld.ext] at this
  rw [this]
  simp [Function.comp_def]

/-- **`get_klass_args(klass)`**: the names of the constructor parameters that have a default -/
theorem src_get_klass_args (w : LWorld α) (nm : List Nat) (kws : List String) :
    SrcC16.get_klass_args w.ext (.obj (.klass nm kws)) = pure (.list (kws.map .str)) := by
  unfold SrcC16.get_klass_args
  by_cases he : kws = []
  · subst he; rfl
  · have hne : kws.isEmpty = false := by simp [he]
    simp [LWorld.ext, Dyn.getAttr, Dyn.callMethod, Dyn.getSlice, Dyn.unpack4, Dyn.unpack, Dyn.iter, hne, he, Dyn.Val.isNone,
      Dyn.len, Dyn.neg, Dyn.sliceBound]
    have hnames : (kws.map (fun s => (Dyn.Val.str s : LV α))) ≠ [] := by simpa using he
    have := slice_tail' (w.argsPre kws) (kws.map (fun s => (Dyn.Val.str s : LV α))) hnames
    exact congrArg (fun l => (pure (Dyn.Val.list l) : LM α (LV α))) (by simpa using this)


/-- **`load_generic_profile_from_hdf5(loc, module, identifier, profile_type, premade_dict)`** (no replacement dictionary)
    is the model's reload: the class is the one `class_for_name` finds for the type string (the stored one, or the
    `profile_type` the caller passes: `TypeFrom`), and it is called with the pre-made keyword arguments (`Premade`: none, or
    the caller's dictionary `pre`) followed by exactly `Output.loadKwargs` — for every constructor keyword, in the
    constructor's order, that is stored in the group: the stored entry read back and decoded as `Output.load` says
    (`decode_string_array` for fixed-width string arrays, `.decode()` for strings); keywords that are not stored are left
    to their defaults.  `hpk`: no stored constructor keyword is also pre-made (it would be overwritten in place). -/
theorem src_load_generic_profile_gen (w : LWorld α) (ch : List (String × Node α)) (identifier pt premade : LV α)
    (nm : List Nat) (kws : List String) (module : LV α) (pre : List (String × LV α))
    (hpt : TypeFrom w ch identifier pt nm) (hpm : Premade premade pre) (hk : w.klassOf nm = some kws)
    (hn : kws.Nodup) (hds : ∀ kw ∈ kws, ∀ n, ch.lookup kw = some n → isGroup n = false)
    (hpk : ∀ kw ∈ kws, (ch.lookup kw).isSome = true → kw ∉ pre.map (·.1)) :
    SrcC16.load_generic_profile w.ext (.obj (.h5 ch)) module identifier pt premade .none
      = w.call (.klass nm kws) [] (pre ++ embKwL w.enc (loadKwargs ch kws)) := by
  unfold SrcC16.load_generic_profile
  have hget : ∀ k : String, Dyn.getItem w.ext (Dyn.Val.obj (LObj.h5 ch)) (Dyn.Val.str k)
      = match ch.lookup k with | some n => pure (.obj (nodeObj n)) | none => throw .KeyError := by
    intro k; simp only [Dyn.getItem, LWorld.ext]; rfl
  have hraw : ∀ n : Node α, Dyn.getItem w.ext (Dyn.Val.obj (LObj.node n)) (Dyn.Val.tuple []) = pure (rawOf w.enc n) := by
    intro n; rfl
  have hcfn : w.ext.global "class_for_name" = pure (.obj (.fn "class_for_name")) := rfl
  have hcall : Dyn.call w.ext (Dyn.Val.obj (LObj.fn "class_for_name")) [Dyn.Val.obj (LObj.bytes nm)] []
      = pure (.obj (.klass nm kws)) := by
    simp only [Dyn.call, LWorld.ext, String.reduceEq, if_true, hk]
  have hcall' : ∀ s, w.dec s = nm → Dyn.call w.ext (Dyn.Val.obj (LObj.fn "class_for_name")) [Dyn.Val.str s] []
      = pure (.obj (.klass nm kws)) := by
    intro s hs
    simp only [Dyn.call, LWorld.ext, String.reduceEq, if_true, hs, hk]
  have hkeys : Dyn.m_keys w.ext (Dyn.Val.obj (LObj.h5 ch)) = pure (ch.map (fun e => (Dyn.Val.str e.1 : LV α))) := by
    simp only [Dyn.m_keys, Dyn.callMethod, LWorld.ext, if_true, l_bind_ok, Dyn.iter]
  have hpmK : ∀ K : LV α → LM α (LV α),
      (Dyn.truthy w.ext premade >>= fun t => (if t = true then pure premade else pure (Dyn.Val.dict [])) >>= K)
        = K (encD w pre []) := by
    intro K
    rcases hpm with ⟨rfl, rfl⟩ | ⟨rfl, hne⟩
    · rfl
    · have : (preD pre).isEmpty = false := by
        cases pre with
        | nil => exact absurd rfl hne
        | cons a t => rfl
      simp [Dyn.truthy, this, encD]
  rcases hpt with ⟨rfl, k, rfl, htype⟩ | ⟨s, rfl, hs⟩
  all_goals (
    first
    | simp only [Dyn.Val.isNone, if_true, hget, htype, nodeObj, l_bind_ok, hraw, rawOf, hkeys, hcfn, hcall,
        src_get_klass_args, hpmK]
    | simp only [Dyn.Val.isNone, Bool.false_eq_true, if_false, l_bind_ok, hkeys, hcfn, hcall' s hs,
        src_get_klass_args, hpmK]
    simp only [Dyn.truthy, Bool.false_eq_true, if_false, Dyn.iter, l_bind_ok]
    rw [forM_load w ch kws pre _ ?hb hpk kws [] hn (fun _ h => h) (by simp)]
    case hb =>
      intro acc kw hkw
      simp only [contains_keys]
      cases hl : ch.lookup kw with
      | none => simp
      | some n =>
        have hg := hds kw hkw n hl
        simp only [Option.isSome_some, if_true, l_bind_ok, hget, hl, hraw]
        have hnp : w.ext.global "np" = pure (.obj .np) := rfl
        have hnd : Dyn.getAttr w.ext (Dyn.Val.obj (LObj.np : LObj α)) "ndarray" = pure (.obj .npNdarray) := rfl
        have hby : Dyn.getAttr w.ext (Dyn.Val.obj (LObj.np : LObj α)) "bytes_" = pure (.obj .npBytes) := rfl
        have hrepl : Dyn.contains w.ext (Dyn.Val.str kw) (Dyn.Val.dict ([] : List (LV α × LV α))) = pure false := rfl
        simp only [hnp, hnd, hby, l_bind_ok, hrepl, Bool.false_eq_true, if_false]
        cases n with
        | group c => simp [isGroup] at hg
        | vstr t =>
          have hi : w.ext.isinst (Dyn.Val.obj (LObj.bytes t)) LObj.npNdarray = false := rfl
          have hd : Dyn.callMethodB w.ext (Dyn.Val.obj (LObj.bytes t : LObj α)) "decode" [] [] = pure (.str (w.enc t)) := rfl
          simp only [nodeObj, hraw, rawOf, Dyn.isinstObj, hi, Bool.false_eq_true, if_false, l_bind_ok, hd, l_try_ok, load,
            embLV]
        | sfix wd rows =>
          have hdec := src_decode_string_array w wd rows
          have hfn : w.ext.global "decode_string_array" = pure (.obj (.fn "decode_string_array")) := rfl
          simp only [nodeObj, hraw, rawOf, Dyn.isinstObj]
          have hi : w.ext.isinst (Dyn.Val.obj (LObj.sarr rows)) LObj.npNdarray = true := rfl
          have hdt : Dyn.getAttr w.ext (Dyn.Val.obj (LObj.sarr rows : LObj α)) "dtype" = pure (.obj (.dtype true)) := rfl
          have hty : Dyn.getAttr w.ext (Dyn.Val.obj (LObj.dtype true : LObj α)) "type" = pure (.obj .npBytes) := rfl
          have his : Dyn.is_ w.ext (Dyn.Val.obj (LObj.npBytes : LObj α)) (Dyn.Val.obj LObj.npBytes) = pure true := rfl
          simp only [hi, if_true, hdt, hty, hnp, hby, his, l_bind_ok, hdec]
          have hm : Dyn.callMethodB w.ext (embLV w.enc (Value.list (rows.map Value.str) : Value α)) "decode" [] []
              = throw .AttributeError := rfl
          simp only [load, hm, l_try_err]
          simp [Exc.isaAny, Exc.isa, Exc.base, encD]
        | num a =>
          have hi : ∀ v : Value α, (∀ a', v ≠ .array a') → w.ext.isinst (embLV w.enc v) LObj.npNdarray = false := by
            intro v hv
            cases v <;> first | rfl | (exact absurd rfl (hv _))
          have hdecode : ∀ v : Value α, Dyn.callMethodB w.ext (embLV w.enc v) "decode" [] [] = throw .AttributeError := by
            intro v
            cases v <;> rfl
          simp only [nodeObj, hraw, rawOf, Dyn.isinstObj]
          have hload : (∃ a', load (Node.num a) = Value.array a') ∨ (∃ b, load (Node.num a) = Value.bool b) ∨
              (∃ i, load (Node.num a) = Value.int i) ∨ (∃ x, load (Node.num a) = Value.float x) := by
            simp only [load]
            cases a.shape with
            | cons _ _ => exact Or.inl ⟨_, rfl⟩
            | nil =>
              simp only []
              cases hsc : scalarOf a.data with
              | none => exact Or.inl ⟨_, rfl⟩
              | some v =>
                simp only [Option.getD_some]
                unfold scalarOf at hsc
                split at hsc <;> cases hsc
                · exact Or.inr (Or.inl ⟨_, rfl⟩)
                · exact Or.inr (Or.inr (Or.inl ⟨_, rfl⟩))
                · exact Or.inr (Or.inr (Or.inr ⟨_, rfl⟩))
          rcases hload with ⟨a', hv⟩ | ⟨b, hv⟩ | ⟨i, hv⟩ | ⟨x, hv⟩
          · have hi' : w.ext.isinst (Dyn.Val.obj (LObj.nd a')) LObj.npNdarray = true := rfl
            have hdt : Dyn.getAttr w.ext (Dyn.Val.obj (LObj.nd a' : LObj α)) "dtype" = pure (.obj (.dtype false)) := rfl
            have hty : Dyn.getAttr w.ext (Dyn.Val.obj (LObj.dtype false : LObj α)) "type" = pure (.obj .npOther) := rfl
            have his : Dyn.is_ w.ext (Dyn.Val.obj (LObj.npOther : LObj α)) (Dyn.Val.obj LObj.npBytes) = pure false := rfl
            have hd := hdecode (.array a')
            simp only [embLV] at hd
            simp only [hv, embLV, hi', if_true, hdt, hty, hnp, hby, his, l_bind_ok, Bool.false_eq_true, if_false,
              hd, l_try_err]
            simp [Exc.isaAny, Exc.isa, Exc.base, encD, embLV]
          · simp only [hv, hi (Value.bool b) (by intro a' h'; cases h'), Bool.false_eq_true, if_false, l_bind_ok,
              hdecode, l_try_err]
            simp [Exc.isaAny, Exc.isa, Exc.base, encD]
          · simp only [hv, hi (Value.int i) (by intro a' h'; cases h'), Bool.false_eq_true, if_false, l_bind_ok,
              hdecode, l_try_err]
            simp [Exc.isaAny, Exc.isa, Exc.base, encD]
          · simp only [hv, hi (Value.float x) (by intro a' h'; cases h'), Bool.false_eq_true, if_false, l_bind_ok,
              hdecode, l_try_err]
            simp [Exc.isaAny, Exc.isa, Exc.base, encD]
    · simp only [List.nil_append, l_bind_ok, encD]
      simp only [starStar_pre, l_bind_ok, Dyn.call]
      rfl)

/-- **`load_generic_profile_from_hdf5(loc, module, identifier)`** (no `profile_type`, no pre-made / replacement
    dictionary): the class of the stored type string called with exactly `Output.loadKwargs` -/
theorem src_load_generic_profile (w : LWorld α) (ch : List (String × Node α)) (typeKey : String) (nm : List Nat)
    (kws : List String) (module : LV α) (htype : ch.lookup typeKey = some (.vstr nm)) (hk : w.klassOf nm = some kws)
    (hn : kws.Nodup) (hds : ∀ kw ∈ kws, ∀ n, ch.lookup kw = some n → isGroup n = false) :
    SrcC16.load_generic_profile w.ext (.obj (.h5 ch)) module (.str typeKey) .none .none .none
      = w.call (.klass nm kws) [] (embKwL w.enc (loadKwargs ch kws)) := by
  have h := src_load_generic_profile_gen w ch (.str typeKey) .none .none nm kws module []
    (Or.inl ⟨rfl, typeKey, rfl, htype⟩) (Or.inl ⟨rfl, rfl⟩) hk hn hds (by simp)
  simpa using h

section
variable (w : LWorld α) (top ch : List (String × Node α)) (nm : List Nat) (kws : List String)

/-- **`load_temperature_from_hdf5(loc)`** reloads the group `Temperature` by its stored `temperature_type` -/
theorem src_load_temperature (htop : top.lookup "Temperature" = some (.group ch))
    (htype : ch.lookup "temperature_type" = some (.vstr nm)) (hr : Reloadable w ch nm kws) :
    SrcC16.load_temperature w.ext (.obj (.h5 top)) .none
      = w.call (.klass nm kws) [] (embKwL w.enc (loadKwargs ch kws)) := by
  unfold SrcC16.load_temperature
  simp only [getItem_group w top ch _ htop, l_bind_ok, l_bind_ok_right,
    src_load_generic_profile w ch _ nm kws _ htype hr.klass hr.nodup hr.flat]

/-- **`load_pressure_from_hdf5(loc)`** reloads the group `Pressure` by its stored `pressure_type` -/
theorem src_load_pressure (htop : top.lookup "Pressure" = some (.group ch))
    (htype : ch.lookup "pressure_type" = some (.vstr nm)) (hr : Reloadable w ch nm kws) :
    SrcC16.load_pressure w.ext (.obj (.h5 top)) .none
      = w.call (.klass nm kws) [] (embKwL w.enc (loadKwargs ch kws)) := by
  unfold SrcC16.load_pressure
  simp only [getItem_group w top ch _ htop, l_bind_ok, l_bind_ok_right,
    src_load_generic_profile w ch _ nm kws _ htype hr.klass hr.nodup hr.flat]

/-- **`load_star_from_hdf5(loc)`** reloads the group `Star` by its stored `star_type` -/
theorem src_load_star (htop : top.lookup "Star" = some (.group ch))
    (htype : ch.lookup "star_type" = some (.vstr nm)) (hr : Reloadable w ch nm kws) :
    SrcC16.load_star w.ext (.obj (.h5 top)) .none
      = w.call (.klass nm kws) [] (embKwL w.enc (loadKwargs ch kws)) := by
  unfold SrcC16.load_star
  simp only [getItem_group w top ch _ htop, l_bind_ok, l_bind_ok_right,
    src_load_generic_profile w ch _ nm kws _ htype hr.klass hr.nodup hr.flat]

/-- **`load_gas_from_hdf5(loc, molecule)`** reloads the group named like the molecule by its stored `gas_type` -/
theorem src_load_gas (mol : String) (htop : top.lookup mol = some (.group ch))
    (htype : ch.lookup "gas_type" = some (.vstr nm)) (hr : Reloadable w ch nm kws) :
    SrcC16.load_gas w.ext (.obj (.h5 top)) (.str mol) .none
      = w.call (.klass nm kws) [] (embKwL w.enc (loadKwargs ch kws)) := by
  unfold SrcC16.load_gas
  simp only [getItem_group w top ch _ htop, l_bind_ok, l_bind_ok_right,
    src_load_generic_profile w ch _ nm kws _ htype hr.klass hr.nodup hr.flat]

/-- **`load_planet_from_hdf5(loc)`**: the class is always the one named `Planet` (the stored `planet_type` is not read) -/
theorem src_load_planet (htop : top.lookup "Planet" = some (.group ch)) (hnm : w.dec "Planet" = nm)
    (hr : Reloadable w ch nm kws) :
    SrcC16.load_planet w.ext (.obj (.h5 top)) .none
      = w.call (.klass nm kws) [] (embKwL w.enc (loadKwargs ch kws)) := by
  unfold SrcC16.load_planet
  have h := src_load_generic_profile_gen w ch (.str "planet_type") (.str "Planet") .none nm kws
    (.str "taurex.data.planet") [] (Or.inr ⟨_, rfl, hnm⟩) (Or.inl ⟨rfl, rfl⟩) hr.klass hr.nodup hr.flat (by simp)
  simp only [getItem_group w top ch _ htop, l_bind_ok, l_bind_ok_right, h, List.nil_append]

/-- **`load_contrib_from_hdf5(loc, contribution)`**: the class is the one named like the group -/
theorem src_load_contrib (c : String) (htop : top.lookup c = some (.group ch)) (hnm : w.dec c = nm)
    (hr : Reloadable w ch nm kws) :
    SrcC16.load_contrib w.ext (.obj (.h5 top)) (.str c) .none
      = w.call (.klass nm kws) [] (embKwL w.enc (loadKwargs ch kws)) := by
  unfold SrcC16.load_contrib
  have h := src_load_generic_profile_gen w ch (.str "contrib_type") (.str c) .none nm kws
    (.str "taurex.contributions") [] (Or.inr ⟨_, rfl, hnm⟩) (Or.inl ⟨rfl, rfl⟩) hr.klass hr.nodup hr.flat (by simp)
  simp only [getItem_group w top ch _ htop, l_bind_ok, l_bind_ok_right, h, List.nil_append]

end

/-! ### chemistry -/

/-- **`load_gas_from_hdf5(loc, molecule)`** on a chemistry group whose entry `molecule` is absent or a good gas group -/
theorem src_load_gas_total (w : LWorld α) (chem : List (String × Node α)) (mol : String) (hg : GasGood w chem mol) :
    SrcC16.load_gas w.ext (.obj (.h5 chem)) (.str mol) .none = gasCall w chem mol := by
  rcases hg with hl | ⟨gch, gnm, gkws, hl, ht, hr⟩
  · unfold SrcC16.load_gas gasCall
    simp only [getItem_h5, hl, l_bind_err]
  · rw [src_load_gas w chem gch gnm gkws mol hl ht hr]
    simp only [gasCall, hl, ht, hr.klass]

/-- `decode_string_array(f)` for anything that iterates as the rows of a fixed-width string array -/
theorem decode_rows (w : LWorld α) (o : LObj α) (rows : List (List Nat))
    (hi : w.ext.iter o = pure (rows.map (fun r => .obj (.srow r)))) :
    SrcC16.decode_string_array w.ext (.obj o) = pure (.list (rows.map (fun r => .str (w.enc r)))) := by
  unfold SrcC16.decode_string_array
  simp only [Dyn.iter, hi, l_bind_ok]
  have : ∀ rs : List (List Nat), Dyn.mapM (m := LM α) (fun s => do
        let t__3 ← Dyn.getItem w.ext s (Dyn.Val.int 0)
        let t__4 ← Dyn.callMethodB w.ext t__3 "decode" [(Dyn.Val.str "utf-8")] []
        pure t__4) (rs.map (fun r => (Dyn.Val.obj (LObj.srow r) : LV α)))
      = pure (rs.map (fun r => Dyn.Val.str (w.enc r))) := by
    intro rs
    induction rs with
    | nil => rfl
    | cons r t ih =>
      simp only [List.map_cons, Dyn.mapM, ih, l_bind_ok]
      rfl
  rw [this]
  rfl

/-- **`load_chemistry_from_hdf5(loc)`** is `chemistrySpec`: the group `Chemistry` reloaded by its stored
    `chemistry_type`; if the result is a `TaurexChemistry`, the gases named in `active_gases` and then in `inactive_gases`
    that are not among its `_fill_gases` are reloaded (`load_gas_from_hdf5`, i.e. `gasCall`) and added with `addGas`, in
    stored order -/
theorem src_load_chemistry (w : LWorld α) (top chem : List (String × Node α)) (nm : List Nat) (kws : List String)
    (wa wi : Nat) (act inact : List (List Nat))
    (htop : top.lookup "Chemistry" = some (.group chem))
    (htype : chem.lookup "chemistry_type" = some (.vstr nm)) (hr : Reloadable w chem nm kws)
    (hact : chem.lookup "active_gases" = some (.sfix wa act))
    (hinact : chem.lookup "inactive_gases" = some (.sfix wi inact))
    (hgas : ∀ r ∈ act ++ inact, GasGood w chem (w.enc r)) :
    SrcC16.load_chemistry w.ext (.obj (.h5 top)) .none = chemistrySpec w chem nm kws act inact := by
  unfold SrcC16.load_chemistry chemistrySpec
  have hglob : w.ext.global "TaurexChemistry" = pure (.obj (.fn "TaurexChemistry")) := rfl
  have hraw : Dyn.getItem w.ext (Dyn.Val.obj (LObj.node (Node.sfix wa act : Node α))) (Dyn.Val.tuple [])
      = pure (.obj (.sarr act)) := rfl
  have hd1 := decode_rows w (.sarr act) act rfl
  have hd2 := decode_rows w (.node (.sfix wi inact)) inact rfl
  simp only [getItem_group w top chem _ htop, l_bind_ok,
    src_load_generic_profile w chem _ nm kws _ htype hr.klass hr.nodup hr.flat]
  congr 1
  funext chemistry
  simp only [hglob, l_bind_ok, Dyn.isinstObj]
  have hisa : w.ext.isinst chemistry (LObj.fn "TaurexChemistry") = w.isA chemistry "TaurexChemistry" := by
    cases chemistry <;> rfl
  simp only [hisa]
  by_cases hA : w.isA chemistry "TaurexChemistry" = true
  · simp only [hA, if_true, getItem_h5, hact, hinact, nodeObj, l_bind_ok, hraw, hd1, hd2, Dyn.iter, addGases]
    have hbody : ∀ (rows : List (List Nat)), (∀ r ∈ rows, GasGood w chem (w.enc r)) →
        ∀ (body : Unit → LV α → LM α Unit),
        (∀ mol : String, GasGood w chem mol → body () (.str mol) = addGasStep w chem chemistry mol) →
        Dyn.forM (rows.map (fun r => (Dyn.Val.str (w.enc r) : LV α))) () body
          = Dyn.forM (rows.map w.enc) () (fun _ mol => addGasStep w chem chemistry mol) := by
      intro rows hrows body hb
      rw [forM_map, forM_map]
      apply forM_congr
      intro r hr st
      cases st
      exact hb _ (hrows r hr)
    rw [hbody act (fun r h => hgas r (List.mem_append_left _ h)) _ ?hb1,
        hbody inact (fun r h => hgas r (List.mem_append_right _ h)) _ ?hb2]
    · simp only [eff_bind_assoc, l_bind_ok]
    case hb1 =>
      intro mol hg
      simp only [addGasStep, src_load_gas_total w chem mol hg]
    case hb2 =>
      intro mol hg
      simp only [addGasStep, src_load_gas_total w chem mol hg]
  · simp only [hA, Bool.false_eq_true, if_false, l_bind_ok]

/-! ### the whole model, the file-level functions -/

/-- **`load_model_from_hdf5(loc)`** is `modelSpec`: the five components reloaded by their own loaders (all regenerated),
    the model class called with them and its own stored keywords, the contribution groups reloaded and added in file order
    (the nested generator `contrib_iterator` and the loop that consumes it) -/
theorem src_load_model (w : LWorld α) (mp : List (String × Node α)) (f : ModelFile w mp) :
    SrcC16.load_model w.ext (.obj (.h5 mp)) .none = modelSpec w mp f := by
  unfold SrcC16.load_model modelSpec
  have hgen : ∀ planet star chemistry temperature pressure : LV α,
      SrcC16.load_generic_profile w.ext (.obj (.h5 mp)) (.str "taurex.model") (.str "model_type") .none
        (.dict [(.str "planet", planet), (.str "star", star), (.str "chemistry", chemistry),
          (.str "temperature_profile", temperature), (.str "pressure_profile", pressure)]) .none
      = w.call (.klass f.mnm f.mkws) []
          ([("planet", planet), ("star", star), ("chemistry", chemistry), ("temperature_profile", temperature),
            ("pressure_profile", pressure)] ++ embKwL w.enc (loadKwargs mp f.mkws)) := by
    intro planet star chemistry temperature pressure
    exact src_load_generic_profile_gen w mp (.str "model_type") .none _ f.mnm f.mkws _
      [("planet", planet), ("star", star), ("chemistry", chemistry), ("temperature_profile", temperature),
        ("pressure_profile", pressure)]
      (Or.inl ⟨rfl, _, rfl, f.hmtype⟩) (Or.inr ⟨rfl, by simp⟩) f.hmr.klass f.hmr.nodup f.hmr.flat f.hmpk
  have hkeys : Dyn.m_keys w.ext (Dyn.Val.obj (LObj.h5 f.contribs))
      = pure (f.contribs.map (fun e => (Dyn.Val.str e.1 : LV α))) := by
    simp only [Dyn.m_keys, Dyn.callMethod, LWorld.ext, if_true, l_bind_ok, Dyn.iter]
  have hh5 : w.ext.global "h5py" = pure (.obj (.fn "h5py")) := rfl
  have hgrp : Dyn.getAttr w.ext (Dyn.Val.obj (LObj.fn "h5py" : LObj α)) "Group" = pure (.obj .h5Group) := rfl
  simp only [src_load_chemistry w mp f.chem f.cnm f.ckws f.wa f.wi f.act f.inact f.hchem f.hctype f.hcr f.hact f.hinact
      f.hgas,
    src_load_pressure w mp f.press f.pnm f.pkws f.hpress f.hptype f.hpr,
    src_load_temperature w mp f.temp f.tnm f.tkws f.htemp f.httype f.htr,
    src_load_planet w mp f.planet f.plnm f.plkws f.hplanet f.hplnm f.hplr,
    src_load_star w mp f.star f.snm f.skws f.hstar f.hstype f.hsr,
    Dyn.setItem, Dyn.Val.hashable, if_true, l_bind_ok, Dyn.dictSet, Dyn.Val.beq, String.reduceBEq, Bool.false_eq_true,
    if_false, hgen, getItem_group w mp f.contribs _ f.hcontribs, hkeys, hh5, hgrp]
  congr 1; funext chemistry
  congr 1; funext pressure
  congr 1; funext temperature
  congr 1; funext planet
  congr 1; funext star
  congr 1; funext model
  rw [forM_map]
  congr 1
  apply forM_congr
  intro e he st
  cases st
  obtain ⟨key, n⟩ := e
  have hl : f.contribs.lookup key = some n := lookup_of_mem_nodup f.hcnodup he
  simp only [getItem_h5, hl, l_bind_ok, contribStep]
  cases n with
  | group cch =>
    obtain ⟨kws, hr⟩ := f.hcgood key cch he
    have hi : Dyn.isinstObj w.ext (Dyn.Val.obj (nodeObj (Node.group cch))) (Dyn.Val.obj (LObj.h5Group : LObj α)) = true := rfl
    simp only [hi, if_true, l_bind_ok, src_load_contrib w f.contribs cch (w.dec key) kws key hl rfl hr, contribCall, hl,
      hr.klass, eff_bind_assoc]
  | num a =>
    have hi : Dyn.isinstObj w.ext (Dyn.Val.obj (nodeObj (Node.num a))) (Dyn.Val.obj (LObj.h5Group : LObj α)) = false := rfl
    simp only [hi, Bool.false_eq_true, if_false]
  | vstr t =>
    have hi : Dyn.isinstObj w.ext (Dyn.Val.obj (nodeObj (Node.vstr t : Node α))) (Dyn.Val.obj (LObj.h5Group : LObj α)) = false := rfl
    simp only [hi, Bool.false_eq_true, if_false]
  | sfix wd rows =>
    have hi : Dyn.isinstObj w.ext (Dyn.Val.obj (nodeObj (Node.sfix wd rows : Node α))) (Dyn.Val.obj (LObj.h5Group : LObj α)) = false := rfl
    simp only [hi, Bool.false_eq_true, if_false]

/-- **`taurex_hdf5_to_model(filename)`**: open the file read-only, `load_model_from_hdf5` on its group `ModelParameters`,
    close it — `OSError` when the file cannot be opened -/
theorem src_hdf5_to_model (w : LWorld α) (path : String) (root mp : List (String × Node α))
    (hfile : w.fileOf path = some root) (hmp : root.lookup "ModelParameters" = some (.group mp)) (f : ModelFile w mp) :
    SrcC16.hdf5_to_model w.ext (.str path) .none = modelSpec w mp f := by
  unfold SrcC16.hdf5_to_model
  have hh5 : w.ext.global "h5py" = pure (.obj (.fn "h5py")) := rfl
  have hopen : Dyn.callMethod w.ext (Dyn.Val.obj (LObj.fn "h5py" : LObj α)) "File" [.str path, .str "r"] []
      = pure (.obj (.file root)) := by
    simp only [Dyn.callMethod, LWorld.ext, hfile]
    rfl
  have henter : Dyn.callMethod w.ext (Dyn.Val.obj (LObj.file root)) "__enter__" [] [] = pure (.obj (.h5 root)) := rfl
  have hexit : ∀ a : List (LV α), Dyn.callMethod w.ext (Dyn.Val.obj (LObj.file root)) "__exit__" a [] = pure .none :=
    fun _ => rfl
  simp only [hh5, l_bind_ok, hopen, henter, getItem_group w root mp _ hmp, src_load_model w mp f, Dyn.withExit, hexit,
    Dyn.truthy, l_bind_ok_right, Bool.false_eq_true, if_false]
  rw [with_noexit]
  simp only [eff_bind_assoc, l_bind_ok, l_bind_ok_right]

/-- … and `OSError` when the file cannot be opened -/
theorem src_hdf5_to_model_nofile (w : LWorld α) (path : String) (hfile : w.fileOf path = none) :
    SrcC16.hdf5_to_model w.ext (.str path) .none = throw .OSError := by
  unfold SrcC16.hdf5_to_model
  have hh5 : w.ext.global "h5py" = pure (.obj (.fn "h5py")) := rfl
  have hopen : Dyn.callMethod w.ext (Dyn.Val.obj (LObj.fn "h5py" : LObj α)) "File" [.str path, .str "r"] []
      = throw .OSError := by
    simp only [Dyn.callMethod, LWorld.ext, hfile]
    rfl
  simp only [hh5, l_bind_ok, hopen, l_bind_err]

section observation
variable [Mul α] [Div α] [OfNat α 10000]

/-- **`taurex_hdf5_to_observation(filename)`**: the four `instrument_*` datasets of `Output/Spectra` are read, and the
    observation is `ArraySpectrum` of the columns wavelength grid (`Output.wlOfWn` of the stored wavenumber grid), stored
    spectrum, stored noise, wavelength widths (`Output.wnwidthToWlwidth` of the stored grid and widths) — given that numpy's
    `10000/array` and the module function `wnwidth_to_wlwidth` are those model functions (`hdiv`, `hww`; the latter is tied
    for C17) -/
theorem src_hdf5_to_observation (w : LWorld α) (path : String) (root out spec : List (String × Node α))
    (n1 n2 n3 n4 : Nat) (wn sp noise wd : List α)
    (hfile : w.fileOf path = some root) (hout : root.lookup "Output" = some (.group out))
    (hspec : out.lookup "Spectra" = some (.group spec))
    (h1 : spec.lookup "instrument_wngrid" = some (.num ⟨[n1], .floats wn⟩))
    (h2 : spec.lookup "instrument_spectrum" = some (.num ⟨[n2], .floats sp⟩))
    (h3 : spec.lookup "instrument_noise" = some (.num ⟨[n3], .floats noise⟩))
    (h4 : spec.lookup "instrument_wnwidth" = some (.num ⟨[n4], .floats wd⟩))
    (hdiv : w.div10000 = wlOfWn) (hww : w.wlwidth = wnwidthToWlwidth) :
    SrcC16.hdf5_to_observation w.ext (.str path)
      = w.call (.fn "ArraySpectrum") [.obj (.matT [wlOfWn wn, sp, noise, wnwidthToWlwidth wn wd])] [] := by
  unfold SrcC16.hdf5_to_observation
  have hh5 : w.ext.global "h5py" = pure (.obj (.fn "h5py")) := rfl
  have hopen : Dyn.callMethod w.ext (Dyn.Val.obj (LObj.fn "h5py" : LObj α)) "File" [.str path, .str "r"] []
      = pure (.obj (.file root)) := by
    simp only [Dyn.callMethod, LWorld.ext, hfile]
    rfl
  have henter : Dyn.callMethod w.ext (Dyn.Val.obj (LObj.file root)) "__enter__" [] [] = pure (.obj (.h5 root)) := rfl
  have hexit : ∀ a : List (LV α), Dyn.callMethod w.ext (Dyn.Val.obj (LObj.file root)) "__exit__" a [] = pure .none :=
    fun _ => rfl
  have hell : ∀ (n : Nat) (l : List α), Dyn.getItemEllipsis w.ext (Dyn.Val.obj (LObj.node (Node.num ⟨[n], .floats l⟩)))
      = pure (.obj (.vec l)) := fun _ _ => rfl
  have hdv : ∀ l : List α, Dyn.truediv w.ext (Dyn.Val.int 10000) (Dyn.Val.obj (LObj.vec l)) = pure (.obj (.vec (w.div10000 l))) :=
    fun _ => rfl
  have hgw : w.ext.global "wnwidth_to_wlwidth" = pure (.obj (.fn "wnwidth_to_wlwidth")) := rfl
  have hcw : ∀ a b : List α, Dyn.call w.ext (Dyn.Val.obj (LObj.fn "wnwidth_to_wlwidth")) [.obj (.vec a), .obj (.vec b)] []
      = pure (.obj (.vec (w.wlwidth a b))) := fun _ _ => rfl
  have hga : w.ext.global "ArraySpectrum" = pure (.obj (.fn "ArraySpectrum")) := rfl
  have hnp : w.ext.global "np" = pure (.obj .np) := rfl
  have hvs : ∀ a b c d : List α, Dyn.callMethod w.ext (Dyn.Val.obj (LObj.np : LObj α)) "vstack"
      [.list [.obj (.vec a), .obj (.vec b), .obj (.vec c), .obj (.vec d)]] [] = pure (.obj (.mat [a, b, c, d])) :=
    fun _ _ _ _ => rfl
  have hT : ∀ rows : List (List α), Dyn.getAttr w.ext (Dyn.Val.obj (LObj.mat rows)) "T" = pure (.obj (.matT rows)) :=
    fun _ => rfl
  have hcall : ∀ x : LV α, Dyn.call w.ext (Dyn.Val.obj (LObj.fn "ArraySpectrum")) [x] []
      = w.call (.fn "ArraySpectrum") [x] [] := fun _ => rfl
  simp only [hh5, l_bind_ok, hopen, henter, getItem_group w root out _ hout, getItem_group w out spec _ hspec, l_try_ok,
    getItem_h5, h1, h2, h3, h4, nodeObj, hell, hdv, hgw, hcw, hga, hnp, hvs, hT, hcall, Dyn.withExit, hexit, Dyn.truthy,
    l_bind_ok_right, Bool.false_eq_true, if_false, hdiv, hww]
  rw [with_noexit]
  simp only [eff_bind_assoc, l_bind_ok, l_bind_ok_right]

/-- … and `KeyError` (the file is closed again) when the file has no `Output` group -/
theorem src_hdf5_to_observation_nokey (w : LWorld α) (path : String) (root : List (String × Node α))
    (hfile : w.fileOf path = some root) (hout : root.lookup "Output" = none) :
    SrcC16.hdf5_to_observation w.ext (.str path) = throw .KeyError := by
  unfold SrcC16.hdf5_to_observation
  have hh5 : w.ext.global "h5py" = pure (.obj (.fn "h5py")) := rfl
  have hopen : Dyn.callMethod w.ext (Dyn.Val.obj (LObj.fn "h5py" : LObj α)) "File" [.str path, .str "r"] []
      = pure (.obj (.file root)) := by
    simp only [Dyn.callMethod, LWorld.ext, hfile]
    rfl
  have henter : Dyn.callMethod w.ext (Dyn.Val.obj (LObj.file root)) "__enter__" [] [] = pure (.obj (.h5 root)) := rfl
  have hexit : ∀ a : List (LV α), Dyn.callMethod w.ext (Dyn.Val.obj (LObj.file root)) "__exit__" a [] = pure .none :=
    fun _ => rfl
  simp only [hh5, l_bind_ok, hopen, henter, getItem_h5, hout, l_bind_err, l_try_err, Exc.isaAny, Exc.isa, List.any_cons,
    BEq.rfl, Bool.true_or, if_true, Dyn.withExit, hexit, Dyn.truthy, Bool.false_eq_true, if_false]

end observation

end loader

end Taurex.C16Src
