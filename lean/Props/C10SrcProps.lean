/-
  C10 — the property theorems restated about the REGENERATED source.  `Props/C10Src.lean` proves that the definitions
  translated on every run from `TaurexChemistry.initialize_chemistry` / `fill_atmosphere`, `AutoChemistry.compute_mu_profile`
  and the `initialize_profile` of `ConstantGas`, `TwoPointGas`, `PowerGas` compute the model's `mixProfile`,
  `fillAtmosphere`, `muProfile`, `constantGas`, `twoPointGas`, `powerGas`; `Props/C10.lean` proves the property about those.
  The corollaries below compose the two: statements about the text of the code as it is now, over ℝ.

  Source expressions (instantiated exactly as the tie theorems instantiate them; the code's arrays are functions `Nat → ℝ`,
  `listOf n` / `rowsOf n` cut them to the `n` layers):
  * `srcTraces n m gasMix` — the `m` trace-gas profiles `gasMix k` the code appends to `mix_profile`, as rows of `n` layers;
  * `srcMix nFill ratios n m gasMix` — what the regenerated `initialize_chemistry` leaves in `self.mixProfile` (fill rows
    first, then the traces), `none` = `InvalidChemistryException`;
  * `srcMu n m massAt mix` — the regenerated `compute_mu_profile`, `n` layers;
  * `srcConstant mix n`, `srcTwoPoint surf top P`, `srcPower ms a b c bf rpow P T n` — the regenerated
    `initialize_profile` of the three gas classes.
  Hypotheses of the ties that stay visible: `hcount` (the constructor has enforced the number of fill ratios), `hpow`
  (`np.power(P, alpha)` read as `exp (alpha * log P)`), `hP`/`hT` (profile lengths); the tie's `x + 0 = x` holds in ℝ.

  Not restated (no tie):
  * `available_spec`, `partition_perm`, `lookup_row`: `availableActive`, `activeGases`/`inactiveGases`/masks,
    `getGasMixProfile` (`determine_active_inactive`, `Chemistry.__init__`, `get_gas_mix_profile`) are not translated;
  * `array_between` (`arrayGas`), `twoLayer_between` (`twoLayerGas`): `ArrayGas` / `TwoLayerGas.initialize_profile` are
    not translated;
  * `profile_len` (`Gas.profile`) and `chemistry_valid` (`chemistry`): the dispatch over gas objects has no tie.
-/
import Props.C10
import Props.C10Src
set_option linter.unusedSectionVars false

namespace Taurex.C10SrcProps
open Taurex Taurex.NpInterp Taurex.Chemistry Taurex.C10 Taurex.C10Src

/-! ### the instantiated source expressions -/

/-- the trace-gas profiles `gasMix k` (k < m) the code collects in `mix_profile`, cut to `n` layers -/
noncomputable def srcTraces (n m : Nat) (gasMix : Nat → Nat → ℝ) : List (List ℝ) :=
  rowsOf n ((List.range m).map gasMix)

/-- what the regenerated `initialize_chemistry` stores as `self.mixProfile` (`none` = `InvalidChemistryException`) -/
noncomputable def srcMix (nFill : Nat) (ratios : List ℝ) (n m : Nat) (gasMix : Nat → Nat → ℝ) :
    Option (List (List ℝ)) :=
  (Gen.SrcC10.initialize_chemistry n m ratios gasMix nFill).map (rowsOf n)

/-- the regenerated `compute_mu_profile(nlayers)`, cut to `n` layers -/
noncomputable def srcMu (n m : Nat) (massAt : Nat → ℝ) (mix : Nat → Nat → ℝ) : List ℝ :=
  listOf n (Gen.SrcC10.compute_mu_profile n m massAt mix)

/-- the regenerated `ConstantGas.initialize_profile` -/
noncomputable def srcConstant (mix : ℝ) (n : Nat) : List ℝ := listOf n (Gen.SrcC10.constant_gas n mix)

/-- the regenerated `TwoPointGas.initialize_profile`, `nlayers = len(pressure_profile)` -/
noncomputable def srcTwoPoint (surf top : ℝ) (P : List ℝ) : List ℝ :=
  listOf P.length (Gen.SrcC10.two_point_gas P.length (fun i => P.getD i 0) P.length surf top)

/-- the regenerated `PowerGas.initialize_profile` (formula after the coefficient look-up) -/
noncomputable def srcPower (ms a b c bf : ℝ) (rpow : ℝ → ℝ → ℝ) (P T : List ℝ) (n : Nat) : List ℝ :=
  listOf n (Gen.SrcC10.power_gas (fun i => T.getD i 0) (fun i => P.getD i 0) a b bf c ms rpow)

theorem srcMix_ok (nFill : Nat) (ratios : List ℝ) (n m : Nat) (gasMix : Nat → Nat → ℝ)
    (hcount : ¬ (1 < nFill ∧ ratios.length ≠ nFill - 1)) (rows : List (List ℝ)) :
    srcMix nFill ratios n m gasMix = some rows ↔ mixProfile nFill ratios (srcTraces n m gasMix) n = .ok rows := by
  unfold srcMix srcTraces
  rw [src_initialize_chemistry add_zero nFill ratios n m gasMix hcount]
  cases Gen.SrcC10.initialize_chemistry n m ratios gasMix nFill <;> simp

theorem srcMix_none (nFill : Nat) (ratios : List ℝ) (n m : Nat) (gasMix : Nat → Nat → ℝ)
    (hcount : ¬ (1 < nFill ∧ ratios.length ≠ nFill - 1)) :
    srcMix nFill ratios n m gasMix = none ↔ mixProfile nFill ratios (srcTraces n m gasMix) n = .invalid := by
  unfold srcMix srcTraces
  rw [src_initialize_chemistry add_zero nFill ratios n m gasMix hcount]
  cases Gen.SrcC10.initialize_chemistry n m ratios gasMix nFill <;> simp

theorem srcTraces_length (n m : Nat) (gasMix : Nat → Nat → ℝ) : (srcTraces n m gasMix).length = m := by
  simp [srcTraces, rowsOf]

theorem srcTraces_row_length (n m : Nat) (gasMix : Nat → Nat → ℝ) : ∀ r ∈ srcTraces n m gasMix, r.length = n := by
  intro r hr
  simp only [srcTraces, rowsOf, List.map_map, List.mem_map] at hr
  obtain ⟨k, _, rfl⟩ := hr
  exact listOf_length n _

theorem srcTraces_nonneg (n m : Nat) (gasMix : Nat → Nat → ℝ) (h : ∀ k, k < m → ∀ j, j < n → 0 ≤ gasMix k j) :
    ∀ r ∈ srcTraces n m gasMix, ∀ x ∈ r, 0 ≤ x := by
  intro r hr x hx
  simp only [srcTraces, rowsOf, List.map_map, List.mem_map, List.mem_range] at hr
  obtain ⟨k, hk, rfl⟩ := hr
  simp only [Function.comp, listOf, List.mem_map, List.mem_range] at hx
  obtain ⟨j, hj, rfl⟩ := hx
  exact h k hk j hj

theorem srcMu_eq (n m : Nat) (massAt : Nat → ℝ) (mix : Nat → Nat → ℝ) :
    srcMu n m massAt mix = muProfile (srcTraces n m mix) ((List.range m).map massAt) n :=
  src_mu_profile n m mix massAt

theorem srcConstant_eq (mix : ℝ) (n : Nat) : srcConstant mix n = constantGas mix n := src_constant_gas mix n

theorem srcTwoPoint_eq (surf top : ℝ) (P : List ℝ) : srcTwoPoint surf top P = twoPointGas surf top P :=
  src_two_point_gas surf top P

theorem srcPower_eq (ms a b c bf : ℝ) (rpow : ℝ → ℝ → ℝ) (hpow : ∀ x y, rpow x y = exp (y * log x))
    (P T : List ℝ) (n : Nat) (hP : P.length = n) (hT : T.length = n) :
    srcPower ms a b c bf rpow P T n = powerGas ms a b c bf P T :=
  src_power_gas ms a b c bf rpow hpow P T n hP hT

/-! ### the mixture -/

/-- shape of an accepted mixture: one row per gas (fill gases first, then the trace rows unchanged), one value per
    layer, about the regenerated `initialize_chemistry` -/
theorem src_mix_rows (nFill : Nat) (ratios : List ℝ) (n m : Nat) (gasMix : Nat → Nat → ℝ) (rows : List (List ℝ))
    (hcount : ¬ (1 < nFill ∧ ratios.length ≠ nFill - 1)) (h1 : 1 ≤ nFill)
    (hok : srcMix nFill ratios n m gasMix = some rows) :
    rows.length = nFill + m ∧ (∀ r ∈ rows, r.length = n) ∧ rows.drop nFill = srcTraces n m gasMix := by
  have h := mix_rows nFill ratios (srcTraces n m gasMix) rows n h1 (srcTraces_row_length n m gasMix)
    ((srcMix_ok nFill ratios n m gasMix hcount rows).1 hok)
  rwa [srcTraces_length] at h

/-- the fill gases share exactly the remainder `1 − Σ traces` of every layer, about the regenerated
    `initialize_chemistry` -/
theorem src_fill_sum (nFill : Nat) (ratios : List ℝ) (n m : Nat) (gasMix : Nat → Nat → ℝ) (rows : List (List ℝ))
    (hcount : ¬ (1 < nFill ∧ ratios.length ≠ nFill - 1)) (h1 : 1 ≤ nFill) (hratio : ∀ r ∈ ratios, 0 ≤ r)
    (hok : srcMix nFill ratios n m gasMix = some rows) :
    ∀ j, j < n → sumL (column (rows.take nFill) j) = 1 - sumL (column (srcTraces n m gasMix) j) :=
  fill_sum nFill ratios (srcTraces n m gasMix) rows n h1 (srcTraces_row_length n m gasMix) hratio
    ((srcMix_ok nFill ratios n m gasMix hcount rows).1 hok)

/-- **the volume mixing ratios of every layer sum to one**, about the regenerated `initialize_chemistry` -/
theorem src_mix_sum_one (nFill : Nat) (ratios : List ℝ) (n m : Nat) (gasMix : Nat → Nat → ℝ) (rows : List (List ℝ))
    (hcount : ¬ (1 < nFill ∧ ratios.length ≠ nFill - 1)) (h1 : 1 ≤ nFill) (hratio : ∀ r ∈ ratios, 0 ≤ r)
    (hok : srcMix nFill ratios n m gasMix = some rows) :
    ∀ j, j < n → sumL (column rows j) = 1 :=
  mix_sum_one nFill ratios (srcTraces n m gasMix) rows n h1 (srcTraces_row_length n m gasMix) hratio
    ((srcMix_ok nFill ratios n m gasMix hcount rows).1 hok)

/-- **an accepted mixture has no negative entry** (non-negative traces and ratios), about the regenerated
    `initialize_chemistry` -/
theorem src_mix_nonneg (nFill : Nat) (ratios : List ℝ) (n m : Nat) (gasMix : Nat → Nat → ℝ) (rows : List (List ℝ))
    (hcount : ¬ (1 < nFill ∧ ratios.length ≠ nFill - 1)) (hratio : ∀ r ∈ ratios, 0 ≤ r)
    (hnn : ∀ k, k < m → ∀ j, j < n → 0 ≤ gasMix k j)
    (hok : srcMix nFill ratios n m gasMix = some rows) : ∀ r ∈ rows, ∀ x ∈ r, 0 ≤ x :=
  mix_nonneg nFill ratios (srcTraces n m gasMix) rows n hratio (srcTraces_nonneg n m gasMix hnn)
    ((srcMix_ok nFill ratios n m gasMix hcount rows).1 hok)

/-- **every further fill gas is exactly `ratio ×` the first fill gas**, about the regenerated `initialize_chemistry` /
    `fill_atmosphere` -/
theorem src_fill_ratio (nFill : Nat) (ratios : List ℝ) (n m : Nat) (gasMix : Nat → Nat → ℝ) (rows : List (List ℝ))
    (hcount : ¬ (1 < nFill ∧ ratios.length ≠ nFill - 1)) (h2 : 2 ≤ nFill)
    (hok : srcMix nFill ratios n m gasMix = some rows) :
    ∀ k (hk : k < ratios.length), rows.getD (k + 1) [] = (rows.getD 0 []).map (fun x => ratios[k] * x) :=
  fill_ratio nFill ratios (srcTraces n m gasMix) rows n h2 ((srcMix_ok nFill ratios n m gasMix hcount rows).1 hok)

/-- **traces exceeding one anywhere ⇒ the regenerated `initialize_chemistry` raises `InvalidChemistryException`**
    (so, with `src_mix_nonneg`, a negative fill is never produced) -/
theorem src_exceed_rejected (nFill : Nat) (ratios : List ℝ) (n m : Nat) (gasMix : Nat → Nat → ℝ)
    (hcount : ¬ (1 < nFill ∧ ratios.length ≠ nFill - 1))
    (h : ∃ t ∈ totalMix (srcTraces n m gasMix) n, 1 < t) :
    Gen.SrcC10.initialize_chemistry n m ratios gasMix nFill = none := by
  have := (srcMix_none nFill ratios n m gasMix hcount).2 (exceed_rejected nFill ratios (srcTraces n m gasMix) n h)
  simpa [srcMix] using this

/-- conversely a total of at most one in every layer (exactly one included) is accepted by the regenerated
    `initialize_chemistry` -/
theorem src_unity_accepted (nFill : Nat) (ratios : List ℝ) (n m : Nat) (gasMix : Nat → Nat → ℝ)
    (hl : 1 < nFill → ratios.length = nFill - 1) (h : ∀ t ∈ totalMix (srcTraces n m gasMix) n, t ≤ 1) :
    ∃ rows, srcMix nFill ratios n m gasMix = some rows := by
  obtain ⟨rows, hrows⟩ := unity_accepted nFill ratios (srcTraces n m gasMix) n hl h
  exact ⟨rows, (srcMix_ok nFill ratios n m gasMix (fun hc => hc.2 (hl hc.1)) rows).2 hrows⟩

/-- **the mean molecular weight of layer `j` is the abundance-weighted sum of the molecular masses**, about the
    regenerated `compute_mu_profile` -/
theorem src_mu_weighted (n m : Nat) (massAt : Nat → ℝ) (mix : Nat → Nat → ℝ) :
    ∀ j, j < n → (srcMu n m massAt mix).getD j 0 =
      sumL (((srcTraces n m mix).zip ((List.range m).map massAt)).map (fun rm => rm.1.getD j 0 * rm.2)) := by
  rw [srcMu_eq]
  exact mu_weighted (srcTraces n m mix) ((List.range m).map massAt) n (srcTraces_row_length n m mix)

/-! ### the built-in abundance profiles -/

/-- ConstantGas: one value per layer, each equal to the control value, about the regenerated `initialize_profile` -/
theorem src_constant_len (mix : ℝ) (n : Nat) :
    (srcConstant mix n).length = n ∧ ∀ v ∈ srcConstant mix n, v = mix := by
  rw [srcConstant_eq]; exact constant_len mix n

/-- TwoPointGas: one value per layer, each between the two control abundances, about the regenerated
    `initialize_profile` (guards as in `twoPoint_between`) -/
theorem src_twoPoint_between (surf top lo hi : ℝ) (pressure : List ℝ) (hlo : 0 < lo)
    (hs : lo ≤ surf ∧ surf ≤ hi) (ht : lo ≤ top ∧ top ≤ hi)
    (hpos : 0 < pressure.getD (pressure.length - 1) 0)
    (hlt : pressure.getD (pressure.length - 1) 0 < pressure.getD 0 0)
    (hp : ∀ p ∈ pressure, pressure.getD (pressure.length - 1) 0 ≤ p ∧ p ≤ pressure.getD 0 0) :
    (srcTwoPoint surf top pressure).length = pressure.length ∧
      ∀ v ∈ srcTwoPoint surf top pressure, lo ≤ v ∧ v ≤ hi := by
  rw [srcTwoPoint_eq]; exact twoPoint_between surf top lo hi pressure hlo hs ht hpos hlt hp

/-- PowerGas: positive and at most the deep-atmosphere abundance `mix_ratio_surface`, one value per layer, about the
    regenerated `initialize_profile` -/
theorem src_power_le_surface (ms alpha beta gamma bf : ℝ) (rpow : ℝ → ℝ → ℝ)
    (hpow : ∀ x y, rpow x y = exp (y * log x)) (pressure temperature : List ℝ) (n : Nat)
    (hP : pressure.length = n) (hT : temperature.length = n) (h0 : 0 < ms) :
    (srcPower ms alpha beta gamma bf rpow pressure temperature n).length = min pressure.length temperature.length ∧
      ∀ v ∈ srcPower ms alpha beta gamma bf rpow pressure temperature n, 0 < v ∧ v ≤ ms := by
  rw [srcPower_eq ms alpha beta gamma bf rpow hpow pressure temperature n hP hT]
  exact power_le_surface ms alpha beta gamma bf pressure temperature h0

end Taurex.C10SrcProps
