/-
  C10 — the property theorems restated about the REGENERATED source.  `Props/C10Src.lean` proves that the definitions
  translated on every run from `TaurexChemistry.initialize_chemistry` / `fill_atmosphere`, `AutoChemistry.compute_mu_profile`
  and the `initialize_profile` of `ConstantGas`, `TwoPointGas`, `PowerGas` compute the model's `mixProfile`,
  `fillAtmosphere`, `muProfile`, `constantGas`, `twoPointGas`, `powerGas`; `Props/C10.lean` proves the property about those.
  The corollaries below compose the two: statements about the text of the code as it is now, over ℝ.

  Source expressions (instantiated exactly as the tie theorems instantiate them; the code's arrays are functions `Nat → ℝ`,
  `listOf n` / `rowsOf n` cut them to the `n` layers):
  * `srcTraces n m gasMix` — the `m` trace-gas profiles `gasMix k` the code appends to `mix_profile`, as rows of `n` layers;
  * `srcMix nFill ratios n m gasMix` — what the regenerated `initialize_chemistry` leaves in `self.mixProfile` (fill rows
    first, then the traces), `none` = `InvalidChemistryException`;
  * `srcMu n m massAt mix` — the regenerated `compute_mu_profile`, `n` layers;
  * `srcConstant mix n`, `srcTwoPoint surf top P`, `srcPower ms a b c bf rpow P T n` — the regenerated
    `initialize_profile` of the three gas classes.
  Hypotheses of the ties that stay visible: `hcount` (the constructor has enforced the number of fill ratios), `hpow`
  (`np.power(P, alpha)` read as `exp (alpha * log P)`), `hP`/`hT` (profile lengths); the tie's `x + 0 = x` holds in ℝ.

  Not restated (no tie): nothing of Props/C10.lean.  (`lookup_row` is restated as `src_lookup_row` since
  `get_gas_mix_profile` and the `@property` getters it reads are translated: `srcLookup gases avail mix g` is the regenerated
  `get_gas_mix_profile(g)` on the object state the regenerated `determine_active_inactive` leaves, with `mixProfile = mix`;
  `Except.error "KeyError"` = the `KeyError` of the code.)  (`chemistry_valid` is restated as `src_chemistry_valid`: the loop of
    `initialize_chemistry` over the gas OBJECTS is tied with the profiles as parameters (`gasMix`); the theorem feeds it
    the profiles the regenerated `initialize_profile` of every gas returns.)

  Restated since the ties of the dialect `seq` exist (Props/C10Src.lean: `src_array_gas`, `src_two_layer_gas`):
  * `srcArray arr n` — the regenerated `ArrayGas.initialize_profile` (`np.linspace` / `np.interp` = the model's): `src_array_between`;
  * `srcTwoLayer surf top pb w n P` — the regenerated WHOLE `TwoLayerGas.initialize_profile` with Python's `int()` on reals
    `pyIntR` and int → float `toFloatR` (`Except.error "ValueError"` = numpy refuses the border store): `src_twoLayer_between`;
    the tie needs a non-negative smoothing window and at least one layer (`hw`, `h1`);
  * `srcGasProfile g rpow n P T` — `gas.initialize_profile(n, T, P, z); gas.mixProfile` for a gas object of each built-in
    class (Python's dynamic dispatch is the `match` on the class): `src_profile_len`;
  * `srcPowerAuto ms a b g known ptype bf rpow P T n` — the regenerated WHOLE `PowerGas.initialize_profile`: the look-up of
    the coefficients the constructor left `None` in the tuple `check_known(profile_type)` returns (external `known`), then
    the formula: `src_power_auto_le_surface`;
  * `srcAvail kt op ktables deactive` — what the regenerated `Chemistry.__init__` leaves in `_avail_active` (`kt` / `op`: the
    molecule lists of the k-table / cross-section cache, `ktables`: the global `opacity_method` is 'ktables'): `src_available_spec`
    (and `src_available_spec_str` for the option given as one bare string);
  * `srcSplit gases avail` — what the regenerated `determine_active_inactive` leaves in `(_active, _active_mask, _inactive,
    _inactive_mask)`, a mask being `None` when it would be empty (`maskOf` reads `None` as `[]`): `src_partition_perm`.
-/
import Props.C10
import Props.C10Src
set_option linter.unusedSectionVars false

namespace Taurex.C10SrcProps
open Taurex Taurex.NpInterp Taurex.Chemistry Taurex.C10 Taurex.C10Src
open Taurex.SeqSrc (outcomeOf outcomeOf_ok_iff pyIntR toFloatR pyIntR_nonneg pyIntR_nonneg' pyIntR_max toFloatR_nat pyIntR_half
  oddWindow_pos)

/-! ### the instantiated source expressions -/

/-- the trace-gas profiles `gasMix k` (k < m) the code collects in `mix_profile`, cut to `n` layers -/
noncomputable def srcTraces (n m : Nat) (gasMix : Nat → Nat → ℝ) : List (List ℝ) :=
  rowsOf n ((List.range m).map gasMix)

/-- what the regenerated `initialize_chemistry` stores as `self.mixProfile` (`none` = `InvalidChemistryException`) -/
noncomputable def srcMix (nFill : Nat) (ratios : List ℝ) (n m : Nat) (gasMix : Nat → Nat → ℝ) :
    Option (List (List ℝ)) :=
  (Gen.SrcC10.initialize_chemistry n m ratios gasMix nFill).map (rowsOf n)

/-- the regenerated `compute_mu_profile(nlayers)`, cut to `n` layers -/
noncomputable def srcMu (n m : Nat) (massAt : Nat → ℝ) (mix : Nat → Nat → ℝ) : List ℝ :=
  listOf n (Gen.SrcC10.compute_mu_profile n m massAt mix)

/-- the regenerated `ConstantGas.initialize_profile` -/
noncomputable def srcConstant (mix : ℝ) (n : Nat) : List ℝ := listOf n (Gen.SrcC10.constant_gas n mix)

/-- the regenerated `TwoPointGas.initialize_profile`, `nlayers = len(pressure_profile)` -/
noncomputable def srcTwoPoint (surf top : ℝ) (P : List ℝ) : List ℝ :=
  listOf P.length (Gen.SrcC10.two_point_gas P.length (fun i => P.getD i 0) P.length surf top)

/-- the regenerated `PowerGas.initialize_profile` (formula after the coefficient look-up) -/
noncomputable def srcPower (ms a b c bf : ℝ) (rpow : ℝ → ℝ → ℝ) (P T : List ℝ) (n : Nat) : List ℝ :=
  listOf n (Gen.SrcC10.power_gas (fun i => T.getD i 0) (fun i => P.getD i 0) a b bf c ms rpow)

theorem srcMix_ok (nFill : Nat) (ratios : List ℝ) (n m : Nat) (gasMix : Nat → Nat → ℝ)
    (hcount : ¬ (1 < nFill ∧ ratios.length ≠ nFill - 1)) (rows : List (List ℝ)) :
    srcMix nFill ratios n m gasMix = some rows ↔ mixProfile nFill ratios (srcTraces n m gasMix) n = .ok rows := by
  unfold srcMix srcTraces
  rw [src_initialize_chemistry add_zero nFill ratios n m gasMix hcount]
  cases Gen.SrcC10.initialize_chemistry n m ratios gasMix nFill <;> simp

theorem srcMix_none (nFill : Nat) (ratios : List ℝ) (n m : Nat) (gasMix : Nat → Nat → ℝ)
    (hcount : ¬ (1 < nFill ∧ ratios.length ≠ nFill - 1)) :
    srcMix nFill ratios n m gasMix = none ↔ mixProfile nFill ratios (srcTraces n m gasMix) n = .invalid := by
  unfold srcMix srcTraces
  rw [src_initialize_chemistry add_zero nFill ratios n m gasMix hcount]
  cases Gen.SrcC10.initialize_chemistry n m ratios gasMix nFill <;> simp

theorem srcTraces_length (n m : Nat) (gasMix : Nat → Nat → ℝ) : (srcTraces n m gasMix).length = m := by
  simp [srcTraces, rowsOf]

theorem srcTraces_row_length (n m : Nat) (gasMix : Nat → Nat → ℝ) : ∀ r ∈ srcTraces n m gasMix, r.length = n := by
  intro r hr
  simp only [srcTraces, rowsOf, List.map_map, List.mem_map] at hr
  obtain ⟨k, _, rfl⟩ := hr
  exact listOf_length n _

theorem srcTraces_nonneg (n m : Nat) (gasMix : Nat → Nat → ℝ) (h : ∀ k, k < m → ∀ j, j < n → 0 ≤ gasMix k j) :
    ∀ r ∈ srcTraces n m gasMix, ∀ x ∈ r, 0 ≤ x := by
  intro r hr x hx
  simp only [srcTraces, rowsOf, List.map_map, List.mem_map, List.mem_range] at hr
  obtain ⟨k, hk, rfl⟩ := hr
  simp only [Function.comp, listOf, List.mem_map, List.mem_range] at hx
  obtain ⟨j, hj, rfl⟩ := hx
  exact h k hk j hj

theorem srcMu_eq (n m : Nat) (massAt : Nat → ℝ) (mix : Nat → Nat → ℝ) :
    srcMu n m massAt mix = muProfile (srcTraces n m mix) ((List.range m).map massAt) n :=
  src_mu_profile n m mix massAt

theorem srcConstant_eq (mix : ℝ) (n : Nat) : srcConstant mix n = constantGas mix n := src_constant_gas mix n

theorem srcTwoPoint_eq (surf top : ℝ) (P : List ℝ) : srcTwoPoint surf top P = twoPointGas surf top P :=
  src_two_point_gas surf top P

theorem srcPower_eq (ms a b c bf : ℝ) (rpow : ℝ → ℝ → ℝ) (hpow : ∀ x y, rpow x y = exp (y * log x))
    (P T : List ℝ) (n : Nat) (hP : P.length = n) (hT : T.length = n) :
    srcPower ms a b c bf rpow P T n = powerGas ms a b c bf P T :=
  src_power_gas ms a b c bf rpow hpow P T n hP hT

/-! ### the mixture -/

/-- shape of an accepted mixture: one row per gas (fill gases first, then the trace rows unchanged), one value per
    layer, about the regenerated `initialize_chemistry` -/
theorem src_mix_rows (nFill : Nat) (ratios : List ℝ) (n m : Nat) (gasMix : Nat → Nat → ℝ) (rows : List (List ℝ))
    (hcount : ¬ (1 < nFill ∧ ratios.length ≠ nFill - 1)) (h1 : 1 ≤ nFill)
    (hok : srcMix nFill ratios n m gasMix = some rows) :
    rows.length = nFill + m ∧ (∀ r ∈ rows, r.length = n) ∧ rows.drop nFill = srcTraces n m gasMix := by
  have h := mix_rows nFill ratios (srcTraces n m gasMix) rows n h1 (srcTraces_row_length n m gasMix)
    ((srcMix_ok nFill ratios n m gasMix hcount rows).1 hok)
  rwa [srcTraces_length] at h

/-- the fill gases share exactly the remainder `1 − Σ traces` of every layer, about the regenerated
    `initialize_chemistry` -/
theorem src_fill_sum (nFill : Nat) (ratios : List ℝ) (n m : Nat) (gasMix : Nat → Nat → ℝ) (rows : List (List ℝ))
    (hcount : ¬ (1 < nFill ∧ ratios.length ≠ nFill - 1)) (h1 : 1 ≤ nFill) (hratio : ∀ r ∈ ratios, 0 ≤ r)
    (hok : srcMix nFill ratios n m gasMix = some rows) :
    ∀ j, j < n → sumL (column (rows.take nFill) j) = 1 - sumL (column (srcTraces n m gasMix) j) :=
  fill_sum nFill ratios (srcTraces n m gasMix) rows n h1 (srcTraces_row_length n m gasMix) hratio
    ((srcMix_ok nFill ratios n m gasMix hcount rows).1 hok)

/-- **the volume mixing ratios of every layer sum to one**, about the regenerated `initialize_chemistry` -/
theorem src_mix_sum_one (nFill : Nat) (ratios : List ℝ) (n m : Nat) (gasMix : Nat → Nat → ℝ) (rows : List (List ℝ))
    (hcount : ¬ (1 < nFill ∧ ratios.length ≠ nFill - 1)) (h1 : 1 ≤ nFill) (hratio : ∀ r ∈ ratios, 0 ≤ r)
    (hok : srcMix nFill ratios n m gasMix = some rows) :
    ∀ j, j < n → sumL (column rows j) = 1 :=
  mix_sum_one nFill ratios (srcTraces n m gasMix) rows n h1 (srcTraces_row_length n m gasMix) hratio
    ((srcMix_ok nFill ratios n m gasMix hcount rows).1 hok)

/-- **an accepted mixture has no negative entry** (non-negative traces and ratios), about the regenerated
    `initialize_chemistry` -/
theorem src_mix_nonneg (nFill : Nat) (ratios : List ℝ) (n m : Nat) (gasMix : Nat → Nat → ℝ) (rows : List (List ℝ))
    (hcount : ¬ (1 < nFill ∧ ratios.length ≠ nFill - 1)) (hratio : ∀ r ∈ ratios, 0 ≤ r)
    (hnn : ∀ k, k < m → ∀ j, j < n → 0 ≤ gasMix k j)
    (hok : srcMix nFill ratios n m gasMix = some rows) : ∀ r ∈ rows, ∀ x ∈ r, 0 ≤ x :=
  mix_nonneg nFill ratios (srcTraces n m gasMix) rows n hratio (srcTraces_nonneg n m gasMix hnn)
    ((srcMix_ok nFill ratios n m gasMix hcount rows).1 hok)

/-- **every further fill gas is exactly `ratio ×` the first fill gas**, about the regenerated `initialize_chemistry` /
    `fill_atmosphere` -/
theorem src_fill_ratio (nFill : Nat) (ratios : List ℝ) (n m : Nat) (gasMix : Nat → Nat → ℝ) (rows : List (List ℝ))
    (hcount : ¬ (1 < nFill ∧ ratios.length ≠ nFill - 1)) (h2 : 2 ≤ nFill)
    (hok : srcMix nFill ratios n m gasMix = some rows) :
    ∀ k (hk : k < ratios.length), rows.getD (k + 1) [] = (rows.getD 0 []).map (fun x => ratios[k] * x) :=
  fill_ratio nFill ratios (srcTraces n m gasMix) rows n h2 ((srcMix_ok nFill ratios n m gasMix hcount rows).1 hok)

/-- **traces exceeding one anywhere ⇒ the regenerated `initialize_chemistry` raises `InvalidChemistryException`**
    (so, with `src_mix_nonneg`, a negative fill is never produced) -/
theorem src_exceed_rejected (nFill : Nat) (ratios : List ℝ) (n m : Nat) (gasMix : Nat → Nat → ℝ)
    (hcount : ¬ (1 < nFill ∧ ratios.length ≠ nFill - 1))
    (h : ∃ t ∈ totalMix (srcTraces n m gasMix) n, 1 < t) :
    Gen.SrcC10.initialize_chemistry n m ratios gasMix nFill = none := by
  have := (srcMix_none nFill ratios n m gasMix hcount).2 (exceed_rejected nFill ratios (srcTraces n m gasMix) n h)
  simpa [srcMix] using this

/-- conversely a total of at most one in every layer (exactly one included) is accepted by the regenerated
    `initialize_chemistry` -/
theorem src_unity_accepted (nFill : Nat) (ratios : List ℝ) (n m : Nat) (gasMix : Nat → Nat → ℝ)
    (hl : 1 < nFill → ratios.length = nFill - 1) (h : ∀ t ∈ totalMix (srcTraces n m gasMix) n, t ≤ 1) :
    ∃ rows, srcMix nFill ratios n m gasMix = some rows := by
  obtain ⟨rows, hrows⟩ := unity_accepted nFill ratios (srcTraces n m gasMix) n hl h
  exact ⟨rows, (srcMix_ok nFill ratios n m gasMix (fun hc => hc.2 (hl hc.1)) rows).2 hrows⟩

/-- **the mean molecular weight of layer `j` is the abundance-weighted sum of the molecular masses**, about the
    regenerated `compute_mu_profile` -/
theorem src_mu_weighted (n m : Nat) (massAt : Nat → ℝ) (mix : Nat → Nat → ℝ) :
    ∀ j, j < n → (srcMu n m massAt mix).getD j 0 =
      sumL (((srcTraces n m mix).zip ((List.range m).map massAt)).map (fun rm => rm.1.getD j 0 * rm.2)) := by
  rw [srcMu_eq]
  exact mu_weighted (srcTraces n m mix) ((List.range m).map massAt) n (srcTraces_row_length n m mix)

/-! ### the built-in abundance profiles -/

/-- ConstantGas: one value per layer, each equal to the control value, about the regenerated `initialize_profile` -/
theorem src_constant_len (mix : ℝ) (n : Nat) :
    (srcConstant mix n).length = n ∧ ∀ v ∈ srcConstant mix n, v = mix := by
  rw [srcConstant_eq]; exact constant_len mix n

/-- TwoPointGas: one value per layer, each between the two control abundances, about the regenerated
    `initialize_profile` (guards as in `twoPoint_between`) -/
theorem src_twoPoint_between (surf top lo hi : ℝ) (pressure : List ℝ) (hlo : 0 < lo)
    (hs : lo ≤ surf ∧ surf ≤ hi) (ht : lo ≤ top ∧ top ≤ hi)
    (hpos : 0 < pressure.getD (pressure.length - 1) 0)
    (hlt : pressure.getD (pressure.length - 1) 0 < pressure.getD 0 0)
    (hp : ∀ p ∈ pressure, pressure.getD (pressure.length - 1) 0 ≤ p ∧ p ≤ pressure.getD 0 0) :
    (srcTwoPoint surf top pressure).length = pressure.length ∧
      ∀ v ∈ srcTwoPoint surf top pressure, lo ≤ v ∧ v ≤ hi := by
  rw [srcTwoPoint_eq]; exact twoPoint_between surf top lo hi pressure hlo hs ht hpos hlt hp

/-- PowerGas: positive and at most the deep-atmosphere abundance `mix_ratio_surface`, one value per layer, about the
    regenerated `initialize_profile` -/
theorem src_power_le_surface (ms alpha beta gamma bf : ℝ) (rpow : ℝ → ℝ → ℝ)
    (hpow : ∀ x y, rpow x y = exp (y * log x)) (pressure temperature : List ℝ) (n : Nat)
    (hP : pressure.length = n) (hT : temperature.length = n) (h0 : 0 < ms) :
    (srcPower ms alpha beta gamma bf rpow pressure temperature n).length = min pressure.length temperature.length ∧
      ∀ v ∈ srcPower ms alpha beta gamma bf rpow pressure temperature n, 0 < v ∧ v ≤ ms := by
  rw [srcPower_eq ms alpha beta gamma bf rpow hpow pressure temperature n hP hT]
  exact power_le_surface ms alpha beta gamma bf pressure temperature h0

/-! ### ArrayGas, TwoLayerGas, and every built-in gas object -/

/-- the regenerated `ArrayGas.initialize_profile` -/
noncomputable def srcArray (arr : List ℝ) (n : Nat) : List ℝ :=
  Gen.SrcC10.array_gas n (fun x xp fp => npInterp xp fp x) (fun a b k => linspace a b k) arr

theorem srcArray_eq (arr : List ℝ) (n : Nat) : srcArray arr n = arrayGas arr n := src_array_gas arr n

/-- ArrayGas: one value per layer for any layer count, each inside the range of the tabulated abundances, about the
    regenerated `initialize_profile` -/
theorem src_array_between (arr : List ℝ) (n : Nat) (lo hi : ℝ) (hne : 0 < arr.length)
    (h : ∀ x ∈ arr, lo ≤ x ∧ x ≤ hi) :
    (srcArray arr n).length = n ∧ ∀ v ∈ srcArray arr n, lo ≤ v ∧ v ≤ hi := by
  rw [srcArray_eq]; exact array_between arr n lo hi hne h

/-- the regenerated `TwoLayerGas.initialize_profile` (what it leaves in `self._mix_profile`, or the exception) -/
noncomputable def srcTwoLayer (surf top pb w : ℝ) (n : Nat) (pressure : List ℝ) : Except String (List ℝ) :=
  Gen.SrcC10.two_layer_gas n pressure (fun x xp fp => npInterp xp fp x) pb surf top pyIntR w toFloatR

/-- the tie, over ℝ: for a non-negative smoothing window and at least one layer the regenerated
    `TwoLayerGas.initialize_profile` IS the model's `twoLayerGas` -/
theorem srcTwoLayer_eq (surf top pb w : ℝ) (n : Nat) (pressure : List ℝ) (h1 : 1 ≤ n) (hw : 0 ≤ w) :
    outcomeOf "InvalidModelException" (srcTwoLayer surf top pb w n pressure) = twoLayerGas surf top pb w n pressure := by
  unfold srcTwoLayer
  refine src_two_layer_gas surf top pb w n pressure pyIntR toFloatR h1 toFloatR_nat pyIntR_max ?_ ?_ pyIntR_half ?_
  · apply pyIntR_nonneg'
    simp only [ofNat'_real]; positivity
  · apply pyIntR_nonneg'
    simp only [ofNat'_real]; positivity
  · exact src_movingaverage _ _ (oddWindow_pos n w) toFloatR toFloatR_nat

/-- TwoLayerGas, about the regenerated `initialize_profile`: whenever a profile is returned, smoothing included, every
    abundance lies between the two control abundances (guards as in `twoLayer_between`, at least one layer) -/
theorem src_twoLayer_between (surf top pb w lo hi : ℝ) (n : Nat) (pressure row : List ℝ) (hlo : 0 < lo)
    (hs : lo ≤ surf ∧ surf ≤ hi) (ht : lo ≤ top ∧ top ≤ hi) (hn : n = pressure.length) (h1 : 1 ≤ n) (hw : 0 ≤ w)
    (hpos : ∀ x ∈ pressure, 0 < x) (hsorted : pressure.Pairwise (fun a b => b ≤ a))
    (hok : srcTwoLayer surf top pb w n pressure = .ok row) : ∀ v ∈ row, lo ≤ v ∧ v ≤ hi := by
  have h := srcTwoLayer_eq surf top pb w n pressure h1 hw
  rw [hok] at h
  exact twoLayer_between surf top pb w lo hi n pressure row hlo hs ht hn hw hpos hsorted h.symm

/-- `gas.initialize_profile(n, T, P, z); gas.mixProfile` for a gas OBJECT of each built-in class: the regenerated
    `initialize_profile` of that class (Python's dynamic dispatch is the `match`; `TwoPointGas` reads the layer count off
    the pressure profile it is handed) -/
noncomputable def srcGasProfile (g : Gas ℝ) (rpow : ℝ → ℝ → ℝ) (n : Nat) (pressure temperature : List ℝ) :
    Except String (List ℝ) :=
  match g with
  | .constant mix => .ok (srcConstant mix n)
  | .twoLayer s t pb w => srcTwoLayer s t pb w n pressure
  | .twoPoint s t => .ok (srcTwoPoint s t pressure)
  | .array arr => .ok (srcArray arr n)
  | .power ms a b c bf => .ok (srcPower ms a b c bf rpow pressure temperature n)

theorem srcGasProfile_eq (g : Gas ℝ) (rpow : ℝ → ℝ → ℝ) (hpow : ∀ x y, rpow x y = exp (y * log x)) (n : Nat)
    (pressure temperature : List ℝ) (hadm : g.Admissible) (hn : n = pressure.length) (hT : n = temperature.length)
    (h1 : 1 ≤ n) :
    outcomeOf "InvalidModelException" (srcGasProfile g rpow n pressure temperature)
      = g.profile n pressure temperature := by
  cases g with
  | constant m => simp [srcGasProfile, Gas.profile, srcConstant_eq]
  | twoLayer s t pb w => exact srcTwoLayer_eq s t pb w n pressure h1 hadm.2.2.1
  | twoPoint s t => simp [srcGasProfile, Gas.profile, srcTwoPoint_eq]
  | array arr => simp [srcGasProfile, Gas.profile, srcArray_eq]
  | power ms a b c bf =>
    simp [srcGasProfile, Gas.profile, srcPower_eq ms a b c bf rpow hpow pressure temperature n hn.symm hT.symm]

/-- **every built-in profile yields exactly one value per layer for every layer count** (in particular TwoLayerGas with any
    percentage window and 10, 25, 45 … layers never fails at the border store) and none of them is negative, about the
    regenerated `initialize_profile` of each class -/
theorem src_profile_len (g : Gas ℝ) (rpow : ℝ → ℝ → ℝ) (hpow : ∀ x y, rpow x y = exp (y * log x)) (n : Nat)
    (pressure temperature : List ℝ) (hadm : g.Admissible) (hn : n = pressure.length) (hT : n = temperature.length)
    (h1 : 1 ≤ n) :
    ∃ row, srcGasProfile g rpow n pressure temperature = .ok row ∧ row.length = n ∧ ∀ x ∈ row, 0 ≤ x := by
  obtain ⟨row, hrow, hl, hnn⟩ := profile_len g n pressure temperature hadm hn hT
  rw [← srcGasProfile_eq g rpow hpow n pressure temperature hadm hn hT h1, outcomeOf_ok_iff] at hrow
  exact ⟨row, hrow, hl, hnn⟩

/-! ### PowerGas with coefficients left to the table -/

/-- the regenerated whole `PowerGas.initialize_profile` (what it leaves in `self._mix_profile`, or the exception) -/
noncomputable def srcPowerAuto (ms a b g : Option ℝ) (known : String → Option ℝ × Option ℝ × Option ℝ × Option ℝ)
    (ptype : String) (bf : ℝ) (rpow : ℝ → ℝ → ℝ) (P T : List ℝ) (n : Nat) : Except String (List ℝ) :=
  Gen.SrcC10.power_gas_full n T P a b bf known g ms ptype rpow

theorem powerGasAuto_ok (ms a b g : Option ℝ) (k : Option ℝ × Option ℝ × Option ℝ × Option ℝ) (bf : ℝ) (P T row : List ℝ)
    (h : powerGasAuto ms a b g k bf P T = .ok row) :
    ∃ m a' b' g', powerCoeff ms k.2.2.2 = some m ∧ powerCoeff a k.1 = some a' ∧ powerCoeff b k.2.1 = some b' ∧
      powerCoeff g k.2.2.1 = some g' ∧ row = powerGas m a' b' g' bf P T := by
  unfold powerGasAuto at h
  split at h
  · rename_i m a' b' g' h1 h2 h3 h4
    exact ⟨m, a', b', g', h1, h2, h3, h4, (Outcome.ok.inj h).symm⟩
  · exact absurd h (by simp)

/-- PowerGas, coefficients left `None` included, about the regenerated whole `initialize_profile`: whenever it returns a
    profile, the deep-atmosphere abundance it used is the constructor's or the tabulated one, and (when that is positive)
    the profile has one value per layer, each positive and at most that abundance; a coefficient that is neither given nor
    tabulated gives no profile (ValueError) -/
theorem src_power_auto_le_surface (ms a b g : Option ℝ) (known : String → Option ℝ × Option ℝ × Option ℝ × Option ℝ)
    (ptype : String) (bf : ℝ) (rpow : ℝ → ℝ → ℝ) (hpow : ∀ x y, rpow x y = exp (y * log x)) (P T row : List ℝ) (n : Nat)
    (h : P.length = T.length) (hok : srcPowerAuto ms a b g known ptype bf rpow P T n = .ok row) :
    ∃ m0, powerCoeff ms (known ptype).2.2.2 = some m0 ∧
      (0 < m0 → row.length = min P.length T.length ∧ ∀ v ∈ row, 0 < v ∧ v ≤ m0) := by
  have ht := src_power_gas_full ms a b g known ptype bf rpow hpow P T n h
  unfold srcPowerAuto at hok
  rw [hok] at ht
  obtain ⟨m, a', b', g', h1, _, _, _, rfl⟩ := powerGasAuto_ok ms a b g (known ptype) bf P T row ht.symm
  exact ⟨m, h1, fun h0 => power_le_surface m a' b' g' bf P T h0⟩

/-! ### the molecules that count as absorbing, the active / inactive split -/

/-- what the regenerated `Chemistry.__init__` leaves in `_avail_active` (`deactive_molecules` None or a list) -/
def srcAvail (kt op : List String) (ktables : Bool) (deactive : Option (List String)) : List String :=
  Gen.SrcC10.chemistry_init deactive kt ktables op

/-- the molecules that count as absorbing, about the regenerated `Chemistry.__init__`: the registered opacity data (of
    the cache the global option selects) minus the `deactive_molecules` option -/
theorem src_available_spec (kt op : List String) (ktables : Bool) (deactive : Option (List String)) (g : String) :
    g ∈ srcAvail kt op ktables deactive ↔
      g ∈ (if ktables then kt else op) ∧ ∀ d, deactive = some d → g ∉ d := by
  unfold srcAvail
  rw [src_chemistry_init]
  exact available_spec _ deactive g

/-- the same when the option is ONE bare string: exactly that molecule is taken out -/
theorem src_available_spec_str (kt op : List String) (ktables : Bool) (d g : String) :
    g ∈ Gen.SrcC10.chemistry_init_str d kt ktables op ↔ g ∈ (if ktables then kt else op) ∧ g ≠ d := by
  rw [src_chemistry_init_str, available_spec]
  simp

/-- what the regenerated `determine_active_inactive` leaves in `(_active, _active_mask, _inactive, _inactive_mask)` -/
def srcSplit (gases avail : List String) : List String × Option (List Nat) × List String × Option (List Nat) :=
  Gen.SrcC10.determine_active_inactive avail gases

/-- a mask attribute read as a list of positions (`None` = no position) -/
def maskOf (m : Option (List Nat)) : List Nat := m.getD []

theorem maskOf_ite (l : List Nat) : maskOf (if l.isEmpty then none else some l) = l := by
  unfold maskOf
  cases l <;> simp

/-- **active and inactive gases partition the gas list** by availability, each in the original order, and the masks
    point at exactly those gases — about the regenerated `determine_active_inactive` -/
theorem src_partition_perm (gases avail : List String) :
    ((srcSplit gases avail).1 ++ (srcSplit gases avail).2.2.1).Perm gases ∧
    (srcSplit gases avail).1.Sublist gases ∧ (srcSplit gases avail).2.2.1.Sublist gases ∧
    (∀ g, g ∈ (srcSplit gases avail).1 ↔ g ∈ gases ∧ avail.contains g = true) ∧
    (maskOf (srcSplit gases avail).2.1).map (fun i => gases.getD i "") = (srcSplit gases avail).1 ∧
    (maskOf (srcSplit gases avail).2.2.2).map (fun i => gases.getD i "") = (srcSplit gases avail).2.2.1 := by
  unfold srcSplit
  rw [src_determine_active_inactive]
  simp only [maskOf_ite]
  exact partition_perm gases avail

/-- the regenerated `get_gas_mix_profile(g)` on a chemistry object whose active / inactive attributes are what the
    regenerated `determine_active_inactive` leaves and whose `mixProfile` is the 2-D array `mix` -/
def srcLookup {β : Type} (gases avail : List String) (mix : List (List β)) (g : String) : Except String (List β) :=
  Gen.SrcC10.get_gas_mix_profile g (srcSplit gases avail).1 (srcSplit gases avail).2.1 (srcSplit gases avail).2.2.1
    (srcSplit gases avail).2.2.2 (some mix)

theorem srcLookup_eq {β : Type} (gases avail : List String) (mix : List (List β)) (g : String) :
    srcLookup gases avail mix g = (getGasMixProfile gases avail mix g).elim (Except.error "KeyError") Except.ok :=
  src_get_gas_mix_profile gases avail mix g

/-- **`get_gas_mix_profile(g)` is the row of `g` in `mixProfile`** (row index = position of `g` in the gas list) and a
    `KeyError` exactly for unknown names — about the regenerated `get_gas_mix_profile`, its getters and
    `determine_active_inactive` (none of the other exceptions of the translated text can occur) -/
theorem src_lookup_row {β : Type} (gases avail : List String) (mix : List (List β)) (g : String) :
    (g ∈ gases → srcLookup gases avail mix g = Except.ok (mix.getD (gases.idxOf g) [])) ∧
    (g ∉ gases → srcLookup gases avail mix g = Except.error "KeyError") := by
  rw [srcLookup_eq]
  obtain ⟨h1, h2⟩ := lookup_row gases avail mix g
  exact ⟨fun hg => by rw [h1 hg]; rfl, fun hg => by rw [h2 hg]; rfl⟩

example : srcLookup ["H2", "He", "H2O", "CH4"] ["H2O", "CH4"] [[1], [2], [3], [4]] "H2O" = Except.ok [3] ∧
    srcLookup ["H2", "He", "H2O", "CH4"] ["H2O", "CH4"] [[1], [2], [3], [4]] "He" = Except.ok [2] ∧
    srcLookup ["H2", "He", "H2O", "CH4"] ["H2O", "CH4"] [[1], [2], [3], [4]] "CO" = Except.error "KeyError" := by
  decide

/-! ### end to end -/

/-- the profiles the code collects from the gas objects (`gas.mixProfile` after `gas.initialize_profile`), as the array
    parameter `gasMix` of the regenerated `initialize_chemistry` -/
noncomputable def gasMixOf (traces : List (List ℝ)) : Nat → Nat → ℝ := fun k j => (traces.getD k []).getD j 0

theorem srcTraces_gasMixOf (n : Nat) (traces : List (List ℝ)) (h : ∀ r ∈ traces, r.length = n) :
    srcTraces n traces.length (gasMixOf traces) = traces := by
  unfold srcTraces rowsOf gasMixOf
  rw [List.map_map]
  apply List.ext_getElem
  · simp
  · intro k h1 h2
    simp only [List.getElem_map, List.getElem_range, Function.comp_def]
    have hk : traces.getD k [] = traces[k] := by
      rw [List.getD_eq_getElem?_getD, List.getElem?_eq_getElem h2]; rfl
    rw [hk]
    exact listOf_getD_self _ n (h _ (List.getElem_mem h2))

theorem src_profiles_total (rpow : ℝ → ℝ → ℝ) (hpow : ∀ x y, rpow x y = exp (y * log x)) (n : Nat)
    (pressure temperature : List ℝ) (hn : n = pressure.length) (hT : n = temperature.length) (h1 : 1 ≤ n) :
    ∀ (gases : List (Gas ℝ)), (∀ g ∈ gases, g.Admissible) →
      ∃ traces : List (List ℝ),
        List.Forall₂ (fun g row => srcGasProfile g rpow n pressure temperature = .ok row) gases traces ∧
        (∀ r ∈ traces, r.length = n) ∧ (∀ r ∈ traces, ∀ x ∈ r, 0 ≤ x)
  | [], _ => ⟨[], List.Forall₂.nil, by simp, by simp⟩
  | g :: gs, hadm => by
    obtain ⟨row, hrow, hl, hnn⟩ := src_profile_len g rpow hpow n pressure temperature (hadm g (by simp)) hn hT h1
    obtain ⟨rows, hf, hls, hnns⟩ := src_profiles_total rpow hpow n pressure temperature hn hT h1 gs
      (fun g' hg' => hadm g' (List.mem_cons_of_mem _ hg'))
    refine ⟨row :: rows, List.Forall₂.cons hrow hf, ?_, ?_⟩
    · intro r hr
      rcases List.mem_cons.1 hr with rfl | hr
      · exact hl
      · exact hls r hr
    · intro r hr
      rcases List.mem_cons.1 hr with rfl | hr
      · exact hnn
      · exact hnns r hr

/-- **end to end, about the regenerated source**: for admissible gas objects the regenerated `initialize_profile` of every
    gas returns a profile (one value per layer, none negative), and the regenerated `initialize_chemistry`, fed with these
    profiles, either raises `InvalidChemistryException` or leaves one row per gas whose layers are non-negative and sum to
    one -/
theorem src_chemistry_valid (nFill : Nat) (ratios : List ℝ) (gases : List (Gas ℝ)) (rpow : ℝ → ℝ → ℝ)
    (hpow : ∀ x y, rpow x y = exp (y * log x)) (n : Nat) (pressure temperature : List ℝ) (h1 : 1 ≤ nFill)
    (hcount : ¬ (1 < nFill ∧ ratios.length ≠ nFill - 1)) (hratio : ∀ r ∈ ratios, 0 ≤ r)
    (hadm : ∀ g ∈ gases, g.Admissible) (hn : n = pressure.length) (hT : n = temperature.length) (hn1 : 1 ≤ n) :
    ∃ traces : List (List ℝ),
      List.Forall₂ (fun g row => srcGasProfile g rpow n pressure temperature = .ok row) gases traces ∧
      (srcMix nFill ratios n gases.length (gasMixOf traces) = none ∨
       ∃ rows, srcMix nFill ratios n gases.length (gasMixOf traces) = some rows ∧
        rows.length = nFill + gases.length ∧ (∀ r ∈ rows, r.length = n) ∧
        (∀ r ∈ rows, ∀ x ∈ r, 0 ≤ x) ∧ ∀ j, j < n → sumL (column rows j) = 1) := by
  obtain ⟨traces, hf, hls, hnns⟩ := src_profiles_total rpow hpow n pressure temperature hn hT hn1 gases hadm
  refine ⟨traces, hf, ?_⟩
  have hlen : gases.length = traces.length := hf.length_eq
  have htr : srcTraces n gases.length (gasMixOf traces) = traces := by
    rw [hlen]; exact srcTraces_gasMixOf n traces hls
  cases hm : srcMix nFill ratios n gases.length (gasMixOf traces) with
  | none => exact Or.inl rfl
  | some rows =>
    refine Or.inr ⟨rows, rfl, ?_⟩
    have hok := (srcMix_ok nFill ratios n gases.length (gasMixOf traces) hcount rows).1 hm
    rw [htr] at hok
    have hr := mix_rows nFill ratios traces rows n h1 hls hok
    exact ⟨by rw [hr.1, hlen], hr.2.1, mix_nonneg nFill ratios traces rows n hratio hnns hok,
      mix_sum_one nFill ratios traces rows n h1 hls hratio hok⟩

end Taurex.C10SrcProps
